"""Development aid (not a registered check): systematic single-site mutants of the macro, to measure what the checks detect.

   python3 harness/mutate.py gen  <outdir>          enumerate mutation sites, keep the mutants that compile, write <outdir>/mNNNN/patch.diff
   python3 harness/mutate.py report <outdir>        summarise the evaluation written by harness/seedrun.py (SEEDRUN_ROOT=<outdir>/run)

Mutation operators (textual, one site per mutant): `==`<->`!=`, `&&`<->`||`, `.is_some()`<->`.is_none()`, `true`<->`false`,
`if c {` -> `if !(c) {`, `.is_empty()` -> negated, deletion of a single-line `push_tokens!(..);` / `.push(..);` / `.insert(..);` /
`.extend(..);` statement, one argument line of a multi-line `push_tokens!` call (a token dropped), one line of a multi-line `quote!` / `parse_quote!` template or one token of a one-line template, `.skip(n)`/`.take(n)`/`[n]` off by one. Test modules, the recorder hook and comments are left alone.
Everything happens in a scratch worktree of /repo under <outdir>; nothing is written to /repo."""
import difflib
import glob
import json
import os
import re
import subprocess
import sys

REPO = "/repo"
KINDS = [k for k in os.environ.get("MUT_KINDS", "").split(",") if k]      # restrict `gen` to some operators
SRC = "entrait_macros/src"


def sites(path, text):
    lines = text.split("\n")
    out = []
    in_tests = False
    # an argument line of a multi-line `push_tokens!(stream, a, b, ..)` call: one emitted token dropped
    j = 0
    while j < len(lines):
        if lines[j].strip().startswith("#[cfg(test)]"):
            break
        if re.match(r"^\s*push_tokens!\($", lines[j]):
            k = j + 1
            while k < len(lines) and not re.match(r"^\s*\);\s*$", lines[k]):
                k += 1
            for a in range(j + 2, k):          # j+1 is the `stream,` line
                if lines[a].strip().endswith(",") or a == k - 1:
                    out.append((a, "deltoken", re.match(r"^\s*", lines[a]).group(0) + "// dropped"))
            j = k
        j += 1
    # the token templates: every line of a multi-line `quote! { .. }` / `parse_quote! { .. }` dropped in turn, and every token of a
    # one-line template dropped in turn
    j = 0
    while j < len(lines):
        if lines[j].strip().startswith("#[cfg(test)]"):
            break
        m = re.search(r"\b(parse_)?quote! \{\s*$", lines[j])
        if m:
            ind = len(lines[j]) - len(lines[j].lstrip())
            k = j + 1
            while k < len(lines) and not (lines[k].strip().startswith("}") and len(lines[k]) - len(lines[k].lstrip()) <= ind):
                k += 1
            for a in range(j + 1, k):
                if lines[a].strip() and not lines[a].strip().startswith("//"):
                    out.append((a, "quoteline", re.match(r"^\s*", lines[a]).group(0) + "// dropped"))
            j = k
        else:
            m = re.search(r"\b(?:parse_)?quote! \{ (.*) \}", lines[j])
            if m:
                toks = m.group(1).split(" ")
                for t in range(min(len(toks), 8)):
                    new_inner = " ".join(toks[:t] + toks[t + 1:])
                    out.append((j, "quotetok", lines[j][:m.start(1)] + new_inner + lines[j][m.end(1):]))
        j += 1
    for i, l in enumerate(lines):
        s = l.strip()
        if s.startswith("#[cfg(test)]"):
            in_tests = True
        if in_tests or s.startswith("//") or s.startswith("#[") or "audunhalland_entrait_verif" in l or "verif::" in l:
            continue
        code = l.split("//")[0]

        def add(kind, new):
            if new != l:
                out.append((i, kind, new))
        for m in re.finditer(r"==|!=", code):
            add("eq", l[:m.start()] + ("!=" if m.group(0) == "==" else "==") + l[m.end():])
        for m in re.finditer(r"&&|\|\|", code):
            add("andor", l[:m.start()] + ("||" if m.group(0) == "&&" else "&&") + l[m.end():])
        for m in re.finditer(r"\.is_some\(\)|\.is_none\(\)", code):
            add("somenone", l[:m.start()] + (".is_none()" if "some" in m.group(0) else ".is_some()") + l[m.end():])
        for m in re.finditer(r"\b(true|false)\b", code):
            add("bool", l[:m.start()] + ("false" if m.group(0) == "true" else "true") + l[m.end():])
        m = re.match(r"^(\s*(?:\} else )?if )(?!let )(.+?)( \{\s*)$", code)
        if m and l == code:
            add("negif", m.group(1) + "!(" + m.group(2) + ")" + m.group(3))
        for m in re.finditer(r"(\b[\w.\[\]()&:]+?)\.is_empty\(\)", code):
            if not code[:m.start()].rstrip().endswith("!"):
                add("empty", l[:m.start()] + "!" + l[m.start():])
        if re.match(r"^\s*(push_tokens!\(.*\);|[\w.]+\.(push|insert|extend|push_punct|push_value)\(.*\);)\s*$", code):
            add("delstmt", re.match(r"^\s*", l).group(0) + "// deleted")
        for m in re.finditer(r"\.(skip|take)\((\d+)\)", code):
            n = int(m.group(2))
            add("offby", l[:m.start(2)] + str(n + 1) + l[m.end(2):])
            if n > 0:
                add("offby", l[:m.start(2)] + str(n - 1) + l[m.end(2):])
    return out


def gen(outdir):
    os.makedirs(outdir, exist_ok=True)
    wt = os.path.join(outdir, "wt")
    subprocess.run("git -C %s worktree remove --force %s; rm -rf %s; git -C %s worktree add --detach %s HEAD" % (REPO, wt, wt, REPO, wt), shell=True,
                   stdout=subprocess.DEVNULL, stderr=subprocess.DEVNULL)
    env = dict(os.environ, CARGO_NET_OFFLINE="true", CARGO_TARGET_DIR=os.path.join(outdir, "target"))
    subprocess.run(["cargo", "check", "--offline", "-p", "entrait_macros"], cwd=wt, env=env, stdout=subprocess.DEVNULL, stderr=subprocess.DEVNULL)
    files = sorted(glob.glob(os.path.join(wt, SRC, "**", "*.rs"), recursive=True))
    n = kept = 0
    index = []
    for f in files:
        rel = os.path.relpath(f, wt)
        if rel.endswith("verif.rs"):
            continue
        text = open(f).read()
        lines = text.split("\n")
        if lines and lines[-1] == "":
            lines = lines[:-1]          # the file ends with a newline: no phantom last line (it used to spoil diffs near the end)
            text = "\n".join(lines)
        for i, kind, new in sites(f, text):
            if KINDS and kind not in KINDS:
                continue
            n += 1
            mut = lines[:i] + [new] + lines[i + 1:]
            with open(f, "w") as fh:
                fh.write("\n".join(mut) + "\n")
            r = subprocess.run(["cargo", "check", "--offline", "-p", "entrait_macros"], cwd=wt, env=env, stdout=subprocess.PIPE, stderr=subprocess.STDOUT, text=True)
            if r.returncode == 0:
                kept += 1
                d = os.path.join(outdir, "m%04d" % kept)
                os.makedirs(d, exist_ok=True)
                diff = "".join(difflib.unified_diff([x + "\n" for x in lines], [x + "\n" for x in mut], "a/" + rel, "b/" + rel, n=3))
                with open(os.path.join(d, "patch.diff"), "w") as fh:
                    fh.write("diff --git a/%s b/%s\n" % (rel, rel) + diff)
                meta = {"id": "m%04d" % kept, "file": rel, "line": i + 1, "kind": kind, "before": lines[i].strip(), "after": new.strip()}
                json.dump(meta, open(os.path.join(d, "meta.json"), "w"), indent=1)
                index.append(meta)
            with open(f, "w") as fh:
                fh.write(text + "\n")
    json.dump(index, open(os.path.join(outdir, "index.json"), "w"), indent=1)
    subprocess.run("git -C %s worktree remove --force %s; rm -rf %s" % (REPO, wt, os.path.join(outdir, "target")), shell=True, stdout=subprocess.DEVNULL, stderr=subprocess.DEVNULL)
    print("sites %d, compiling mutants %d" % (n, kept))


def report(outdir):
    index = json.load(open(os.path.join(outdir, "index.json")))
    rows = []
    for m in index:
        f = os.path.join(outdir, "run", "%s-patch.json" % m["id"])
        if not os.path.exists(f):
            continue
        r = json.load(open(f))
        det = sorted(p for p, c in r["checks"].items() if c["rc"] == 1)
        broken = sorted(p for p, c in r["checks"].items() if c["rc"] not in (0, 1))
        with_input = sorted(p for p in det if (r["checks"][p].get("replay") or {}).get("kind") in ("input", "history"))
        rows.append(dict(m, detected_by=det, with_failing_input=with_input, machinery=broken))
    surv = [r for r in rows if not r["detected_by"]]
    print("evaluated %d mutants: %d detected (%d with a concrete failing input), %d survived" % (
        len(rows), len(rows) - len(surv), len([r for r in rows if r["with_failing_input"]]), len(surv)))
    for r in surv:
        print("  SURVIVED %s %s:%d [%s] %s  ->  %s%s" % (r["id"], r["file"], r["line"], r["kind"], r["before"][:70], r["after"][:70],
                                                      "  (machinery: %s)" % r["machinery"] if r["machinery"] else ""))
    json.dump(rows, open(os.path.join(outdir, "report.json"), "w"), indent=1)


if __name__ == "__main__":
    {"gen": gen, "report": report}[sys.argv[1]](sys.argv[2])
