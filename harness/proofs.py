"""Proof audit: the property's theorem file compiles, its statements are the pinned ones, every
`Print Assumptions` reports 'Closed under the global context', nothing admitted anywhere."""
import os
import re

from common import COQ, CACHE, VERIF, log, run, proofs_hash, files_under

ALLOWED_AXIOMS = set()   # none: every property theorem is closed under the global context

FORBIDDEN = re.compile(r"\b(Admitted|admit|Axiom|Axioms|Parameter|Parameters|Conjecture|Hypothesis|Variable|"
                       r"Unset\s+Guard|bypass_check|Admit\s+Obligations)\b|type-in-type|impredicative-set")


def strip_comments(text):
    out, depth, i = [], 0, 0
    while i < len(text):
        if text.startswith("(*", i):
            depth += 1
            i += 2
        elif text.startswith("*)", i) and depth > 0:
            depth -= 1
            i += 2
        else:
            if depth == 0:
                out.append(text[i])
            i += 1
    return "".join(out)


def grep_forbidden():
    hits = []
    proj = os.path.join(COQ, "_CoqProject")
    listed = [os.path.join(COQ, l.strip()) for l in open(proj) if l.strip().endswith(".v")]
    for f in listed + [os.path.join(VERIF, "ocaml", "Extract.v")]:
        body = strip_comments(open(f).read())
        # Section variables / hypotheses are allowed only inside a Section
        in_section = 0
        for ln, line in enumerate(body.split("\n"), 1):
            if re.match(r"\s*Section\b", line):
                in_section += 1
            if re.match(r"\s*End\b", line) and in_section:
                in_section -= 1
            m = FORBIDDEN.search(line)
            if m:
                if m.group(1) in ("Variable", "Hypothesis") and in_section:
                    continue
                hits.append("%s:%d: %s" % (os.path.relpath(f, VERIF), ln, line.strip()[:100]))
    return hits


def audit(prop, tier="quick"):
    """returns dict(ok, obligations, discharged, theorems, problems, checker_cmd)"""
    src = os.path.join(COQ, "Properties", prop + ".v")
    res = {"ok": False, "obligations": 0, "discharged": 0, "theorems": [], "problems": [],
           "checker_cmd": "cd coq && coq_makefile -f _CoqProject -o Makefile && make -j16 && coqc -Q . Entrait Properties/%s.v  (Print Assumptions under every theorem; harness/proofs.py)" % prop}
    if not os.path.exists(src):
        res["problems"].append("no theorem file " + src)
        return res
    hits = grep_forbidden()
    if hits:
        res["problems"] += ["forbidden construct: " + h for h in hits]
    cache = os.path.join(CACHE, "proofs")
    os.makedirs(cache, exist_ok=True)
    outp = os.path.join(cache, "%s.%s.out" % (prop, proofs_hash()[:16]))
    if os.path.exists(outp):
        out = open(outp).read()
        rc = 0
    else:
        for f in os.listdir(cache):
            if f.startswith(prop + ".") and f.endswith(".out"):
                try:
                    os.remove(os.path.join(cache, f))
                except OSError:
                    pass
        # .vo files are up to date (ensure_tools ran make); re-check this file to capture Print Assumptions
        import shutil
        tmpd = os.path.join(cache, "tmp-%d" % os.getpid())
        os.makedirs(tmpd, exist_ok=True)
        rc, out, dt = run(["coqc", "-Q", ".", "Entrait", "-o", os.path.join(tmpd, prop + ".vo"), "Properties/%s.v" % prop], cwd=COQ, timeout=1800)
        shutil.rmtree(tmpd, ignore_errors=True)
        if rc == 0:
            with open(outp + ".tmp%d" % os.getpid(), "w") as fh:
                fh.write(out)
            os.replace(outp + ".tmp%d" % os.getpid(), outp)
    if rc != 0:
        res["problems"].append("coqc failed on Properties/%s.v: %s" % (prop, out[-800:]))
        return res
    text = strip_comments(open(src).read())
    names = re.findall(r"^\s*(?:Theorem|Example|Corollary)\s+([A-Za-z0-9_']+)", text, re.M)
    printed = re.findall(r"Print Assumptions\s+([A-Za-z0-9_'.]+)\s*\.", text)
    # the output has one block per Print Assumptions, in order
    blocks = re.split(r"(?=Closed under the global context|Axioms:)", out)
    blocks = [b for b in blocks if b.startswith("Closed under") or b.startswith("Axioms:")]
    res["obligations"] = len(names)
    res["theorems"] = names
    if len(blocks) != len(printed):
        res["problems"].append("Print Assumptions output blocks (%d) != commands (%d)" % (len(blocks), len(printed)))
    for n in names:
        if n not in printed:
            res["problems"].append("no Print Assumptions for " + n)
    closed = 0
    for name, blk in zip(printed, blocks):
        if blk.startswith("Closed under the global context"):
            closed += 1
        else:
            axioms = set(re.findall(r"^\s*([A-Za-z0-9_.']+)\s*:", blk, re.M)) - {"Axioms"}
            if axioms <= ALLOWED_AXIOMS:
                closed += 1
            else:
                res["problems"].append("%s depends on %s" % (name, sorted(axioms)))
    res["discharged"] = min(closed, len(names))
    # pinned statements: the text of every theorem statement is recorded in coq/Properties/pins.json
    # (updated only by `python3 harness/proofs.py pin`); a silently weakened statement fails the audit
    pins = load_pins()
    for n, stmt in statements(text).items():
        want = pins.get(prop, {}).get(n)
        if want is None:
            res["problems"].append("statement of %s is not pinned in Properties/pins.json" % n)
        elif want != stmt:
            res["problems"].append("statement of %s differs from its pinned text" % n)
    for n in pins.get(prop, {}):
        if n not in names:
            res["problems"].append("pinned theorem %s is missing from Properties/%s.v" % (n, prop))
    if tier == "thorough":
        # independent re-check of the compiled theory and everything it depends on; prints the axioms relied upon
        chk = os.path.join(cache, "%s.%s.coqchk" % (prop, proofs_hash()[:16]))
        if os.path.exists(chk):
            cout = open(chk).read()
        else:
            rc2, cout, dt2 = run(["coqchk", "-o", "-silent", "-Q", ".", "Entrait", "Entrait.Properties.%s" % prop], cwd=COQ, timeout=3000)
            if rc2 == 0:
                with open(chk, "w") as fh:
                    fh.write(cout)
            else:
                res["problems"].append("coqchk failed: " + cout[-500:])
        for key in ("Axioms", "Constants/Inductives relying on type-in-type", "Constants/Inductives relying on unsafe (co)fixpoints",
                    "Inductives whose positivity is assumed"):
            m = re.search(re.escape("* " + key) + r":\s*(.*)", cout)
            if not m or m.group(1).strip() != "<none>":
                res["problems"].append("coqchk: %s: %s" % (key, m.group(1).strip() if m else "missing"))
        res["checker_cmd"] += " && coqchk -o -silent -Q . Entrait Entrait.Properties.%s" % prop
        res["coqchk"] = "Axioms: <none>" if not any(p.startswith("coqchk") for p in res["problems"]) else "see problems"
    res["ok"] = not res["problems"] and res["obligations"] > 0 and res["discharged"] == res["obligations"]
    return res


PINS = os.path.join(COQ, "Properties", "pins.json")


def statements(text):
    """name -> whitespace-normalised statement of every Theorem/Example/Corollary in a (comment-stripped) file"""
    out = {}
    for m in re.finditer(r"^\s*(?:Theorem|Example|Corollary)\s+([A-Za-z0-9_']+)\s*(.*?)\.\s*Proof\.", text, re.M | re.S):
        out[m.group(1)] = " ".join(m.group(2).split())
    return out


def load_pins():
    import json
    if os.path.exists(PINS):
        return json.load(open(PINS))
    return {}


def pin_all():
    import json
    pins = {}
    d = os.path.join(COQ, "Properties")
    for f in sorted(os.listdir(d)):
        if f.endswith(".v"):
            pins[f[:-2]] = statements(strip_comments(open(os.path.join(d, f)).read()))
    with open(PINS, "w") as fh:
        json.dump(pins, fh, indent=1, sort_keys=True)
    print("pinned", sum(len(v) for v in pins.values()), "statements")


if __name__ == "__main__":
    import sys
    if sys.argv[1:] == ["pin"]:
        pin_all()
