"""Evaluate seeded changes against the checks, in scratch worktrees (never in /repo):
   python3 harness/seedrun.py <patch.diff> [<patch.diff> ...]   (run several in parallel with -j N)
For each patch: a detached worktree of /repo's HEAD under /tmp/seedrun/<name>, the patch applied there, every
property's quick check run with ENTRAIT_REPO pointing at it (own corpus/cargo cache, own output dir), the
VIOLATION lines collected into /tmp/seedrun/<name>.json, the worktree removed."""
import json
import os
import subprocess
import sys
from concurrent.futures import ThreadPoolExecutor

VERIF = os.path.dirname(os.path.dirname(os.path.abspath(__file__)))
ROOT = os.environ.get("SEEDRUN_ROOT", "/tmp/seedrun")
PROPS = ["C%02d" % i for i in range(1, 21)]


def sh(cmd, **kw):
    return subprocess.run(cmd, shell=True, stdout=subprocess.PIPE, stderr=subprocess.STDOUT, text=True, **kw)


def one(patch, props):
    name = os.path.basename(os.path.dirname(os.path.abspath(patch))) + "-" + os.path.splitext(os.path.basename(patch))[0]
    wt = os.path.join(ROOT, name)
    work = os.path.join(ROOT, name + ".work")
    out = os.path.join(ROOT, name + ".out")
    sh("git -C /repo worktree remove --force %s; rm -rf %s %s %s" % (wt, wt, work, out))
    os.makedirs(ROOT, exist_ok=True)
    r = sh("git -C /repo worktree add --detach %s HEAD && cp /repo/Cargo.lock %s/ && git -C %s apply %s" % (wt, wt, wt, os.path.abspath(patch)))
    res = {"patch": patch, "applied": r.returncode == 0, "checks": {}}
    if r.returncode == 0:
        env = dict(os.environ, ENTRAIT_REPO=wt, VERIF_WORK=work, VERIF_OUT=out)
        for p in props:
            c = subprocess.run(["./check", p, "--tier", "quick"], cwd=VERIF, env=env, stdout=subprocess.PIPE,
                               stderr=subprocess.PIPE, text=True)
            lines = [l for l in c.stdout.split("\n") if l.startswith("VIOLATION") or l.startswith("KNOWN-FINDING")]
            summary = [l for l in c.stdout.split("\n") if l.startswith(p + ":")]
            res["checks"][p] = {"rc": c.returncode, "lines": lines, "summary": summary[-1] if summary else c.stderr[-300:]}
            for l in lines:
                if l.startswith("VIOLATION"):
                    rp = l.split("replay=")[1].split()[0]
                    try:
                        o = json.load(open(rp))
                        res["checks"][p]["replay"] = {k: o.get(k) for k in ("kind", "macro", "attr", "item", "failing_predicate", "correspondence", "problems")}
                    except Exception as e:  # noqa
                        pass
    else:
        res["error"] = r.stdout[-500:]
    sh("git -C /repo worktree remove --force %s; rm -rf %s %s" % (wt, wt, work))
    with open(os.path.join(ROOT, name + ".json"), "w") as fh:
        json.dump(res, fh, indent=1)
    det = [p for p, c in res["checks"].items() if c["rc"] == 1]
    print("%s: applied=%s alarms=%s" % (name, res["applied"], det), flush=True)
    return res


def main():
    args = sys.argv[1:]
    j = 1
    props = PROPS
    if args and args[0] == "-j":
        j = int(args[1])
        args = args[2:]
    if args and args[0] == "-p":
        props = args[1].split(",")
        args = args[2:]
    with ThreadPoolExecutor(j) as ex:
        list(ex.map(lambda p: one(p, props), args))


if __name__ == "__main__":
    main()
