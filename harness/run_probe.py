"""Layer B, run-time probes (C01, C05, C06, C07): compiled differential clients.

Every case defines functions / traits whose bodies record `(which function, address of the dependency it
received, argument values)` and return a value computed from the arguments; the client then makes the
same call twice — directly, and through the generated trait on `Impl<App>` (or the concrete type, or the
selected delegation target) — with distinct sentinel values per argument position, and compares traces
and results. One crate, one `cargo run`; one line `CASE <id> <prop> OK|FAIL <detail>` per case.

This validates, against the real compiler, what the theorems assume about rustc (S1 positional binding and
callee resolution, S2, S3 impl selection) for the call shapes the model proves the macro emits."""
import json
import os
import random
import shutil

from common import GUARD, REPO, WORK, log, run, sha, repo_tree_hash, hash_files

PRELUDE = r"""#![allow(warnings)]
use ::entrait::{entrait, Impl};
use std::cell::RefCell;
use std::future::Future;
use std::pin::Pin;
use std::task::{Context, Poll, RawWaker, RawWakerVTable, Waker};

thread_local! { static TRACE: RefCell<Vec<String>> = RefCell::new(Vec::new()); }
pub fn rec(s: String) { TRACE.with(|t| t.borrow_mut().push(s)); }
pub fn take() -> Vec<String> { TRACE.with(|t| std::mem::take(&mut *t.borrow_mut())) }
pub fn addr<T: ?Sized>(r: &T) -> usize { r as *const T as *const u8 as usize }

fn raw_waker() -> RawWaker {
    fn no(_: *const ()) {}
    fn cl(_: *const ()) -> RawWaker { raw_waker() }
    static VT: RawWakerVTable = RawWakerVTable::new(cl, no, no, no);
    RawWaker::new(std::ptr::null(), &VT)
}
pub fn block_on<F: Future>(f: F) -> F::Output {
    let waker = unsafe { Waker::from_raw(raw_waker()) };
    let mut cx = Context::from_waker(&waker);
    let mut f = Box::pin(f);
    loop { if let Poll::Ready(v) = f.as_mut().poll(&mut cx) { return v; } }
}
pub trait A { fn a(&self) -> i64 { 7 } }
pub trait B { fn b(&self) -> i64 { 9 } }
pub struct App { pub tag: i64 }
impl A for App {}
impl B for App {}
impl A for Impl<App> {}
impl B for Impl<App> {}
pub fn report(id: usize, prop: &str, ok: bool, detail: String) {
    println!("CASE {} {} {} {}", id, prop, if ok { "OK" } else { "FAIL" }, detail.replace('\n', " "));
}
"""

# parameter shapes: (pattern template, type, expression giving the i64 value bound, argument literal maker)
SHAPES = [
    ("{n}", "i64", "{n}", "{v}"),
    ("mut {n}", "i64", "{n}", "{v}"),
    ("ref {n}", "i64", "*{n}", "{v}"),
    ("ref mut {n}", "i64", "*{n}", "{v}"),
    ("({n}, _)", "(i64, i64)", "{n}", "({v}, 0)"),
    ("({n}a, {n}b)", "(i64, i64)", "{n}a * 100 + {n}b", "({v}, {v} + 1)"),
    ("W({n})", "W", "{n}", "W({v})"),
    ("_", "i64", "-1", "{v}"),
    ("&{n}", "&i64", "{n}", "&{v}"),
    ("{n} @ _", "i64", "{n}", "{v}"),
]


class RCase:
    def __init__(self, prop, code, family):
        self.prop, self.code, self.family = prop, code, family
        self.cid = None

    def descr(self):
        return {"cid": self.cid, "prop": self.prop, "family": self.family, "code": self.code}


def params(rng, n, fname=None):
    """n parameters: returns (decl list, value exprs inside the fn, call argument list)"""
    decls, vals, args = [], [], []
    used_fname = False
    for i in range(n):
        pat, ty, val, arg = rng.choice(SHAPES)
        name = "p%d" % i
        if fname and rng.random() < 0.2 and pat in ("{n}", "W({n})", "mut {n}") and not used_fname:
            name = fname          # a parameter named like the function: the macro must rename it
            used_fname = True
        decls.append(pat.format(n=name) + ": " + ty)
        vals.append(val.format(n=name))
        args.append(arg.format(v=str(11 * (i + 1))))
    return decls, vals, args


def body(label, dep_expr, vals):
    parts = " ".join('s.push_str(&format!("|{}", %s));' % v for v in vals)
    total = " + ".join(["0"] + ["(%s) * %d" % (v, 3 ** (i + 1)) for i, v in enumerate(vals)])
    return '{ let mut s = format!("%s@{}", %s); %s rec(s); %s }' % (label, dep_expr, parts, total)


def case_fn(rng, cid):
    """C01: single fn, generic / impl / no_deps / concrete (C05) dependency, sync or async"""
    dk = rng.choice(["gen", "impl", "nodeps", "conc", "gen_val"])
    asy = rng.random() < 0.35
    n = rng.choice([0, 1, 2, 3, 4, 5])
    decls, vals, args = params(rng, n, "f")
    conc_ty = rng.choice(["App", "crate::App", "self::super::App"]) if dk == "conc" else "App"
    dep_decl = {"gen": ["deps: &D"], "impl": ["deps: &impl A"], "nodeps": [], "conc": ["deps: &" + conc_ty], "gen_val": ["deps: D"]}[dk]
    extra_gen = dk == "conc" and rng.random() < 0.4
    if extra_gen:
        decls.append("extra: X")
        vals.append("extra.into()")
        args.append("5i64")
    dep_expr = {"gen": "addr(deps)", "impl": "addr(deps)", "nodeps": "0usize", "conc": "addr(deps)", "gen_val": "deps.a() as usize"}[dk]
    gens = {"gen": "<D: A>", "gen_val": "<D: A>"}.get(dk, "<X: Into<i64> + Copy + Send + Sync>" if extra_gen else "")
    attr = "Tr" + (", no_deps" if dk == "nodeps" else "")
    fbody = body("f", dep_expr, vals)
    if asy and dk == "conc" and not extra_gen and rng.random() < 0.5:
        # `?Send`: the future may hold a non-Send value across an await point, also through the nested leaf-trait expansion
        attr += ", ?Send"
        fbody = "{ let keep = std::rc::Rc::new(1i64); std::future::ready(()).await; let r = " + fbody + "; r + *keep - 1 }"
    fn = "%sfn f%s(%s) -> i64 %s" % ("async " if asy else "", gens, ", ".join(dep_decl + decls), fbody)
    w = "block_on(%s)" if asy else "%s"
    if dk == "conc":
        # C05: the concrete type itself, Impl<C>, and Impl<Other> with a hand-written impl for Other
        client = """
    let c = App {{ tag: 1 }};
    let r0 = {d}; let t0 = take();
    let r1 = {m}; let t1 = take();
    let ic = Impl::new(App {{ tag: 2 }});
    let r2 = {d2}; let t2 = take();
    let r3 = {m2}; let t3 = take();
    let ok = r0 == r1 && t0 == t1 && t0.len() == 1 && r2 == r3 && t2 == t3 && t2.len() == 1;
    report({cid}, "C05", ok, format!("{{:?}} {{:?}} / {{:?}} {{:?}}", t0, t1, t2, t3));
""".format(cid=cid, d=w % ("f(&c%s)" % "".join(", " + a for a in args)), m=w % ("c.f(%s)" % ", ".join(args)),
           d2=w % ("f(&*ic%s)" % "".join(", " + a for a in args)), m2=w % ("ic.f(%s)" % ", ".join(args)))
        prop = "C05"
    elif dk == "gen_val":
        client = """
    let r0 = {d}; let t0 = take();
    let r1 = {m}; let t1 = take();
    let ok = r0 == r1 && t0 == t1 && t0.len() == 1;
    report({cid}, "C01", ok, format!("{{:?}} {{:?}}", t0, t1));
""".format(cid=cid, d=w % ("f(Impl::new(App { tag: 3 })%s)" % "".join(", " + a for a in args)),
           m=w % ("Impl::new(App { tag: 3 }).f(%s)" % ", ".join(args)))
        prop = "C01"
    else:
        first = "" if dk == "nodeps" else "&app"
        dargs = ", ".join(([first] if first else []) + args)
        client = """
    let app = Impl::new(App {{ tag: 4 }});
    let r0 = {d}; let t0 = take();
    let r1 = {m}; let t1 = take();
    let ok = r0 == r1 && t0 == t1 && t0.len() == 1;
    report({cid}, "C01", ok, format!("{{:?}} {{:?}}", t0, t1));
""".format(cid=cid, d=w % ("f(%s)" % dargs), m=w % ("app.f(%s)" % ", ".join(args)))
        prop = "C01"
    code = "pub mod k%d { use super::*; pub struct W(pub i64);\n#[entrait(pub Tr%s)]\npub %s\npub fn run() {%s}\n}" % (
        cid, attr[2:], fn, client)
    return RCase(prop, code, "fn/" + dk + ("/async" if asy else ""))


def case_mod(rng, cid):
    """C01: module with 2..3 functions of the SAME signature: each method must reach its own function"""
    k = rng.choice([2, 3])
    n = rng.choice([1, 2, 3])
    nd = rng.random() < 0.2
    asy = rng.random() < 0.3
    fns, calls = [], []
    decls, vals, args = params(rng, n)
    for j in range(k):
        name = "g%d" % j
        dep = [] if nd else ["deps: &impl A"]
        fns.append("pub %sfn %s(%s) -> i64 %s" % ("async " if asy else "", name, ", ".join(dep + decls),
                                                   body(name, "0usize" if nd else "addr(deps)", vals)))
        w = "block_on(%s)" if asy else "%s"
        d = w % ("m::%s(%s)" % (name, ", ".join(([] if nd else ["&app"]) + args)))
        mth = w % ("app.%s(%s)" % (name, ", ".join(args)))
        calls.append("{ let r0 = %s; let t0 = take(); let r1 = %s; let t1 = take(); ok &= r0 == r1 && t0 == t1 && t0.len() == 1; log.push(format!(\"{:?} {:?}\", t0, t1)); }" % (d, mth))
    client = "let app = Impl::new(App { tag: 5 }); let mut ok = true; let mut log: Vec<String> = vec![]; %s report(%d, \"C01\", ok, log.join(\" ; \"));" % (" ".join(calls), cid)
    code = "pub mod k%d { use super::*; pub struct W(pub i64);\n#[entrait(pub M%s)]\npub mod m { use super::*; use super::W; %s fn private_fn() {} }\npub fn run() { %s }\n}" % (
        cid, ", no_deps" if nd else "", " ".join(fns), client)
    return RCase("C01", code, "mod" + ("/nodeps" if nd else "") + ("/async" if asy else ""))


def case_trait(rng, cid):
    """C06: entraited trait, Impl<T> forwards to the provider selected by delegate_by"""
    sel = rng.choice(["self", "ref", "borrow"])
    k = rng.choice([1, 2, 3])
    asy = sel == "self" and rng.random() < 0.3
    meths, impls, calls = [], [], []
    for j in range(k):
        n = rng.choice([0, 1, 2, 3])
        ps = ["p%d: i64" % i for i in range(n)]
        args = [str(13 * (i + 1)) for i in range(n)]
        sig = "%sfn m%d(%s) -> i64" % ("async " if asy else "", j, ", ".join(["&self"] + ps))
        meths.append(sig + ";")
        impls.append(sig + " " + body("P.m%d" % j, "addr(self)", ["p%d" % i for i in range(n)]))
        w = "block_on(%s)" if asy else "%s"
        calls.append("{ let r0 = %s; let t0 = take(); let r1 = %s; let t1 = take(); ok &= r0 == r1 && t0 == t1 && t0.len() == 1; log.push(format!(\"{:?} {:?}\", t0, t1)); }" % (
            w % ("Tq::m%d(prov%s)" % (j, "".join(", " + a for a in args))), w % ("app.m%d(%s)" % (j, ", ".join(args)))))
    attr = {"self": "", "ref": "delegate_by = ref", "borrow": "delegate_by = Borrow"}[sel]
    if sel == "self":
        setup = "pub struct P; impl Tq for P { %s }\n" % " ".join(impls)
        mk = "let app = Impl::new(P); let prov: &P = &*app;"
    elif sel == "ref":
        setup = "pub struct P; impl Tq for P { %s }\npub struct Ap { p: P } impl AsRef<dyn Tq> for Ap { fn as_ref(&self) -> &(dyn Tq + 'static) { &self.p } }\n" % " ".join(impls)
        mk = "let app = Impl::new(Ap { p: P }); let prov: &dyn Tq = <Ap as AsRef<dyn Tq>>::as_ref(&*app);"
    else:
        setup = "pub struct P; impl Tq for P { %s }\npub struct Ap { p: P } impl std::borrow::Borrow<dyn Tq> for Ap { fn borrow(&self) -> &(dyn Tq + 'static) { &self.p } }\n" % " ".join(impls)
        mk = "let app = Impl::new(Ap { p: P }); let prov: &dyn Tq = <Ap as std::borrow::Borrow<dyn Tq>>::borrow(&*app);"
    client = "%s let mut ok = true; let mut log: Vec<String> = vec![]; %s report(%d, \"C06\", ok, log.join(\" ; \"));" % (mk, " ".join(calls), cid)
    code = "pub mod k%d { use super::*;\n#[entrait(%s)]\npub trait Tq { %s }\n%spub fn run() { %s }\n}" % (cid, attr, " ".join(meths), setup, client)
    return RCase("C06", code, "trait/" + sel + ("/async" if asy else ""))


def case_inversion(rng, cid):
    """C07: dependency inversion, two competing targets with the same method names"""
    dyn = rng.random() < 0.4
    k = rng.choice([1, 2])
    asy = (not dyn) and rng.random() < 0.3
    tms, calls = [], []
    blocks = {"X": [], "Y": []}
    for j in range(k):
        n = rng.choice([0, 1, 2, 3])
        ps = ["p%d: i64" % i for i in range(n)]
        args = [str(17 * (i + 1)) for i in range(n)]
        tms.append("%sfn m%d(%s) -> i64;" % ("async " if asy else "", j, ", ".join(["&self"] + ps)))
        for tgt in ("X", "Y"):
            blocks[tgt].append("%sfn m%d<D: A>(%s) -> i64 %s" % ("async " if asy else "", j, ", ".join(["deps: &D"] + ps),
                                                               body("%s.m%d" % (tgt, j), "addr(deps) + (deps.a() as usize) * 0", ["p%d" % i for i in range(n)])))
        w = "block_on(%s)" if asy else "%s"
        for app, tgt in (("ax", "X"), ("ay", "Y")):
            calls.append("{ let r1 = %s; let t1 = take(); let want = format!(\"%s.m%d@{}\", addr(&%s)); ok &= t1.len() == 1 && t1[0].starts_with(&want); log.push(format!(\"{:?} want {}\", t1, want)); let r0 = %s; let t0 = take(); ok &= r0 == r1 && t0 == t1; }" % (
                w % ("%s.m%d(%s)" % (app, j, ", ".join(args))), tgt, j, app,
                w % ("%s::m%d(&%s%s)" % (tgt, j, app, "".join(", " + a for a in args)))))
    if dyn:
        attr = "TvImpl, delegate_by = ref"
        imp = "ref"
        wiring = ("pub struct AppX { x: X } pub struct AppY { y: Y }\n"
                  "impl A for Impl<AppX> {} impl A for Impl<AppY> {}\n"
                  "impl AsRef<dyn TvImpl<AppX>> for AppX { fn as_ref(&self) -> &(dyn TvImpl<AppX> + 'static) { &self.x } }\n"
                  "impl AsRef<dyn TvImpl<AppY>> for AppY { fn as_ref(&self) -> &(dyn TvImpl<AppY> + 'static) { &self.y } }\n")
        mk = "let ax = Impl::new(AppX { x: X }); let ay = Impl::new(AppY { y: Y });"
    else:
        attr = "TvImpl, delegate_by = DelegateTv"
        imp = ""
        wiring = ("pub struct AppX; pub struct AppY;\nimpl A for Impl<AppX> {} impl A for Impl<AppY> {}\n"
                  "impl DelegateTv<AppX> for AppX { type Target = X; }\nimpl DelegateTv<AppY> for AppY { type Target = Y; }\n")
        mk = "let ax = Impl::new(AppX); let ay = Impl::new(AppY);"
    code = ("pub mod k%d { use super::*;\n#[entrait(%s)]\npub trait Tv { %s }\npub struct X; pub struct Y;\n"
            "#[entrait(%s)]\nimpl TvImpl for X { %s }\n#[entrait(%s)]\nimpl TvImpl for Y { %s }\n%s"
            "pub fn run() { %s let mut ok = true; let mut log: Vec<String> = vec![]; %s report(%d, \"C07\", ok, log.join(\" ; \")); }\n}") % (
        cid, attr, " ".join(tms), imp, " ".join(blocks["X"]), imp, " ".join(blocks["Y"]), wiring, mk, " ".join(calls), cid)
    return RCase("C07", code, "inversion/" + ("dyn" if dyn else "static") + ("/async" if asy else ""))


def case_unit(rng, cid):
    """C01: functions without a return type (sync and async): only the trace shows that the original function ran"""
    asy = rng.random() < 0.7
    n = rng.choice([0, 1, 2, 3])
    decls, vals, args = params(rng, n)
    parts = " ".join('s.push_str(&format!("|{}", %s));' % v for v in vals)
    a = "async " if asy else ""
    w = "block_on(%s)" if asy else "%s"
    inmod = rng.random() < 0.5
    fbody = '{ %slet mut s = format!("{}@{}", NAME, addr(deps)); %s rec(s); }' % ("std::future::ready(()).await; " if asy and rng.random() < 0.5 else "", parts)
    f0 = "pub %sfn u0(%s) %s" % (a, ", ".join(["deps: &impl A"] + decls), fbody.replace("NAME", '"u0"'))
    f1 = "pub %sfn u1(%s) %s" % (a, ", ".join(["deps: &impl A"] + decls), fbody.replace("NAME", '"u1"'))
    calls = []
    for nm in (["u0", "u1"] if inmod else ["u0"]):
        d = w % ("%s%s(%s)" % ("m::" if inmod else "", nm, ", ".join(["&app"] + args)))
        mth = w % ("app.%s(%s)" % (nm, ", ".join(args)))
        calls.append("{ %s; let t0 = take(); %s; let t1 = take(); ok &= t0 == t1 && t0.len() == 1; log.push(format!(\"{:?} {:?}\", t0, t1)); }" % (d, mth))
    client = "let app = Impl::new(App { tag: 6 }); let mut ok = true; let mut log: Vec<String> = vec![]; %s report(%d, \"C01\", ok, log.join(\" ; \"));" % (" ".join(calls), cid)
    if inmod:
        code = "pub mod k%d { use super::*; pub struct W(pub i64);\n#[entrait(pub M)]\npub mod m { use super::*; use super::W; %s %s }\npub fn run() { %s }\n}" % (cid, f0, f1, client)
    else:
        code = "pub mod k%d { use super::*; pub struct W(pub i64);\n#[entrait(pub Tr)]\n%s\npub fn run() { %s }\n}" % (cid, f0, client)
    return RCase("C01", code, "unit" + ("/mod" if inmod else "/fn") + ("/async" if asy else ""))


def case_fragment(rng, cid):
    """C02: the body of an entraited fn written by macro_rules!, with `$e:expr` fragments at its top level, must keep its meaning
    (the invisible grouping of the fragment is lost if the macro takes the body apart and re-collects it)"""
    a, b = rng.choice([(1, 4), (2, 3), (7, 1)])
    op, k = rng.choice([("*", 2), ("*", 3), ("-", 10)])
    want = {"*": (a + b) * k, "-": (a + b) - k}[op] if op == "*" else (a + b) - k
    neg = rng.random() < 0.5
    if neg:
        body = "{ -$base %s %d }" % (op, k)
        want = {"*": -(a + b) * k, "-": -(a + b) - k}[op]
    else:
        body = "{ $base %s %d }" % (op, k)
    nd = rng.random() < 0.5
    dep = "" if nd else "deps: &impl A"
    code = ("pub mod k%d { use super::*;\nmacro_rules! mk { ($base:expr) => { #[entrait(pub Tr%s)] pub fn f(%s) -> i64 %s } }\nmk!(%d + %d);\n"
            "pub fn run() { let app = Impl::new(App { tag: 7 }); let r0 = f(%s); let r1 = app.f(); report(%d, \"C02\", r0 == %d && r1 == %d, format!(\"{} {} want %d\", r0, r1)); }\n}") % (
        cid, ", no_deps" if nd else "", dep, body, a, b, "" if nd else "&app", cid, want, want, want)
    return RCase("C02", code, "fragment" + ("/nodeps" if nd else ""))


def case_block_fragment(rng, cid):
    """C02 / C15: the whole body of an entraited fn handed over by macro_rules! as a `$body:block` fragment (one invisible group)"""
    a, k = rng.choice([(3, 2), (5, 7), (11, 1)])
    nd = rng.random() < 0.5
    dep = "" if nd else "deps: &impl A, "
    asy = rng.random() < 0.3
    want = a * k + 1
    call0 = "f(%s%d)" % ("" if nd else "&app, ", a)
    call1 = "app.f(%d)" % a
    if asy:
        call0, call1 = "block_on(%s)" % call0, "block_on(%s)" % call1
    code = ("pub mod k%d { use super::*;\nmacro_rules! mk { ($x:ident, $body:block) => { #[entrait(pub Tr%s)] pub %sfn f(%s$x: i64) -> i64 $body } }\nmk!(x, { x * %d + 1 });\n"
            "pub fn run() { let app = Impl::new(App { tag: 7 }); let r0 = %s; let r1 = %s; report(%d, \"C02\", r0 == %d && r1 == %d, format!(\"{} {} want %d\", r0, r1)); }\n}") % (
        cid, ", no_deps" if nd else "", "async " if asy else "", dep, k, call0, call1, cid, want, want, want)
    return RCase("C02", code, "block_fragment" + ("/nodeps" if nd else "") + ("/async" if asy else ""))


def case_generic_orders(i, cid):
    """C01: generic parameter lists in unusual but legal orders (a const or another type parameter declared before the dependency's),
    and modules whose first function has an unbounded dependency; fixed programs, no random choices"""
    if i == 0:
        fn, call0, call1, want = ("pub fn f<const N: usize, D: A>(deps: &D, a: [i64; N], b: i64) -> i64 { rec(format!(\"f@{}|{:?}\", addr(deps), [a[0], a[N - 1], b])); a[0] * 100 + a[N - 1] * 10 + b }",
                                  "f(&app, [1, 2, 3], 4)", "app.f([1, 2, 3], 4)", 134)
    elif i == 1:
        fn, call0, call1, want = ("pub fn f<T: Into<i64> + Copy, const N: usize, D: A>(deps: &D, t: T, a: [i64; N]) -> i64 { rec(format!(\"f@{}|{:?}\", addr(deps), [t.into(), a[0]])); t.into() * 10 + a[0] }",
                                  "f(&app, 7i32, [5])", "app.f(7i32, [5])", 75)
    elif i == 2:
        fn, call0, call1, want = ("pub fn f<'x, T: Into<i64> + Copy, D: A>(deps: &'x D, t: &'x T) -> i64 { rec(format!(\"f@{}|{:?}\", addr(deps), [(*t).into()])); (*t).into() + 1 }",
                                  "f(&app, &41i32)", "app.f(&41i32)", 42)
    else:
        code = ("pub mod k%d { use super::*;\n#[entrait(pub Tr)]\npub mod m { use super::*;\n"
                "pub fn g0<D>(deps: &D, x: i64) -> i64 { rec(format!(\"g0@{}|{:?}\", addr(deps), [x])); x + 1 }\n"
                "pub fn g1(deps: &impl A, x: i64) -> i64 { rec(format!(\"g1@{}|{:?}\", addr(deps), [x])); x + deps.a() as i64 * 0 + 2 }\n"
                "pub fn g2<D: A>(deps: &D, x: i64) -> i64 { rec(format!(\"g2@{}|{:?}\", addr(deps), [x])); x + deps.a() as i64 * 0 + 3 }\n}\n"
                "pub fn run() { let app = Impl::new(App { tag: 9 }); let mut ok = true; let mut all = vec![];\n"
                "let r0 = m::g0(&app, 10); let t0 = take(); let r1 = app.g0(10); let t1 = take(); ok &= r0 == r1 && t0 == t1 && t0.len() == 1; all.push((t0, t1));\n"
                "let r0 = m::g1(&app, 20); let t0 = take(); let r1 = app.g1(20); let t1 = take(); ok &= r0 == r1 && t0 == t1 && t0.len() == 1; all.push((t0, t1));\n"
                "let r0 = m::g2(&app, 30); let t0 = take(); let r1 = app.g2(30); let t1 = take(); ok &= r0 == r1 && t0 == t1 && t0.len() == 1; all.push((t0, t1));\n"
                "report(%d, \"C01\", ok, format!(\"{:?}\", all)); }\n}") % (cid, cid)
        return RCase("C01", code, "generic_orders/mod_first_unbounded")
    code = ("pub mod k%d { use super::*;\n#[entrait(pub Tr)]\n%s\n"
            "pub fn run() { let app = Impl::new(App { tag: 8 }); let r0 = %s; let t0 = take(); let r1 = %s; let t1 = take();\n"
            "report(%d, \"C01\", r0 == %d && r1 == %d && t0 == t1 && t0.len() == 1, format!(\"{:?} {:?}\", t0, t1)); }\n}") % (cid, fn, call0, call1, cid, want, want)
    return RCase("C01", code, "generic_orders/%d" % i)


MOD_FRAG_INITS = [("if true { 10 } else { 20 }", 10), ("match 3 { 3 => { 5 } _ => { 6 } }", 5), ("unsafe { 7 }", 7), ("{ 2 } + { 40 }", 42), ("(1 + 2) * 3", 9),
                  ("loop { break 8 }", 8)]


def case_mod_fragment(i, cid):
    """C02: an entraited MODULE written by macro_rules!: non-function items whose initialiser is an `$init:expr` fragment (an invisible
    group that may end in a brace group) and whose type is a `$t:ty` fragment, followed by functions; items and methods keep their meaning"""
    init, want = MOD_FRAG_INITS[i % len(MOD_FRAG_INITS)]
    code = ("pub mod k%d { use super::*;\nmacro_rules! mk { ($init:expr, $t:ty) => { #[entrait(pub Tr)] pub mod m { use super::*; pub const K: $t = $init; "
            "pub fn g(deps: &impl A, x: i64) -> i64 { x + K } pub static S: $t = $init; pub fn h(deps: &impl A, x: i64) -> i64 { x * 2 + S } } } }\nmk!(%s, i64);\n"
            "pub fn run() { let app = Impl::new(App { tag: 7 }); let r = (m::K, m::S, m::g(&app, 1), app.g(1), m::h(&app, 1), app.h(1)); "
            "report(%d, \"C02\", r == (%d, %d, %d, %d, %d, %d), format!(\"{:?}\", r)); }\n}") % (
        cid, init, cid, want, want, want + 1, want + 1, want + 2, want + 2)
    return RCase("C02", code, "mod_fragment")


def case_ty_fragment(i, cid):
    """C05: the type of a concrete dependency arrives as a `$deps:ty` fragment of macro_rules! (an invisible group): the whole type
    `&App`, or the `App` under a reference written in the macro body; sync and async"""
    whole = i % 2 == 0
    asy = i % 4 >= 2
    w = "block_on(%s)" if asy else "%s"
    param, arg = ("app: $deps", "&App") if whole else ("app: &$deps", "App")
    code = ("pub mod k%d { use super::*;\nmacro_rules! mk { ($deps:ty) => { #[entrait(pub Tr)] pub %sfn f(%s, x: i64) -> i64 { rec(format!(\"f@{}|{}\", addr(app), x)); app.tag * 100 + x } } }\nmk!(%s);\n"
            "pub fn run() { let a: &'static App = Box::leak(Box::new(App { tag: 3 })); let r0 = %s; let t0 = take(); let r1 = %s; let t1 = take(); let r2 = %s; let t2 = take();\n"
            "report(%d, \"C05\", r0 == 304 && r1 == 304 && r2 == 304 && t0 == t1 && t1 == t2 && t0.len() == 1, format!(\"{} {} {} {:?} {:?} {:?}\", r0, r1, r2, t0, t1, t2)); }\n}") % (
        cid, "async " if asy else "", param, arg, w % "f(a, 4)", w % "Tr::f(a, 4)",
        w % ("Impl::new(a).f(4)" if whole else "a.f(4)"), cid)
    return RCase("C05", code, "ty_fragment/%s%s" % ("whole" if whole else "under_ref", "/async" if asy else ""))


def case_mod_block_fragment(i, cid):
    """C08 / C02 (F30): in a macro_rules-written entraited module or impl block a function whose body is a `$b:block` fragment is
    followed by further functions: each of them is a method, and each call reaches its function"""
    if i % 2 == 0:
        code = ("pub mod k%d { use super::*;\nmacro_rules! mk { ($b:block, $c:block) => { #[entrait(pub Tr)] pub mod m { use super::*; "
                "pub fn g(deps: &impl A, x: i64) -> i64 $b pub fn h(deps: &impl A, x: i64) -> i64 { x + 1 } fn private(x: i64) -> i64 $c pub fn l(deps: &impl A, x: i64) -> i64 $c } } }\n"
                "mk!({ 40 }, { 8 });\n"
                "pub fn run() { let app = Impl::new(App { tag: 7 }); let r = (m::g(&app, 1), app.g(1), m::h(&app, 1), app.h(1), m::l(&app, 4), app.l(4)); "
                "report(%d, \"C08\", r == (40, 40, 2, 2, 8, 8), format!(\"{:?}\", r)); }\n}") % (cid, cid)
        return RCase("C08", code, "mod_block_fragment/mod")
    code = ("pub mod k%d { use super::*;\n#[entrait(TvImpl, delegate_by = DelegateTv)]\npub trait Tv { fn g(&self, x: i64) -> i64; fn h(&self, x: i64) -> i64; }\npub struct X;\n"
            "macro_rules! mk { ($b:block) => { #[entrait]\nimpl TvImpl for X { pub fn g<D>(deps: &D, x: i64) -> i64 $b pub fn h<D>(deps: &D, x: i64) -> i64 { x + 1 } } } }\n"
            "mk!({ 40 });\npub struct Ap; impl DelegateTv<Ap> for Ap { type Target = X; }\n"
            "pub fn run() { let app = Impl::new(Ap); let r = (app.g(1), app.h(1)); report(%d, \"C08\", r == (40, 2), format!(\"{:?}\", r)); }\n}") % (cid, cid)
    return RCase("C08", code, "mod_block_fragment/impl")


def build_cases(seed, tier):
    rng = random.Random(seed * 211 + 3)
    k = 5 if tier == "thorough" else 1
    cases = []
    for _ in range(90 * k):
        cases.append(case_fn(rng, len(cases)))
    for _ in range(40 * k):
        cases.append(case_mod(rng, len(cases)))
    for _ in range(40 * k):
        cases.append(case_trait(rng, len(cases)))
    for _ in range(40 * k):
        cases.append(case_inversion(rng, len(cases)))
    for _ in range(24 * k):
        cases.append(case_unit(rng, len(cases)))
    for _ in range(8 * k):
        cases.append(case_fragment(rng, len(cases)))
    for _ in range(6 * k):
        cases.append(case_block_fragment(rng, len(cases)))
    for i in range(4):
        cases.append(case_generic_orders(i, len(cases)))
    for i in range(len(MOD_FRAG_INITS)):
        cases.append(case_mod_fragment(i, len(cases)))
    for i in range(4):
        cases.append(case_ty_fragment(i, len(cases)))
    for i in range(2):
        cases.append(case_mod_block_fragment(i, len(cases)))
    for i, c in enumerate(cases):
        c.cid = i
    return cases


def run_probe(seed, tier):
    key = sha(repo_tree_hash(), hash_files([os.path.abspath(__file__)]), str(seed), tier)[:20]
    root = os.path.join(WORK, "rprobe", key)
    done = os.path.join(root, "result.json")
    if os.path.exists(done):
        return json.load(open(done))
    base = os.path.join(WORK, "rprobe")
    if os.path.isdir(base):
        for d in os.listdir(base):
            if d != key:
                shutil.rmtree(os.path.join(base, d), ignore_errors=True)
    cases = build_cases(seed, tier)
    crate = os.path.join(root, "crate")
    env = {"RUSTFLAGS": "--cfg %s --cap-lints allow" % GUARD, "CARGO_TARGET_DIR": os.path.join(WORK, "target-corpus-off"), "CARGO_INCREMENTAL": "0"}
    rejected = {}            # cid -> rustc diagnostics: the case does not compile (a failure of its property)
    results, rc, out = {}, 1, ""
    for rnd in range(5):
        if os.path.exists(crate):
            shutil.rmtree(crate)
        os.makedirs(os.path.join(crate, "src"))
        with open(os.path.join(crate, "Cargo.toml"), "w") as fh:
            fh.write('[package]\nname = "rprobe"\nversion = "0.0.0"\nedition = "2021"\n\n[dependencies]\nentrait = { path = "%s" }\n\n[workspace]\n' % REPO)
        shutil.copy(os.path.join(REPO, "Cargo.lock"), os.path.join(crate, "Cargo.lock"))
        lines = PRELUDE.rstrip("\n").split("\n")
        ranges = []
        live = [c for c in cases if c.cid not in rejected]
        for c in live:
            start = len(lines) + 1
            lines.extend(c.code.split("\n"))
            ranges.append((start, len(lines), c.cid))
        lines.append("fn main() {")
        lines.extend("    k%d::run();" % c.cid for c in live)
        lines.append("}")
        with open(os.path.join(crate, "src", "main.rs"), "w") as fh:
            fh.write("\n".join(lines) + "\n")
        rcb, outb, dtb = run(["cargo", "build", "--offline", "--message-format=json", "-j", "16"], cwd=crate, env=env, timeout=3000)
        log("[rprobe] round %d: cargo build rc=%d %.1fs" % (rnd + 1, rcb, dtb))
        if rcb == 0:
            rc, out, dt = run(["cargo", "run", "--offline", "-q", "-j", "16"], cwd=crate, env=env, timeout=3000)
            log("[rprobe] cargo run: rc=%d %.1fs" % (rc, dt))
            break
        new = 0
        for line in outb.split("\n"):
            if not line.startswith("{"):
                continue
            try:
                m = json.loads(line)
            except json.JSONDecodeError:
                continue
            if m.get("reason") != "compiler-message" or m["message"].get("level") != "error":
                continue
            msg = m["message"]
            ln = None
            for sp in [x for x in msg.get("spans", []) if x.get("is_primary")] or msg.get("spans", []):
                e = sp
                while e is not None and ln is None:
                    if e.get("file_name", "").endswith("src/main.rs"):
                        ln = e["line_start"]
                    e = (e.get("expansion") or {}).get("span")
                if ln is not None:
                    break
            for a0, b0, cid in ranges:
                if ln is not None and a0 <= ln <= b0:
                    if cid not in rejected:
                        new += 1
                    rejected.setdefault(cid, []).append(((msg.get("code") or {}).get("code"), msg.get("message", "")[:200]))
                    break
        if new == 0:
            out = outb
            break
    for line in out.split("\n"):
        if line.startswith("CASE "):
            parts = line.split(" ", 4)
            results[int(parts[1])] = {"prop": parts[2], "ok": parts[3] == "OK", "detail": parts[4] if len(parts) > 4 else ""}
    for cid, errs in rejected.items():
        results[cid] = {"prop": cases[cid].prop, "ok": False, "detail": "rustc rejects the program: %s" % (errs[:3],)}
    res = {"key": key, "rc": rc, "cases": [c.descr() for c in cases], "results": {str(k): v for k, v in results.items()},
           "build_failed": rc != 0 and not results, "rejected": len(rejected), "output_tail": out[-3000:] if rc != 0 else ""}
    with open(done, "w") as fh:
        json.dump(res, fh)
    shutil.rmtree(crate, ignore_errors=True)
    return res


if __name__ == "__main__":
    import sys
    r = run_probe(int(sys.argv[1]) if len(sys.argv) > 1 else 1, sys.argv[2] if len(sys.argv) > 2 else "quick")
    print("rc", r["rc"], "cases", len(r["cases"]), "results", len(r["results"]), "fail", sum(1 for v in r["results"].values() if not v["ok"]))
    if r["rc"] != 0:
        print(r["output_tail"][-2500:])
    for k, v in list(r["results"].items()):
        if not v["ok"]:
            print(k, v)
