"""Verdict logic per property (DESIGN.md section 4)."""
import json
import os
import random
import re
import shutil
import time

import common
import compile_probe
import corpus
import run_probe
import sem_probe
import gen
import proofs
from common import VERIF, log

REPLAYS = os.path.join(common.OUT, "replays")

TRUSTED_BASE = [
    "Coq 8.16.1 kernel (coqc); vm_compute in Examples/refutation witnesses; no native_compute; no axioms (Print Assumptions: closed under the global context)",
    "extraction to OCaml (ExtrOcamlBasic, ExtrOcamlString: bool/option/list/prod/unit/sumbool, ascii->char, string->char list; nat stays a datatype) + ocaml/main.ml line driver",
    "recorder hook in /repo (cfg audunhalland_entrait_verif), rustc's TokenStream::to_string, rust/synx (proc_macro2 lexer + syn parser -> s-expressions); every AST is re-printed by the Gallina printers and compared with the recorded tokens",
    "syn's parsers/printers and rustc are modelled, not verified (DESIGN.md section 6)",
    "python harness (generators, cargo orchestration, aggregation)",
]

# what each property's check looks at, in words (evidence 'rule')
RULES = {
    "C01": "fn/mod invocations that expand; non-trivial: >= 1 forwarded argument or >= 2 functions; predicate: every impl method body is `name([self,] its own params in order)[.await]`, one method per source fn in order",
    "C02": "fn/mod/impl invocations that expand; predicate: recorded input tokens are a prefix / the module body is a prefix of the emitted body / impl body verbatim (pure token comparison)",
    "C03": "fn/mod invocations that expand; predicate: parameter types, receiver, qualifiers, lifetimes preserved, no generic declared on trait and method, trait generic names distinct; plus compile probes of the clean corpus",
    "C04": "fn/mod invocations with generic deps; predicate: impl generics `EntraitT: Sync [+ Send] + 'static`, self type by mock setting (by value), `Self: <declared bounds in order>`",
    "C05": "fn invocations with concrete deps, and their nested trait invocation; predicate: nested `::entrait::entrait(unimock = false, mockall = false)` once, impl for the concrete type; nested record's input equals the emitted trait",
    "C06": "trait invocations without delegation target; predicate: Impl<T> impl header, bound by selector, every method forwards `self.as_ref()[.as_ref()|.borrow()].m(args)[.await]`",
    "C07": "trait invocations with delegation target + impl blocks; predicate: target trait / selector trait shapes, `<T::Target as I<T>>::m(self,..)` / AsRef-dyn calls, impl-block bodies `Self::m(__impl, ..)`",
    "C08": "mod invocations that expand and whose body syn's item parser accepts; predicate: trait methods = impl methods = syn's list of directly declared visible fns with body, in order; generator ground truth compared too",
    "C09": "trait invocations that expand; predicate: name, vis, unsafe/auto, generics, supertraits, where, attributes, every item preserved modulo the async rewrite",
    "C10": "fn/mod/trait invocations that expand; predicate: unimock attr iff option true (and mock_api for fn/mod), automock iff mockall true, cfg_attr(test, ..) wrapper iff not exporting; full option lattice",
    "C11": "invocations whose emitted trait carries a unimock attribute; predicate: prefix/api/unmock_with arguments per documented rule",
    "C12": "invocations with >= 1 async fn/method; predicate: trait method `-> impl ::core::future::Future<Output = R> [+ ::core::marker::Send]`, impl method stays async, async_trait re-applied",
    "C13": "fn/mod/trait invocations that expand; predicate: emitted trait visibility = requested (pub(super)+re-export for modules), delegation target = source trait visibility",
    "C14": "static-delegation invocations; predicate: no `dyn` / `Box` in the tokens the macro adds (impl generics, self type, bodies, rewritten return types, where bound)",
    "C15": "every invocation incl. the malformed stream; predicate: never a panic; documented misuses yield their specific message",
    "C16": "fn/mod/impl invocations that expand; predicate: every typed parameter a plain identifier, pairwise distinct, not the fn's name, rules (keep / lift / generate) respected, same names in trait and impl",
    "C17": "metamorphic groups (bare vs = true, option order, = false vs omitted, entrait_export vs export, feature vs unimock); predicate: recorded expansions of a group are token-identical",
    "C18": "invocations that expand; predicate: fn attrs only on the fn, generated items carry only macro-owned / async_trait / automock attrs, no parameter attrs, trait-method attrs mirrored, cfg of mod/impl fns mirrored",
    "C19": "invocations that expand; predicate: every bound the macro adds to EntraitT / the where clause is a lifetime or starts with `::` (or is a user-supplied trait name)",
    "C20": "every invocation; predicate: same (variant, attr, input) => same output tokens, within a run, across features where the variant coincides, and across a second compiler run with shuffled invocation order",
}

ITEM_VIEW_PROPS = {"C01", "C02", "C03", "C04", "C05", "C06", "C07", "C08", "C09", "C10", "C11", "C12", "C13", "C14",
                   "C15", "C16", "C18", "C19"}


def out_tokens(sexp):
    """the (T ...) token list of the recorded output inside a case s-expression, as text; None for a panic"""
    i = sexp.rfind(") (out (T")
    if i < 0:
        return None
    j = i + len(") (out ")
    depth = 0
    k = j
    in_str = False
    while k < len(sexp):
        ch = sexp[k]
        if in_str:
            if ch == "\\":
                k += 1
            elif ch == '"':
                in_str = False
        else:
            if ch == '"':
                in_str = True
            elif ch == "(":
                depth += 1
            elif ch == ")":
                depth -= 1
                if depth == 0:
                    return sexp[j:k + 1]
        k += 1
    return None


def input_key(sexp):
    i = sexp.rfind(") (out (T")
    if i < 0:
        i = sexp.rfind(" panic)")
    return sexp[:i]


def all_rows(res):
    rows = []
    for feat in ("off", "on"):
        for r in res["rows"][feat]:
            r["feature"] = feat
            rows.append(r)
    return rows


def load_known():
    return json.load(open(os.path.join(VERIF, "known_findings.json")))


def write_replay(prop, kind, case, row, extra=None):
    os.makedirs(REPLAYS, exist_ok=True)
    n = len([f for f in os.listdir(REPLAYS) if f.startswith(prop + "-")])
    path = os.path.join(REPLAYS, "%s-%03d.json" % (prop, n))
    obj = {"property": prop, "kind": kind}
    if case is not None:
        obj.update({"macro": case["macro"], "attr": case["attr"], "item": case["item"], "family": case["family"],
                    "rust_source": "#[entrait::%s(%s)]\n%s" % (case["macro"], case["attr"], case["item"])})
    if row is not None:
        obj.update({"feature_unimock": row.get("feature"), "variant": row.get("variant"), "site": row.get("site"),
                    "nth_record_at_site": row.get("nth"), "view": row.get(prop), "agree_tokens": row.get("agree"),
                    "class": row.get("class"), "model_output": row.get("model"), "real_output": row.get("real"),
                    "recorded_case_sexp": row.get("_sexp")})
    if extra:
        obj.update(extra)
    common.write_json(path, obj)
    return path


# ------------------------------------------------------------------------------------------------
# cross-case checks done outside Gallina (they compare several recordings)

def check_c17(res, cases):
    """metamorphic groups. returns (evaluations, failures[(cid list, why)])"""
    by = {}
    for feat in ("off", "on"):
        for r in res["rows"][feat]:
            c = cases[r["cid"]]
            if c["pair"] and r["nth"] == 0:
                by.setdefault((c["pair"][0], feat, c["pair"][1]), []).append(r)
    fails, evals = [], 0
    gids = sorted(set(k[0] for k in by))
    for g in gids:
        for feat in ("off", "on"):
            for role in ("eq", "eq2"):
                rs = by.get((g, feat, role), [])
                if len(rs) > 1:
                    evals += 1
                    outs = set(out_tokens(r["_sexp"]) for r in rs)
                    if len(outs) != 1:
                        fails.append((rs, "members of a metamorphic group (%s, unimock feature %s) expand differently" % (role, feat)))
        imp = by.get((g, "on", "feat_implicit"), [])
        exp = by.get((g, "off", "feat_explicit"), [])
        if imp and exp:
            evals += 1
            if out_tokens(imp[0]["_sexp"]) != out_tokens(exp[0]["_sexp"]):
                fails.append(([imp[0], exp[0]], "with the unimock feature `entrait(args)` differs from `entrait(args, unimock)` without it"))
        s_on = by.get((g, "on", "feat_set"), [])
        s_off = by.get((g, "off", "feat_set"), [])
        if s_on and s_off:
            evals += 1
            if out_tokens(s_on[0]["_sexp"]) != out_tokens(s_off[0]["_sexp"]):
                fails.append(([s_on[0], s_off[0]], "an explicit unimock value does not win over the unimock feature"))
    return evals, fails


def check_c20(res, cases, tier, seed):
    """same input => same output: duplicates within the corpus, and a second compiler run with shuffled order"""
    fails, evals = [], 0
    seen = {}
    for feat in ("off", "on"):
        for r in res["rows"][feat]:
            k = (r.get("variant"), input_key(r["_sexp"]))
            o = out_tokens(r["_sexp"])
            if k in seen:
                evals += 1
                if seen[k][0] != o:
                    fails.append(([seen[k][1], r], "the same (variant, attribute, item) expanded to different tokens within one corpus"))
            else:
                seen[k] = (o, r)
    # second run: other processes, other order, other sharding
    rerun = corpus.rerun_shuffled(res, seed, runs=(3 if tier == "thorough" else 1))
    for feat, rows2 in rerun.items():
        first = {(r["cid"], r["nth"]): r for r in res["rows"][feat]}
        for r2 in rows2:
            r1 = first.get((r2["cid"], r2["nth"]))
            if r1 is None:
                continue
            evals += 1
            if out_tokens(r1["_sexp"]) != out_tokens(r2["_sexp"]):
                r2["feature"] = feat
                fails.append(([r1, r2], "a second compiler run (shuffled invocation order, other processes, the macro built under the other cargo profile, the corpus crates built as dependencies of another crate) expanded the same invocation differently"))
    return evals, fails


def check_c08_generator(res, cases):
    fails, evals = [], 0
    for feat in ("off", "on"):
        for r in res["rows"][feat]:
            c = cases[r["cid"]]
            exp = c["tags"].get("expected_methods")
            if exp is None or r["nth"] != 0 or r.get("class") != "tokens" or r.get("kind") != "mod":
                continue
            v = r.get("C08")
            if v and v[1] == "0":
                continue        # the output's shape was not understood: that is a broken tie (reported as such), not a wrong method list
            evals += 1
            if r.get("methods") != exp:
                fails.append(([r], "generated trait methods %s differ from the generator's ground truth %s" % (r.get("methods"), exp)))
    return evals, fails


def check_c05_nested(res, cases):
    """the nested invocation for concrete deps receives exactly the trait the outer expansion emitted"""
    fails, evals = [], 0
    for feat in ("off", "on"):
        by = {}
        for r in res["rows"][feat]:
            by.setdefault(r["cid"], {})[r["nth"]] = r
        for cid, d in by.items():
            if 1 in d and 0 in d and d[0].get("kind") == "fn":
                evals += 1
                inner = d[1]
                if inner.get("kind") != "trait" or inner.get("class") != "tokens":
                    fails.append(([d[0], inner], "the nested expansion of a concrete-deps trait did not expand as a trait"))
                elif inner.get("C06", "0")[:2] == "10":
                    pass        # shape of the nested output not understood: a broken tie of C06, reported there and by alpha_C05
                elif inner.get("C06", "0")[:3] not in ("111",):
                    fails.append(([d[0], inner], "the nested expansion does not forward Impl<T> to T (C06 predicate on the nested record)"))
    return evals, fails


# ------------------------------------------------------------------------------------------------

def decide(prop, tier, seed, t0):
    common.ensure_tools()
    audit = proofs.audit(prop, tier)
    res = corpus.load_or_run(seed, tier)
    cases = {c["cid"]: c for c in res["cases"]}
    rows = all_rows(res)
    known = load_known()
    violations = []      # (replay path, tail)
    known_lines = []
    notes = []

    # glue failures: records the model could not decode, and records in which a classification / per-bound field written by
    # synx contradicts the verbatim tokens it belongs to (coq/Tie.v) - the model then works on a misread input
    glue_rows = [r for r in rows if r.get("fields_ok") is False]
    machinery_rows = [r for r in rows if "error" in r] + glue_rows
    applicable = []
    failing = []
    tie_broken = []
    if prop in ITEM_VIEW_PROPS:
        for r in rows:
            v = r.get(prop)
            if v is None:
                continue
            app, det, holds, aeq, mholds = (ch == "1" for ch in v)
            if not app:
                continue
            applicable.append(r)
            if det and not holds:
                failing.append(r)
            elif (not det) and prop in ("C03", "C16") and not r.get("agree") and r.get("class") == "tokens" and \
                    (r.get("real") == "PANIC" or str(r.get("real", "")).startswith(":: core :: compile_error")):
                # the property promises an expansion for this input (the model has one and the predicate applies to it);
                # the implementation panicked or reported an error instead
                failing.append(r)
            elif (not det) and prop in ("C06", "C07") and not r.get("agree") and r.get("class") == "tokens" and \
                    " impl " in " %s " % r.get("model", "") and " impl " not in " %s " % r.get("real", ""):
                # the model's expansion implements the trait for `::entrait::Impl<T>`; the implementation's contains no impl at all
                failing.append(r)
            elif prop == "C15" and r.get("class") == "error" and not r.get("agree") and r.get("real") is not None and \
                    r.get("real") != "PANIC" and not str(r.get("real")).startswith(":: core :: compile_error"):
                # the model rejects this input with a diagnostic (for the documented misuses: with their specific message, theorem
                # c15_misuse_message) and the implementation expanded it: the misuse went unreported
                failing.append(r)
            if (not det) or (not aeq):
                tie_broken.append(r)
    extra_evals = 0
    extra_fails = []
    if prop == "C17":
        extra_evals, extra_fails = check_c17(res, cases)
        applicable = [r for r in rows if cases[r["cid"]]["pair"]]
    if prop == "C20":
        extra_evals, extra_fails = check_c20(res, cases, tier, seed)
        applicable = rows
    if prop == "C08":
        e, f = check_c08_generator(res, cases)
        extra_evals += e
        extra_fails += f
    if prop == "C05":
        e, f = check_c05_nested(res, cases)
        extra_evals += e
        extra_fails += f
    run_info = None
    if prop in ("C01", "C02", "C05", "C06", "C07", "C08"):
        # Layer B: compiled differential clients (direct call vs generated trait call; traces and results)
        rp = run_probe.run_probe(seed, tier)
        mine = [(int(cid), v) for cid, v in rp["results"].items() if v["prop"] == prop]
        rcases = {c["cid"]: c for c in rp["cases"]}
        bad = [(cid, v) for cid, v in mine if not v["ok"]]
        missing = [c for c in rp["cases"] if c["prop"] == prop and str(c["cid"]) not in rp["results"]]
        run_info = {"programs": len([c for c in rp["cases"] if c["prop"] == prop]), "ran": len(mine), "failed": len(bad),
                    "rejected_by_rustc": rp.get("rejected", 0), "not_run": len(missing),
                    "by_family": {}}
        for c in rp["cases"]:
            if c["prop"] == prop:
                run_info["by_family"][c["family"]] = run_info["by_family"].get(c["family"], 0) + 1
        extra_evals += len(mine)
        if bad:
            cid, v = min(bad, key=lambda x: len(rcases[x[0]]["code"]))
            path = write_replay(prop, "input", None, None,
                                {"failing_predicate": "run-time probe: the call through the generated trait differs from the direct call (trace / result), or rustc rejects the client",
                                 "program": rcases[cid]["code"], "family": rcases[cid]["family"], "observed": v["detail"][:1500],
                                 "other_failing_programs": len(bad) - 1, "how_to_run": "harness/run_probe.py builds the crate: PRELUDE + this module + `fn main() { k%d::run(); }`" % cid})
            violations.append((path, ""))
        elif missing and rp.get("rc", 0) != 0:
            path = write_replay(prop, "input", None, None, {"failing_predicate": "the run-time probe crate did not build / run", "output": rp.get("output_tail", "")[-1500:]})
            violations.append((path, ""))
    sem_info = None
    if prop in sem_probe.PROPS:
        # Layer B: accept / reject / run probes against the real compiler (availability of impls, visibility, Send,
        # mock gating per build, allocation counts, hostile scopes, no_std, unimock wiring)
        sp = sem_probe.sem_probe(seed, tier)
        scases = {c["cid"]: c for c in sp["cases"]}
        mine = [(int(cid), v) for cid, v in sp["results"].items() if v["prop"] == prop]
        bad = [(cid, v) for cid, v in mine if not v["ok"]]
        undecided = [c for c in sp["cases"] if c["prop"] == prop and str(c["cid"]) not in sp["results"]]
        sem_info = {"programs": len([c for c in sp["cases"] if c["prop"] == prop]), "decided": len(mine), "failed": len(bad),
                    "must_compile": len([c for c in sp["cases"] if c["prop"] == prop and c["expect"] == "accept"]),
                    "must_be_rejected": len([c for c in sp["cases"] if c["prop"] == prop and c["expect"] == "reject"]),
                    "undecided": len(undecided), "builds_stuck": sp["stuck"], "by_family": {}}
        for c in sp["cases"]:
            if c["prop"] == prop:
                fam0 = "/".join(c["family"].split("/")[:2])
                sem_info["by_family"][fam0] = sem_info["by_family"].get(fam0, 0) + 1
        extra_evals += len(mine)
        if bad:
            cid, v = min(bad, key=lambda x: len(scases[x[0]]["lib"] or "") + len(scases[x[0]]["lib_neg"] or ""))
            c = scases[cid]
            path = write_replay(prop, "input", None, None,
                                {"failing_predicate": "semantic probe against the real compiler (harness/sem_probe.py): " + v["detail"][:600],
                                 "expectation": c["expect"], "family": c["family"], "build": c["cfg"],
                                 "program_that_must_compile": c["lib"], "client_that_must_be_rejected": c["lib_neg"] or c["bin_neg"],
                                 "client_in_other_crate": c["bin"],
                                 "other_failing_programs": len(bad) - 1,
                                 "how_to_run": "harness/sem_probe.py assembles LIB_PRELUDE + `pub mod k%d { use crate::*; <program> }` into a lib crate depending on /repo (features unimock) and builds it (%s build)" % (cid, c["cfg"])})
            violations.append((path, ""))
        elif undecided:
            path = write_replay(prop, "input", None, None, {"failing_predicate": "the semantic probe crate did not build for a reason that could not be attributed to a case",
                                                            "unattributed": sp.get("unattributed", [])[:5], "builds": sp["stuck"]})
            violations.append((path, ""))
    compile_info = None
    compile_known = {}
    if prop == "C03":
        # Layer B: rustc must accept the expansion of every program of the compile-clean probe corpus
        cp = compile_probe.run_probe(seed, tier)
        ccases = {c["cid"]: c for c in cp["cases"]}
        known_ids = set(f["id"] for f in known["findings"] if f["property"] == prop)
        cfail_unknown = []
        for cid, errs in cp["failing"].items():
            c = ccases[int(cid)]
            if c["known"] in known_ids:
                compile_known.setdefault(c["known"], []).append((c, errs))
            else:
                cfail_unknown.append((c, errs))
        compile_info = {"programs": len(ccases), "rejected_by_rustc": len(cp["failing"]), "rejected_in_known_classes": len(cp["failing"]) - len(cfail_unknown),
                        "rounds": cp["rounds"], "unattributed_errors": cp["unattributed"], "clean_after_removal": cp["clean"],
                        "by_family": {}}
        for c in ccases.values():
            compile_info["by_family"][c["family"]] = compile_info["by_family"].get(c["family"], 0) + 1
        extra_evals += len(ccases)
        for c, errs in sorted(cfail_unknown, key=lambda x: len(x[0]["item"]))[:1]:
            path = write_replay(prop, "input", {"macro": c["macro"], "attr": c["attr"], "item": c["item"], "family": "compile_probe/" + c["family"]}, None,
                                {"failing_predicate": "rustc rejects the expansion of a supported input (compile probe, harness/compile_probe.py)",
                                 "rustc_diagnostics": errs[:5], "other_failing_programs": len(cfail_unknown) - 1,
                                 "prelude": compile_probe.PRELUDE})
            violations.append((path, ""))
        if cp["unattributed"] and not cfail_unknown:
            path = write_replay(prop, "input", None, None, {"failing_predicate": "rustc errors in the compile probe that could not be attributed to a case",
                                                            "rustc_diagnostics": cp["unattributed"][:5]})
            violations.append((path, ""))
    if prop == "C15":
        # every generated invocation is an item rustc parses, so each one reaches the macro and leaves a record. A case without
        # a record means the compiler did not get through its expansion: the macro aborted the process, overflowed the stack or did
        # not terminate -- worse than the panic the property rules out
        for feat in ("off", "on"):
            st = res["stats"].get(feat, {})
            if st.get("missing_cases"):
                cid = st["missing_sample"][0]
                path = write_replay(prop, "input", cases[cid], None,
                                    {"failing_predicate": "the invocation left no record: the compiler did not finish expanding it (abort, stack overflow or non-termination of the macro)",
                                     "feature_unimock": feat == "on", "cases_without_record": st["missing_cases"], "first_cases_without_record": st["missing_sample"]})
                violations.append((path, ""))
                break
    if prop == "C17":
        # the theorems are about the model's option parser: they transfer while the model expands every invocation of the
        # metamorphic families exactly as the implementation does
        tie_broken = [r for r in applicable if not r.get("agree")]
    if prop == "C20":
        # determinism is decided on the implementation alone (histories); the theorems (membership-only name generation,
        # no state across invocations) speak about this code while the parameter names it emits are the model's
        tie_broken = [r for r in rows if r.get("C16") and r["C16"][0] == "1" and r["C16"][3] == "0"]

    # ---- classify failures against the known findings
    kf = [f for f in known["findings"] if f["property"] == prop]
    unknown = []
    known_hit = {}
    for r in failing:
        if kf and r.get("known", {}).get(prop):
            for f in kf:
                known_hit.setdefault(f["id"], []).append(r)
        else:
            unknown.append(r)
    for f in kf:
        if f["id"] in compile_known:
            wits = [(c, e) for c, e in compile_known[f["id"]] if c.get("witness_of") == f["id"]]
            if wits:
                c, e = wits[0]
                known_lines.append("KNOWN-FINDING: property=%s %s [%s; witness `#[%s(%s)] %s`: %s; %d probe programs in its class]" % (
                    prop, f["what"], f["id"], c["macro"], c["attr"], c["item"].replace("\n", " "), (e[0][1] or "")[:80], len(compile_known[f["id"]])))
            continue
        # a finding is announced while one of its witnesses still fails on the implementation
        wit = [r for r in failing if cases[r["cid"]]["tags"].get("finding") == f["id"]]
        if wit:
            known_lines.append("KNOWN-FINDING: property=%s %s [%s; witness `#[%s(%s)] %s`; %d corpus cases in its class]" % (
                prop, f["what"], f["id"], cases[wit[0]["cid"]]["macro"], cases[wit[0]["cid"]]["attr"],
                cases[wit[0]["cid"]]["item"], len(known_hit.get(f["id"], []))))

    # ---- violations with a concrete failing input
    if unknown:
        r = min(unknown, key=lambda r: len(cases[r["cid"]]["item"]) + len(cases[r["cid"]]["attr"]))
        path = write_replay(prop, "input", cases[r["cid"]], r, {"failing_predicate": "holds_%s on the implementation's expansion" % prop,
                                                                 "other_failing_cases": len(unknown) - 1})
        violations.append((path, ""))
    for rs, why in extra_fails[:1]:
        r = rs[0]
        path = write_replay(prop, "history" if prop in ("C17", "C20") else "input", cases[r["cid"]], r,
                            {"failing_predicate": why,
                             "other_members": [{"macro": cases[x["cid"]]["macro"], "attr": cases[x["cid"]]["attr"],
                                                "item": cases[x["cid"]]["item"], "feature_unimock": x.get("feature"),
                                                "real_output_tokens": out_tokens(x["_sexp"])} for x in rs[1:]],
                             "real_output_tokens": out_tokens(r["_sexp"]), "other_failures": len(extra_fails) - 1})
        violations.append((path, ""))

    # ---- proof obligations
    if not audit["ok"]:
        path = write_replay(prop, "theorem", None, None, {"theorem_file": "coq/Properties/%s.v" % prop, "problems": audit["problems"]})
        violations.append((path, " no-failing-input-found") if not violations else (path, ""))

    # ---- correspondence broken, no failing input so far: search, then report
    if (tie_broken or machinery_rows) and not violations:
        found = search_failing(prop, seed, tier, known)
        if found:
            violations.append((found, ""))
        else:
            r = (tie_broken or machinery_rows)[0]
            path = write_replay(prop, "correspondence", cases.get(r.get("cid")), r,
                                {"correspondence": "alpha_%s(implementation) = alpha_%s(model)" % (prop, prop),
                                 "disagreeing_cases": len(tie_broken), "undecodable_records": len(machinery_rows) - len(glue_rows),
                                 "input_field_mismatches (coq/Tie.v)": len(glue_rows),
                                 "search": "no failing input found in the widened corpus"})
            violations.append((path, " no-failing-input-found"))

    wall = time.time() - t0
    # non-trivial: the property's predicate applied to the case AND was evaluated on the implementation's own expansion
    # (shape understood); distinct: by (variant, attribute tokens, input tokens)
    def nontrivial(r):
        v = r.get(prop)
        if prop in ITEM_VIEW_PROPS:
            return bool(v) and v[0] == "1" and v[1] == "1"
        return True
    distinct = len(set(input_key(r["_sexp"]) + "|" + str(r.get("variant")) for r in applicable if nontrivial(r)))
    samples = []
    rng = random.Random(seed)
    for r in rng.sample(applicable, min(3, len(applicable))):
        c = cases[r["cid"]]
        samples.append({"macro": c["macro"], "attr": c["attr"], "item": c["item"][:400], "family": c["family"],
                        "unimock_feature": r.get("feature"), "outcome": r.get("class"), "view": r.get(prop)})
    fam = {}
    for r in applicable:
        fam[cases[r["cid"]]["family"]] = fam.get(cases[r["cid"]]["family"], 0) + 1
    kinds = {}
    for r in applicable:
        k = "%s/%s" % (r.get("kind"), r.get("class"))
        kinds[k] = kinds.get(k, 0) + 1
    evidence = {
        "property_id": prop, "tier": tier, "seed": seed, "level": "proof",
        "coverage": {
            "obligations": audit["obligations"], "discharged": audit["discharged"], "checker_cmd": audit["checker_cmd"],
            "trusted_base": TRUSTED_BASE, "theorems": audit["theorems"], "proof_problems": audit["problems"],
            "evaluations": len(applicable) + extra_evals, "distinct_nontrivial": distinct,
            "rule": RULES.get(prop, "") + " | counted as non-trivial: a recorded invocation to which the property's predicate applies and whose real expansion it could evaluate; distinct by (variant, attribute tokens, input tokens)", "samples": samples or [{"note": "no applicable case in this corpus"}],
            "traces_validated_against_impl": len(rows),
            "records_total": len(rows), "records_token_exact_model_eq_impl": sum(1 for r in rows if r.get("agree")),
            "records_undecodable": len(machinery_rows) - len(glue_rows),
            "records_input_fields_rederived": sum(1 for r in rows if r.get("fields_ok") is True), "records_input_fields_mismatch": len(glue_rows),
            "applicable_by_family": fam, "applicable_by_kind_outcome": kinds,
            "failing_on_impl": len(failing), "failing_in_known_classes": len(failing) - len(unknown),
            "tie_broken_cases": len(tie_broken), "cross_case_evaluations": extra_evals,
            "corpus_stats": res["stats"], "corpus_key": res["key"], "compile_probe": compile_info, "run_probe": run_info, "sem_probe": sem_info,
            "explanation": "proof = Coq theorems about the Gallina model; tie = every recorded invocation of the corpus is expanded by the extracted model and compared (token-exact) with the real macro's output, and the property's predicate is evaluated on the implementation's expansion",
        },
        "assumptions": ["rustc hands the macro syntactically valid items only", "syn 2.0.119 parse/print behaviour as re-implemented in coq/Syn.v",
                        "Layer-B statements rely on the rustc assumptions S1-S7/U1 of DESIGN.md section 6"],
        "wall_s": round(wall, 2), "violations": len(violations),
    }
    common.write_json(os.path.join(common.OUT, "evidence", prop + ".json"), evidence)
    for line in known_lines:
        print(line)
    for path, tail in violations:
        print("VIOLATION property=%s replay=%s%s" % (prop, path, tail))
    print("%s: %d applicable, %d failing (%d in known classes), tie broken on %d, proofs %d/%d, %.1fs" % (
        prop, len(applicable) + extra_evals, len(failing) + len(extra_fails), len(failing) - len(unknown), len(tie_broken),
        audit["discharged"], audit["obligations"], wall))
    return 1 if violations else 0


def search_failing(prop, seed, tier, known):
    """widen the corpus (other seeds, thorough size) looking for a concrete input on which the property
    fails on the implementation; budgeted; returns a replay path or None"""
    plan = ["quick", "quick", "thorough"] if tier == "thorough" else ["quick"]
    for k, t2 in enumerate(plan):
        s2 = seed * 7919 + 1000 + k
        res = corpus.load_or_run(s2, t2, keep_others=True)
        cases = {c["cid"]: c for c in res["cases"]}
        for r in all_rows(res):
            v = r.get(prop)
            if v and v[0] == "1" and v[1] == "1" and v[2] == "0" and not r.get("known", {}).get(prop):
                return write_replay(prop, "input", cases[r["cid"]], r,
                                    {"failing_predicate": "holds_%s on the implementation's expansion" % prop, "found_by": "search seed %d" % s2})
        if prop == "C17":
            e, f = check_c17(res, cases)
            if f:
                rs, why = f[0]
                return write_replay(prop, "history", cases[rs[0]["cid"]], rs[0], {"failing_predicate": why})
    return None


def replay(prop, path):
    obj = json.load(open(path))
    if "item" not in obj:
        print("replay file names a theorem / correspondence, nothing to re-run:", obj.get("theorem_file") or obj.get("correspondence"))
        return 0
    common.ensure_tools()
    c = gen.Case("replay", obj["attr"], obj["item"], macro=obj["macro"])
    c.cid = 0
    res = corpus.run_cases([c], "replay")
    bad = False
    for r in all_rows(res):
        v = r.get(prop)
        print("feature=%s class=%s agree=%s %s=%s" % (r["feature"], r.get("class"), r.get("agree"), prop, v))
        if v and v[0] == "1" and (v[2] == "0" or v[1] == "0" or v[3] == "0"):
            bad = True
    if bad:
        print("VIOLATION property=%s replay=%s" % (prop, path))
    return 1 if bad else 0
