"""Paths, hashing, process helpers, tool builds."""
import hashlib
import json
import os
import subprocess
import sys
import time

VERIF = os.path.dirname(os.path.dirname(os.path.abspath(__file__)))
REPO = os.environ.get("ENTRAIT_REPO", "/repo")
CACHE = os.path.join(VERIF, ".cache")
# scratch evaluation of a seeded change: another source tree (ENTRAIT_REPO), its own corpus/cargo cache and output dir
WORK = os.environ.get("VERIF_WORK", CACHE)
OUT = os.environ.get("VERIF_OUT", VERIF)
GUARD = "audunhalland_entrait_verif"
SYNX = os.path.join(CACHE, "target-synx", "release", "synx")
MODEL = os.path.join(VERIF, "ocaml", "model")
COQ = os.path.join(VERIF, "coq")

OFFLINE_ENV = {"CARGO_NET_OFFLINE": "true", "GOPROXY": "off", "PIP_NO_INDEX": "1"}


def log(*a):
    print(*a, file=sys.stderr, flush=True)


def run(cmd, cwd=None, env=None, timeout=None, check=False, capture=True):
    e = dict(os.environ)
    e.update(OFFLINE_ENV)
    if env:
        e.update(env)
    t0 = time.time()
    p = subprocess.run(cmd, cwd=cwd, env=e, timeout=timeout, shell=isinstance(cmd, str),
                       stdout=subprocess.PIPE if capture else None, stderr=subprocess.STDOUT if capture else None,
                       text=True, errors="replace")
    if check and p.returncode != 0:
        log("command failed:", cmd)
        log((p.stdout or "")[-4000:])
        raise SystemExit(2)
    return p.returncode, p.stdout or "", time.time() - t0


def sha(*parts):
    h = hashlib.sha256()
    for p in parts:
        if isinstance(p, str):
            p = p.encode()
        h.update(p)
        h.update(b"\0")
    return h.hexdigest()


def files_under(root, exts):
    out = []
    for d, _, fs in os.walk(root):
        if "/target" in d or "/.git" in d or "/.cache" in d or "/_build" in d or "/extracted" in d:
            continue
        for f in fs:
            if f.endswith(exts):
                out.append(os.path.join(d, f))
    return sorted(out)


def hash_files(paths):
    h = hashlib.sha256()
    for p in paths:
        h.update(p.encode())
        try:
            with open(p, "rb") as fh:
                h.update(fh.read())
        except OSError:
            h.update(b"<missing>")
    return h.hexdigest()


def repo_tree_hash():
    """hash of the macro's sources as they are in the working tree right now"""
    paths = files_under(os.path.join(REPO, "entrait_macros"), (".rs", ".toml")) + \
        files_under(os.path.join(REPO, "src"), (".rs",)) + [os.path.join(REPO, "Cargo.toml")]
    return hash_files(paths)


def model_files():
    """the executable model (extracted to OCaml) and the glue around it; proofs are hashed separately"""
    top = sorted(os.path.join(COQ, f) for f in os.listdir(COQ) if f.endswith(".v") and f != "Examples.v")
    return top + files_under(os.path.join(VERIF, "ocaml"), (".ml", ".v", ".sh")) + \
        files_under(os.path.join(VERIF, "rust"), (".rs", ".toml"))


def model_hash():
    return hash_files(model_files())


def proofs_hash():
    """every file of the Coq build (the files listed in _CoqProject)"""
    proj = os.path.join(COQ, "_CoqProject")
    listed = [os.path.join(COQ, l.strip()) for l in open(proj) if l.strip().endswith(".v")]
    return hash_files(sorted(listed) + [proj])


def coq_make():
    rc, out, dt = run("coq_makefile -f _CoqProject -o Makefile > /dev/null && timeout 3000 make -k -j16", cwd=COQ, timeout=3100)
    return rc, out


def ensure_tools():
    """(re)build synx, the Coq development and the extracted model when missing or stale"""
    os.makedirs(CACHE, exist_ok=True)
    stamp = os.path.join(CACHE, "tools.stamp")
    pstamp = os.path.join(CACHE, "proofs.stamp")
    want = model_hash()
    pwant = proofs_hash()
    have = open(stamp).read().strip() if os.path.exists(stamp) else ""
    phave = open(pstamp).read().strip() if os.path.exists(pstamp) else ""
    tools_ok = have == want and os.path.exists(SYNX) and os.path.exists(MODEL)
    if tools_ok and phave == pwant:
        return
    if not tools_ok:
        log("[tools] building synx")
        run(["cargo", "build", "--release", "--offline"], cwd=os.path.join(VERIF, "rust", "synx"),
            env={"CARGO_TARGET_DIR": os.path.join(CACHE, "target-synx")}, check=True, timeout=1200)
    log("[tools] building Coq development")
    rc, out = coq_make()
    with open(os.path.join(CACHE, "coq-make.log"), "w") as fh:
        fh.write(out)
    if rc != 0:
        # a broken proof must not stop the model from running: build the model files alone, the audit reports the rest
        log("[tools] make failed (see .cache/coq-make.log); building the model files only")
        log(out[-1500:])
        names = [os.path.basename(f)[:-2] + ".vo" for f in model_files() if f.startswith(COQ + os.sep)]
        run("timeout 3000 make -j16 " + " ".join(names), cwd=COQ, check=True, timeout=3100)
    if not tools_ok:
        log("[tools] extracting + building the OCaml model")
        run(["sh", "build.sh"], cwd=os.path.join(VERIF, "ocaml"), check=True, timeout=1200)
        with open(stamp, "w") as fh:
            fh.write(want)
    if rc == 0:
        with open(pstamp, "w") as fh:
            fh.write(pwant)
    elif os.path.exists(pstamp):
        os.remove(pstamp)


def write_json(path, obj):
    os.makedirs(os.path.dirname(path), exist_ok=True)
    tmp = path + ".tmp"
    with open(tmp, "w") as fh:
        json.dump(obj, fh, indent=1, sort_keys=True)
    os.replace(tmp, path)
