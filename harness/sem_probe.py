"""Layer B, semantic probes against the real compiler (C04, C05, C06, C10, C11, C12, C13, C14, C19).

The theorems about these properties speak about the tokens the macro emits (which bounds stand in the impl header,
which visibility stands before `trait`, which attribute wraps the mock derivation, ...).  What those tokens *mean* is
rustc's business (assumptions S3..S7 of DESIGN.md).  This probe checks that meaning on the real macro with the real
compiler, both ways:

  accept cases   a client that the property says must work: it has to compile (and, when it has a `run()`, report OK)
  reject cases   a client that the property says must NOT work (a type lacking one declared bound, a path outside the
                 requested visibility, a mock type in a non-test build, a non-Send future without `?Send`, ...):
                 rustc has to report an error on exactly those lines

One package with a lib and a bin target (so "another crate" exists), built three ways: normally (and run), with
`cfg(test)` (`cargo check --lib --profile test`), and a `#![no_std]` sibling crate.  Errors are attributed to cases
by line; rejected parts are removed and the build repeated until it is clean, so an early compiler phase cannot mask
a later one.  One line per case in the result: OK / FAIL + detail."""
import json
import os
import random
import shutil

from common import GUARD, REPO, WORK, log, run, sha, repo_tree_hash, hash_files

PROPS = ("C04", "C05", "C06", "C10", "C11", "C12", "C13", "C14", "C16", "C17", "C19")

LIB_PRELUDE = r"""#![allow(warnings)]
pub use ::entrait::{entrait, entrait_export, Impl};
use std::alloc::{GlobalAlloc, Layout, System};
use std::cell::{Cell, RefCell};
use std::future::Future;
use std::pin::Pin;
use std::task::{Context, Poll, RawWaker, RawWakerVTable, Waker};

pub struct Counting;
thread_local! { static ALLOCS: Cell<u64> = const { Cell::new(0) }; }
unsafe impl GlobalAlloc for Counting {
    unsafe fn alloc(&self, l: Layout) -> *mut u8 { let _ = ALLOCS.try_with(|c| c.set(c.get() + 1)); System.alloc(l) }
    unsafe fn dealloc(&self, p: *mut u8, l: Layout) { System.dealloc(p, l) }
    unsafe fn realloc(&self, p: *mut u8, l: Layout, n: usize) -> *mut u8 { let _ = ALLOCS.try_with(|c| c.set(c.get() + 1)); System.realloc(p, l, n) }
}
#[global_allocator]
static GLOBAL: Counting = Counting;
pub fn allocs() -> u64 { ALLOCS.with(|c| c.get()) }

thread_local! { static TRACE: RefCell<Vec<String>> = RefCell::new(Vec::new()); }
pub fn rec(s: String) { TRACE.with(|t| t.borrow_mut().push(s)); }
pub fn take() -> Vec<String> { TRACE.with(|t| std::mem::take(&mut *t.borrow_mut())) }
pub fn addr<T: ?Sized>(r: &T) -> usize { r as *const T as *const u8 as usize }

fn raw_waker() -> RawWaker {
    fn no(_: *const ()) {}
    fn cl(_: *const ()) -> RawWaker { raw_waker() }
    static VT: RawWakerVTable = RawWakerVTable::new(cl, no, no, no);
    RawWaker::new(std::ptr::null(), &VT)
}
/// polls on the stack: no allocation of its own
pub fn block_on<F: Future>(f: F) -> F::Output {
    let waker = unsafe { Waker::from_raw(raw_waker()) };
    let mut cx = Context::from_waker(&waker);
    let mut f = std::pin::pin!(f);
    loop { if let Poll::Ready(v) = f.as_mut().poll(&mut cx) { return v; } }
}
pub fn assert_send<T: Send>(t: T) -> T { t }
pub trait A { fn a(&self) -> i64 { 7 } }
pub trait B { fn b(&self) -> i64 { 9 } }
pub fn report(id: usize, prop: &str, ok: bool, detail: String) {
    println!("CASE {} {} {} {}", id, prop, if ok { "OK" } else { "FAIL" }, detail.replace('\n', " "));
}
"""

BIN_PRELUDE = "#![allow(warnings)]\n"

NOSTD_PRELUDE = r"""#![no_std]
#![allow(warnings)]
pub trait A { fn a(&self) -> i64 { 7 } }
pub trait B { fn b(&self) -> i64 { 9 } }
"""


class SCase:
    """cfg: 'nontest' | 'test' | 'nostd'.  lib / bin: code that must compile (inside `pub mod k<cid>`);
    lib_neg / bin_neg: code that must be rejected (at most one of the two is set); run: 'lib' | 'bin' | None."""

    def __init__(self, prop, family, lib="", lib_neg=None, bin="", bin_neg=None, run=None, cfg="nontest", note=""):
        self.prop, self.family, self.lib, self.lib_neg, self.bin, self.bin_neg, self.runs, self.cfg, self.note = \
            prop, family, lib, lib_neg, bin, bin_neg, run, cfg, note
        self.cid = None

    def descr(self):
        return {"cid": self.cid, "prop": self.prop, "family": self.family, "cfg": self.cfg, "note": self.note,
                "lib": self.lib, "lib_neg": self.lib_neg, "bin": self.bin, "bin_neg": self.bin_neg,
                "expect": "reject" if (self.lib_neg or self.bin_neg) else "accept"}


# ------------------------------------------------------------------------------------------------ C04

C04_TYPES = {
    # name: (declaration given the bound traits implemented, implements, sync, send, static)
    "Full": ("pub struct Full; impl A for Impl<Full> {} impl B for Impl<Full> {}", {"A", "B"}, True, True, True),
    "OnlyA": ("pub struct OnlyA; impl A for Impl<OnlyA> {}", {"A"}, True, True, True),
    "OnlyB": ("pub struct OnlyB; impl B for Impl<OnlyB> {}", {"B"}, True, True, True),
    "Plain": ("pub struct Plain;", set(), True, True, True),
    "NoSync": ("pub struct NoSync(pub std::cell::Cell<i64>); impl A for Impl<NoSync> {} impl B for Impl<NoSync> {}", {"A", "B"}, False, True, True),
    "Sns": ("pub struct Sns(pub std::sync::MutexGuard<'static, i64>); impl A for Impl<Sns> {} impl B for Impl<Sns> {}", {"A", "B"}, True, False, True),
    "Bor": ("pub struct Bor<'x>(pub &'x i64); impl<'x> A for Impl<Bor<'x>> {} impl<'x> B for Impl<Bor<'x>> {}", {"A", "B"}, True, True, False),
}


def c04_decl(rng, placement, bounds, by_value):
    """returns (attribute+item, trait name)"""
    bl = sorted(bounds)
    plus = " + ".join(bl)
    use = " + ".join(["0"] + ["deps.%s()" % b.lower() for b in bl])
    recv = "D" if by_value else "&D"
    if placement == "inline":
        item = "pub fn f<D%s>(deps: %s, x: i64) -> i64 { %s + x }" % ((": " + plus) if bl else "", recv, use)
    elif placement == "where":
        item = "pub fn f<D>(deps: %s, x: i64) -> i64 %s { %s + x }" % (recv, ("where D: " + plus) if bl else "", use)
    elif placement == "impl":
        ty = ("impl " + plus) if bl else "impl Sized"
        item = "pub fn f(deps: %s, x: i64) -> i64 { %s + x }" % (ty if by_value else "&(%s)" % ty, use)
    elif placement == "split":
        first, rest = bl[:1], bl[1:]
        item = "pub fn f<D%s>(deps: %s, x: i64) -> i64 %s { %s + x }" % (
            (": " + " + ".join(first)) if first else "", recv, ("where D: " + " + ".join(rest)) if rest else "", use)
    elif placement == "module":
        fns = []
        for j, b in enumerate(bl or [None]):
            if b is None:
                fns.append("pub fn g0<D>(deps: &D) -> i64 { 1 }")
            elif j % 2 == 0:
                fns.append("pub fn g%d(deps: &impl %s) -> i64 { deps.%s() }" % (j, b, b.lower()))
            else:
                fns.append("pub fn g%d<D>(deps: &D) -> i64 where D: %s { deps.%s() }" % (j, b, b.lower()))
        return "#[entrait(pub Tr)]\npub mod m { use super::*; %s }" % " ".join(fns)
    else:
        raise ValueError(placement)
    return "#[entrait(pub Tr)]\n" + item


def cases_c04(rng, n):
    out = []
    placements = ["inline", "where", "impl", "split", "module"]
    combos = []
    for pl in placements:
        for bounds in (("A", "B"), ("A",), ()):
            for by_value in ((False, True) if pl != "module" else (False,)):
                if pl == "impl" and not bounds:
                    continue          # `impl Sized` adds a bound of its own
                for ty in C04_TYPES:
                    combos.append((pl, bounds, by_value, ty))
    rng.shuffle(combos)
    # keep every (placement, type) pair at least once, then fill randomly
    seen, chosen = set(), []
    for c in combos:
        k = (c[0], c[3], c[2])
        if k not in seen:
            seen.add(k)
            chosen.append(c)
    for c in combos:
        if len(chosen) >= n:
            break
        if c not in chosen:
            chosen.append(c)
    # several functions of one module, by-value and by-reference receivers in both orders; `?Send` with a by-value receiver
    for order in ("value_first", "ref_first", "value_only_optout"):
        for ty in ("Full", "Sns", "NoSync"):
            decl, impls, sync, send, static = C04_TYPES[ty]
            if order == "value_first":
                inv = "#[entrait(pub Tr)]\npub mod m { use super::*; pub fn g0(deps: impl A, x: i64) -> i64 { x } pub fn g1(deps: &impl B) -> i64 { 1 } }"
            elif order == "ref_first":
                inv = "#[entrait(pub Tr)]\npub mod m { use super::*; pub fn g0(deps: &impl B) -> i64 { 1 } pub fn g1(deps: impl A, x: i64) -> i64 { x } pub fn g2(deps: &impl A) -> i64 { 2 } }"
            else:
                inv = "#[entrait(pub Tr, ?Send)]\npub async fn f(deps: impl A + B, x: i64) -> i64 { let k = std::rc::Rc::new(x); std::future::ready(()).await; *k }"
            setup = inv + "\n" + decl + "\npub fn need<T: Tr>() {}"
            client = "pub fn client() { need::<Impl<%s>>(); }" % ty
            fam = "avail/order/%s/%s" % (order, ty)
            if sync and send:
                out.append(SCase("C04", fam, lib=setup + "\n" + client))
            else:
                out.append(SCase("C04", fam, lib=setup, lib_neg=client))
    for pl, bounds, by_value, ty in chosen[:max(n, len(seen))]:
        decl, impls, sync, send, static = C04_TYPES[ty]
        accept = set(bounds) <= impls and sync and static and (send or not by_value)
        setup = c04_decl(rng, pl, set(bounds), by_value) + "\n" + decl + "\npub fn need<T: Tr>() {}"
        if static:
            client = "pub fn client() { need::<Impl<%s>>(); }" % ty
        else:
            client = "pub fn client<'x>() { need::<Impl<%s<'x>>>(); }" % ty
        fam = "avail/%s/%s/%s/%s" % (pl, "+".join(bounds) or "none", "value" if by_value else "ref", ty)
        if accept:
            out.append(SCase("C04", fam, lib=setup + "\n" + client))
        else:
            out.append(SCase("C04", fam, lib=setup, lib_neg=client))
    return out


# ------------------------------------------------------------------------------------------------ C05 / C06

def cases_c05(rng, n):
    out = []
    for i in range(n):
        asy = rng.random() < 0.3
        k = rng.choice([0, 1, 2])
        ps = "".join(", p%d: i64" % j for j in range(k))
        setup = ("pub struct Conc;\n#[entrait(pub Tr)]\npub %sfn f(deps: &Conc%s) -> i64 { 1 }\n"
                 "pub struct Other; impl Tr for Other { %sfn f(&self%s) -> i64 { 2 } }\npub struct Nope;\npub fn need<T: Tr>() {}") % (
            "async " if asy else "", ps, "async " if asy else "", ps)
        which = i % 4
        fam = "leaf/%s%s" % (["Conc", "Impl<Conc>", "Impl<Other>", "Impl<Nope>"][which], "/async" if asy else "")
        if which == 0:
            out.append(SCase("C05", fam, lib=setup + "\npub fn client() { need::<Conc>(); }"))
        elif which == 1:
            out.append(SCase("C05", fam, lib=setup + "\npub fn client() { need::<Impl<Conc>>(); }"))
        elif which == 2:
            out.append(SCase("C05", fam, lib=setup + "\npub fn client() { need::<Impl<Other>>(); }"))
        else:
            out.append(SCase("C05", fam, lib=setup, lib_neg="pub fn client() { need::<Impl<Nope>>(); }"))
    return out


def cases_c06(rng, n):
    out = []
    kinds = ["self", "ref", "borrow"]
    probes = ["provider", "none", "wrong_way", "nosync", "typed_receiver_not_send", "generic_trait"]
    combos = [(k, p) for k in kinds for p in probes]
    for i in range(n):
        kind, probe = combos[i % len(combos)]
        attr = {"self": "", "ref": "delegate_by = ref", "borrow": "delegate_by = Borrow"}[kind]
        k = rng.choice([1, 2])
        meths = " ".join("fn m%d(&self, x: i64) -> i64;" % j for j in range(k))
        impls = " ".join("fn m%d(&self, x: i64) -> i64 { x }" % j for j in range(k))
        setup = "#[entrait(%s)]\npub trait Tq { %s }\npub struct P; impl Tq for P { %s }\npub fn need<T: Tq>() {}\n" % (attr, meths, impls)
        # application types
        if kind == "self":
            good = "pub struct Ap; impl Tq for Ap { %s }" % impls
            wrong = "pub struct Ap { p: P } impl AsRef<dyn Tq> for Ap { fn as_ref(&self) -> &(dyn Tq + 'static) { &self.p } }"
            nosync = "pub struct Ap(pub std::cell::Cell<i64>); impl Tq for Ap { %s }" % impls
        elif kind == "ref":
            good = "pub struct Ap { p: P } impl AsRef<dyn Tq> for Ap { fn as_ref(&self) -> &(dyn Tq + 'static) { &self.p } }"
            wrong = "pub struct Ap; impl Tq for Ap { %s }" % impls
            nosync = "pub struct Ap { p: P, c: std::cell::Cell<i64> } impl AsRef<dyn Tq> for Ap { fn as_ref(&self) -> &(dyn Tq + 'static) { &self.p } }"
        else:
            good = "pub struct Ap { p: P } impl std::borrow::Borrow<dyn Tq> for Ap { fn borrow(&self) -> &(dyn Tq + 'static) { &self.p } }"
            wrong = "pub struct Ap { p: P } impl AsRef<dyn Tq> for Ap { fn as_ref(&self) -> &(dyn Tq + 'static) { &self.p } }"
            nosync = "pub struct Ap { p: P, c: std::cell::Cell<i64> } impl std::borrow::Borrow<dyn Tq> for Ap { fn borrow(&self) -> &(dyn Tq + 'static) { &self.p } }"
        client = "pub fn client() { need::<Impl<Ap>>(); }"
        fam = "forward/%s/%s" % (kind, probe)
        if probe == "generic_trait":
            # a trait with generic parameters of its own: a lifetime, a defaulted type parameter, a defaulted const parameter
            g, args, meth, imp, needs = rng.choice([
                ("<'a>", "<'a>", "fn m0(&self, x: &'a i64) -> &'a i64;", "fn m0(&self, x: &'a i64) -> &'a i64 { x }", "pub fn need<'a, T: Tq<'a>>() {}"),
                ("<X = i64>", "<i64>", "fn m0(&self, x: X) -> X;", "fn m0(&self, x: i64) -> i64 { x }", "pub fn need<T: Tq>() {}"),
                ("<const N: usize = 3>", "<3>", "fn m0(&self) -> usize;", "fn m0(&self) -> usize { 3 }", "pub fn need<T: Tq>() {}"),
                ("<'a, 'b: 'a, X: Clone = String>", "<'a, 'b, String>", "fn m0(&self, x: &'a X, y: &'b X) -> &'a X;", "fn m0(&self, x: &'a String, y: &'b String) -> &'a String { x }",
                 "pub fn need<'a, 'b: 'a, T: Tq<'a, 'b>>() {}"),
            ])
            lt = "<'a, 'b: 'a>" if "'b" in g else ("<'a>" if "'a" in g else "")
            if kind == "self":
                setup2 = "#[entrait(%s)]\npub trait Tq%s { %s }\npub struct Ap; impl%s Tq%s for Ap { %s }\n%s\n" % (attr, g, meth, lt, args, imp, needs)
                out.append(SCase("C06", fam + "/" + g.replace(" ", ""), lib=setup2 + client))
            else:
                out.append(SCase("C06", fam + "/skipped-for-dyn", lib="pub fn client() {}"))
        elif probe == "typed_receiver_not_send":
            # `self: &Self` is a reference receiver: only `Sync + 'static` may be demanded of T, a Sync type that is not Send qualifies
            setup2 = ("#[entrait(%s)]\npub trait Tq { fn m0(self: &Self, x: i64) -> i64; }\npub struct P; impl Tq for P { fn m0(self: &Self, x: i64) -> i64 { x } }\n"
                      "pub fn need<T: Tq>() {}\n") % attr
            g = "pub g: std::marker::PhantomData<std::sync::MutexGuard<'static, ()>>"
            ap = {"self": "pub struct Ap { %s } impl Tq for Ap { fn m0(self: &Self, x: i64) -> i64 { x } }" % g,
                  "ref": "pub struct Ap { p: P, %s } impl AsRef<dyn Tq> for Ap { fn as_ref(&self) -> &(dyn Tq + 'static) { &self.p } }" % g,
                  "borrow": "pub struct Ap { p: P, %s } impl std::borrow::Borrow<dyn Tq> for Ap { fn borrow(&self) -> &(dyn Tq + 'static) { &self.p } }" % g}[kind]
            out.append(SCase("C06", fam, lib=setup2 + ap + "\n" + client))
        elif probe == "provider":
            out.append(SCase("C06", fam, lib=setup + good + "\n" + client))
        elif probe == "none":
            out.append(SCase("C06", fam, lib=setup + "pub struct Ap;", lib_neg=client))
        elif probe == "wrong_way":
            out.append(SCase("C06", fam, lib=setup + wrong, lib_neg=client))
        else:
            out.append(SCase("C06", fam, lib=setup + nosync, lib_neg=client))
    return out


# ------------------------------------------------------------------------------------------------ C13

VIS = ["", "pub", "pub(crate)", "pub(super)", "pub(self)", "pub(in crate::k{cid}::outer)", "pub(in self)", "pub(in super)",
       "pub(in super::super)", "pub(in self::super)", "pub(in crate)"]
# sites: inner (the defining scope), outer (its parent), top (the case module, two levels up), other crate
SITES = ["inner", "outer", "top", "extern"]


def vis_reaches(vis, site):
    if site == "inner":
        return True
    if site == "outer":
        return vis in ("pub", "pub(crate)", "pub(super)", "pub(in super)", "pub(in super::super)", "pub(in self::super)", "pub(in crate)") \
            or vis.startswith("pub(in crate::")
    if site == "top":
        return vis in ("pub", "pub(crate)", "pub(in super::super)", "pub(in crate)")
    return vis == "pub"


def cases_c13(rng, n):
    out = []
    forms = ["fn", "mod", "trait_target"]
    combos = [(f, v, s) for f in forms for v in VIS for s in SITES]
    rng.shuffle(combos)
    for form, vis, site in combos[:n]:
        own = rng.choice(["pub", "pub", "pub(crate)", ""])      # the function's own visibility must not matter
        holder = {}

        def build(cid, form=form, vis=vis, site=site, own=own):
            v = vis.replace("{cid}", str(cid))
            if form == "fn":
                inv = "#[entrait(%s Foo)]\n%s fn foo(deps: &impl A, x: i64) -> i64 { x }" % (v, own)
                name = "Foo"
            elif form == "mod":
                inv = "#[entrait(%s Foo)]\npub mod m { use crate::*; pub fn g(deps: &impl A, x: i64) -> i64 { x } }" % v
                name = "Foo"
            else:
                inv = "#[entrait(FooImpl, delegate_by = DelegateFoo)]\n%s trait Foo { fn m(&self, x: i64) -> i64; }" % v
                name = "FooImpl"
            use_in = {"inner": "pub fn site<T: %s%s>() {}" % (name, "<i64>" if name == "FooImpl" else ""),
                      "outer": "pub fn site<T: inner::%s%s>() {}" % (name, "<i64>" if name == "FooImpl" else ""),
                      "top": "pub fn site<T: outer::inner::%s%s>() {}" % (name, "<i64>" if name == "FooImpl" else ""),
                      "extern": "pub fn site<T: sprobe::k%d::outer::inner::%s%s>() {}" % (cid, name, "<i64>" if name == "FooImpl" else "")}[site]
            inner = "pub mod inner { use crate::*;\n%s\n%s }" % (inv, "%s")
            return inner, use_in

        holder["build"] = build
        c = SCase("C13", "vis/%s/%s/%s" % (form, vis.replace("{cid}", "N") or "private", site))
        c.builder = build
        c.accept = vis_reaches(vis, site)
        c.site = site
        out.append(c)
    return out


def finish_c13(c):
    inner_t, use_in = c.builder(c.cid)
    site = c.site
    pos_inner = use_in if (site == "inner" and c.accept) else ""
    lib = "pub mod outer {\n%s\n%s\n}" % (inner_t % pos_inner, "%s")
    lib_outer_pos = use_in if (site == "outer" and c.accept) else ""
    c.lib = lib % lib_outer_pos
    if site == "top" and c.accept:
        c.lib += "\n" + use_in
    if site == "extern" and c.accept:
        c.bin = use_in
    if not c.accept:
        # the rejected use sits in a sibling module so that the line attribution is unambiguous
        if site == "extern":
            c.bin_neg = use_in
        elif site == "top":
            c.lib_neg = use_in
        elif site == "outer":
            # must be written inside `outer`: a child module of outer has the same privileges as outer itself
            c.lib_neg = None
            c.lib = "pub mod outer {\n%s\n/*NEG*/\n}" % (inner_t % "")
            c.neg_inline = use_in
        else:
            raise ValueError("inner is always reachable")


# ------------------------------------------------------------------------------------------------ C12

RETS = [("i64", "1"), ("()", "()"), (None, ""), ("String", "String::new()"), ("Option<&'static str>", "None"), ("(i64, bool)", "(1, true)"),
        ("Result<Vec<i64>, String>", "Ok(Vec::new())")]


def cases_c12(rng, n):
    out = []
    for i in range(n):
        kind = ["send_default", "nonsend_default", "nonsend_optout", "output", "trait_send", "trait_optout", "output_trait"][i % 7]
        ret, val = rng.choice(RETS)
        arrow = (" -> " + ret) if ret else ""
        rty = ret or "()"
        dep = rng.choice(["deps: &impl A", "deps: &D"])
        gen = "<D: A>" if dep.endswith("&D") else ""
        if kind == "send_default":
            lib = ("#[entrait(pub Tr)]\npub async fn f%s(%s, x: i64)%s { std::future::ready(()).await; %s }\n"
                   "pub struct App; impl A for Impl<App> {}\n"
                   "pub fn client() { let app = Impl::new(App); let _fut = assert_send(app.f(1)); }") % (gen, dep, arrow, val)
            out.append(SCase("C12", "send/default", lib=lib))
        elif kind == "nonsend_default":
            neg = ("#[entrait(pub Tr)]\npub async fn f%s(%s, x: i64) -> i64 { let keep = std::rc::Rc::new(x); std::future::ready(()).await; *keep }") % (gen, dep)
            out.append(SCase("C12", "send/default-rejects-non-send-future", lib_neg=neg))
        elif kind == "nonsend_optout":
            lib = ("#[entrait(pub Tr, ?Send)]\npub async fn f%s(%s, x: i64) -> i64 { let keep = std::rc::Rc::new(x); std::future::ready(()).await; *keep }\n"
                   "pub struct App; impl A for Impl<App> {}\n"
                   "pub fn run() { let app = Impl::new(App); let r0 = block_on(f(&app, 5)); let r1 = block_on(app.f(5)); report(%s, \"C12\", r0 == r1 && r1 == 5, format!(\"{} {}\", r0, r1)); }") % (gen, dep, "{cid}")
            out.append(SCase("C12", "send/optout-accepts-non-send-future", lib=lib, run="lib"))
        elif kind == "output":
            lib = ("#[entrait(pub Tr)]\npub async fn f%s(%s, x: i64)%s { %s }\n"
                   "pub struct App; impl A for Impl<App> {}\n"
                   "pub fn client() { let app = Impl::new(App); let fut: std::pin::Pin<Box<dyn std::future::Future<Output = %s> + Send + '_>> = Box::pin(app.f(1)); }") % (gen, dep, arrow, val, rty)
            out.append(SCase("C12", "output/fn", lib=lib))
        elif kind == "trait_send":
            lib = ("#[entrait]\npub trait Tq { async fn m(&self, x: i64)%s; }\npub struct P; impl Tq for P { async fn m(&self, x: i64)%s { %s } }\n"
                   "pub fn client() { let app = Impl::new(P); let _fut = assert_send(app.m(1)); }") % (arrow, arrow, val)
            out.append(SCase("C12", "send/trait-default", lib=lib))
        elif kind == "trait_optout":
            lib = ("#[entrait(?Send)]\npub trait Tq { async fn m(&self, x: i64) -> i64; }\n"
                   "pub struct P; impl Tq for P { async fn m(&self, x: i64) -> i64 { let keep = std::rc::Rc::new(x); std::future::ready(()).await; *keep } }\n"
                   "pub fn run() { let app = Impl::new(P); let r1 = block_on(app.m(5)); report(%s, \"C12\", r1 == 5, format!(\"{}\", r1)); }") % "{cid}"
            out.append(SCase("C12", "send/trait-optout", lib=lib, run="lib"))
        else:
            lib = ("#[entrait]\npub trait Tq { async fn m(&self, x: i64)%s; }\npub struct P; impl Tq for P { async fn m(&self, x: i64)%s { %s } }\n"
                   "pub fn client() { let app = Impl::new(P); let fut: std::pin::Pin<Box<dyn std::future::Future<Output = %s> + Send + '_>> = Box::pin(app.m(1)); }") % (arrow, arrow, val, rty)
            out.append(SCase("C12", "output/trait", lib=lib))
    return out


# ------------------------------------------------------------------------------------------------ C14

def cases_c14(rng, n):
    out = []
    for i in range(n):
        kind = ["fn", "fn_async", "mod", "conc", "trait", "inversion", "nodeps", "fn_async_lt", "inversion_lt"][i % 9]
        r = rng.choice([0, 1, 2, 3])        # allocations made by the function itself
        work = "let mut acc = 0i64; for j in 0..%d { let b = Box::new(x + j); acc += *b; } acc" % r
        meas = ("let a0 = allocs(); let r0 = %s; let a1 = allocs(); let r1 = %s; let a2 = allocs();\n"
                "report({cid}, \"C14\", r0 == r1 && a1 - a0 == a2 - a1 && a1 - a0 == %d, format!(\"direct {} via trait {} expected %d\", a1 - a0, a2 - a1));") % ("%s", "%s", r, r)
        if kind == "fn":
            lib = ("#[entrait(pub Tr)]\npub fn f(deps: &impl A, x: i64) -> i64 { %s }\npub struct App; impl A for Impl<App> {}\n"
                   "pub fn run() { let app = Impl::new(App); %s }") % (work, meas % ("f(&app, 3)", "app.f(3)"))
        elif kind == "fn_async":
            lib = ("#[entrait(pub Tr)]\npub async fn f(deps: &impl A, x: i64) -> i64 { std::future::ready(()).await; %s }\npub struct App; impl A for Impl<App> {}\n"
                   "pub fn run() { let app = Impl::new(App); %s }") % (work, meas % ("block_on(f(&app, 3))", "block_on(app.f(3))"))
        elif kind == "mod":
            lib = ("#[entrait(pub Tr)]\npub mod m { use crate::*; pub fn g(deps: &impl A, x: i64) -> i64 { %s } pub async fn h<D: A>(deps: &D, x: i64) -> i64 { %s } }\n"
                   "pub struct App; impl A for Impl<App> {}\n"
                   "pub fn run() { let app = Impl::new(App); { %s } { %s } }") % (
                work, work, meas % ("m::g(&app, 3)", "app.g(3)"), meas % ("block_on(m::h(&app, 3))", "block_on(app.h(3))"))
        elif kind == "conc":
            asy = rng.random() < 0.5
            w = "block_on(%s)" if asy else "%s"
            lib = ("pub struct Conc;\n#[entrait(pub Tr)]\npub %sfn f(deps: &Conc, x: i64) -> i64 { %s }\n"
                   "pub fn run() { let app = Impl::new(Conc); %s }") % ("async " if asy else "", work, meas % (w % "f(&app, 3)", w % "app.f(3)"))
        elif kind == "trait":
            asy = rng.random() < 0.5
            w = "block_on(%s)" if asy else "%s"
            a = "async " if asy else ""
            lib = ("#[entrait]\npub trait Tq { %sfn m(&self, x: i64) -> i64; }\npub struct P; impl Tq for P { %sfn m(&self, x: i64) -> i64 { %s } }\n"
                   "pub fn run() { let app = Impl::new(P); %s }") % (a, a, work, meas % (w % "Tq::m(&*app, 3)", w % "app.m(3)"))
        elif kind == "inversion":
            asy = rng.random() < 0.5
            w = "block_on(%s)" if asy else "%s"
            a = "async " if asy else ""
            lib = ("#[entrait(TvImpl, delegate_by = DelegateTv)]\npub trait Tv { %sfn m(&self, x: i64) -> i64; }\npub struct X;\n"
                   "#[entrait]\nimpl TvImpl for X { pub %sfn m<D: A>(deps: &D, x: i64) -> i64 { %s } }\n"
                   "pub struct App; impl A for Impl<App> {} impl DelegateTv<App> for App { type Target = X; }\n"
                   "pub fn run() { let app = Impl::new(App); %s }") % (a, a, work, meas % (w % "X::m(&app, 3)", w % "app.m(3)"))
        elif kind == "fn_async_lt":
            # an explicit lifetime that occurs in the return type
            lib = ("#[entrait(pub Tr)]\npub async fn f<'t>(deps: &impl A, t: &'t [i64], x: i64) -> Option<&'t i64> { std::future::ready(()).await; let _ = { %s }; t.first() }\n"
                   "pub struct App; impl A for Impl<App> {}\n"
                   "pub fn run() { let app = Impl::new(App); let tab = [5i64, 6]; %s }") % (
                work, meas % ("block_on(f(&app, &tab, 3)).copied()", "block_on(app.f(&tab, 3)).copied()"))
        elif kind == "inversion_lt":
            lib = ("#[entrait(TvImpl, delegate_by = DelegateTv)]\npub trait Tv { async fn m<'t>(&self, t: &'t [i64], x: i64) -> Option<&'t i64>; }\npub struct X;\n"
                   "#[entrait]\nimpl TvImpl for X { pub async fn m<'t, D: A>(deps: &D, t: &'t [i64], x: i64) -> Option<&'t i64> { let _ = { %s }; t.first() } }\n"
                   "pub struct App; impl A for Impl<App> {} impl DelegateTv<App> for App { type Target = X; }\n"
                   "pub fn run() { let app = Impl::new(App); let tab = [5i64, 6]; %s }") % (
                work, meas % ("block_on(X::m(&app, &tab, 3)).copied()", "block_on(app.m(&tab, 3)).copied()"))
        else:
            lib = ("#[entrait(pub Tr, no_deps)]\npub fn f(x: i64) -> i64 { %s }\npub struct App;\n"
                   "pub fn run() { let app = Impl::new(App); %s }") % (work, meas % ("f(3)", "app.f(3)"))
        out.append(SCase("C14", "allocs/%s/%d" % (kind, r), lib=lib, run="lib"))
    return out


# ------------------------------------------------------------------------------------------------ C19

HOSTILE = ("pub struct Impl; pub struct Box; pub struct Pin; pub struct Option; pub struct Result; pub struct Sized;\n"
           "pub trait Send {} pub trait Sync {} pub trait Future {} pub trait AsRef {} pub trait Borrow {} pub trait Deref {}\n"
           "pub mod core {} pub mod std {} pub mod entrait {} pub mod marker {} pub mod future {} pub mod implementation {}\n"
           "pub fn drop() {} pub struct Self_; pub struct T; pub struct EntraitT_;")


def cases_c19(rng, n, nostd=False):
    out = []
    kinds = ["fn", "fn_async", "mod", "conc", "trait", "trait_ref", "trait_borrow", "inversion", "inversion_dyn", "named_send", "named_sync", "macro_rules", "macro_rules_trait",
             "macro_rules_fn_deps", "macro_rules_mod", "macro_rules_inversion"]
    for i in range(n):
        kind = kinds[i % len(kinds)]
        E = "::entrait::entrait"
        I = "::entrait::Impl"
        pre = "" if nostd else HOSTILE + "\n"
        A_ = "crate::A"
        cfg = "nostd" if nostd else "nontest"
        run = None
        if kind == "fn":
            lib = "#[%s(pub Tr)]\npub fn f(deps: &impl %s, x: i64) -> i64 { x + 1 }\npub struct App; impl %s for %s<App> {}\npub fn call() -> i64 { Tr::f(&%s::new(App), 4) }" % (E, A_, A_, I, I)
        elif kind == "fn_async":
            lib = "#[%s(pub Tr)]\npub async fn f(deps: &impl %s, x: i64) -> i64 { x + 1 }\npub struct App; impl %s for %s<App> {}\npub fn call() -> i64 { 5 }\npub fn fut() { let app = %s::new(App); let _f = Tr::f(&app, 4); }" % (E, A_, A_, I, I)
        elif kind == "mod":
            lib = "#[%s(pub Tr)]\npub mod m { pub fn g(deps: &impl crate::A, x: i64) -> i64 { x + 1 } pub fn h<D>(deps: &D) -> i64 { 0 } }\npub struct App; impl %s for %s<App> {}\npub fn call() -> i64 { Tr::g(&%s::new(App), 4) }" % (E, A_, I, I)
        elif kind == "conc":
            lib = "pub struct Conc;\n#[%s(pub Tr)]\npub fn f(deps: &Conc, x: i64) -> i64 { x + 1 }\npub fn call() -> i64 { Tr::f(&%s::new(Conc), 4) + Tr::f(&Conc, 4) - 5 }" % (E, I)
        elif kind == "trait":
            lib = "#[%s]\npub trait Tq { fn m(&self, x: i64) -> i64; }\npub struct P; impl Tq for P { fn m(&self, x: i64) -> i64 { x + 1 } }\npub fn call() -> i64 { Tq::m(&%s::new(P), 4) }" % (E, I)
        elif kind == "trait_ref":
            lib = ("#[%s(delegate_by = ref)]\npub trait Tq { fn m(&self, x: i64) -> i64; }\npub struct P; impl Tq for P { fn m(&self, x: i64) -> i64 { x + 1 } }\n"
                   "pub struct Ap { p: P } impl ::core::convert::AsRef<dyn Tq> for Ap { fn as_ref(&self) -> &(dyn Tq + 'static) { &self.p } }\n"
                   "pub fn call() -> i64 { Tq::m(&%s::new(Ap { p: P }), 4) }") % (E, I)
        elif kind == "trait_borrow":
            lib = ("#[%s(delegate_by = Borrow)]\npub trait Tq { fn m(&self, x: i64) -> i64; }\npub struct P; impl Tq for P { fn m(&self, x: i64) -> i64 { x + 1 } }\n"
                   "pub struct Ap { p: P } impl ::core::borrow::Borrow<dyn Tq> for Ap { fn borrow(&self) -> &(dyn Tq + 'static) { &self.p } }\n"
                   "pub fn call() -> i64 { Tq::m(&%s::new(Ap { p: P }), 4) }") % (E, I)
        elif kind == "inversion":
            lib = ("#[%s(TvImpl, delegate_by = DelegateTv)]\npub trait Tv { fn m(&self, x: i64) -> i64; }\npub struct X;\n"
                   "#[%s]\nimpl TvImpl for X { pub fn m<D>(deps: &D, x: i64) -> i64 { x + 1 } }\n"
                   "pub struct App; impl DelegateTv<App> for App { type Target = X; }\npub fn call() -> i64 { Tv::m(&%s::new(App), 4) }") % (E, E, I)
        elif kind == "inversion_dyn":
            lib = ("#[%s(TvImpl, delegate_by = ref)]\npub trait Tv { fn m(&self, x: i64) -> i64; }\npub struct X;\n"
                   "#[%s(ref)]\nimpl TvImpl for X { pub fn m<D>(deps: &D, x: i64) -> i64 { x + 1 } }\n"
                   "pub struct App { x: X } impl ::core::convert::AsRef<dyn TvImpl<App>> for App { fn as_ref(&self) -> &(dyn TvImpl<App> + 'static) { &self.x } }\n"
                   "pub fn call() -> i64 { Tv::m(&%s::new(App { x: X }), 4) }") % (E, E, I)
        elif kind == "macro_rules":
            # invoked from a macro_rules! macro: the trait name comes from the caller, a parameter is spelled in the macro body,
            # and the invoking scope has an item of that very name; the forwarded argument must still be the parameter
            pre = ""
            lib = ("macro_rules! lookup { ($Trait:ident, $name:ident) => {\n#[%s(pub $Trait, no_deps)]\npub fn $name(fallback: fn() -> i64) -> i64 { fallback() + 1 }\n} }\n"
                   "pub fn fallback() -> i64 { 70 }\npub fn four() -> i64 { 4 }\nlookup!(Tr, f);\npub struct App;\npub fn call() -> i64 { Tr::f(&%s::new(App), four) }") % (E, I)
        elif kind == "macro_rules_trait":
            # two distinct bindings both spelled `a` (one from the macro body, one from the caller): each must be forwarded as itself
            pre = ""
            lib = ("macro_rules! mk { ($rhs:ident) => {\n#[%s]\npub trait Tq { fn sub(&self, a: i64, $rhs: i64) -> i64; }\n"
                   "pub struct P; impl Tq for P { fn sub(&self, a: i64, $rhs: i64) -> i64 { a - $rhs } }\n} }\nmk!(a);\n"
                   "pub fn call() -> i64 { Tq::sub(&%s::new(P), 7, 2) }") % (E, I)
        elif kind == "macro_rules_fn_deps":
            # a parameter name supplied by the caller that is also the name of an item in the invoking scope
            pre = ""
            lib = ("macro_rules! mk { ($f:ident, $x:ident) => {\n#[%s(pub Tr)]\npub fn $f(deps: &impl %s, $x: i64, y: i64) -> i64 { deps.a() - 2 + $x * 10 - y * 10 }\n} }\n"
                   "pub fn y() -> i64 { 1000 }\nmk!(f, y);\npub struct App; impl %s for %s<App> {}\npub fn call() -> i64 { Tr::f(&%s::new(App), 2, 2) }") % (E, A_, A_, I, I)
        elif kind == "macro_rules_mod":
            # two functions of a module whose parameter lists contain the same spelling twice, once from the caller
            pre = ""
            lib = ("macro_rules! mk { ($p:ident) => {\n#[%s(pub Tr)]\npub mod m { pub fn g0(deps: &impl crate::A, $p: i64, q: i64) -> i64 { $p - q } "
                   "pub fn g1(deps: &impl crate::A, q: i64, $p: i64) -> i64 { q - $p } }\n} }\nmk!(q);\n"
                   "pub struct App; impl %s for %s<App> {}\npub fn call() -> i64 { let app = %s::new(App); Tr::g0(&app, 9, 4) + Tr::g1(&app, 9, 9) }") % (E, A_, I, I)
        elif kind == "macro_rules_inversion":
            pre = ""
            lib = ("macro_rules! mk { ($p:ident) => {\n#[%s(TvImpl, delegate_by = DelegateTv)]\npub trait Tv { fn m(&self, a: i64, $p: i64) -> i64; }\npub struct X;\n"
                   "#[%s]\nimpl TvImpl for X { pub fn m<D>(deps: &D, a: i64, $p: i64) -> i64 { a * 3 - $p } }\n"
                   "pub struct App; impl DelegateTv<App> for App { type Target = X; }\n} }\nmk!(a);\n"
                   "pub fn call() -> i64 { Tv::m(&%s::new(App), 3, 4) }") % (E, E, I)
        elif kind == "named_send":
            pre = ""
            lib = "#[%s(pub Send)]\npub fn send(deps: &impl %s, x: i64) -> i64 { x + 1 }\npub struct App; impl %s for %s<App> {}\npub fn call() -> i64 { Send::send(&%s::new(App), 4) }" % (E, A_, A_, I, I)
        else:
            pre = ""
            lib = "#[%s(pub Sync)]\npub async fn sync(deps: &impl %s, x: i64) -> i64 { x + 1 }\npub struct App; impl %s for %s<App> {}\npub fn call() -> i64 { 5 }\npub fn fut() { let app = %s::new(App); let _f = Sync::sync(&app, 4); }" % (E, A_, A_, I, I)
        if not nostd:
            lib += "\npub fn run() { let r = call(); crate::report({cid}, \"C19\", r == 5, ::std::format!(\"{}\", r)); }"
            run = "lib"
        c = SCase("C19", ("nostd/" if nostd else "hostile/") + kind, lib=pre + lib, run=run, cfg=cfg)
        c.no_glob = True
        out.append(c)
        if kind.startswith("macro_rules") and not nostd:
            # the same programs decide C16's "forwards them positionally": parameter names that reach the macro with the hygiene of a
            # macro_rules! body must be forwarded as the parameters they declare (span-level: invisible to the token-level tie)
            c16 = SCase("C16", "hygiene/" + kind, lib=(pre + lib).replace('"C19"', '"C16"'), run=run, cfg=cfg)
            c16.no_glob = True
            out.append(c16)
    return out


# ------------------------------------------------------------------------------------------------ C10

def cases_c10(rng, n):
    """mock types exist exactly in the builds the property says: (mockall | unimock) x (export or not) x (cfg(test) or not)"""
    out = []
    combos = []
    for form in ("fn", "mod", "trait"):
        for mock in ("mockall", "unimock", "unimock_false", "none", "mockall_false"):
            for export in (("no", "option", "variant", "export_false") if form != "trait" else ("no", "variant")):
                for cfg in ("test", "nontest"):
                    combos.append((form, mock, export, cfg))
    rng.shuffle(combos)
    for form, mock, export, cfg in combos[:n]:
        macro = "entrait_export" if export == "variant" else "entrait"
        opts = []
        if mock == "mockall":
            opts.append("mockall")
        elif mock == "mockall_false":
            opts.append("mockall = false")
        elif mock == "unimock":
            opts.append("mock_api = FooMock")        # the crate feature `unimock` is on in this probe
        elif mock == "unimock_false":
            opts += ["mock_api = FooMock", "unimock = false"]
        if export == "option":
            opts.append("export")
        elif export == "export_false":
            opts.append("export = false")
        exporting = export in ("option", "variant")
        tvis = rng.choice(["pub ", "pub ", "pub(crate) ", "", "pub(in crate) "])     # the trait's visibility must not matter
        if form == "fn":
            inv = "#[%s(%s)]\npub fn foo<D>(deps: &D, x: i64) -> i64 { x }" % (macro, ", ".join([tvis + "Foo"] + opts))
        elif form == "mod":
            inv = "#[%s(%s)]\npub mod m { use crate::*; pub fn foo<D>(deps: &D, x: i64) -> i64 { x } }" % (macro, ", ".join([tvis + "Foo"] + opts))
        else:
            inv = "#[%s(%s)]\npub trait Foo { fn foo(&self, x: i64) -> i64; }" % (macro, ", ".join(opts))
        if mock in ("mockall", "mockall_false", "none"):
            probe = "pub fn probe() { let _m = %sMockFoo::new(); }" % ("m::" if form == "mod" else "")
            present = mock == "mockall" and (exporting or cfg == "test")
        else:
            probe = "pub fn probe() { let _k = %s; }" % {"fn": "FooMock", "mod": "m::FooMock::foo", "trait": "FooMock::foo"}[form]
            present = mock == "unimock" and (exporting or cfg == "test")
        fam = "mock/%s/%s/export=%s/%s" % (form, mock, export, cfg)
        if present:
            out.append(SCase("C10", fam, lib=inv + "\n" + probe, cfg=cfg))
        else:
            out.append(SCase("C10", fam, lib=inv, lib_neg=probe, cfg=cfg))
    return out


# ------------------------------------------------------------------------------------------------ C11

def cases_c11(rng, n):
    out = []
    kinds = ["fn_mocked", "fn_unmocked", "nodeps_unmocked", "conc_not_unmockable", "mod_mocked", "mod_unmocked", "trait_mocked", "trait_not_unmockable",
             "mod_cfg_unmocked"]
    for i in range(n):
        kind = kinds[i % len(kinds)]
        k = rng.choice([1, 2, 3])
        ps = ["p%d: i64" % j for j in range(k)]
        args = [str(11 * (j + 1)) for j in range(k)]
        val = " + ".join("p%d * %d" % (j, 3 ** (j + 1)) for j in range(k))
        expect = sum(11 * (j + 1) * 3 ** (j + 1) for j in range(k))
        al, pl = ", ".join(args), ", ".join(ps)
        U = "::unimock"
        if kind == "fn_mocked":
            lib = ("#[entrait_export(pub Foo, mock_api = FooMock)]\npub fn foo<D>(deps: &D, %s) -> i64 { %s }\n"
                   "pub fn run() { use unimock::*; let u = Unimock::new(FooMock.each_call(matching!(%s)).returns(77i64)); let r = u.foo(%s);\n"
                   "report({cid}, \"C11\", r == 77, format!(\"{}\", r)); }") % (pl, val, al, al)
        elif kind == "fn_unmocked":
            lib = ("#[entrait_export(pub Foo, mock_api = FooMock)]\npub fn foo<D>(deps: &D, %s) -> i64 { rec(format!(\"foo@{}\", addr(deps))); %s }\n"
                   "pub fn run() { use unimock::*; let u = Unimock::new_partial(()); let r = u.foo(%s); let t = take();\n"
                   "let app = Impl::new(()); let r2 = app.foo(%s); let _ = take();\n"
                   "report({cid}, \"C11\", r == %d && r2 == r && t == vec![format!(\"foo@{}\", addr(&u))], format!(\"{} {} {:?}\", r, r2, t)); }") % (pl, val, al, al, expect)
        elif kind == "nodeps_unmocked":
            lib = ("#[entrait_export(pub Foo, no_deps, mock_api = FooMock)]\npub fn foo(%s) -> i64 { rec(format!(\"foo\")); %s }\n"
                   "pub fn run() { use unimock::*; let u = Unimock::new_partial(()); let r = u.foo(%s); let t = take();\n"
                   "report({cid}, \"C11\", r == %d && t.len() == 1, format!(\"{} {:?}\", r, t)); }") % (pl, val, al, expect)
        elif kind == "conc_not_unmockable":
            lib = ("pub struct Conc;\n#[entrait_export(pub Foo, mock_api = FooMock)]\npub fn foo(deps: &Conc, %s) -> i64 { %s }\n"
                   "pub fn run() { use unimock::*; let r = std::panic::catch_unwind(|| { let u = Unimock::new_partial(()); let r = u.foo(%s); std::mem::forget(u); r });\n"
                   "let u = Unimock::new(FooMock.each_call(matching!(%s)).returns(5i64)); let r2 = u.foo(%s);\n"
                   "report({cid}, \"C11\", r.is_err() && r2 == 5, format!(\"{:?} {}\", r.is_err(), r2)); }") % (pl, val, al, al, al)
        elif kind == "mod_mocked":
            lib = ("#[entrait_export(pub Foo, mock_api = FooMock)]\npub mod m { pub fn g0<D>(deps: &D, %s) -> i64 { 1 } pub fn g1<D>(deps: &D, %s) -> i64 { 2 } }\n"
                   "pub fn run() { use unimock::*; let u = Unimock::new((m::FooMock::g0.each_call(matching!(%s)).returns(70i64), m::FooMock::g1.each_call(matching!(%s)).returns(71i64)));\n"
                   "let r0 = u.g0(%s); let r1 = u.g1(%s); report({cid}, \"C11\", r0 == 70 && r1 == 71, format!(\"{} {}\", r0, r1)); }") % (pl, pl, al, al, al, al)
        elif kind == "mod_unmocked":
            lib = ("#[entrait_export(pub Foo, mock_api = FooMock)]\npub mod m { pub fn g0<D>(deps: &D, %s) -> i64 { 1000 + %s } pub fn g1<D>(deps: &D, %s) -> i64 { 2000 + %s } }\n"
                   "pub fn run() { use unimock::*; let u = Unimock::new_partial(()); let r0 = u.g0(%s); let r1 = u.g1(%s);\n"
                   "report({cid}, \"C11\", r0 == 1000 + %d && r1 == 2000 + %d, format!(\"{} {}\", r0, r1)); }") % (pl, val, pl, val, al, al, expect, expect)
        elif kind == "mod_cfg_unmocked":
            # functions of one signature, some behind a (true) cfg: every un-mocked method must still reach the function of its own name
            names = ["g%d" % j for j in range(rng.choice([3, 4, 6]))]
            gated = set(rng.sample(names[:-1], rng.choice([1, 2])))
            fns = " ".join("%spub fn %s<D>(deps: &D, %s) -> i64 { %d + %s }" % ("#[cfg(not(any()))] " if nm in gated else "", nm, pl, 1000 * (j + 1), val)
                           for j, nm in enumerate(names))
            calls = " ".join("ok &= u.%s(%s) == %d; ok &= app.%s(%s) == %d;" % (nm, al, 1000 * (j + 1) + expect, nm, al, 1000 * (j + 1) + expect) for j, nm in enumerate(names))
            lib = ("#[entrait_export(pub Foo, mock_api = FooMock)]\npub mod m { %s }\n"
                   "pub fn run() { use unimock::*; let u = Unimock::new_partial(()); let app = Impl::new(()); let mut ok = true; %s\n"
                   "report({cid}, \"C11\", ok, format!(\"gated {}\", \"%s\")); }") % (fns, calls, ",".join(sorted(gated)))
        elif kind == "trait_mocked":
            lib = ("#[entrait_export(mock_api = TqMock)]\npub trait Tq { fn m0(&self, %s) -> i64; fn m1(&self, %s) -> i64; }\n"
                   "pub fn run() { use unimock::*; let u = Unimock::new((TqMock::m0.each_call(matching!(%s)).returns(70i64), TqMock::m1.each_call(matching!(%s)).returns(71i64)));\n"
                   "let r0 = u.m0(%s); let r1 = u.m1(%s); report({cid}, \"C11\", r0 == 70 && r1 == 71, format!(\"{} {}\", r0, r1)); }") % (pl, pl, al, al, al, al)
        else:
            lib = ("#[entrait_export(mock_api = TqMock)]\npub trait Tq { fn m0(&self, %s) -> i64; }\n"
                   "pub fn run() { use unimock::*; let r = std::panic::catch_unwind(|| { let u = Unimock::new_partial(()); let r = u.m0(%s); std::mem::forget(u); r });\n"
                   "report({cid}, \"C11\", r.is_err(), format!(\"{:?}\", r.is_err())); }") % (pl, al)
        out.append(SCase("C11", "unimock/" + kind + "/%d" % k, lib=lib, run="lib"))
    return out


# ------------------------------------------------------------------------------------------------ C17: the `debug` option
# `debug` changes no token: its only effect is that the macro prints the expansion while compiling. Bare `debug` = `debug = true`,
# `debug = false` = omitted, on every target that accepts it. Uniquely named items, one cargo check, stdout searched for the names.

def debug_probe(root, env):
    crate = os.path.join(root, "crate_debug")
    if os.path.exists(crate):
        shutil.rmtree(crate)
    os.makedirs(os.path.join(crate, "src"))
    with open(os.path.join(crate, "Cargo.toml"), "w") as fh:
        fh.write('[package]\nname = "dprobe"\nversion = "0.0.0"\nedition = "2021"\n\n[dependencies]\nentrait = { path = "%s" }\n\n[workspace]\n' % REPO)
    shutil.copy(os.path.join(REPO, "Cargo.lock"), os.path.join(crate, "Cargo.lock"))
    settings = [("none", None, False), ("bare", "debug", True), ("true", "debug = true", True), ("false", "debug = false", False),
                ("false_then_bare", "debug = false, debug", True), ("bare_then_false", "debug, debug = false", False)]
    lines = ["#![allow(warnings)]", "use ::entrait::entrait;", "pub trait A {}", "pub struct Ty;"]
    expect = {}
    for tgt in ("fn", "mod", "trait", "impl"):
        for tag, opt, printed in settings:
            name = "Dbg%s%sQ" % (tgt.capitalize(), "".join(w.capitalize() for w in tag.split("_")))
            expect[name] = (tgt, opt, printed)
            o = (", " + opt) if opt else ""
            if tgt == "fn":
                lines.append("#[entrait(%s%s)] fn f_%s(deps: &impl A) {}" % (name, o, name.lower()))
            elif tgt == "mod":
                lines.append("#[entrait(%s%s)] mod m_%s { pub fn g(deps: &impl super::A) {} }" % (name, o, name.lower()))
            elif tgt == "trait":
                lines.append("#[entrait(%s)] trait %s { fn m(&self); }" % (opt or "", name))
            else:
                lines.append("#[entrait(%sImplSrc, delegate_by = Delegate%s)] trait %sSrc { fn m(&self); }" % (name, name, name))
                lines.append("pub struct Ty%s; #[entrait(%s)] impl %sImplSrc for Ty%s { fn m<D>(deps: &D) {} }" % (name, opt or "", name, name))
                expect[name] = (tgt, opt, printed)
    with open(os.path.join(crate, "src", "lib.rs"), "w") as fh:
        fh.write("\n".join(lines) + "\n")
    import subprocess
    e = dict(os.environ)
    e.update({"CARGO_NET_OFFLINE": "true"})
    e.update(env)
    p = subprocess.run(["cargo", "check", "--offline", "-j", "16"], cwd=crate, env=e, stdout=subprocess.PIPE, stderr=subprocess.PIPE, text=True, timeout=3000)
    log("[sprobe] debug probe: rc=%d" % p.returncode)
    res = []
    for name, (tgt, opt, printed) in expect.items():
        key = name + "ImplSrc" if tgt == "impl" else name
        # the impl-block expansion names the implemented trait `<Name>ImplSrc<EntraitT>`; the entraited source trait of it prints nothing (no debug on it)
        seen = (key + " <") in p.stdout or (key + "<") in p.stdout or ("trait " + key) in p.stdout or (" " + key + " ") in p.stdout
        res.append({"name": name, "target": tgt, "option": opt, "must_print": printed, "printed": seen,
                    "ok": p.returncode == 0 and seen == printed})
    shutil.rmtree(crate, ignore_errors=True)
    return res, p.returncode, p.stderr[-1500:] if p.returncode != 0 else ""


# ------------------------------------------------------------------------------------------------ assembly

def cases_c17():
    """option values that reach the macro through macro_rules! fragments (`$v:literal`, `$v:expr`: invisible groups around the
    `true` / `false`) mean what the same values written by hand mean"""
    out = []
    for i, (frag_nd, frag_ex, nd, ex) in enumerate([("literal", "literal", "true", "false"), ("expr", "literal", "true", "true"),
                                                    ("literal", "expr", "false", "false"), ("expr", "expr", "false", "true")]):
        dep = "" if nd == "true" else "deps: &impl A, "
        call0 = "f(%s41)" % ("" if nd == "true" else "&app, ")
        lib = ("macro_rules! svc { ($nd:%s, $ex:%s) => { #[entrait(pub Tr, no_deps = $nd, export = $ex)] pub fn f(%sx: i64) -> i64 { x + 1 } } }\n"
               "svc!(%s, %s);\npub mod hand { use crate::*; #[entrait(pub Tr, no_deps = %s, export = %s)] pub fn f(%sx: i64) -> i64 { x + 1 } }\n"
               "pub struct App; impl A for Impl<App> {}\n"
               "pub fn run() { let app = Impl::new(App); let r0 = %s; let r1 = Tr::f(&app, 41); let r2 = hand::Tr::f(&app, 41); "
               "report({cid}, \"C17\", r0 == 42 && r1 == 42 && r2 == 42, format!(\"{} {} {}\", r0, r1, r2)); }") % (
            frag_nd, frag_ex, dep, nd, ex, nd, ex, dep, call0)
        out.append(SCase("C17", "fragment-values/%s-%s" % (frag_nd, frag_ex), lib=lib, run="lib"))
    return out


def build_cases(seed, tier):
    rng = random.Random(seed * 389 + 11)
    k = 3 if tier == "thorough" else 1
    cases = []
    cases += cases_c04(rng, 70 * k)
    cases += cases_c05(rng, 12 * k)
    cases += cases_c06(rng, 36 * k)
    cases += cases_c13(rng, 72 * k)
    cases += cases_c12(rng, 21 * k)
    cases += cases_c14(rng, 27 * k)
    cases += cases_c19(rng, 16 * k)
    cases += cases_c19(rng, 16, nostd=True)
    cases += cases_c10(rng, 60 * k)
    cases += cases_c11(rng, 27 * k)
    cases += cases_c17()
    for i, c in enumerate(cases):
        c.cid = i
        if c.prop == "C13":
            finish_c13(c)
        for f in ("lib", "lib_neg", "bin", "bin_neg"):
            v = getattr(c, f)
            if v:
                setattr(c, f, v.replace("{cid}", str(i)))
    return cases


class Build:
    def __init__(self, name, crate, cmd, cfgs, files):
        self.name, self.crate, self.cmd, self.cfgs, self.files = name, crate, cmd, cfgs, files


def wrap(c, body, top):
    glob = "" if getattr(c, "no_glob", False) else "use crate::*; "
    return "pub mod k%d { %s\n%s\n}" % (c.cid, glob, body) if top == "lib" else "pub mod k%d {\n%s\n}" % (c.cid, body)


def assemble(cases, live_pos, live_neg, cfgs, nostd=False):
    """returns {file: text}, ranges [(file, a, b, cid, part)]"""
    files = {"src/lib.rs": (NOSTD_PRELUDE if nostd else LIB_PRELUDE).rstrip("\n").split("\n")}
    if not nostd:
        files["src/main.rs"] = BIN_PRELUDE.rstrip("\n").split("\n")
    ranges = []
    runs = []
    for c in cases:
        if c.cfg not in cfgs or c.cid not in live_pos:
            continue
        gate = {"test": "#[cfg(test)]", "nontest": "#[cfg(not(test))]", "nostd": ""}[c.cfg]
        neg_on = c.cid in live_neg
        # lib side
        L = files["src/lib.rs"]
        body_lines = c.lib.split("\n") if c.lib else []
        inline = getattr(c, "neg_inline", None)
        if gate:
            L.append(gate)
        L.append("pub mod k%d { %s" % (c.cid, "" if getattr(c, "no_glob", False) else "use crate::*;"))
        start = len(L) + 1
        for ln in body_lines:
            if ln.strip() == "/*NEG*/":
                if inline and neg_on:
                    a = len(L) + 1
                    L.extend(inline.split("\n"))
                    ranges.append(("src/lib.rs", a, len(L), c.cid, "neg"))
                continue
            L.append(ln)
        # positive ranges = everything in the module that is not a neg range (resolved at attribution time)
        if c.lib_neg and neg_on:
            a = len(L) + 1
            L.extend(c.lib_neg.split("\n"))
            ranges.append(("src/lib.rs", a, len(L), c.cid, "neg"))
        L.append("}")
        ranges.append(("src/lib.rs", start - 1, len(L), c.cid, "pos"))
        if not nostd and (c.bin or (c.bin_neg and neg_on)):
            M = files["src/main.rs"]
            M.append("pub mod k%d {" % c.cid)
            s0 = len(M)
            if c.bin:
                M.extend(c.bin.split("\n"))
            if c.bin_neg and neg_on:
                a = len(M) + 1
                M.extend(c.bin_neg.split("\n"))
                ranges.append(("src/main.rs", a, len(M), c.cid, "neg"))
            M.append("}")
            ranges.append(("src/main.rs", s0, len(M), c.cid, "pos"))
        if c.runs == "lib":
            runs.append("sprobe::k%d::run();" % c.cid)
    if not nostd:
        files["src/main.rs"] += ["fn main() {"] + ["    " + r for r in runs] + ["}"]
    return {f: "\n".join(ls) + "\n" for f, ls in files.items()}, ranges


def attribute(outb, ranges):
    """compiler errors -> [(cid, part, code, message)]; unattributed errors are returned with cid None"""
    hits = []
    for line in outb.split("\n"):
        if not line.startswith("{"):
            continue
        try:
            m = json.loads(line)
        except json.JSONDecodeError:
            continue
        if m.get("reason") != "compiler-message" or m["message"].get("level") != "error":
            continue
        msg = m["message"]
        if msg.get("message", "").startswith("aborting due to") or msg.get("message", "").startswith("could not compile"):
            continue
        loc = None
        for sp in [x for x in msg.get("spans", []) if x.get("is_primary")] or msg.get("spans", []):
            e = sp
            while e is not None and loc is None:
                fn = e.get("file_name", "")
                if fn.endswith("src/lib.rs") or fn.endswith("src/main.rs"):
                    loc = ("src/" + os.path.basename(fn), e["line_start"])
                e = (e.get("expansion") or {}).get("span")
            if loc is not None:
                break
        code = (msg.get("code") or {}).get("code")
        text = msg.get("message", "")[:200]
        found = None
        if loc:
            cands = [r for r in ranges if r[0] == loc[0] and r[1] <= loc[1] <= r[2]]
            negs = [r for r in cands if r[4] == "neg"]
            pick = negs[0] if negs else (cands[0] if cands else None)
            if pick:
                found = (pick[3], pick[4], code, text)
        hits.append(found or (None, None, code, text + " @ %s" % (loc,)))
    return hits


def write_crate(crate, files, nostd=False):
    if os.path.exists(crate):
        shutil.rmtree(crate)
    os.makedirs(os.path.join(crate, "src"))
    with open(os.path.join(crate, "Cargo.toml"), "w") as fh:
        if nostd:
            fh.write('[package]\nname = "sprobe_nostd"\nversion = "0.0.0"\nedition = "2021"\n\n[dependencies]\n'
                     'entrait = { path = "%s" }\n\n[workspace]\n' % REPO)
        else:
            fh.write('[package]\nname = "sprobe"\nversion = "0.0.0"\nedition = "2021"\n\n[dependencies]\n'
                     'entrait = { path = "%s", features = ["unimock"] }\nunimock = "0.6"\nmockall = "0.12"\n\n[workspace]\n' % REPO)
    shutil.copy(os.path.join(REPO, "Cargo.lock"), os.path.join(crate, "Cargo.lock"))
    for f, text in files.items():
        with open(os.path.join(crate, f), "w") as fh:
            fh.write(text)


def sem_probe(seed, tier):
    key = sha(repo_tree_hash(), hash_files([os.path.abspath(__file__)]), str(seed), tier)[:20]
    root = os.path.join(WORK, "sprobe", key)
    done = os.path.join(root, "result.json")
    if os.path.exists(done):
        return json.load(open(done))
    base = os.path.join(WORK, "sprobe")
    if os.path.isdir(base):
        for d in os.listdir(base):
            if d != key:
                shutil.rmtree(os.path.join(base, d), ignore_errors=True)
    cases = build_cases(seed, tier)
    byid = {c.cid: c for c in cases}
    env = {"RUSTFLAGS": "--cfg %s --cap-lints allow" % GUARD, "CARGO_TARGET_DIR": os.path.join(WORK, "target-sprobe"), "CARGO_INCREMENTAL": "0"}
    results = {}
    live_pos = set(byid)                                   # cases whose accepted part is still in the crate
    live_neg = {c.cid for c in cases if c.lib_neg or c.bin_neg or getattr(c, "neg_inline", None)}
    rejected_neg = {}                                      # cid -> diagnostics (the expected outcome)
    failed_pos = {}                                        # cid -> diagnostics (the accepted part does not compile)
    unattributed = []
    builds = [
        ("nontest", os.path.join(root, "crate"), ["cargo", "build", "--offline", "--message-format=json", "-j", "16"], ("nontest",), False),
        ("test", os.path.join(root, "crate"), ["cargo", "check", "--lib", "--profile", "test", "--offline", "--message-format=json", "-j", "16"], ("test", "nontest"), False),
        ("nostd", os.path.join(root, "crate_nostd"), ["cargo", "check", "--offline", "--message-format=json", "-j", "16"], ("nostd",), True),
    ]
    run_out, run_rc = "", None
    stuck = set()
    for name, crate, cmd, cfgs, nostd in builds:
        clean = False
        for rnd in range(12):
            files, ranges = assemble(cases, live_pos, live_neg, cfgs, nostd)
            write_crate(crate, files, nostd)
            rcb, outb, dtb = run(cmd, cwd=crate, env=env, timeout=3000)
            log("[sprobe] %s round %d: rc=%d %.1fs" % (name, rnd + 1, rcb, dtb))
            if rcb == 0:
                clean = True
                break
            hits = attribute(outb, ranges)
            progress = 0
            for cid, part, code, text in hits:
                if cid is None:
                    unattributed.append((name, code, text))
                    continue
                if part == "neg":
                    if cid in live_neg:
                        progress += 1
                    live_neg.discard(cid)
                    rejected_neg.setdefault(cid, []).append((code, text))
                else:
                    if cid in live_pos:
                        progress += 1
                    live_pos.discard(cid)
                    live_neg.discard(cid)
                    failed_pos.setdefault(cid, []).append((code, text))
            if progress == 0:
                log("[sprobe] %s: build fails with no attributable error" % name)
                log(outb[-3000:])
                stuck.add(name)
                break
        if clean and name == "nontest":
            run_rc, run_out, dt = run(["cargo", "run", "--offline", "-q", "-j", "16"], cwd=crate, env=env, timeout=3000)
            log("[sprobe] cargo run: rc=%d %.1fs" % (run_rc, dt))
    reported = {}
    for line in run_out.split("\n"):
        if line.startswith("CASE "):
            parts = line.split(" ", 4)
            reported.setdefault(int(parts[1]), []).append((parts[3] == "OK", parts[4] if len(parts) > 4 else ""))
    cfg_build = {"nontest": "nontest", "test": "test", "nostd": "nostd"}
    for c in cases:
        if cfg_build[c.cfg] in stuck:
            continue                                        # undecided: reported as machinery trouble below
        expect_reject = bool(c.lib_neg or c.bin_neg or getattr(c, "neg_inline", None))
        if c.cid in failed_pos:
            results[c.cid] = {"prop": c.prop, "ok": False, "detail": "rustc rejects a program that must compile: %s" % (failed_pos[c.cid][:3],)}
        elif expect_reject and c.cid not in rejected_neg:
            results[c.cid] = {"prop": c.prop, "ok": False, "detail": "rustc ACCEPTS a client that must be rejected"}
        elif c.runs and c.cfg == "nontest":
            rep = reported.get(c.cid)
            if not rep:
                results[c.cid] = {"prop": c.prop, "ok": False, "detail": "no report from the run (rc=%s): %s" % (run_rc, run_out[-300:])}
            else:
                results[c.cid] = {"prop": c.prop, "ok": all(o for o, _ in rep), "detail": " ; ".join(d for _, d in rep)[:400]}
        else:
            results[c.cid] = {"prop": c.prop, "ok": True,
                              "detail": ("rejected: %s" % (rejected_neg[c.cid][0],)) if expect_reject else "compiles"}
    # C17: the `debug` option (its only effect is a print while compiling)
    dres, drc, derr = debug_probe(root, env)
    descrs = [c.descr() for c in cases]
    for d in dres:
        cid = len(descrs)
        descrs.append({"cid": cid, "prop": "C17", "family": "debug/%s/%s" % (d["target"], d["option"] or "none"), "cfg": "nontest", "note": "",
                       "lib": "#[entrait(%s)] on a %s named %s" % (d["option"] or "", d["target"], d["name"]), "lib_neg": None, "bin": "", "bin_neg": None,
                       "expect": "accept"})
        results[cid] = {"prop": "C17", "ok": d["ok"],
                        "detail": ("the expansion %s printed while compiling, but `%s` on a %s must %sprint it%s" % (
                            "was" if d["printed"] else "was not", d["option"] or "no debug option", d["target"], "" if d["must_print"] else "not ",
                            "" if drc == 0 else "; the probe crate did not compile: " + derr[-300:])) if not d["ok"] else "printed as expected"}
    res = {"key": key, "cases": descrs, "results": {str(k): v for k, v in results.items()},
           "stuck": sorted(stuck), "unattributed": unattributed[:20], "run_rc": run_rc,
           "counts": {"accept": sum(1 for c in cases if c.descr()["expect"] == "accept"),
                      "reject": sum(1 for c in cases if c.descr()["expect"] == "reject")}}
    os.makedirs(root, exist_ok=True)
    with open(done, "w") as fh:
        json.dump(res, fh)
    for _, crate, _, _, _ in builds:
        shutil.rmtree(crate, ignore_errors=True)
    return res


if __name__ == "__main__":
    import sys
    r = sem_probe(int(sys.argv[1]) if len(sys.argv) > 1 else 1, sys.argv[2] if len(sys.argv) > 2 else "quick")
    bad = {k: v for k, v in r["results"].items() if not v["ok"]}
    print("cases", len(r["cases"]), r["counts"], "results", len(r["results"]), "fail", len(bad), "stuck", r["stuck"])
    fam = {c["cid"]: c for c in r["cases"]}
    for k, v in list(bad.items())[:60]:
        print(k, fam[int(k)]["prop"], fam[int(k)]["family"], v["detail"][:300])
    for u in r["unattributed"][:10]:
        print("UNATTRIBUTED", u)
