"""Regenerates /verif/MANIFEST.json: a property is claimed once its theorem file coq/Properties/<id>.v exists."""
import json
import os
import sys

HERE = os.path.dirname(os.path.abspath(__file__))
VERIF = os.path.dirname(HERE)
sys.path.insert(0, HERE)
from verdict import RULES  # noqa: E402

LEVEL_TEXT = {
    "C01": "Theorems (all inputs of the model): the generated impl has one method per source fn, each body is `f([self,] own params in order)[.await]`, and under the C16 conditions its evaluation in the mini-semantics is exactly one call of f with that receiver and the arguments in declared order. Tie: token-exact correspondence with the real macro on the corpus + predicate on the implementation's output.",
    "C02": "Theorems: the token-level module/impl splitter is lossless (any token sequence inside unknown items and fn bodies survives) and the fn/mod/impl expansion starts with / embeds the source tokens, outside the known printer-normalisation class. Tie: pure token comparison of recorded input vs output; macro_rules-written functions and modules (expr / block / ty fragments: invisible groups) compiled and run by the run probe.",
    "C03": "Partial: theorems cover the macro's obligations on the emitted signature (types, receiver, qualifiers, lifetimes, no parameter declared twice, every bound of a where predicate on the dependency carried to `Self:` under that predicate's `for<..>` binder); rustc acceptance itself is sampled by compiling the clean corpus (compile probe; seven recorded findings F3, F22, F24, F26-F29 announced with their witnesses); under the per-record field check of coq/Tie.v the bound lists and classifications the theorems speak about are the predicate's own tokens (c03_bounds_are_the_predicates_own_tokens).",
    "C04": "Theorems (token level): impl header = EntraitT: Sync [+ Send iff some receiver is by value] + 'static, self type by mock setting and the mock derivations on the trait exactly when the impl is restricted to Impl<T> (the mock types get their impls from them), `Self: <exactly the declared bounds, in order>` (none when none declared). That rustc applies such an impl exactly to the types satisfying those bounds is assumption S3, probed on every run (harness/sem_probe.py: accept/reject clients per bound placement, receiver order, Sync/Send/'static). Tie: header projection, token-exact.",
    "C05": "Theorems: concrete deps yield the leaf-trait shape (impl for C calling the fn; nested entrait invocation on the trait) and the composed (nested) expansion forwards Impl<T> to T (by value through into_inner for by-value receivers). Tie: nested record linked to the outer one; run-time differential clients (incl. a dependency type that arrives as a macro_rules `ty` fragment) and availability probes (Impl<C>, hand-written Other, Impl<Nope> rejected).",
    "C06": "Theorems: Impl<T> forwards every method once to the provider selected by delegate_by with the method's own parameters in order (mini-semantics of the forwarding body, Sem2), bound on T as selected. Tie: impl projection; run-time differential clients; accept/reject availability probes (provider / none / wrong way / not Sync / typed receiver).",
    "C07": "Theorems: delegation-target / selector trait shapes and the static/dynamic call shapes; impl blocks call `Self::m(__impl, ..)`. Tie: projection on both sides.",
    "C08": "Theorems over every body token list: the trait's methods are exactly the splitter's visible fns with body, in order, and for bodies that are sequences of well-delimited items the chunks are those items; the trait is re-exported beside the module with the requested visibility and denotes the scope it would have if declared there (Vis.v). Tie: method list vs syn's item parser and the generator's ground truth; visibility projection. A macro_rules-written module / impl block whose function bodies are `block` fragments (None-delimited groups, which the recorder cannot carry) is compiled and run by the run probe (F30, repaired).",
    "C09": "Theorem outside the known class (unsafe/auto/associated types/default bodies): the emitted trait is the input trait modulo the async rewrite and added mock attributes; refutation witnesses for the class. Tie: structural diff.",
    "C10": "Theorems for every item and the full option lattice: mock attributes present iff enabled, gated iff not exporting, explicit false wins in every variant; read in a build (Cfg.v): a derivation is in effect iff enabled and (exporting or cfg(test)). Tie: attribute projection; test / non-test builds probed (mock item exists exactly where the property says).",
    "C11": "Theorems: unimock attribute arguments (prefix, api shape, one unmock entry per method by dependency kind, in method order). unimock's own behaviour is assumed (U1) and exercised at run time by the probe (mocked by name, argument order, partial mocks reach the real function, concrete deps / traits not un-mockable). Tie: attribute projection.",
    "C12": "Theorems: async rewrite to `impl ::core::future::Future<Output = R> [+ ::core::marker::Send]`, Send iff not ?Send, impl stays async, async_trait re-applied. Send inference by rustc is modelled. Tie: signature projection.",
    "C13": "Theorems: emitted trait visibility tokens = requested (fn, trait, delegation target); for modules the trait inside the module carries module_vis(requested) and the re-export the requested tokens, and module_vis(v) read inside the module denotes the scope v denotes at the invocation site (Vis.v, all sites / names / accepted visibilities). Tie: visibility projection; the trait named from four scopes incl. another crate (accept/reject).",
    "C14": "Theorems: the tokens the macro adds contain no `dyn`/`Box` unless dynamic dispatch was requested. Allocation behaviour of rustc's codegen is assumption S6, probed with a counting allocator (direct call vs call through the trait). Tie: generated-region projection.",
    "C15": "Theorems: expand never returns Panic (every panic site of the Rust code is a model outcome), documented misuses give their message. Tie: outcome class + message on the malformed stream through real rustc.",
    "C16": "Theorems over all pattern lists (no length bound): emitted parameters are plain identifiers, pairwise distinct and never the fn's name as identifiers (a raw identifier `r#x` is the identifier `x`), forwarded positionally; the name generators terminate (pigeonhole). Tie: parameter-name projection; exhaustive small lists through the real macro; name resolution of forwarded identifiers under macro_rules hygiene (spans) by compiled programs of the semantic probe.",
    "C17": "Theorems on the token-level option parser: bare = `= true`, `= false` = omitted for no_deps/export, order independence for distinct keys, per-target accepted sets, variant = option shorthand. Tie: metamorphic groups through the real macro.",
    "C18": "Theorems: fn attributes stay on the fn, generated items carry only macro-owned/async_trait/automock attributes, parameter attributes stripped, trait-method attributes mirrored, the attributes of a module/impl fn's methods are exactly its cfgs; for every build a method is compiled iff its function is (Cfg.v). Tie: attribute projection.",
    "C19": "Theorems: every bound, path and attribute the macro adds is a lifetime, a macro-bound name or an absolute `::core`/`::entrait`/`::mockall` path. Tie: path-root projection; hostile scopes, macro_rules invocation and a #![no_std] crate compiled and run by the probe.",
    "C20": "Partial: the model is a function; proved are membership-only use of the taken set and locality of the generics accumulator. Determinism of the real process is observed: duplicates, two features, shuffled re-runs.",
}

props = [json.loads(l) for l in open(os.path.join(VERIF, "properties.jsonl"))]
checks, na = [], []
for p in props:
    pid = p["id"]
    if ("Properties/%s.v" % pid) in open(os.path.join(VERIF, "coq", "_CoqProject")).read().split():
        checks.append({
            "property_id": pid,
            "quick_cmd": "./check %s --tier quick" % pid,
            "thorough_cmd": "./check %s --tier thorough" % pid,
            "evidence_file": "/verif/evidence/%s.json" % pid,
            "replay_cmd_template": "./check %s --replay {path}" % pid,
            "engine": "coq-model+correspondence",
            "level_claimed": {"category": "proof", "text": LEVEL_TEXT[pid], "design_ref": "DESIGN.md section 5, " + pid},
            "level_note": "Trusted: Coq 8.16.1 kernel, no axioms (Print Assumptions audited each run), extraction (ExtrOcamlBasic/ExtrOcamlString) and the OCaml line driver, recorder hook + synx (re-print validated), python harness; syn and rustc modelled not verified (assumptions S1-S7, U1 in DESIGN.md section 6). The theorem is about the Gallina model; the tie to /repo is the per-run correspondence on the generated corpus.",
            "technique": "machine-checked proof in Coq of a hand-written model + per-run differential correspondence with the real macro",
        })
    else:
        na.append({"property_id": pid, "reason": "theorem file not built yet in this round (machinery shared with the claimed properties; see DESIGN.md section 11)"})

manifest = {
    "version": 1,
    "setup_cmd": "python3 harness/setup.py",
    "hooks": {
        "guard": "audunhalland_entrait_verif",
        "enable": "RUSTFLAGS=\"--cfg audunhalland_entrait_verif\" ENTRAIT_VERIF_DUMP=<prefix> cargo check (harness/corpus.py)",
        "baseline_off_cmd": "cd /repo && cargo test --workspace --no-fail-fast --offline",
        "source_commits": ["8ba7464"],
        "add_only": True,
    },
    "engines": [{"name": "coq-model+correspondence", "path": "/verif/coq, /verif/ocaml, /verif/rust/synx, /verif/harness",
                 "serves_properties": [c["property_id"] for c in checks],
                 "kind_free_text": "Gallina model of the macro (token-exact), theorems per property, extracted to OCaml and compared on every run with the real macro (recorder hook under real rustc)"}],
    "checks": checks,
    "not_applicable": na,
    "notes": "All checks share one cached corpus run per (tree hash, seed, tier). Known findings: /verif/known_findings.json.",
}
with open(os.path.join(VERIF, "MANIFEST.json"), "w") as fh:
    json.dump(manifest, fh, indent=1)
print("claimed:", [c["property_id"] for c in checks])
