"""Development aid (not a registered check): which lines of the macro does the generated corpus never execute?

   python3 harness/coverage.py [seed] [tier]

The correspondence check is differential testing, and its generators bound it. This script measures that bound directly: it
takes the corpus workspaces of the given seed / tier (both cargo feature settings; built on demand), compiles them once more in a
scratch directory outside /verif with the nightly toolchain and `-C instrument-coverage` (the proc-macro crate is instrumented
like any other; rustc writes the counters when it exits), merges the profiles with the toolchain's llvm-profdata and lists every
line of /repo/entrait_macros/src that no invocation of the corpus reached. Lines that are unreachable by design (panics behind
earlier diagnostics, dead code the crate marks `#[expect(unused)]`, the feature-gated entry points of the other feature setting)
are expected; a reachable line in the list is an input shape the generators do not write yet.

Output: the list on stdout and in /verif/coverage/uncovered.txt. The scratch directory is removed afterwards."""
import glob
import os
import re
import shutil
import subprocess
import sys
import tempfile

sys.path.insert(0, os.path.dirname(os.path.abspath(__file__)))
import common  # noqa: E402
import corpus  # noqa: E402

BRANCH = os.environ.get("COV_BRANCH") == "1"      # also list branch outcomes that were never taken (nightly -Z coverage-options=branch)
TOOLS = os.path.expanduser("~/.rustup/toolchains/nightly-x86_64-unknown-linux-gnu/lib/rustlib/x86_64-unknown-linux-gnu/bin")


def main():
    seed = int(sys.argv[1]) if len(sys.argv) > 1 else 1
    tier = sys.argv[2] if len(sys.argv) > 2 else "quick"
    if not os.path.exists(os.path.join(TOOLS, "llvm-profdata")):
        print("nightly llvm-tools not found: nothing measured")
        return 2
    os.makedirs(os.path.join(common.VERIF, "coverage"), exist_ok=True)
    res = corpus.load_or_run(seed, tier, keep_others=True)
    root = os.path.join(common.WORK, "corpus", res["key"])
    scratch = tempfile.mkdtemp(prefix="entrait-cov-")
    try:
        prof = os.path.join(scratch, "prof")
        os.makedirs(prof)
        objs = []
        for feat in ("off", "on"):
            ws = os.path.join(scratch, "ws-" + feat)
            shutil.copytree(os.path.join(root, feat), ws)
            target = os.path.join(scratch, "target-" + feat)
            env = dict(os.environ, RUSTFLAGS="-C instrument-coverage %s--cfg %s --cap-lints allow" % ("-Z coverage-options=branch " if BRANCH else "", common.GUARD),
                       LLVM_PROFILE_FILE=os.path.join(prof, feat + "-%p-%m.profraw"), CARGO_TARGET_DIR=target,
                       CARGO_INCREMENTAL="0", CARGO_NET_OFFLINE="true")
            env.pop("ENTRAIT_VERIF_DUMP", None)
            subprocess.run(["cargo", "+nightly", "check", "--offline", "--workspace", "--keep-going", "-j", "16", "--message-format=short"],
                           cwd=ws, env=env, stdout=subprocess.DEVNULL, stderr=subprocess.DEVNULL)
            objs += glob.glob(os.path.join(target, "debug", "deps", "libentrait_macros-*.so"))
        merged = os.path.join(scratch, "merged.profdata")
        subprocess.run([os.path.join(TOOLS, "llvm-profdata"), "merge", "-sparse", "-o", merged] + glob.glob(os.path.join(prof, "*.profraw")), check=True)
        cmd = [os.path.join(TOOLS, "llvm-cov"), "show", objs[0], "-instr-profile=" + merged, "-show-line-counts-or-regions"] + (["-show-branches=count"] if BRANCH else [])
        for o in objs[1:]:
            cmd += ["-object", o]
        show = subprocess.run(cmd, stdout=subprocess.PIPE, stderr=subprocess.DEVNULL, text=True).stdout
    finally:
        shutil.rmtree(scratch, ignore_errors=True)
    if BRANCH:
        with open(os.path.join(common.VERIF, "coverage", "branches.raw.txt"), "w") as fh:
            fh.write(show)
    cur, rows, total, hit = None, [], {}, {}
    for line in show.split("\n"):
        if line.startswith("/") and line.rstrip().endswith(":"):
            cur = line.strip().rstrip(":")
            continue
        if not cur or "entrait_macros/src/" not in cur:
            continue
        f = cur.split("entrait_macros/src/")[1]
        m = re.match(r"\s*(\d+)\|\s*([0-9.]+[kKMG]?)\|(.*)", line)
        if not m:
            continue
        total[f] = total.get(f, 0) + 1
        if m.group(2) == "0":
            rows.append((f, int(m.group(1)), m.group(3).rstrip()))
        else:
            hit[f] = hit.get(f, 0) + 1
    out = ["# lines of /repo/entrait_macros/src never executed by the corpus (seed %d, tier %s, both feature settings; %d cases)" % (seed, tier, len(res["cases"])),
           "# %s" % ", ".join("%s %d/%d" % (f, hit.get(f, 0), total[f]) for f in sorted(total))]
    last = None
    for f, n, t in rows:
        if f != last:
            out.append("== " + f)
            last = f
        out.append("  %4d %s" % (n, t[:130]))
    text = "\n".join(out) + "\n"
    os.makedirs(os.path.join(common.VERIF, "coverage"), exist_ok=True)
    with open(os.path.join(common.VERIF, "coverage", "uncovered.txt"), "w") as fh:
        fh.write(text)
    print(text)
    return 0


if __name__ == "__main__":
    sys.exit(main())
