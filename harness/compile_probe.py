"""Layer B, compile probes: the expansion of every *supported* input must be accepted by rustc (C03; also
exercises C12/C16/C19 at the type level). Programs are generated compile-clean by construction: a fixed
prelude of traits / types, signatures drawn from the supported class, bodies `unimplemented!()` (which
type-checks against any signature), so every rustc error is caused by what the macro generated.

Errors are attributed to cases by line; failing cases are removed and the crate is checked again until it
is clean, so that early-phase errors (resolution, type check) cannot mask borrow-check errors in others."""
import json
import os
import random
import shutil

from common import GUARD, REPO, WORK, log, run, sha, repo_tree_hash, hash_files, VERIF

PRELUDE = """#![allow(warnings)]
#![allow(clippy::all)]
pub use ::entrait::entrait;
pub trait A { fn a(&self) -> i32 { 1 } }
pub trait B { fn b(&self) -> i32 { 2 } }
pub trait C<T> { fn c(&self, t: T) -> T { t } }
pub struct App;
impl A for App {}
impl B for App {}
impl C<i32> for App {}
pub struct N(pub i32);
pub struct S { pub x: i32, pub y: i32 }
pub struct G<T>(pub T);
pub struct MyType;
pub struct Other;
pub trait R<'x> { fn r(&self) -> &'x i32 { unimplemented!() } }
pub trait P<'x, 'y> { fn p(&self) -> (&'x i32, &'y i32) { unimplemented!() } }
"""

# (pattern, type) pairs that are consistent with each other
PARAMS = [
    ("{n}", "i32"), ("mut {n}", "i32"), ("ref {n}", "i32"), ("_", "i32"), ("({n}, _)", "(i32, i32)"),
    ("({n}a, {n}b)", "(i32, i32)"), ("N({n})", "N"), ("S {{ x: {n}, y: _ }}", "S"), ("S {{ x: {n}x, y: {n}y }}", "S"),
    ("&{n}", "&i32"), ("{n}", "String"), ("{n}", "&str"), ("{n}", "Option<i32>"), ("{n}", "Box<dyn Fn(i32) -> i32 + Send + Sync>"),
    ("{n} @ _", "i32"),
]


class CCase:
    def __init__(self, attr, item, known=None, family="fn", macro="entrait"):
        self.attr, self.item, self.known, self.family, self.macro = attr, item, known, family, macro
        self.cid = None

    def descr(self):
        return {"cid": self.cid, "attr": self.attr, "item": self.item, "known": self.known, "family": self.family, "macro": self.macro,
                "witness_of": getattr(self, "witness_of", None)}


def gen_fn(rng, name, trait, in_mod=False, allow_known=True, tp="T"):
    """one function of the supported class; returns (text, known_tag)"""
    known = None
    lifetimes, tparams, wheres, opts = [], [], [], []
    use_lt = rng.random() < 0.35
    use_t = rng.random() < 0.45
    use_const = rng.random() < 0.2
    if use_lt:
        lifetimes.append("'a")
    dk = rng.choice(["gen_ref", "gen_ref", "impl_ref", "impl_ref", "impl_paren", "impl_val", "gen_val", "conc_ref", "conc_ref",
                     "conc_generic", "conc_tuple", "conc_lt", "conc_val", "no_deps"])
    if in_mod and dk.startswith("conc"):
        dk = "gen_ref"
    bounds = rng.sample(["A", "B", "C<i32>", "Send", "Sync"], rng.choice([0, 1, 1, 2, 3]))
    deps = None
    if dk in ("gen_ref", "gen_val"):
        place = rng.choice(["inline", "where", "split", "none"]) if bounds else "none"
        inline = bounds if place == "inline" else bounds[:1] if place == "split" else []
        wh = bounds if place == "where" else bounds[1:] if place == "split" else []
        if dk == "gen_ref" and rng.random() < 0.06:
            inline = ["?Sized"] + inline      # relaxed bound on the dependency generic (F16, repaired)
        tparams.append("D" + (": " + " + ".join(inline) if inline else ""))
        if wh:
            wheres.append("D: " + " + ".join(wh))
        ref = "&'a D" if (use_lt and rng.random() < 0.5 and dk == "gen_ref") else "&D"
        deps = "deps: " + (ref if dk == "gen_ref" else "D")
    elif dk in ("impl_ref", "impl_paren", "impl_val"):
        bl = bounds or ["A"]
        b = " + ".join(bl)
        deps = "deps: " + {"impl_ref": ("&impl " + b) if len(bl) == 1 else ("&(impl " + b + ")"),
                           "impl_paren": "&(impl " + b + ")", "impl_val": "impl " + b}[dk]
    elif dk == "conc_ref":
        deps = "deps: &App"
    elif dk == "conc_generic":
        deps = "deps: &G<i32>"
    elif dk == "conc_tuple":
        deps = "deps: &(i32, App)"
    elif dk == "conc_lt":
        if not use_lt:
            lifetimes.append("'a")
            use_lt = True
        deps = "deps: &'a App"
    elif dk == "conc_val":
        if not allow_known:
            deps = "deps: &App"
        else:
            deps = "deps: G<i32>"
            known = "F5"
    else:
        opts.append("no_deps")
    if use_t:
        tb = rng.choice(["", ": Clone", ": Clone + Send", ""])
        tparams.append(tp + tb)
        if rng.random() < 0.3:
            wheres.append(tp + ": " + rng.choice(["Send", "core::fmt::Debug", "Sync + 'static"]))
    kn = "K" + tp[1:]
    if use_const:
        tparams.append("const %s: usize" % kn)
    params = [deps] if deps else []
    n = rng.choice([0, 1, 1, 2, 2, 3, 4])
    for i in range(n):
        pat, ty = rng.choice(PARAMS)
        r = rng.random()
        if use_t and r < 0.2:
            pat, ty = "v%d" % i, tp
        elif use_t and use_lt and r < 0.3:
            pat, ty = "v%d" % i, "&'a " + tp
        elif use_lt and r < 0.4:
            pat, ty = "v%d" % i, "&'a i32"
        elif use_const and r < 0.5:
            pat, ty = "v%d" % i, "[u8; %s]" % kn
        params.append(pat.format(n="v%d" % i) + ": " + ty)
    # a declared generic must be inferable from the arguments of the delegating call
    if use_t and not any(tp in p.split(": ", 1)[1] for p in params if ": " in p and not p.startswith("deps")):
        params.append("vt: " + tp)
    if use_const and not any(kn in p for p in params):
        params.append("vk: [u8; %s]" % kn)
    rets = ["", " -> i32", " -> String", " -> (i32, i32)"]
    if use_t:
        rets.append(" -> Option<%s>" % tp)
    if use_lt:
        rets.append(" -> &'a i32")
        if use_t and any("&'a " + tp in p for p in params):
            rets.append(" -> &'a " + tp)
        if dk == "conc_lt":
            rets.append(" -> &'a App")
    ret = rng.choice(rets)
    if ret.startswith(" -> &'a") and not any("'a" in p for p in params):
        ret = " -> i32"
    if use_lt and use_t and allow_known and rng.random() < 0.12 and any("&'a " + tp in p for p in params):
        wheres.append(tp + ": 'a")       # names a method lifetime: must stay off the trait (F14, repaired)
    quals = ""
    if rng.random() < 0.3:
        quals += "async "
        if rng.random() < 0.3:
            opts.append("?Send")
        elif use_t:
            # the generated trait asks for a `Send` future: everything the future holds must be Send
            wheres.append(tp + ": Send + Sync")
    elif rng.random() < 0.1:
        quals += "unsafe "
    vis = rng.choice(["", "pub ", "pub(crate) "]) if not in_mod else rng.choice(["pub ", "pub(crate) ", "pub(super) "])
    gens = lifetimes + tparams
    text = "%s%sfn %s%s(%s)%s%s { unimplemented!() }" % (
        vis, quals, name, "<" + ", ".join(gens) + ">" if gens else "", ", ".join(params), ret,
        " where " + ", ".join(wheres) if wheres else "")
    return text, opts, known


def build_cases(seed, tier):
    rng = random.Random(seed * 101 + 7)
    k = 6 if tier == "thorough" else 1
    cases = []
    for i in range(260 * k):
        text, opts, known = gen_fn(rng, "f%d" % i, "Tr%d" % i)
        tv = rng.choice(["", "pub ", "pub(crate) "])
        cases.append(CCase(", ".join([tv + "Tr%d" % i] + opts), text, known, "fn"))
    for i in range(70 * k):
        fns, allopts, known = [], set(), None
        nd = rng.random() < 0.15
        for j in range(rng.choice([1, 2, 2, 3])):
            while True:
                text, opts, kn = gen_fn(rng, "g%d" % j, "M", in_mod=True, tp="T%d" % j)
                if ("no_deps" in opts) == nd and "?Send" not in opts:
                    break
            known = known or kn
            fns.append(text)
        decoys = rng.sample(["fn private(a: i32) -> i32 { a }", "pub struct Z { pub f: fn() } impl Z { pub fn nested(&self) {} }",
                             "pub const X: i32 = 1;", "use core::fmt;", "pub static Y: i32 = 2;"], rng.choice([0, 1, 2]))
        body = fns + decoys
        rng.shuffle(body)
        cases.append(CCase(", ".join(["pub M%d" % i] + (["no_deps"] if nd else [])), "pub mod m { use super::*; " + " ".join(body) + " }", known, "mod"))
    for i in range(60 * k):
        n = rng.choice([1, 2, 3])
        ms = []
        for j in range(n):
            ps = ", ".join(["&self"] + ["p%d: %s" % (q, rng.choice(["i32", "String", "&str", "(i32, i32)"])) for q in range(rng.choice([0, 1, 2, 3]))])
            ms.append("%sfn m%d(%s)%s;" % ("@ASYNC@" if rng.random() < 0.3 else "", j, ps, rng.choice(["", " -> i32", " -> String"])))
        sel = rng.choice(["", "", "delegate_by = ref", "delegate_by = Borrow"])
        # `dyn Trait` with a native async fn is not object safe: async only under static delegation
        ms = [m.replace("@ASYNC@", "async " if sel == "" else "") for m in ms]
        vis = rng.choice(["", "pub ", "pub(crate) "])
        cases.append(CCase(sel, "%strait Tt%d { %s }" % (vis, i, " ".join(ms)), None, "trait"))
    for i in range(50 * k):
        n = rng.choice([1, 2])
        dyn = rng.random() < 0.4
        lt = rng.random() < 0.2
        tms, ims = [], []
        for j in range(n):
            args = ["p%d: %s" % (q, rng.choice(["i32", "String", "(i32, i32)"])) for q in range(rng.choice([0, 1, 2]))]
            ret = rng.choice(["", " -> i32"])
            asy = "async " if rng.random() < 0.25 else ""
            if lt and j == 0:
                tms.append("fn m0<'a>(&'a self, x: &'a i32) -> &'a i32;")
                ims.append("fn m0<'a, D: A>(deps: &'a D, x: &'a i32) -> &'a i32 { unimplemented!() }")
            else:
                tms.append("%sfn m%d(%s)%s;" % (asy, j, ", ".join(["&self"] + args), ret))
                ims.append("%sfn m%d%s(%s)%s { unimplemented!() }" % (asy, j, rng.choice(["<D: A>", "<D>", "<D: A + B>"]), ", ".join(["deps: &D"] + args), ret))
        attr = "TdImpl%d, delegate_by = %s" % (i, "ref" if dyn else "Sel%d" % i)
        if dyn:
            tms = [m.replace("async ", "") for m in tms]
            ims = [m.replace("async ", "") for m in ims]
        item = "pub trait Td%d { %s }\npub struct Ty;\n#[entrait(%s)]\nimpl TdImpl%d for Ty { %s }" % (i, " ".join(tms), "ref" if dyn else "", i, " ".join(ims))
        cases.append(CCase(attr, item, "F4" if lt else None, "impl"))
    # modules mixing by-value and by-reference receivers, in every order (the `Send` requirement on the application type must not
    # depend on the order of the functions; with an async by-value function a missing `Send` is a compile error)
    for oi, order in enumerate([("v", "r"), ("r", "v"), ("r", "v", "r"), ("v", "r", "r"), ("v", "v", "r")]):
        for asy in ("", "async "):
            fns = []
            for j, kind in enumerate(order):
                if kind == "v":
                    fns.append("pub %sfn g%d<D: A>(deps: D, x: i32) -> i32 { unimplemented!() }" % (asy, j))
                else:
                    fns.append("pub %sfn g%d(deps: &impl B, y: String) { unimplemented!() }" % (rng.choice(["", "async "]), j))
            cases.append(CCase("pub MO%d%s" % (oi, "a" if asy else "s"), "pub mod m { use super::*; " + " ".join(fns) + " }", None, "mod_receiver_order"))
    # regression programs: witnesses of repaired findings (F4: impl-block lifetime on `__impl`, static and dynamic; F5: by-value
    # concrete dependency, sync and async; by-value method of an entraited trait)
    cases.append(CCase("TdImplR0, delegate_by = SelR0", "pub trait TdR0 { fn m0<'a>(&'a self, x: &'a i32) -> &'a i32; }\npub struct Ty;\n#[entrait()]\nimpl TdImplR0 for Ty { fn m0<'a, D: A>(deps: &'a D, x: &'a i32) -> &'a i32 { unimplemented!() } }", None, "regression"))
    cases.append(CCase("TdImplR1, delegate_by = ref", "pub trait TdR1 { fn m0<'a>(&'a self, x: &'a i32) -> &'a i32; }\npub struct Ty;\n#[entrait(ref)]\nimpl TdImplR1 for Ty { fn m0<'a, D: A>(deps: &'a D, x: &'a i32) -> &'a i32 { unimplemented!() } }", None, "regression"))
    cases.append(CCase("TrR2", "fn f(deps: G<i32>, a: i32) -> i32 { unimplemented!() }", None, "regression"))
    cases.append(CCase("TrR3", "async fn f(deps: G<i32>, a: i32) -> i32 { unimplemented!() }", None, "regression"))
    cases.append(CCase("", "pub trait TqR4 { fn m(self, x: i32) -> i32; fn r(&self) -> i32; }", None, "regression"))
    # higher-ranked bounds, inline and in where clauses, on the dependency and on other parameters (F23, repaired)
    for i, (gen, deps, wh) in enumerate([
            ("<D>", "deps: &D", "for<'x> D: R<'x>"), ("<D>", "deps: &D", "for<'x> D: R<'x> + Send, D: Sync"),
            ("<D: for<'x> R<'x>>", "deps: &D", ""), ("<D>", "deps: &D", "D: for<'x> R<'x> + A"), ("<D>", "deps: &D", "for<'x,> D: (R<'x>)"),
            ("<D>", "deps: &D", "for<> D: A"), ("<D>", "deps: &D", "for<'x, 'y> D: P<'x, 'y> + ::core::marker::Send + 'static"),
            ("<D>", "deps: D", "for<'x> D: R<'x> + Send + Sync + 'static"), ("<D: A, T>", "deps: &D, t: T", "for<'x> T: Fn(&'x i32) -> &'x i32"),
            ("<T>", "deps: &impl A, t: T", "for<'x> T: R<'x>"), ("<T>", "deps: &App, t: T", "for<'x> &'x T: Into<i32>"),
            ("<D, T>", "deps: &D, t: T", "for<'x> D: R<'x>, for<'y> T: R<'y> + Send"), ("", "deps: &(impl for<'x> R<'x> + A)", "")]):
        for asy in ("", "async "):
            if asy and "Fn(" in wh:
                continue
            if asy and "T" in gen:
                wh = wh + ", T: Send + Sync"     # the generated trait asks for a `Send` future
            cases.append(CCase("pub TrH%d%s" % (i, "a" if asy else "s"), "pub %sfn h%s(%s) -> i32%s { unimplemented!() }" % (
                asy, gen, deps, " where " + wh if wh else ""), None, "hrtb"))
    cases.append(CCase("pub MH", "pub mod m { use super::*; pub fn h0<D>(deps: &D) where for<'x> D: R<'x> { unimplemented!() } "
                       "pub fn h1<D>(deps: &D, a: i32) where D: A, for<'y> D: R<'y> + B { unimplemented!() } }", None, "hrtb"))
    cases.append(CCase("TdImplH, delegate_by = SelH", "pub trait TdH { fn m0(&self) -> i32; }\npub struct Ty;\n#[entrait()]\nimpl TdImplH for Ty { "
                       "fn m0<D>(deps: &D) -> i32 where for<'x> D: R<'x> { unimplemented!() } }", None, "hrtb"))
    # return types with elided lifetimes: the method must keep the function's lifetime relations. A `no_deps` function that
    # borrows from an argument through an elided lifetime is F22 (the added `&self` captures the elision)
    for i, (attr, sig, kn) in enumerate([
            ("", "fn e(deps: &impl A) -> &i32", None), ("", "fn e<D: A>(deps: &D) -> &D", "F24"), ("", "fn e(deps: impl A, x: &str) -> &str", None),
            ("", "fn e<D: A>(deps: D, x: &str) -> &str", None), ("", "fn e(deps: &impl A, x: &str) -> &'static str", None),
            ("", "fn e<'a>(deps: &impl A, x: &'a str, y: &str) -> &'a str", None), ("", "fn e(deps: &App) -> &App", None),
            ("", "fn e(deps: &impl A, x: &mut Vec<i32>) -> usize", None), ("", "fn e(deps: &impl A) -> Box<dyn Iterator<Item = i32> + '_>", None),
            ("no_deps", "fn e(x: &str) -> usize", None), ("no_deps", "fn e<'a>(x: &'a str, y: &str) -> &'a str", None),
            ("no_deps", "fn e(x: &'static str) -> &'static str", None),
            ("no_deps", "fn e(x: &str) -> &str", "F22"), ("no_deps", "fn e(x: &str, n: usize) -> &str", "F22"),
            ("no_deps", "fn e(x: &mut Vec<i32>) -> std::slice::Iter<'_, i32>", "F22"), ("no_deps", "fn e(x: &[u8]) -> Option<&u8>", "F22")]):
        for asy in ("", "async "):
            cases.append(CCase(", ".join(["pub TrE%d%s" % (i, "a" if asy else "s")] + ([attr] if attr else [])),
                               "pub %s%s { unimplemented!() }" % (asy, sig), kn, "elided"))
    # the dependency's own type parameter named in another parameter or in the return type (F24)
    cases.append(CCase("pub TrS0", "pub fn s<D: A>(deps: &D, other: &D) -> i32 { unimplemented!() }", "F24", "elided"))
    cases.append(CCase("pub TrS1", "pub fn s<D: A + Clone>(deps: &D) -> D { unimplemented!() }", "F24", "elided"))
    # a lifetime parameter of the function as a bound of the dependency (F25, repaired)
    cases.append(CCase("pub TrL0", "pub fn l<'x, D: A + 'x>(deps: &'x D, t: &'x i32) -> &'x i32 { unimplemented!() }", None, "elided"))
    cases.append(CCase("pub TrL1", "pub fn l<'x, D: A>(deps: &'x D, t: &'x i32) -> &'x i32 where D: 'x { unimplemented!() }", None, "elided"))
    cases.append(CCase("pub TrL2", "pub fn l<'x>(deps: &'x (impl A + 'x), t: &'x i32) -> &'x i32 { unimplemented!() }", None, "elided"))
    cases.append(CCase("pub TrL3", "pub fn l<'x, D: A + 'static>(deps: &'x D, t: &'x i32) -> &'x i32 { unimplemented!() }", None, "elided"))
    cases.append(CCase("pub ME, no_deps", "pub mod m { use super::*; pub fn e0(x: &str) -> &str { unimplemented!() } pub fn e1(a: i32) -> i32 { a } }", "F22", "elided"))
    # F21: raw identifiers next to generated / function names
    cases.append(CCase("TrR5", "fn rawy(_: &impl A, _: i32, r#arg0: i32) -> i32 { unimplemented!() }", None, "regression"))
    cases.append(CCase("TrR6", "fn foo(_: &impl A, r#foo: i32) -> i32 { unimplemented!() }", None, "regression"))
    cases.append(CCase("TrR7", "fn bar(_: &impl A, r#_arg1: i32, (_x, _y): (i32, i32), r#arg1: i32, r#bar: u8) -> i32 { unimplemented!() }", None, "regression"))
    # the compile-level witnesses of /verif/known_findings.json, always part of the probe
    kf = json.load(open(os.path.join(VERIF, "known_findings.json")))
    for f in kf["findings"]:
        for w in f["witnesses"]:
            if w.get("compile"):
                c = CCase(w["attr"], w["item"], f["id"], "finding", w.get("macro", "entrait"))
                c.witness_of = f["id"]
                cases.append(c)
    for i, c in enumerate(cases):
        c.cid = i
    return cases


def write_crate(root, cases, skip):
    if os.path.exists(root):
        shutil.rmtree(root)
    os.makedirs(os.path.join(root, "src"))
    with open(os.path.join(root, "Cargo.toml"), "w") as fh:
        fh.write('[package]\nname = "cprobe"\nversion = "0.0.0"\nedition = "2021"\n\n[lib]\npath = "src/lib.rs"\n\n'
                 '[dependencies]\nentrait = { path = "%s" }\n\n[workspace]\n' % REPO)
    shutil.copy(os.path.join(REPO, "Cargo.lock"), os.path.join(root, "Cargo.lock"))
    lines = PRELUDE.rstrip("\n").split("\n")
    ranges = []
    for c in cases:
        if c.cid in skip:
            continue
        start = len(lines) + 1
        lines.append("pub mod k%d { use super::*;" % c.cid)
        lines.append("#[entrait(%s)]" % c.attr)
        lines.extend(c.item.split("\n"))
        lines.append("}")
        ranges.append((start, len(lines), c.cid))
    with open(os.path.join(root, "src", "lib.rs"), "w") as fh:
        fh.write("\n".join(lines) + "\n")
    return ranges


def check_crate(root):
    target = os.path.join(WORK, "target-corpus-off")
    env = {"RUSTFLAGS": "--cfg %s --cap-lints allow" % GUARD, "CARGO_TARGET_DIR": target, "CARGO_INCREMENTAL": "0"}
    rc, out, dt = run(["cargo", "check", "--offline", "--message-format=json", "-j", "16"], cwd=root, env=env, timeout=3000)
    errs = []
    for line in out.split("\n"):
        if not line.startswith("{"):
            continue
        try:
            m = json.loads(line)
        except json.JSONDecodeError:
            continue
        if m.get("reason") != "compiler-message" or m.get("target", {}).get("name") != "cprobe":
            continue
        msg = m["message"]
        if msg.get("level") != "error":
            continue
        spans = [s for s in msg.get("spans", []) if s.get("is_primary")] or msg.get("spans", [])
        line_no = None
        for s in spans:
            if s.get("file_name", "").endswith("src/lib.rs"):
                line_no = s["line_start"]
                break
            e = s.get("expansion")
            while e and line_no is None:
                sp = e.get("span", {})
                if sp.get("file_name", "").endswith("src/lib.rs"):
                    line_no = sp["line_start"]
                e = sp.get("expansion")
        errs.append((line_no, (msg.get("code") or {}).get("code"), msg.get("message", "")[:200]))
    return rc, errs, dt, out


def run_probe(seed, tier):
    """returns dict(cases=[descr], failing={cid: [(code, msg)]}, rounds, unattributed, clean)"""
    key = sha(repo_tree_hash(), hash_files([os.path.abspath(__file__), os.path.join(VERIF, "known_findings.json")]), str(seed), tier)[:20]
    root = os.path.join(WORK, "cprobe", key)
    done = os.path.join(root, "result.json")
    if os.path.exists(done):
        return json.load(open(done))
    base = os.path.join(WORK, "cprobe")
    if os.path.isdir(base):
        for d in os.listdir(base):
            if d != key:
                shutil.rmtree(os.path.join(base, d), ignore_errors=True)
    cases = build_cases(seed, tier)
    failing, unattributed, rounds = {}, [], 0
    while rounds < 6:
        rounds += 1
        ranges = write_crate(os.path.join(root, "crate"), cases, set(failing))
        rc, errs, dt, out = check_crate(os.path.join(root, "crate"))
        log("[cprobe] round %d: rc=%d, %d errors, %.1fs" % (rounds, rc, len(errs), dt))
        if rc != 0 and not errs:
            log(out[-2000:])
            raise SystemExit(2)
        new = 0
        for line_no, code, msg in errs:
            cid = None
            if line_no is not None:
                for a, b, c in ranges:
                    if a <= line_no <= b:
                        cid = c
                        break
            if cid is None:
                unattributed.append((line_no, code, msg))
            else:
                if cid not in failing:
                    new += 1
                failing.setdefault(cid, []).append((code, msg))
        if rc == 0 or new == 0:
            break
    res = {"key": key, "cases": [c.descr() for c in cases], "failing": {str(k): v for k, v in failing.items()},
           "rounds": rounds, "unattributed": unattributed[:20], "clean": rc == 0}
    with open(done, "w") as fh:
        json.dump(res, fh)
    shutil.rmtree(os.path.join(root, "crate", "target"), ignore_errors=True)
    return res


if __name__ == "__main__":
    import sys
    r = run_probe(int(sys.argv[1]) if len(sys.argv) > 1 else 1, sys.argv[2] if len(sys.argv) > 2 else "quick")
    cases = {c["cid"]: c for c in r["cases"]}
    print("cases", len(cases), "failing", len(r["failing"]), "rounds", r["rounds"], "clean", r["clean"], "unattributed", len(r["unattributed"]))
    by = {}
    for cid, errs in r["failing"].items():
        c = cases[int(cid)]
        by.setdefault((c["known"], errs[0][0]), []).append(c)
    for k, cs in sorted(by.items(), key=lambda x: str(x[0])):
        print(k, len(cs))
        for c in cs[:3]:
            print("    #[entrait(%s)] %s" % (c["attr"], c["item"][:300].replace("\n", " ")))
            print("      ", r["failing"][str(c["cid"])][0])
