"""Summarise /tmp/seedrun/*.json: for every seeded change, what its own property's check says and which other checks alarm."""
import glob
import json
import os
import re
import sys

rows = []
for f in sorted(glob.glob("/tmp/seedrun/*.json")):
    r = json.load(open(f))
    name = os.path.basename(f)[:-5]
    if name == "summary":
        continue
    m0 = re.match(r"(C\d\d)-(\d+)-patch$", name) or re.match(r"(C\d\d)-patch(\d+)$", name)
    if not m0:
        continue        # evaluations of harmless rewrites (seeded/harmless) are summarised separately
    pid, k = m0.group(1), m0.group(2)
    own = r["checks"].get(pid, {})
    rp = own.get("replay") or {}
    m = re.search(r"(\d+) failing \((\d+) in known classes\), tie broken on (\d+)", own.get("summary", ""))
    failing, known, tie = (int(m.group(1)), int(m.group(2)), int(m.group(3))) if m else (None, None, None)
    if own.get("rc") != 1:
        verdict = "MISSED"
    elif rp.get("kind") in ("input", "history"):
        verdict = "caught: failing input"
    elif rp.get("kind") == "correspondence":
        verdict = "caught: correspondence broken, no failing input found"
    else:
        verdict = "caught: " + str(rp.get("kind"))
    others = {}
    for p, c in r["checks"].items():
        if p != pid and c["rc"] == 1:
            kind = (c.get("replay") or {}).get("kind")
            others[p] = "input" if kind in ("input", "history") else "tie"
    rows.append({"seed": "%s-%s" % (pid, k), "own": verdict, "failing": failing, "known": known, "tie": tie,
                 "witness": ((rp.get("attr") or "") + " | " + (rp.get("item") or "").replace("\n", " "))[:140] if rp.get("item") else (rp.get("failing_predicate") or ""),
                 "others_input": sorted(p for p, k2 in others.items() if k2 == "input"),
                 "others_tie": sorted(p for p, k2 in others.items() if k2 == "tie")})
json.dump(rows, open("/tmp/seedrun/summary.json", "w"), indent=1)
for r in rows:
    print("%-7s %-55s fail=%s tie=%s | also input: %s | also tie: %s" % (r["seed"], r["own"], r["failing"], r["tie"], ",".join(r["others_input"]), ",".join(r["others_tie"])))
    if "--witness" in sys.argv:
        print("         ", r["witness"])
