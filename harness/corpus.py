"""Corpus A: generated invocations through the real macro (real rustc, recorder on), then synx + model.

One cargo workspace per feature setting, cases sharded over crates; every case sits in its own module with
its attribute on a known line, so records are attributed by (shard, line)."""
import glob
import json
import os
import re
import shutil
import subprocess

from common import WORK, CACHE, GUARD, MODEL, REPO, SYNX, VERIF, log, run, sha, repo_tree_hash, model_hash, hash_files
import gen

NSHARDS = 12
RISKY = {"malformed_item": "riskya", "regression": "riskyb", "malformed_attr": "riskyc", "malformed_soup": "riskyd",
         "malformed_fn": "riskye", "malformed_mod": "riskyf", "malformed_impl": "riskyg",
         "same_process": "sameproc"}       # not risky: one crate so that one proc-macro instance expands the whole family

HEADER = "#![allow(warnings)]\n#![allow(clippy::all)]\n"


def shard_of(case):
    if case.family in RISKY:
        return RISKY[case.family]
    return "shard%02d" % (case.cid % NSHARDS)


def write_workspace(root, cases, feature, shard_fn=None, order_rng=None, as_dependencies=False):
    if os.path.exists(root):
        shutil.rmtree(root)
    os.makedirs(root)
    shards = {}
    for c in cases:
        shards.setdefault((shard_fn or shard_of)(c), []).append(c)
    if order_rng is not None:
        for cs in shards.values():
            order_rng.shuffle(cs)
    # the family whose members share every name: ascending by text in the first run, descending in a re-run, so that the first
    # invocation of each group of same-named items is guaranteed to differ between the two histories (a shuffle repeats it by chance)
    if "sameproc" in shards:
        shards["sameproc"].sort(key=lambda c: (c.item, c.attr), reverse=order_rng is not None)
    index = {}
    for name, cs in shards.items():
        d = os.path.join(root, name)
        os.makedirs(os.path.join(d, "src"))
        feats = ', features = ["unimock"]' if feature else ""
        with open(os.path.join(d, "Cargo.toml"), "w") as fh:
            fh.write('[package]\nname = "%s"\nversion = "0.0.0"\nedition = "2021"\n\n[lib]\npath = "src/lib.rs"\n\n'
                     '[dependencies]\nentrait = { path = "%s"%s }\n' % (name, REPO, feats))
        lines = HEADER.split("\n")[:-1]
        for c in cs:
            lines.append("pub mod c%d {" % c.cid)
            lines.append("#[entrait::%s(%s)]" % (c.macro, c.attr.replace("\n", " ")))
            index[(name, len(lines))] = c.cid
            # an entrait attribute written inside the item (a nested invocation) is recorded at its own line
            for j in range(len(c.item.split("\n"))):
                index[("nested", name, len(lines) + 1 + j)] = c.cid
            lines.extend(c.item.split("\n"))
            lines.append("}")
        with open(os.path.join(d, "src", "lib.rs"), "w") as fh:
            fh.write("\n".join(lines) + "\n")
    members = sorted(shards)
    if as_dependencies:
        # one more crate that depends on every shard: building only that one makes the shards *dependencies* (for cargo: not primary
        # packages, other environment variables), which an expansion must not depend on either
        d = os.path.join(root, "zztop")
        os.makedirs(os.path.join(d, "src"))
        with open(os.path.join(d, "Cargo.toml"), "w") as fh:
            fh.write('[package]\nname = "zztop"\nversion = "0.0.0"\nedition = "2021"\n\n[lib]\npath = "src/lib.rs"\n\n[dependencies]\n' +
                     "".join('%s = { path = "../%s" }\n' % (m, m) for m in members))
        with open(os.path.join(d, "src", "lib.rs"), "w") as fh:
            fh.write("")
        members = members + ["zztop"]
    with open(os.path.join(root, "Cargo.toml"), "w") as fh:
        fh.write("[workspace]\nresolver = \"2\"\nmembers = [%s]\n" % ", ".join('"%s"' % s for s in members))
    shutil.copy(os.path.join(REPO, "Cargo.lock"), os.path.join(root, "Cargo.lock"))
    return index


def run_group(cmd, cwd, env, timeout):
    """like common.run, but in a process group of its own that is killed as a whole when the time is up: a macro that does not
    terminate leaves rustc processes behind which cargo's own death would not stop. Returns rc None on timeout."""
    import signal
    import time
    from common import OFFLINE_ENV
    e = dict(os.environ)
    e.update(OFFLINE_ENV)
    e.update(env)
    t0 = time.time()
    p = subprocess.Popen(cmd, cwd=cwd, env=e, stdout=subprocess.PIPE, stderr=subprocess.STDOUT, text=True, errors="replace", start_new_session=True)
    try:
        out, _ = p.communicate(timeout=timeout)
        return p.returncode, out or "", time.time() - t0
    except subprocess.TimeoutExpired:
        try:
            os.killpg(p.pid, signal.SIGKILL)
        except ProcessLookupError:
            pass
        out, _ = p.communicate()
        log("[corpus] cargo check did not finish within %d s: the compiler processes were killed" % timeout)
        return None, out or "", time.time() - t0


def run_workspace(root, feature, tag, release=False, timeout=3000, package=None):
    """cargo check with the recorder on; returns list of dump files.
    release: build the macro under the release profile (no debug assertions, no overflow checks in the macro crate)"""
    prefix = os.path.join(root, "dump")
    for f in glob.glob(prefix + ".*"):
        os.remove(f)
    target = os.path.join(WORK, "target-corpus-%s" % ("on" if feature else "off"))
    env = {"RUSTFLAGS": "--cfg %s --cap-lints allow" % GUARD, "ENTRAIT_VERIF_DUMP": prefix, "CARGO_TARGET_DIR": target,
           "CARGO_INCREMENTAL": "0"}
    rc, out, dt = run_group(["cargo", "check", "--offline"] + (["-p", package] if package else ["--workspace"]) +
                            ["--keep-going", "-j", "16", "--message-format=short"] + (["--release"] if release else []), root, env, timeout)
    log("[corpus] cargo check (%s, feature=%s%s): rc=%s %.1fs" % (tag, feature, ", release profile" if release else "", rc, dt))
    if "could not compile `entrait_macros`" in out or "could not compile `entrait`" in out or "error: failed to" in out:
        log(out[-3000:])
        raise SystemExit(2)
    panics = len(re.findall(r"custom attribute panicked", out))
    return sorted(glob.glob(prefix + ".*")), out, panics


def model_rows(dumps, workdir):
    sexp = os.path.join(workdir, "cases.sexp")
    with open(sexp, "w") as fh:
        subprocess.run([SYNX] + dumps, stdout=fh, check=True)
    # shard the model run over 16 processes
    lines = open(sexp).read().split("\n")
    lines = [l for l in lines if l]
    n = 16
    chunks = [lines[i::n] for i in range(n)]
    procs = []
    for i, ch in enumerate(chunks):
        p = subprocess.Popen("ulimit -s unlimited 2>/dev/null; exec %s" % MODEL, shell=True, stdin=subprocess.PIPE,
                             stdout=subprocess.PIPE, text=True)
        procs.append((p, ch))
    outs = []
    import threading
    results = [None] * n

    def feed(i, p, ch):
        results[i] = p.communicate("\n".join(ch) + "\n")[0]
    ths = [threading.Thread(target=feed, args=(i, p, ch)) for i, (p, ch) in enumerate(procs)]
    for t in ths:
        t.start()
    for t in ths:
        t.join()
    rows = [None] * len(lines)
    for i in range(n):
        outl = [l for l in (results[i] or "").split("\n") if l]
        if len(outl) != len(chunks[i]):
            log("[corpus] model produced %d lines for %d cases in chunk %d" % (len(outl), len(chunks[i]), i))
            raise SystemExit(2)
        for j, (src, l) in enumerate(zip(chunks[i], outl)):
            try:
                r = json.loads(l)
            except json.JSONDecodeError:
                r = {"error": "bad json from model", "raw": l[:200]}
            r["_sexp"] = src
            rows[i + n * j] = r      # the order of the recording (records of one site stay in expansion order)
    return rows


SITE_RE = re.compile(r"([a-z0-9]+)/src/lib\.rs:(\d+)$")


def corpus_key(seed, tier):
    return sha(repo_tree_hash(), model_hash(), hash_files([os.path.join(VERIF, "harness", "gen.py"),
                                                            os.path.join(VERIF, "harness", "corpus.py")]), str(seed), tier)[:20]


def attribute(rows, index, cases):
    per_site = {}
    attributed = []
    unattributed = 0
    for r in rows:
        m = SITE_RE.search(r.get("site", ""))
        k = (m.group(1), int(m.group(2))) if m else None
        if k is not None and k not in index and ("nested",) + k in index:
            # an invocation the user wrote inside the case's item: a record of its own, numbered from 1000 so that it is never
            # taken for the case's own record (nth 0) or for the nested invocation the macro itself emits (nth 1)
            k = ("nested",) + k
            r["cid"] = index[k]
            r["nth"] = 1000 + per_site.get(k, 0)
            r["nested"] = True
            per_site[k] = per_site.get(k, 0) + 1
            attributed.append(r)
            continue
        if k is None or k not in index:
            unattributed += 1
            continue
        r["cid"] = index[k]
        r["nth"] = per_site.get(k, 0)
        per_site[k] = r["nth"] + 1
        attributed.append(r)
    seen = set(r["cid"] for r in attributed)
    missing = [c.cid for c in cases if c.cid not in seen]
    return attributed, unattributed, missing


def run_cases(cases, name, root=None, shard_fn=None, order_rng=None, features=(False, True), release=False, as_dependencies=False):
    """cases through the real macro in both feature settings; returns the result dict"""
    root = root or os.path.join(WORK, "corpus", name)
    os.makedirs(root, exist_ok=True)
    result = {"key": name, "cases": [c.descr() for c in cases], "rows": {}, "stats": {}}
    for feature in features:
        fname = "on" if feature else "off"
        ws = os.path.join(root, fname)
        index = write_workspace(ws, cases, feature, shard_fn, order_rng, as_dependencies)
        # generous: a quick corpus takes well under a minute, a thorough one about ten; a macro that does not terminate takes forever
        dumps, out, panics = run_workspace(ws, feature, name, release, timeout=240 + int(0.03 * len(cases)),
                                           package="zztop" if as_dependencies else None)
        rows = model_rows(dumps, ws)
        attributed, unattributed, missing = attribute(rows, index, cases)
        result["rows"][fname] = attributed
        result["stats"][fname] = {"records": len(rows), "unattributed": unattributed, "missing_cases": len(missing),
                                  "missing_sample": missing[:20], "rustc_panics_reported": panics}
        log("[corpus] feature=%s: %d records, %d unattributed, %d cases without record" % (fname, len(rows), unattributed, len(missing)))
        # the workspace sources are kept for replay; dumps and sexp are dropped to save space
        for f in dumps:
            os.remove(f)
        os.remove(os.path.join(ws, "cases.sexp"))
    return result


def load_or_run(seed, tier, keep_others=False):
    """returns dict: cases (descr list), rows per feature: list of rows with cid/nth attached, stats"""
    from common import ensure_tools
    ensure_tools()
    key = corpus_key(seed, tier)
    root = os.path.join(WORK, "corpus", key)
    done = os.path.join(root, "result.json")
    if os.path.exists(done):
        with open(done) as fh:
            return json.load(fh)
    # keep the cache small: drop other corpora
    base = os.path.join(WORK, "corpus")
    if os.path.isdir(base) and not keep_others:
        for d in os.listdir(base):
            if d != key:
                shutil.rmtree(os.path.join(base, d), ignore_errors=True)
    cases = gen.build_corpus(seed, tier)
    result = run_cases(cases, key, root)
    result.update({"seed": seed, "tier": tier})
    with open(done, "w") as fh:
        json.dump(result, fh)
    return result


def rerun_shuffled(res, seed, runs=1):
    """the same cases again: other compiler processes, other sharding, shuffled order, and (first re-run) the macro built
    under the other cargo profile — release: no debug assertions (for C20).
    Only the feature-off workspace unless runs > 1. Cached next to the corpus."""
    import random
    root = os.path.join(WORK, "corpus", res["key"])
    done = os.path.join(root, "rerun%d.json" % runs)
    if os.path.exists(done):
        with open(done) as fh:
            return json.load(fh)
    cases = []
    for d in res["cases"]:
        c = gen.Case(d["family"], d["attr"], d["item"], macro=d["macro"], tags=d["tags"], pair=d["pair"])
        c.cid = d["cid"]
        cases.append(c)
    out = {}
    for k in range(runs):
        rng = random.Random(seed * 31 + k)
        salt = rng.randrange(1, 1000)

        def shard_fn(c, salt=salt):
            if c.family in RISKY:
                return RISKY[c.family]
            return "shard%02d" % ((c.cid * 7 + salt) % (NSHARDS - 1 - k % 3))
        feats = (False,) if k == 0 else (True,) if k == 1 else (False, True)
        # first re-run: release profile, and the corpus crates built as dependencies of another crate instead of as the packages
        # cargo was asked for (CARGO_PRIMARY_PACKAGE and friends differ)
        r = run_cases(cases, res["key"] + "-rerun", os.path.join(root, "rerun-ws"), shard_fn, rng, feats, release=(k == 0),
                      as_dependencies=(k == 0))
        for f, rows in r["rows"].items():
            out.setdefault(f, []).extend(rows)
    shutil.rmtree(os.path.join(root, "rerun-ws"), ignore_errors=True)
    with open(done, "w") as fh:
        json.dump(out, fh)
    return out
