"""Case generators: Rust source for entrait invocations, from one seeded PRNG.

Every case is an item with one `#[entrait::<macro>(<attr>)]` attribute on a known line. The model never
sees what the generator intended: it only sees what the recorder saw. `tags` carry the generator's ground
truth where a property wants an independent oracle (C08: expected method list)."""
import itertools
import random
import re
import zlib


class Case:
    __slots__ = ("cid", "family", "macro", "attr", "item", "tags", "pair")

    def __init__(self, family, attr, item, macro="entrait", tags=None, pair=None):
        self.cid = None
        self.family = family
        self.macro = macro
        self.attr = attr
        self.item = item
        self.tags = tags or {}
        self.pair = pair  # (group id, role) for metamorphic groups

    def descr(self):
        return {"cid": self.cid, "family": self.family, "macro": self.macro, "attr": self.attr,
                "item": self.item, "tags": self.tags, "pair": self.pair}


# ------------------------------------------------------------------------------------------------
# pools

FN_NAMES = ["foo", "bar", "get_user", "arg0", "arg1", "x", "fetch", "_arg0", "handle"]
TRAIT_NAMES = ["Foo", "Bar", "GetUser", "Fetch", "Handle", "Sync", "Send", "Impl", "Future"]
DEP_BOUNDS = ["A", "B", "crate::Q", "C<i32>", "Clone", "'static", "?Sized", "for<'x> F<'x>", "Send", "core::fmt::Debug",
              "Sync", "self::Sync", "crate::marker::Send", "Sized", "my::Sync<i32>"]
TYPES = ["i32", "&str", "String", "Vec<u8>", "(i32, i32)", "Option<i32>", "[u8; 4]", "&'static str", "u8",
         "Box<dyn Fn(i32) -> i32>", "impl Fn(i32) -> i32", "&mut i32", "fn(i32) -> i32", "<i32 as T2>::X"]
RET_TYPES = [None, "i32", "()", "String", "Result<i32, String>", "Option<&'static str>", "impl Iterator<Item = i32>",
             "Box<dyn core::any::Any>", "(i32, String)"]
FN_ATTRS = ["/// doc line", "#[inline]", "#[allow(unused)]", "#[cfg(not(any()))]", "#[doc = \"x\"]", "#[must_use]",
            "#[cfg_attr(test, allow(dead_code))]", "#[deprecated]", "#[tracing::instrument(skip(deps))]",
            "#[doc(hidden)]", "/// second \"quoted\" doc"]
PARAM_ATTRS = ["#[allow(unused)]", "#[cfg(not(any()))]", "#[doc(hidden)]"]
VIS = ["", "pub", "pub(crate)", "pub(super)", "pub(self)", "pub(in crate)"]
BODIES = ["{ unimplemented!() }", "{ 42 }", "{ let _ = 1; { 2 }; 3 }", "{ }", "{ a + b }",
          "{ loop { break; } }", "{ mm!{ a ; b => y @ z # ! $ } }", "{ 'l: loop { break 'l } }",
          "{ |x| x + 1 ; r#\"raw\"# ; b'c' ; 1.5e3 }", "{ struct Inner; impl Inner { pub fn f() {} } }"]


def opt_value(rng, key):
    r = rng.random()
    if r < 0.55:
        return key
    if r < 0.8:
        return key + " = true"
    return key + " = false"


def gen_opts(rng, target, p=0.35, allow_bad=False):
    """a random option list (as list of strings) for target fn|mod|trait|impl"""
    opts = []
    keys_fnmod = ["no_deps", "export", "unimock", "mockall", "?Send", "mock_api"]
    keys_trait = ["unimock", "mockall", "?Send", "mock_api", "delegate_by"]
    keys = keys_fnmod if target in ("fn", "mod") else keys_trait if target == "trait" else []
    for k in keys:
        if rng.random() < p:
            if k == "?Send":
                opts.append("?Send")
            elif k == "mock_api":
                opts.append("mock_api = " + rng.choice(["FooMock", "Mock", "M"]))
            elif k == "delegate_by":
                opts.append("delegate_by" + rng.choice(["", " = ref", " = Borrow", " = Deleg", "=ref"]))
            else:
                opts.append(opt_value(rng, k))
    rng.shuffle(opts)
    # an option written twice: the later one wins
    if keys and rng.random() < 0.12:
        k = rng.choice(keys)
        if k == "?Send":
            again = "?Send"
        elif k == "mock_api":
            again = "mock_api = " + rng.choice(["FooMock", "Other"])
        elif k == "delegate_by":
            again = "delegate_by" + rng.choice(["", "", " = ref", " = Borrow"])
        else:
            again = opt_value(rng, k)
        opts.insert(rng.randrange(len(opts) + 1), again)
    return opts


# ------------------------------------------------------------------------------------------------
# fn signatures

PATTERNS = [
    ("{n}", "i32"), ("mut {n}", "i32"), ("ref {n}", "i32"), ("_", "i32"), ("({n}, {m})", "(i32, i32)"),
    ("N({n})", "N"), ("N2({n}, _)", "N2"), ("S {{ {n} }}", "S"), ("&{n}", "&i32"), ("S {{ a: {n} }}", "S"),
    ("S {{ a: _ }}", "S"), ("[{n}, {m}]", "[i32; 2]"), ("N(N({n}))", "N"), ("({n}, ({m}, _))", "(i32, (i32, i32))"),
    ("(_{n}, {m})", "(i32, i32)"), ("{n} @ _", "i32"), ("(_, _)", "(i32, i32)"), ("ref mut {n}", "i32"),
    ("N(mut {n})", "N"), ("(Up, {n})", "(i32, i32)"), ("S2 {{ {n}, {m} }}", "S2"), ("S {{ {n}, .. }}", "S"),
    ("N(ref {n})", "N"), ("&({n}, _)", "&(i32, i32)"),
]
PARAM_NAMES = ["a", "b", "x", "arg0", "arg1", "_arg1", "__arg0", "arg2", "foo_", "r#type", "r#fn", "deps", "self_", "__impl", "arg10"]


def gen_pattern(rng, fn_name, plain_bias=0.5):
    if rng.random() < plain_bias:
        pat, ty = PATTERNS[0]
    else:
        pat, ty = rng.choice(PATTERNS)
    names = PARAM_NAMES + [fn_name, fn_name + "_"]
    n, m = rng.choice(names), rng.choice(names)
    if m == n:
        m = n + "2" if not n.startswith("r#") else "zz"
    if rng.random() < 0.5 and ty == "i32":
        ty = rng.choice(TYPES)
    return pat.format(n=n, m=m), ty


def gen_generics(rng, want_deps_param, deps_name):
    """returns (params list of strings, where list of strings)"""
    params, where = [], []
    lifetimes = []
    if rng.random() < 0.3:
        lifetimes.append("'a")
        if rng.random() < 0.3:
            lifetimes.append("'b: 'a" if rng.random() < 0.5 else "'b")
    params += lifetimes
    others = []
    if want_deps_param:
        inline = []
        nb = rng.choice([0, 0, 1, 1, 2, 3])
        bs = rng.sample(DEP_BOUNDS, nb)
        place = rng.choice(["inline", "where", "both", "split"])
        if place == "inline":
            inline = bs
        elif place == "where":
            if bs:
                where.append(deps_name + ": " + " + ".join(bs))
        elif place == "both":
            inline = bs
            if bs:
                where.append(deps_name + ": " + " + ".join(rng.sample(DEP_BOUNDS, rng.choice([1, 2]))))
        else:
            inline = bs[: len(bs) // 2]
            rest = bs[len(bs) // 2:]
            for bb in rest:
                where.append(deps_name + ": " + bb)
        others.append(deps_name + (": " + " + ".join(inline) if inline else ""))
    for t in ["T", "U"]:
        if rng.random() < 0.25:
            b = rng.choice(["", ": Clone", ": Send + 'static", " = i32", ": ?Sized"])
            others.append(t + b)
            r = rng.random()
            if r < 0.3:
                where.append(t + ": " + rng.choice(["Copy", "Into<i32>", "'static"]))
            elif r < 0.4:
                where.append("Vec<" + t + ">: Clone")
            elif r < 0.5:
                where.append(t + "::Item: Copy")
            elif r < 0.55:
                where.append("<" + t + " as Tr>::X: Copy")
    if rng.random() < 0.12:
        others.append("const N: usize")
    if rng.random() < 0.5:
        rng.shuffle(others)
    params += others
    if lifetimes and rng.random() < 0.2:
        where.append("'a: 'static")
    return params, where


def render_generics(rng, params, where):
    g = ""
    if params:
        g = "<" + ", ".join(params) + ("," if rng.random() < 0.1 else "") + ">"
    elif rng.random() < 0.03:
        g = "<>"
    w = ""
    if where:
        w = " where " + ", ".join(where) + ("," if rng.random() < 0.2 else "")
    elif rng.random() < 0.02:
        w = " where"
    return g, w


def gen_fn(rng, *, name=None, mode="fn", deps_kinds=None, allow_err=False, vis=None, qualifiers=True):
    """returns (text, info). mode: fn | modfn | implfn"""
    name = name or rng.choice(FN_NAMES)
    info = {"name": name}
    deps_name = rng.choice(["D", "Deps", "T0"])
    kinds = deps_kinds or ["ref_generic", "ref_generic", "ref_lt_generic", "val_generic", "ref_impl", "ref_impl",
                           "ref_paren_impl", "val_impl", "concrete", "concrete_path", "concrete_inst", "concrete_tuple",
                           "concrete_ref_lt", "paren_ref", "refref"]
    if allow_err:
        kinds = kinds + ["none", "self", "qself", "leading_colon", "mut_ref"]
    kind = rng.choice(kinds)
    info["deps_kind"] = kind
    want_param = kind in ("ref_generic", "ref_lt_generic", "val_generic", "paren_ref", "refref", "mut_ref")
    params, where = gen_generics(rng, want_param, deps_name)
    if kind == "ref_lt_generic" or kind == "concrete_ref_lt":
        if not any(p.startswith("'a") for p in params):
            params.insert(0, "'a")
    ib = " + ".join(rng.sample(DEP_BOUNDS[:6] + ["Sync", "self::Sync", "Send"], rng.choice([1, 1, 2, 3])))
    deps_ty = {
        "ref_generic": "&" + deps_name, "ref_lt_generic": "&'a " + deps_name, "val_generic": deps_name,
        "ref_impl": "&impl " + ib.split(" + ")[0], "ref_paren_impl": "&(impl " + ib + ")", "val_impl": "impl " + ib,
        "concrete": "&App", "concrete_path": "&crate::App", "concrete_inst": "&G<i32>", "concrete_tuple": "&(i32, App)",
        "concrete_ref_lt": "&'a App", "paren_ref": "(&" + deps_name + ")", "refref": "&&" + deps_name,
        "mut_ref": "&mut " + deps_name, "qself": "&<App as Tr>::X", "leading_colon": "&::app::App",
    }.get(kind)
    args = []
    if kind == "self":
        args.append(rng.choice(["&self", "self", "&mut self"]))
    elif kind != "none":
        dp = rng.choice(["deps", "deps", "_", "d", "_deps", name])
        pa = (rng.choice(PARAM_ATTRS) + " ") if rng.random() < 0.05 else ""
        args.append(pa + dp + ": " + deps_ty)
    n_extra = rng.choice([0, 0, 1, 1, 2, 2, 3, 4, 6])
    for _ in range(n_extra):
        pat, ty = gen_pattern(rng, name)
        pa = (rng.choice(PARAM_ATTRS) + " ") if rng.random() < 0.08 else ""
        args.append(pa + pat + ": " + ty)
    g, w = render_generics(rng, params, where)
    quals = ""
    if qualifiers:
        r = rng.random()
        if r < 0.22:
            quals = "async "
        elif r < 0.27:
            quals = "unsafe "
        elif r < 0.30:
            quals = "async unsafe "
        elif r < 0.33:
            quals = "extern \"C\" "
        elif r < 0.35:
            quals = "unsafe extern \"C\" "
        elif r < 0.37:
            quals = "const "
        elif r < 0.39:
            quals = "extern "
        elif r < 0.40:
            quals = "const unsafe "
    info["async"] = "async" in quals
    ret = rng.choice(RET_TYPES)
    if kind in ("ref_lt_generic", "concrete_ref_lt") and rng.random() < 0.4:
        ret = "&'a i32"
    v = vis if vis is not None else rng.choice(VIS)
    attrs = []
    for _ in range(rng.choice([0, 0, 0, 1, 1, 2, 3])):
        attrs.append(rng.choice(FN_ATTRS))
    if "async" in quals and rng.random() < 0.15:
        attrs.append(rng.choice(["#[async_trait]", "#[async_trait::async_trait]", "#[::async_trait::async_trait(?Send)]", "#[prelude::async_trait]", "#[a::b::async_trait]", "#[my::async_trait(?Send)]"] + ["#[automock]", "#[my::automock]"]))
    if rng.random() < 0.03:
        attrs.append("#[mockall::automock]")
    text = ""
    for a in attrs:
        text += a + "\n"
    trailing = "," if args and rng.random() < 0.15 else ""
    text += (v + " " if v else "") + quals + "fn " + name + g + "(" + ", ".join(args) + trailing + ")"
    if ret is not None:
        text += " -> " + ret
    text += w + " " + rng.choice(BODIES)
    info["vis"] = v
    return text, info


def fam_fn_general(rng, n):
    out = []
    for _ in range(n):
        text, info = gen_fn(rng, allow_err=rng.random() < 0.1)
        opts = gen_opts(rng, "fn")
        tv = rng.choice(["", "", "pub ", "pub(crate) ", "pub(super) ", "pub(in crate) "])
        tn = rng.choice(TRAIT_NAMES)
        attr = ", ".join([tv + tn] + opts)
        out.append(Case("fn_general", attr, text, macro=rng.choice(["entrait", "entrait", "entrait_export"]), tags=info))
    return out


# ------------------------------------------------------------------------------------------------
# modules

DECOYS = [
    "fn private_fn(d: &impl A) {}",
    "unsafe fn private_unsafe(d: &impl A, i: usize) -> i32 { 0 }",
    "async fn private_async<D>(d: &D) {}",
    "const fn private_const(d: &()) -> i32 { 1 }",
    "extern \"C\" fn private_extern(d: &impl A) {}",
    "const unsafe fn private_cu<D: A>(d: D) {}",
    "struct St { a: i32 }",
    "fn sum_items<I: Iterator<Item = u8>>(i: I) -> u8 { 0 }",
    "struct Gd<T = i32> { t: T }",
    "impl<T: Iterator<Item = u8>> Gd<T> { pub fn n(&self) {} }",
    "pub type Al<T = i32> where T: Copy = Vec<T>;",
    "const CND: usize = if true { 1 } else { 2 };",
    "pub struct Pu;",
    "const K: i32 = { 1 + 2 };",
    "pub const fn_like: i32 = 3;",
    "static ST: i32 = 0;",
    "use core::fmt;",
    "pub use core::fmt::Debug;",
    "impl St { pub fn nested(&self) {} pub async fn nested2() {} }",
    "mod inner { pub fn deep(d: &impl A) {} }",
    "pub mod inner2 { pub fn deep2<D>(d: &D) {} }",
    "extern \"C\" { pub fn ext(a: i32); }",
    "macro_rules! mm { () => { pub fn from_macro() {} }; }",
    "pub(crate) type Alias = fn(i32) -> i32;",
    "pub trait Tt { fn tm(&self); }",
    "enum E { A, B }",
    "pub fn bodiless(d: &impl A);",
    "fn private_bodiless();",
    "pub unsafe fn bodiless2<D>(d: &D) -> i32;",
    ";",
    "mm!{}",
    "mm!();",
    "pub static PS: fn() = || {};",
    "#[derive(Clone)] pub struct Der(i32);",
    "pub union Un { a: i32 }",
    "pub(crate) struct Tup(pub i32, pub(crate) fn(i32));",
    "pub enum Pe { V { f: fn() } }",
]

MOD_GENERIC_KINDS = ["ref_generic", "ref_generic", "ref_impl", "ref_impl", "val_generic", "ref_lt_generic", "val_impl", "ref_paren_impl"]


def gen_mod(rng, *, allow_err=False, nfns=None):
    items = []
    expected = []
    nf = nfns if nfns is not None else rng.choice([0, 1, 1, 2, 2, 3, 4, 5])
    names = rng.sample(["f1", "f2", "foo", "bar", "baz", "arg0", "get", "put", "x"], nf)
    for nm in names:
        kinds = MOD_GENERIC_KINDS + (["concrete"] if allow_err and rng.random() < 0.3 else [])
        v = rng.choice(["pub", "pub", "pub(crate)", "pub(super)", "pub(in crate)", "pub(self)"])
        text, info = gen_fn(rng, name=nm, mode="modfn", deps_kinds=kinds, vis=v)
        if rng.random() < 0.08:
            text = "#[cfg(any())]\n" + text
        items.append(text + (";" * rng.choice([0, 0, 0, 1, 2])))
        expected.append(nm)
    decoys = []
    for _ in range(rng.choice([0, 1, 2, 3, 5])):
        decoys.append(rng.choice(DECOYS))
    all_items = [(t, True) for t in items] + [(t, False) for t in decoys]
    # keep fn order, interleave decoys at random positions
    merged = [t for t, _ in all_items[:len(items)]]
    for d in decoys:
        merged.insert(rng.randrange(len(merged) + 1), d)
    if rng.random() < 0.08 and items:
        # the same function written twice under complementary cfgs (the usual platform split)
        nm0 = rng.choice(["foo", "get"])
        dup_a = "#[cfg(any())]\npub fn %s(d: &impl A, a: i32) -> i32 { a }" % nm0
        dup_b = "#[cfg(not(any()))]\npub fn %s(d: &impl A, a: i32) -> i32 { a + 1 }" % nm0
        k0 = rng.randrange(len(merged) + 1)
        merged.insert(k0, dup_a)
        merged.insert(rng.randrange(k0 + 1, len(merged) + 1), dup_b)
        expected = None          # the generator's own list of expected methods does not cover this shape
    mv = rng.choice(["", "pub ", "pub(crate) "])
    mname = rng.choice(["m", "api", "inner_mod", "foo", "r#async", "r#type", "r#mod"])
    mattrs = ""
    if rng.random() < 0.2:
        mattrs = rng.choice(["/// mod doc\n", "#[allow(unused)]\n", "#[async_trait]\n", "#[cfg(not(any()))]\n", "#[prelude::async_trait]\n", "#[my::automock]\n"])
    text = mattrs + mv + "mod " + mname + " {\n" + "\n".join(merged) + "\n}"
    return text, {"expected_methods": expected, "mod": mname}


def fam_mod_general(rng, n):
    out = []
    for _ in range(n):
        text, info = gen_mod(rng, allow_err=rng.random() < 0.08)
        opts = gen_opts(rng, "mod", p=0.25)
        tv = rng.choice(["", "", "pub ", "pub(crate) ", "pub(super) ", "pub(self) ", "pub(in crate) ", "pub(in self) ", "pub(in super) ",
                         "pub(in super::super) ", "pub(in crate::a::b) ", "pub(in super::super::x) "])
        tn = rng.choice(TRAIT_NAMES)
        attr = ", ".join([tv + tn] + opts)
        out.append(Case("mod_general", attr, text, macro=rng.choice(["entrait", "entrait", "entrait_export"]), tags=info))
    return out


# ------------------------------------------------------------------------------------------------
# traits

def gen_trait_method(rng, name):
    recv = rng.choice(["&self", "&self", "&self", "&'a self", "self", "&mut self", "", "self: &Self", "mut self"])
    g = ""
    if recv == "&'a self":
        g = "<'a>"
    elif rng.random() < 0.15:
        g = rng.choice(["<T>", "<T: Clone>", "<'b, T>", "<const N: usize>"])
    args = [recv] if recv else []
    for i in range(rng.choice([0, 0, 1, 2, 3])):
        if rng.random() < 0.04:
            args.append("(p, q): (i32, i32)")
        elif rng.random() < 0.04:
            args.append("_: i32")
        else:
            pa = (rng.choice(PARAM_ATTRS) + " ") if rng.random() < 0.05 else ""
            args.append(pa + rng.choice(["a", "b", "x", name, "arg0"]) + str(i) + ": " + rng.choice(TYPES))
    a = "async " if rng.random() < 0.25 else ""
    if rng.random() < 0.03:
        a += "unsafe "
    ret = rng.choice(RET_TYPES)
    if recv == "&'a self" and rng.random() < 0.5:
        ret = "&'a str"
    w = " where Self: Sized" if rng.random() < 0.05 else ""
    attrs = ""
    for _ in range(rng.choice([0, 0, 0, 1, 2])):
        attrs += rng.choice(["/// method doc", "#[cfg(not(any()))]", "#[allow(unused)]", "#[must_use]", "#[cfg(any())]"]) + "\n"
    body = ";" if rng.random() < 0.9 else " { unimplemented!() }"
    return attrs + a + "fn " + name + g + "(" + ", ".join(args) + ")" + (" -> " + ret if ret else "") + w + body, a.startswith("async")


def gen_trait(rng):
    name = rng.choice(TRAIT_NAMES)
    v = rng.choice(["", "pub ", "pub(crate) "])
    g = rng.choice(["", "", "", "<T>", "<'a, T: Clone>", "<T, U = i32>", "<const N: usize>", "<T,>",
                    "<const N: usize, T>", "<T, const N: usize, U>", "<'a, 'b: 'a, T: 'a>", "<K, V>", "<const A: usize, const B: bool>"])
    sup = rng.choice(["", "", ": 'static", ": Sync + 'static", ": Clone + Send", ": core::fmt::Debug +"])
    w = rng.choice(["", "", ""]) if not g else rng.choice(["", " where T: Send", " where T: Send,"])
    attrs = ""
    any_async = False
    items = []
    for i in range(rng.choice([0, 1, 1, 2, 3, 5])):
        m, is_async = gen_trait_method(rng, rng.choice(["m", "get", "put", "foo", "bar"]) + str(i))
        any_async = any_async or is_async
        items.append(m)
    if rng.random() < 0.08:
        items.insert(rng.randrange(len(items) + 1), rng.choice(["type Out;", "type Out: Clone;", "type G<'x> where Self: 'x;"]))
    if rng.random() < 0.03:
        items.insert(rng.randrange(len(items) + 1), rng.choice(["const C: i32;", "mm!{}"]))
    for _ in range(rng.choice([0, 0, 1, 2])):
        attrs += rng.choice(["/// trait doc", "#[allow(unused)]", "#[doc(hidden)]", "#[cfg(not(any()))]"]) + "\n"
    if any_async and rng.random() < 0.4:
        attrs += rng.choice(["#[async_trait]", "#[async_trait::async_trait]", "#[::async_trait::async_trait(?Send)]", "#[prelude::async_trait]", "#[a::b::async_trait]", "#[my::async_trait(?Send)]"]) + "\n"
    if rng.random() < 0.04:
        attrs += "#[mockall::automock]\n"
    u = "unsafe " if rng.random() < 0.03 else ""
    text = attrs + v + u + "trait " + name + g + sup + w + " {\n" + "\n".join(items) + "\n}"
    return text, {"trait": name}


def fam_trait_general(rng, n):
    out = []
    for _ in range(n):
        text, info = gen_trait(rng)
        opts = gen_opts(rng, "trait", p=0.22)
        head = []
        r = rng.random()
        if r < 0.35:
            head = [rng.choice(["", "pub ", "pub(crate) "]) + rng.choice(["FooImpl", "TheImpl", "Inner"])]
            if not any(o.startswith("delegate_by") for o in opts) and rng.random() < 0.85:
                opts.append("delegate_by" + rng.choice([" = ref", " = Deleg", " = Borrow", "=ref", " = DelegateFoo"]))
        attr = ", ".join(head + opts)
        out.append(Case("trait_general", attr, text, macro=rng.choice(["entrait", "entrait", "entrait_export"]), tags=info))
    return out


# ------------------------------------------------------------------------------------------------
# impl blocks

def gen_impl(rng, allow_err=False):
    items = []
    nf = rng.choice([0, 1, 1, 2, 3, 5])
    names = rng.sample(["f1", "f2", "foo", "bar", "baz", "get", "put"], nf)
    for nm in names:
        kinds = MOD_GENERIC_KINDS + (["concrete", "none"] if allow_err and rng.random() < 0.4 else [])
        v = rng.choice(["", "", "pub", "pub(crate)"])
        text, info = gen_fn(rng, name=nm, mode="implfn", deps_kinds=kinds, vis=v)
        items.append(text)
    for _ in range(rng.choice([0, 0, 1, 2])):
        items.insert(rng.randrange(len(items) + 1), rng.choice(
            ["const K: i32 = 1;", "type X = i32;", "fn bodiless(d: &impl A);", "mm!{}", "pub const Q: fn() = || {};"]))
    u = "unsafe " if rng.random() < 0.04 else ""
    tp = rng.choice(["FooImpl", "crate::FooImpl", "super::TheImpl", "FooImpl<i32>", "::ext::FooImpl", "self::FooImpl", "a::b::TheImpl", "::ext::a::TheImpl"])
    st = rng.choice(["MyType", "crate::MyType", "G<i32>", "(i32, u8)", "&'static MyType", "[u8; 2]"])
    attrs = ""
    for _ in range(rng.choice([0, 0, 1])):
        attrs += rng.choice(["/// impl doc", "#[allow(unused)]", "#[async_trait]", "#[async_trait::async_trait]", "#[prelude::async_trait]", "#[x::y::async_trait]"]) + "\n"
    text = attrs + u + "impl " + tp + " for " + st + " {\n" + "\n".join(items) + "\n}"
    return text, {}


def fam_impl_general(rng, n):
    out = []
    for _ in range(n):
        text, info = gen_impl(rng, allow_err=rng.random() < 0.1)
        attr = rng.choice(["", "", "ref", "dyn", "ref dyn", "debug = false", "ref debug = false"])
        out.append(Case("impl_general", attr, text, macro=rng.choice(["entrait", "entrait", "entrait_export"]), tags=info))
    return out


# ------------------------------------------------------------------------------------------------
# C16: pattern lists over the property's alphabet (exhaustive up to a length)

ALPHABET = [
    ("{v}", "i32"), ("mut {v}", "i32"), ("ref {v}", "i32"), ("r#type", "i32"), ("_", "i32"), ("({v}, {w})", "(i32, i32)"),
    ("N({v})", "N"), ("N2({v}, _)", "N2"), ("S {{ {v} }}", "S"), ("&{v}", "&i32"), ("{fn}", "i32"), ("arg{k}", "i32"),
]


def fam_c16(rng, maxlen, sample=None):
    """all pattern lists up to maxlen over the 12-letter alphabet; position-dependent fresh names"""
    out = []
    lists = []
    for ln in range(0, maxlen + 1):
        lists += list(itertools.product(range(len(ALPHABET)), repeat=ln))
    if sample is not None and len(lists) > sample:
        head = [l for l in lists if len(l) <= 2]
        tail = [l for l in lists if len(l) > 2]
        lists = head + rng.sample(tail, max(0, sample - len(head)))
    for idxs in lists:
        args = ["deps: &impl A"]
        for pos, i in enumerate(idxs):
            pat, ty = ALPHABET[i]
            # "would-be generated name": the name stage 3 would pick for a *neighbouring* position
            k = (pos + 1) % max(1, len(idxs))
            args.append(pat.format(v="v%d" % pos, w="w%d" % pos, fn="foo", k=k) + ": " + ty)
        text = "fn foo(" + ", ".join(args) + ") { unimplemented!() }"
        out.append(Case("c16_alphabet", "Foo", text, tags={"letters": list(idxs)}))
    return out


def fam_c16_random(rng, n):
    """longer lists with colliding names, no_deps and module placement"""
    out = []
    for _ in range(n):
        fn = rng.choice(["foo", "arg0", "arg1", "_arg0", "x", "r#type", "r#match"])
        nd = rng.random() < 0.3
        args = [] if nd else ["deps: &impl A"]
        for _ in range(rng.choice([1, 2, 3, 4, 5, 7, 11])):
            pat, ty = gen_pattern(rng, fn, plain_bias=0.3)
            # a third of the patterns spell one binding as a raw identifier (`r#arg0` is the identifier `arg0`); decided by a
            # hash of the text so far, not by the generator's random stream
            if zlib.crc32((fn + ",".join(args) + pat).encode()) % 3 == 0:
                pat = re.sub(r"(?<![#\w])(a|b|x|arg0|arg1|_arg1|__arg0|arg2|arg10|foo_|foo|_arg0)\b", lambda mo: "r#" + mo.group(1), pat, count=1)
            args.append(pat + ": " + ty)
        text = "fn " + fn + "(" + ", ".join(args) + ") { unimplemented!() }"
        out.append(Case("c16_random", "Foo" + (", no_deps" if nd else ""), text, tags={}))
    return out


# ------------------------------------------------------------------------------------------------
# C10 / C17: option lattice and metamorphic groups

ITEMS_BY_MODE = {
    "fn": "fn foo(deps: &impl A, a: i32) -> i32 { a }",
    "fn_async": "async fn foo<D: A>(deps: &D, a: i32) -> i32 { a }",
    "fn_concrete": "fn foo(deps: &App, a: i32) -> i32 { a }",
    "mod": "mod m { pub fn foo(deps: &impl A, a: i32) -> i32 { a } pub async fn bar<D>(d: &D) {} }",
    "trait": "trait Foo { fn foo(&self, a: i32) -> i32; async fn bar(&self); }",
    "impl": "impl FooImpl for MyType { pub fn foo(deps: &impl A, a: i32) -> i32 { a } }",
}


def fam_lattice(rng, sample=None):
    """{entrait, entrait_export} x unimock{-,t,f} x mock_api{-,M} x mockall{-,t,f} x export{-,t,f} x {fn,mod,trait}"""
    out = []
    tri = [None, "true", "false", "bare"]
    points = list(itertools.product(["entrait", "entrait_export"], tri, [None, "M"], tri, tri, ["fn", "mod", "trait", "fn_concrete"]))
    if sample is not None and len(points) > sample:
        points = rng.sample(points, sample)
    for macro, um, api, ma, ex, mode in points:
        opts = []
        for key, val in (("unimock", um), ("mockall", ma), ("export", ex)):
            if val == "bare":
                opts.append(key)
            elif val is not None:
                opts.append(key + " = " + val)
        if api:
            opts.append("mock_api = " + api)
        rng.shuffle(opts)
        head = [] if mode == "trait" else ["Foo"]
        out.append(Case("lattice", ", ".join(head + opts), ITEMS_BY_MODE[mode], macro=macro,
                        tags={"um": um, "api": api, "ma": ma, "ex": ex, "mode": mode}))
    return out


def fam_c17(rng, n_groups):
    """metamorphic groups: members of a group must expand to the same tokens"""
    out = []
    gid = 0
    keys = ["no_deps", "export", "unimock", "mockall", "?Send", "mock_api = M"]
    tkeys = ["mockall", "unimock", "?Send", "mock_api = M", "delegate_by = ref", "debug = false"]
    titem = "trait Foo { fn foo(&self, a: i32) -> i32; fn bar(&self); }"
    for _ in range(max(1, n_groups // 3)):
        gid += 1
        subset = [k for k in tkeys if rng.random() < 0.5]
        if len(subset) < 2:
            subset = ["mockall", "delegate_by = ref"]
        kind = rng.choice(["order", "order", "bare_true"])
        if kind == "order":
            perms = [subset[:], subset[::-1]]
            p = subset[:]
            rng.shuffle(p)
            perms.append(p)
            # a bare option first, then the rest
            bare = [k for k in subset if "=" not in k and k != "?Send"]
            if bare:
                perms.append([bare[0]] + [k for k in subset if k != bare[0]])
            for p in perms:
                out.append(Case("c17", ", ".join(p), titem, pair=(gid, "eq")))
        else:
            bools = [k for k in subset if "=" not in k and k != "?Send"]
            out.append(Case("c17", ", ".join(subset), titem, pair=(gid, "eq")))
            out.append(Case("c17", ", ".join((k + " = true" if k in bools else k) for k in subset), titem, pair=(gid, "eq")))
    for _ in range(n_groups):
        gid += 1
        mode = rng.choice(["fn", "fn_async", "mod", "fn"])
        item = ITEMS_BY_MODE[mode]
        kind = rng.choice(["bare_true", "order", "false_omit", "export_variant", "feature"])
        subset = [k for k in keys if rng.random() < 0.4]
        if kind == "bare_true":
            bools = [k for k in subset if "=" not in k and k != "?Send"]
            a = ["Foo"] + subset
            b = ["Foo"] + [(k + " = true" if k in bools else k) for k in subset]
            out.append(Case("c17", ", ".join(a), item, pair=(gid, "eq")))
            out.append(Case("c17", ", ".join(b), item, pair=(gid, "eq")))
        elif kind == "order":
            perms = [subset[:]]
            for _ in range(2):
                p = subset[:]
                rng.shuffle(p)
                perms.append(p)
            for p in perms:
                out.append(Case("c17", ", ".join(["Foo"] + p), item, pair=(gid, "eq")))
        elif kind == "false_omit":
            base = [k for k in subset if k not in ("no_deps", "export")]
            out.append(Case("c17", ", ".join(["Foo"] + base), item, pair=(gid, "eq")))
            extra = base + rng.sample(["no_deps = false", "export = false"], rng.choice([1, 2]))
            rng.shuffle(extra)
            out.append(Case("c17", ", ".join(["Foo"] + extra), item, pair=(gid, "eq")))
        elif kind == "export_variant":
            base = [k for k in subset if k != "export"]
            out.append(Case("c17", ", ".join(["Foo"] + base), item, macro="entrait_export", pair=(gid, "eq")))
            out.append(Case("c17", ", ".join(["Foo"] + base + ["export"]), item, macro="entrait", pair=(gid, "eq")))
            # explicit export wins over the variant
            ex = rng.choice(["export = false", "export = true", "export"])
            out.append(Case("c17", ", ".join(["Foo"] + base + [ex]), item, macro="entrait_export", pair=(gid, "eq2")))
            out.append(Case("c17", ", ".join(["Foo"] + base + [ex]), item, macro="entrait", pair=(gid, "eq2")))
        else:
            base = [k for k in subset if k != "unimock"]
            mac = rng.choice(["entrait", "entrait_export"])
            # compared across the two feature settings by the checker
            out.append(Case("c17", ", ".join(["Foo"] + base), item, macro=mac, pair=(gid, "feat_implicit")))
            out.append(Case("c17", ", ".join(["Foo"] + base + ["unimock"]), item, macro=mac, pair=(gid, "feat_explicit")))
            um = rng.choice(["unimock = false", "unimock = true", "unimock"])
            out.append(Case("c17", ", ".join(["Foo"] + base + [um]), item, macro=mac, pair=(gid, "feat_set")))
    return out


# ------------------------------------------------------------------------------------------------
# C15: malformed stream

BAD_ATTRS_FN = [
    "", "Foo,", "Foo bar", "Foo, bogus", "Foo, no_deps = 1", "Foo, unimock = maybe", "Foo, mock_api", "Foo, mock_api = 3",
    "Foo, ?Sync", "Foo, ?", "Foo, delegate_by = ref", "Foo, delegate_by", "Foo, no_deps no_deps", "Foo,, no_deps",
    "pub", "pub(crate)", "fn", "Foo, export = \"yes\"", "Foo; no_deps", "Foo, r#no_deps", "3", "Foo, no_depss",
    "pub(in) Foo", "Foo, no_deps,", "Foo, mock_api = Self", "Foo, unimock = true = false", "Foo, debug = false",
    "crate::Foo", "Foo<T>", "Foo, ?Send = true", "Foo, mock_api = r#type", "Foo, export, export = false, export",
    "_", "Foo, _", "Foo, true",
    "Foo, ?no_deps", "Foo, ?export", "Foo, ?debug", "Foo, ?unimock", "Foo, ?mockall = true", "Foo, ?mock_api = M", "Foo, ? Send", "Foo, ??Send",
    "Foo, Send", "Foo, ?send",
]
BAD_ATTRS_TRAIT = [
    "no_deps", "export", "export = false", "FooImpl", "FooImpl,", "FooImpl delegate_by = ref", "delegate_by = Deleg",
    "FooImpl, delegate_by", "FooImpl, delegate_by = Self", "delegate_by = Self", "FooImpl, bogus", "bogus", "bogus = 3",
    "pub FooImpl, delegate_by = ref", "unimock = 3", "mock_api", "FooImpl, delegate_by = ref,", "delegate_by = ref ref",
    "pub", "?Send, ?Send", "FooImpl, delegate_by = Borrow", "debug = false", "delegate_by = Borrow", "mockall, unimock,",
    "FooImpl, delegate_by = ref, delegate_by = Deleg", "FooImpl, delegate_by = Deleg, delegate_by = ref", "unimok",
    "?delegate_by = ref", "?mockall", "?unimock = false", "?mock_api = M", "FooImpl, ?delegate_by = ref", "?debug", "Send", "? Send",
]
BAD_ATTRS_IMPL = ["Foo", "ref,", "ref, debug", "dyn ref", "ref ref", "no_deps", "debug, debug = false", "ref debug = false",
                  "unimock", "debug = 1", "dyn debug = false, ", "export", "?Send", "bogus", "ref bogus", "debug = false debug",
                  "?debug", "ref ?debug", "?debug = false"]
BAD_ITEMS = [
    "struct Sx;", "enum Ex { A }", "impl MyType { pub fn f(d: &impl A) {} }", "mod outline;", "auto trait Au {}",
    "unsafe mod um {}", "unsafe auto trait Uat {}", "const CX: i32 = 1;",
    "use core::fmt;", "type Tx = i32;", "static SX: i32 = 1;", "extern \"C\" { fn e(); }", "macro_rules! mx { () => {} }",
    "unsafe impl FooImpl for MyType { fn f(d: &impl A) {} }", "impl<T> FooImpl for Vec<T> { fn f(d: &impl A) {} }",
    "impl !FooImpl for MyType {}", "pub impl FooImpl for MyType { fn f(d: &impl A) {} }", "union Ux { a: i32 }",
    "fn bodiless(d: &impl A);", "pub unsafe fn uf(d: &impl A) {}", "pub(crate) unsafe extern \"C\" fn uef(d: &impl A) {}",
    "unsafe trait Ut { fn f(&self); }", "pub auto trait Pat {}", "trait Alias = Clone;", "extern crate core as cc;",
    "mod with_inner { #![allow(unused)] pub fn f(d: &impl A) {} }", "impl FooImpl for MyType { fn f(self, a: i32) {} }", "impl FooImpl for MyType { fn f() {} }",
    "mod conc { pub fn f(d: &App) {} }", "impl FooImpl for MyType { fn f(d: &App) {} }",
    "fn r#type<D>(d: &D, r#type: i32) {}", "fn foo<D>(d: &D, foo: i32, foo_: i32) {}",
    "trait Td { fn f(&self, (a, b): (i32, i32)) {} }", "trait Tw { fn f(&self, _: i32); }",
    "trait Tc { const C: i32; fn f(&self); }", "trait Tm { mm!{} }", "trait Tr2 { fn f(&self, mut a: i32) {} }",
]


def fam_malformed(rng, n):
    out = []
    fn_item = "fn foo(deps: &impl A, a: i32) -> i32 { a }"
    trait_item = "trait Foo { fn foo(&self, a: i32) -> i32; }"
    impl_item = "impl FooImpl for MyType { fn foo(deps: &impl A, a: i32) -> i32 { a } }"
    mod_item = "mod m { pub fn foo(deps: &impl A, a: i32) -> i32 { a } }"
    for a in BAD_ATTRS_FN:
        out.append(Case("malformed_attr", a, fn_item))
        out.append(Case("malformed_attr", a, mod_item))
    for a in BAD_ATTRS_TRAIT:
        out.append(Case("malformed_attr", a, trait_item))
    for a in BAD_ATTRS_IMPL:
        out.append(Case("malformed_attr", a, impl_item))
    for it in BAD_ITEMS:
        for a in ["Foo", "", "FooImpl, delegate_by = ref", "ref", "Foo, no_deps"]:
            out.append(Case("malformed_item", a, it))
    # documented misuses with random surroundings
    for _ in range(n):
        text, info = gen_fn(rng, allow_err=True, deps_kinds=["none", "self", "qself", "leading_colon", "none", "self"])
        opts = gen_opts(rng, "fn", p=0.2)
        out.append(Case("malformed_fn", ", ".join(["Foo"] + opts), text, tags=info))
    for _ in range(n // 2):
        text, info = gen_mod(rng, allow_err=True)
        out.append(Case("malformed_mod", "Foo", text, tags=info))
        text, info = gen_impl(rng, allow_err=True)
        out.append(Case("malformed_impl", rng.choice(["", "ref"]), text, tags=info))
    # random token soup in the attribute
    soup = ["Foo", ",", "=", "no_deps", "true", "false", "?", "Send", "pub", "(crate)", "delegate_by", "ref", "mock_api", "M", "unimock", "export", "dyn", "debug = false"]
    for _ in range(n):
        a = " ".join(rng.choice(soup) for _ in range(rng.choice([1, 2, 3, 4, 5, 6])))
        if a.count("(") != a.count(")"):
            continue
        out.append(Case("malformed_soup", a, rng.choice([fn_item, trait_item, impl_item, mod_item])))
    return out


# ------------------------------------------------------------------------------------------------
# regression corpus: minimal inputs for every finding / quirk seen so far (runs first)

REGRESSION = [
    ("Foo", "pub unsafe fn foo<D>(d: &D) {}"),
    ("Foo", "unsafe extern \"C\" fn foo<D>(d: &D) {}"),
    ("Foo", "fn foo<D, const N: usize>(d: &D, a: [u8; N]) {}"),
    ("Foo", "mod m { pub fn a<D, T>(d: &D, t: T) {} pub fn b<D, T>(d: &D, t: T) {} }"),
    ("Foo", "fn c(d: G<i32>, a: i32) {}"),
    ("Foo, mockall = false", "fn foo(d: &impl A) {}"),
    ("Foo, unimock = false, mock_api = M", "fn foo(d: &impl A) {}"),
    ("", "/// docs\n#[allow(unused)]\npub unsafe trait T { type X; fn f(&self) -> i32 { 1 } }"),
    ("Foo", "fn r#type<D>(d: &D, r#type: i32) {}"),
    ("", "trait T { fn f(&self, (a, b): (i32, i32)) {} }"),
    ("Foo", "fn foo<D>(d: &D, mut x: i32, ref y: i32) {}"),
    ("Foo", "fn foo<D>(d: &D, foo: i32, foo_: i32) {}"),
    ("Foo", "fn foo<D>(d: &D, N(foo): N) {}"),
    ("Foo", "fn arg0<D>(d: &D, _: i32) {}"),
    ("Foo", "mod m { #[cfg(any())] pub fn gone(d: &impl A) {} pub fn here(d: &impl A) {} }"),
    ("pub Sync", "fn sync<D>(d: &D) {}"),
    ("Foo", "fn foo<>(d: &impl A) where {}"),
    ("Foo", "fn foo<'a, T>(d: &impl X, x: &'a T) where T: 'a {}"),
    ("delegate_by = Self", "trait T { fn f(&self); }"),
    ("Foo", "mod m { #![allow(unused)] pub fn f(d: &impl A) {} }"),
    ("FooImpl, delegate_by = Deleg", "trait T<X> { fn f(&self, x: X); }"),
    ("FooImpl, delegate_by = ref", "#[async_trait]\ntrait T { async fn f(&self); }"),
    ("Foo", "fn foo<D: ?Sized + A>(d: &D) {}"),
    ("", "impl FooImpl for MyType { fn foo<'a, D>(d: &'a D, x: &'a i32) -> &'a i32 { x } }"),
    ("Foo", "fn foo<D>(d: &D) where ::D: A, D: B {}"),
    ("Foo", "fn foo<T, 'a>(d: &impl A, t: &'a T) {}"),
    ("Foo, no_deps", "fn foo() {}"),
    ("Foo, no_deps", "fn foo(a: i32,) {}"),
    ("Foo, no_deps", "fn foo(self, a: i32) {}"),
    ("Foo, no_deps", "mod m { pub fn foo(&self, a: i32) {} }"),
    ("", "trait T { fn m(self, x: i32) -> i32; fn n(mut self); fn r(&self); fn t(self: &Self); fn b(self: Box<Self>); }"),
    ("ref", "impl FooImpl for MyType { fn foo<'a, D>(d: &'a D, x: &'a i32) -> &'a i32 { x } fn bar<D>(d: &D) {} fn baz<D>(d: D) {} }"),
    ("FooImpl, delegate_by = ref", "trait T { fn f<'a>(&'a self, x: &'a i32) -> &'a i32; fn g(&self); fn h(self); }"),
    ("FooImpl, delegate_by = Deleg", "trait T { fn f<'a>(&'a self, x: &'a i32) -> &'a i32; fn g(&self); fn h(self); }"),
    ("", "impl FooImpl<i32> for MyType { fn foo<D>(d: &D) {} }"),
    ("ref", "impl a::FooImpl::<T> for MyType { fn foo<D>(d: &D) {} }"),
    ("", "impl a::<X>::FooImpl for MyType { fn foo<D>(d: &D) {} }"),
    ("", "impl Fn(i32) -> i32 for MyType { fn foo<D>(d: &D) {} }"),
    ("", "trait T<'a> { fn f(&self, x: &'a i32) -> &'a i32; }"),
    ("", "pub trait T<'a, 'b: 'a, X: Clone = i32, const N: usize = 3> where X: 'a { fn f(&self, x: &'a X) -> [&'b X; N]; }"),
    ("delegate_by = ref", "trait T<X = Vec<Box<dyn Fn(i32) -> i32>>, Y: Iterator<Item = u8> = std::vec::IntoIter<u8>> { fn f(&self, x: X, y: Y); }"),
    ("FooImpl, delegate_by = ref", "trait T<'a, X = i32> { fn f(&self, x: &'a X); }"),
    ("", "impl FooImpl for MyType { #[cfg(any())] fn f<D>(d: &D) {} #[cfg(not(any()))] fn f<D>(d: &D) {} fn g<D>(d: &D) {} }"),
    ("Foo", "mod m { #[cfg(any())] pub fn f(d: &impl A) {} #[cfg(not(any()))] pub fn f(d: &impl A) {} pub fn g(d: &impl A) {} }"),
    ("Foo, mock_api = M", "mod m { #[cfg(not(any()))] pub fn f(d: &impl A) {} #[cfg(any())] pub fn f(d: &impl A) {} }"),
    ("delegate_by = ref, delegate_by", "trait T { fn f(&self); fn g(&self, a: i32) -> i32; }"),
    ("delegate_by = Borrow, delegate_by = ref, delegate_by", "trait T { fn f(&self); }"),
    ("delegate_by, delegate_by = ref", "trait T { fn f(&self); }"),
    ("FooImpl, delegate_by = ref, delegate_by = Deleg", "trait T { fn f(&self); }"),
    ("Foo, no_deps = false, no_deps", "fn foo() {}"),
    ("Foo, unimock, mock_api = A, unimock = false, mock_api = B", "fn foo(d: &impl A) {}"),
    ("", "#[prelude::async_trait]\ntrait T { async fn f(&self); fn g(&self); }"),
    ("FooImpl, delegate_by = ref", "#[a::b::async_trait]\ntrait T { async fn f(&self); fn g(&self); }"),
    ("pub(super) Foo", "mod m { pub fn foo(d: &impl A) {} }"),
    ("pub(self) Foo", "pub mod m { pub fn foo(d: &impl A) {} }"),
    ("pub(in self::super) Foo", "mod m { pub fn foo(d: &impl A) {} }"),
    ("pub(in super::super::a) Foo", "mod m { pub fn foo(d: &impl A) {} }"),
    # F23 / F25: binders and fn lifetimes among the bounds of the dependency
    ("Foo", "fn get<D>(deps: &D) where for<'x> D: Repo<'x> {}"),
    ("Foo", "fn l<'x, D: A + 'x + 'static + ?Sized>(deps: &'x D, t: &'x i32) -> &'x i32 where D: 'x + Sync { t }"),
    ("Foo", "fn l<'x>(deps: &'x (impl A + 'x), t: &'x i32) -> &'x i32 { t }"),
    ("Foo", "mod m { pub fn l<'x, 'y, D: 'y>(deps: &'x D) where D: 'x {} pub fn k<'y, D: A + 'y>(deps: D) {} }"),
    ("", "impl FooImpl for MyType { fn l<'x, D: A + 'x>(deps: &'x D) {} }"),
    # F21: raw identifiers are the identifiers they spell
    ("Foo", "fn rawy(_: &impl A, _: i32, r#arg0: i32) {}"),
    ("Foo", "fn foo(_: &impl A, r#foo: i32) {}"),
    ("Foo", "fn r#foo(_: &impl A, foo: i32, r#foo_: i32) {}"),
    ("Foo", "fn bar(_: &impl A, r#_arg1: i32, (_x, _y): (i32, i32), r#arg1: i32, r#bar: u8) {}"),
    ("", "impl FooImpl for MyType { fn r#f<D>(d: &D, f: i32, (a, b): (i32, i32), r#arg2: i32) {} }"),
]


def fam_regression(rng):
    return [Case("regression", a, it) for a, it in REGRESSION]


def fam_findings():
    """witness inputs of /verif/known_findings.json, always part of the corpus"""
    import json
    import os
    path = os.path.join(os.path.dirname(os.path.dirname(os.path.abspath(__file__))), "known_findings.json")
    out = []
    for f in json.load(open(path))["findings"]:
        for w in f["witnesses"]:
            if w.get("compile"):
                continue     # compile-level witnesses live in the compile probe (harness/compile_probe.py)
            out.append(Case("regression", w["attr"], w["item"], macro=w["macro"], tags={"finding": f["id"], "property": f["property"]}))
    return out


# ------------------------------------------------------------------------------------------------

# ------------------------------------------------------------------------------------------------
# option lists, exhaustively: every sequence of up to 2 (quick: sampled beyond 1) / 3 (thorough: sampled) options from the whole
# vocabulary — repeated options, contradicting values, options the target does not accept, `?` in front of anything — on one plain
# item per target. Nothing here is left to the random option generator.

OPT_VOCAB_FN = ["no_deps", "no_deps = true", "no_deps = false", "export", "export = false", "unimock", "unimock = false", "unimock = true",
                "mockall", "mockall = false", "?Send", "mock_api = M", "mock_api = N", "debug = false", "delegate_by = ref", "delegate_by",
                "?no_deps", "bogus"]
OPT_VOCAB_TRAIT = ["unimock", "unimock = false", "mockall", "mockall = false", "?Send", "mock_api = M", "mock_api = N", "delegate_by",
                   "delegate_by = ref", "delegate_by = Borrow", "delegate_by = Deleg", "debug = false", "export", "no_deps", "?mockall", "bogus"]
OPT_VOCAB_IMPL = ["debug = false", "debug = false, debug = false", "export", "?Send", "bogus"]
OPT_ITEMS = {
    "fn": ["fn foo(d: &impl A, a: i32) -> i32 { a }", "async fn foo(d: &App, a: i32) -> i32 { a }"],
    "mod": ["mod m { pub fn foo(d: &impl A, a: i32) -> i32 { a } pub async fn bar<D>(d: D) {} }"],
    "trait": ["trait T { fn f(&self, a: i32) -> i32; async fn g(&self); }", "#[async_trait]\npub trait T { async fn f(&self); fn g(&self); }"],
    "impl": ["impl FooImpl for MyType { fn foo<D>(d: &D, a: i32) -> i32 { a } }"],
}


def fam_opt_exhaustive(rng, tier):
    import itertools
    out = []
    thorough = tier == "thorough"

    def seqs(vocab):
        one = [(o,) for o in vocab]
        two = list(itertools.product(vocab, repeat=2))
        three = list(itertools.product(vocab, repeat=3))
        if thorough:
            return one + two + rng.sample(three, min(len(three), 1500))
        return one + rng.sample(two, min(len(two), 160))

    for tgt in ("fn", "mod"):
        for item in OPT_ITEMS[tgt]:
            for sq in seqs(OPT_VOCAB_FN):
                out.append(Case("opt_exhaustive", ", ".join(("Foo",) + sq), item, macro=rng.choice(["entrait", "entrait", "entrait_export"])))
    for item in OPT_ITEMS["trait"]:
        for head in ((), ("FooImpl",)):
            for sq in seqs(OPT_VOCAB_TRAIT):
                out.append(Case("opt_exhaustive", ", ".join(head + sq), item, macro=rng.choice(["entrait", "entrait", "entrait_export"])))
    for item in OPT_ITEMS["impl"]:
        for pre in ("", "ref ", "dyn "):
            for o in [""] + OPT_VOCAB_IMPL:
                out.append(Case("opt_exhaustive", (pre + o).strip(), item))
    return out


# attributes below entrait that the macro recognises by the LAST segment of their path (async_trait, automock): every spelling, alone
# and next to another attribute, on every target; plus look-alikes that must not be recognised
SUB_ATTRS = ["#[async_trait]", "#[async_trait::async_trait]", "#[::async_trait::async_trait]", "#[::async_trait::async_trait(?Send)]",
             "#[prelude::async_trait]", "#[a::b::c::async_trait]", "#[automock]", "#[mockall::automock]", "#[my::automock]",
             "#[async_trait_not]", "#[async_trait::other]", "#[cfg_attr(all(), async_trait)]", "#[doc = \"async_trait\"]", "#[r#async_trait]"]
SUB_ITEMS = [("fn", "Foo", "async fn foo(d: &impl A, a: i32) -> i32 { a }"),
             ("fn", "Foo", "async fn foo(d: &App, a: i32) -> i32 { a }"),
             ("mod", "Foo", "mod m { pub async fn foo(d: &impl A) {} pub fn bar(d: &impl A) {} }"),
             ("trait", "", "trait T { async fn f(&self); fn g(&self) -> i32; }"),
             ("trait", "FooImpl, delegate_by = ref", "trait T { async fn f(&self); fn g(&self) -> i32; }"),
             ("trait", "FooImpl, delegate_by = Deleg", "trait T { async fn f(&self); }"),
             ("impl", "", "impl FooImpl for MyType { async fn foo<D>(d: &D) {} }"),
             ("impl", "ref", "impl FooImpl for MyType { async fn foo<D>(d: &D) {} fn bar<D>(d: &D) {} }")]


def fam_subattr_exhaustive(rng):
    out = []
    for tgt, attr, item in SUB_ITEMS:
        for sa in SUB_ATTRS:
            for shape in ("{sa}\n{item}", "/// doc\n{sa}\n#[allow(unused)]\n{item}", "{sa}\n{sa}\n{item}"):
                out.append(Case("subattr_exhaustive", attr, shape.format(sa=sa, item=item)))
    return out


# every combination of function qualifiers (in the order the grammar wants them) x visibility x context: a function is a function
# whatever stands in front of `fn`
def fam_qualifiers_exhaustive(rng):
    out = []
    for const in ("", "const "):
        for asy in ("", "async "):
            for uns in ("", "unsafe "):
                for ext in ("", "extern ", "extern \"C\" ", "extern \"system\" "):
                    q = const + asy + uns + ext
                    for vis in ("", "pub ", "pub(crate) ", "pub(in crate::x) "):
                        f = "%s%sfn foo(d: &impl A, a: i32) -> i32 { a }" % (vis, q)
                        out.append(Case("qualifiers_exhaustive", "Foo", f))
                        g = "fn g(d: &impl A) {}"
                        out.append(Case("qualifiers_exhaustive", "Foo", "mod m { pub %s %s %s }" % (g, f, g.replace("fn g", "fn h"))))
                        out.append(Case("qualifiers_exhaustive", rng.choice(["", "ref"]),
                                        "impl FooImpl for MyType { %s %s }" % (f.replace("d: &impl A", "d: &D").replace("fn foo(", "fn foo<D>("), "fn g<D>(d: &D) {}")))
    return out


# every shape of the first (dependency) parameter x generics declaration x context x no_deps
DEPS_SHAPES = [
    ("", "d: &D", "<D>"), ("", "d: &D", "<D: A + B>"), ("", "d: &D", "<D> where D: A, D: B"), ("", "d: D", "<D: A>"), ("", "d: &'a D", "<'a, D>"),
    ("", "d: &mut D", "<D>"), ("", "d: &&D", "<D>"), ("", "d: (&D)", "<D>"), ("", "d: &(D)", "<D>"), ("", "mut d: D", "<D>"), ("", "_: &D", "<D>"),
    ("", "&d: &D", "<D: Copy>"), ("", "d: &impl A", ""), ("", "d: impl A + B", ""), ("", "d: &(impl A + B)", ""), ("", "d: &'static impl A", ""),
    ("", "d: &App", ""), ("", "d: App", ""), ("", "d: &crate::App", ""), ("", "d: &App<i32>", ""), ("", "d: &::ext::App", ""), ("", "d: &dyn A", ""),
    ("", "d: &[D]", "<D>"), ("", "d: (D, D)", "<D>"), ("", "d: &Box<D>", "<D>"), ("", "d: &D::Assoc", "<D: X>"), ("", "d: &<D as X>::Assoc", "<D: X>"),
    ("", "d: &Self", ""), ("", "d: &'a (dyn A + Send)", "<'a>"), ("", "d: *const D", "<D>"), ("", "d: fn(i32) -> i32", ""), ("", "d: &impl Fn(i32) -> i32", ""),
    ("", "d: &D, e: &D", "<D: A>"), ("", "d: &E, e: &D", "<D, E: A>"), ("", "", ""), ("", "&self", ""), ("", "self: &Self, d: &D", "<D>"),
]


def fam_deps_exhaustive(rng):
    out = []
    for _, first, gens in DEPS_SHAPES:
        for nd in (False, True):
            attr = "Foo" + (", no_deps" if nd else "")
            params = ", ".join([p for p in (first, "a: i32") if p])
            where = ""
            g = gens
            if " where " in gens:
                g, where = gens.split(" where ")
                where = " where " + where
            f = "fn foo%s(%s) -> i32%s { a }" % (g, params, where)
            out.append(Case("deps_exhaustive", attr, f))
            out.append(Case("deps_exhaustive", attr, "async " + f))
            out.append(Case("deps_exhaustive", attr, "mod m { pub %s pub fn other(q: &impl B) {} }" % f))
            if not nd:
                out.append(Case("deps_exhaustive", rng.choice(["", "ref"]), "impl FooImpl for MyType { %s }" % f))
    return out


# every receiver x async x method generics x tail for the methods of an entraited trait, under every delegation kind
def fam_trait_methods_exhaustive(rng):
    out = []
    recvs = ["&self", "&'a self", "self", "mut self", "&mut self", "&'a mut self", "self: &Self", "self: &'a Self", "self: Box<Self>", ""]
    for recv in recvs:
        for asy in ("", "async "):
            for mg in ("", "<T>", "<T: Clone, const N: usize>"):
                for tail in (";", " where Self: Sized;", " { unimplemented!() }"):
                    g = mg
                    if "'a" in recv:
                        g = "<'a>" if not mg else "<'a, " + mg[1:]
                    args = ", ".join([x for x in (recv, "a: i32", "b: &str") if x])
                    m = "%sfn m%s(%s) -> i32%s" % (asy, g, args, tail)
                    for attr in ("", "delegate_by = ref", "delegate_by = Borrow", "FooImpl, delegate_by = Deleg", "FooImpl, delegate_by = ref"):
                        if rng.random() < 0.5:      # half of the product, chosen by the seed
                            out.append(Case("trait_methods_exhaustive", attr, "trait T { fn first(&self); %s fn last(&self, z: u8); }" % m))
    # methods that return a future / an opaque or boxed type without being `async fn`
    for ret in ("impl ::core::future::Future<Output = i32> + Send", "impl Future<Output = ()>", "impl Iterator<Item = u8> + '_",
                "::core::pin::Pin<Box<dyn ::core::future::Future<Output = i32> + Send + '_>>", "Box<dyn Fn(i32) -> i32>"):
        for recv in ("&self", "self"):
            for attr in ("", "delegate_by = ref", "delegate_by = Borrow", "FooImpl, delegate_by = Deleg", "FooImpl, delegate_by = ref", "?Send"):
                out.append(Case("trait_methods_exhaustive", attr, "trait T { fn m(%s, a: i32) -> %s; async fn n(&self); fn last(&self); }" % (recv, ret)))
    return out


# every kind of item a module can hold, before / between / after two entraited functions: the splitter must find exactly the functions
def fam_mod_items_exhaustive(rng):
    out = []
    f = "pub fn f(d: &impl A, a: i32) -> i32 { a }"
    g = "pub async fn g<D: B>(d: &D) {}"
    for d in DECOYS:
        for body in ([d, f, g], [f, d, g], [f, g, d], [f, d, d, g]):
            out.append(Case("mod_items_exhaustive", "Foo", "mod m {\n" + "\n".join(body) + "\n}", tags={"expected_methods": ["f", "g"]}))
    return out


# every header shape of an entraited trait: generics x where clause x supertraits x visibility x delegation kind
def fam_trait_header_exhaustive(rng):
    out = []
    gens = ["", "<T>", "<'a>", "<'a, T: Clone>", "<T, const N: usize>", "<T = i32>", "<>"]
    wheres = ["", " where Self: Sized", " where Self: Clone + Send,", " where T: Send", " where Self: 'static, T: Into<i32>", " where"]
    supers = ["", ": Clone", ": Clone + Send", ": 'static + Sync", ":"]
    for g in gens:
        for w in wheres:
            if " T:" in w and "T" not in g.replace("'a", ""):
                continue
            for s in supers:
                for vis in ("", "pub "):
                    for attr in ("", "delegate_by = ref", "FooImpl, delegate_by = Deleg", "mock_api = M, unimock"):
                        if rng.random() < 0.4:      # part of the product, chosen by the seed
                            out.append(Case("trait_header_exhaustive", attr, "%strait Tr%s%s%s { fn m(&self, a: i32) -> i32; }" % (vis, g, s, w)))
    return out


# where predicates by what they bound and by where they name a lifetime of the function (top level, inside `<..>`, inside a
# delimited group, under a `for<..>` binder), for every kind of dependency, alone and in pairs, in fn and module mode
WHERE_T = ["T: Clone", "T: 'a", "T: Tr<'a>", "T: Fn(&'a i32) -> i32", "T: FnOnce((&'a str, u8)) -> [&'a u8; 2]", "[&'a T]: Sized",
           "(T, &'a u8): Clone", "&'a T: Clone", "Vec<T>: Clone", "T::Item: Copy", "<T as Tr>::X: Into<&'a i32>",
           "::core::option::Option<T>: Clone", "for<'x> T: Fn(&'x i32)", "for<'x> T: Tr<'x> + Send", "T: for<'x> Tr<'x>",
           "for<'x> &'x T: Into<&'a i32>", "'a: 'static", "T: ?Sized", "T: Tr<{ 1 }>", "T: Fn([u8; { let _: &'a u8; 1 }])"]
WHERE_D = ["D: A", "D: A + B", "for<'x> D: R<'x>", "for<'x> D: R<'x> + Send, D: Sync", "D: for<'x> R<'x>", "for<'x,> D: (R<'x>)", "for<> D: A",
           "D: 'a", "D: ?Sized + A", "D: A, D: B", "D: Tr<'a>", "for<'x, 'y> D: P<'x, 'y> + ::core::marker::Send + 'static",
           "for<'x> D: ?Sized + R<'x>", "for<'x> D: (R<'x>) + 'x", "D: Fn(&'a i32)", "for<'x> D: Fn(&'x i32) -> &'x i32"]


def fam_where_exhaustive(rng):
    out = []
    kinds = [("<'a, D, T>", "deps: &D, ", "Foo", WHERE_D + WHERE_T), ("<'a, D, T>", "deps: D, ", "Foo", WHERE_D + WHERE_T),
             ("<'a, T>", "deps: &impl A, ", "Foo", WHERE_T), ("<'a, T>", "deps: &App, ", "Foo", WHERE_T), ("<'a, T>", "", "Foo, no_deps", WHERE_T)]
    for g, deps, attr, pool in kinds:
        for p in pool:
            out.append(Case("where_exhaustive", attr, "fn f%s(%sx: &'a T) where %s {}" % (g, deps, p)))
        for _ in range(12):
            ps = rng.sample(pool, rng.choice([2, 3]))
            out.append(Case("where_exhaustive", attr, "fn f%s(%sx: &'a T) where %s%s {}" % (g, deps, ", ".join(ps), rng.choice(["", ","]))))
        for _ in range(8):
            p, q = rng.choice(pool), rng.choice(pool)
            out.append(Case("where_exhaustive", attr, "mod m { pub fn f%s(%sx: &'a T) where %s {} pub fn g%s(%sy: &'a T) where %s {} }" % (
                g, deps, p, g.replace("T", "U"), deps, q.replace("T", "U"))))
    for p in WHERE_D + WHERE_T[:8]:
        out.append(Case("where_exhaustive", "", "impl FooImpl for MyType { fn f<'a, D, T>(deps: &D, x: &'a T) where %s {} }" % p))
    return out


# an entraited module whose functions (or nested modules) are themselves entraited: the outer expansion must still contain every
# function, and the inner invocations are recorded (and decided) as invocations of their own
def fam_nested_entrait(rng):
    out = []
    inner = ["#[entrait::entrait(pub Inner)]", "#[entrait::entrait(Inner, no_deps)]", "#[::entrait::entrait_export(pub Inner)]",
             "#[entrait::entrait(pub Inner, mock_api = M)]", "#[doc = \"x\"] #[entrait::entrait(Inner)] #[inline]"]
    for a in inner:
        nd = "no_deps" in a
        f = "%s pub fn f(%sa: i32) -> i32 { a }" % (a, "" if nd else "deps: &impl A, ")
        g = "pub fn g(%s) {}" % ("" if nd else "deps: &impl A")
        for attr in ("pub Outer", "Outer, mock_api = OuterMock, unimock"):
            attr = attr + (", no_deps" if nd else "")
            out.append(Case("nested_entrait", attr, "mod m { %s %s }" % (f, g)))
            out.append(Case("nested_entrait", attr, "mod m { %s %s }" % (g, f)))
            out.append(Case("nested_entrait", attr, "mod m { %s }" % f))
    out.append(Case("nested_entrait", "pub Outer", "mod m { #[entrait::entrait(pub In)] pub mod inner { pub fn h(deps: &impl A) {} } pub fn g(deps: &impl A) {} }"))
    out.append(Case("nested_entrait", "pub Outer", "mod m { pub fn g(deps: &impl A) {} #[entrait::entrait] pub trait Tq { fn q(&self); } }"))
    return out


# the option table on more item shapes than fam_c17's fixed ones (deterministic: no random choices): a module without visible
# functions, with one, with a private one first; concrete and by-value dependencies; generic / async / unsafe functions
C17_SHAPES = [
    "mod m { }", "mod m { fn private(d: &impl A) {} }", "mod m { fn private() {} pub fn one(d: &impl A, a: i32) -> i32 { a } }",
    "pub mod m { pub(crate) async fn a<D: A>(d: &D) {} pub(super) fn b<D: B>(d: D, x: u8) -> u8 { x } struct S; }",
    "fn foo(deps: &App, a: i32) -> i32 { a }", "fn foo<D: A + Send>(deps: D, a: i32, b: i32) -> i32 { a }",
    "pub async fn foo<'a, D: A, T: Send + Sync>(deps: &'a D, t: &'a T) -> &'a T { t }", "unsafe fn foo(deps: &impl A) {}",
    "fn foo(deps: &impl A) -> impl Iterator<Item = u8> { core::iter::empty() }",
]
C17_SUBSETS = [["unimock", "mock_api = M"], ["mock_api = M"], ["mockall", "export"], ["unimock", "mock_api = M", "?Send", "mockall"], ["export"], []]


def fam_c17_shapes(rng):
    out = []
    gid = 100000
    for item in C17_SHAPES:
        nd_ok = "deps" not in item and "d: " not in item
        for subset in C17_SUBSETS:
            subset = subset + (["no_deps"] if nd_ok else [])
            bools = [k for k in subset if "=" not in k and k != "?Send"]
            gid += 1
            out.append(Case("c17_shapes", ", ".join(["Foo"] + subset), item, pair=(gid, "eq")))
            out.append(Case("c17_shapes", ", ".join(["Foo"] + [(k + " = true" if k in bools else k) for k in subset]), item, pair=(gid, "eq")))
            out.append(Case("c17_shapes", ", ".join(["Foo"] + subset[::-1]), item, pair=(gid, "eq")))
            base = [k for k in subset if k != "export"]
            gid += 1
            out.append(Case("c17_shapes", ", ".join(["Foo"] + base), item, macro="entrait_export", pair=(gid, "eq")))
            out.append(Case("c17_shapes", ", ".join(["Foo"] + base + ["export"]), item, macro="entrait", pair=(gid, "eq")))
            out.append(Case("c17_shapes", ", ".join(["Foo"] + base + ["export = false"]), item, macro="entrait_export", pair=(gid, "eq2")))
            out.append(Case("c17_shapes", ", ".join(["Foo"] + base + ["export = false"]), item, macro="entrait", pair=(gid, "eq2")))
            base = [k for k in subset if k != "unimock"]
            gid += 1
            out.append(Case("c17_shapes", ", ".join(["Foo"] + base), item, pair=(gid, "feat_implicit")))
            out.append(Case("c17_shapes", ", ".join(["Foo"] + base + ["unimock"]), item, pair=(gid, "feat_explicit")))
            out.append(Case("c17_shapes", ", ".join(["Foo"] + base + ["unimock = false"]), item, pair=(gid, "feat_set")))
    return out


# a private function with every legal qualifier combination, then two visible functions, then an item that ends in `;`: a private
# function is not a method however it is qualified, and what follows it is still found
def fam_private_qualified(rng):
    out = []
    f = "pub fn f(d: &impl A, a: i32) -> i32 { a }"
    g = "pub(crate) async fn g<D: B>(d: &D) {}"
    for const in ("", "const "):
        for asy in ("", "async "):
            for uns in ("", "unsafe "):
                for ext in ("", "extern ", "extern \"C\" "):
                    q = const + asy + uns + ext
                    if not q:
                        continue
                    p = "%sfn helper(x: u8) -> u8 { x }" % q
                    for tail in ("pub static NAME: &str = \"n\";", "use core::fmt;", "struct Unit;"):
                        out.append(Case("private_qualified", "Foo", "mod m {\n%s\n%s\n%s\n%s\n}" % (p, f, g, tail), tags={"expected_methods": ["f", "g"]}))
                    out.append(Case("private_qualified", "Foo", "mod m {\n%s\n%s\n%s\n}" % (f, p, g), tags={"expected_methods": ["f", "g"]}))
    return out


# a binding with an `@` subpattern at every depth of a parameter pattern, alone and next to a second binding, in every context
def fam_c16_subpat(rng):
    out = []
    pats = [("v @ _", "i32"), ("v @ N(_)", "N"), ("N(v @ _)", "N"), ("N(ref v @ _)", "N"), ("N(mut v @ 1..=5)", "N"), ("(v @ _, _)", "(i32, i32)"),
            ("S { x: v @ _, .. }", "S"), ("&(v @ _)", "&i32"), ("N2(v @ _, w @ _)", "N2"), ("N2(N(v @ N(_)), _)", "N2"), ("(v @ (_, _), _)", "((i32, i32), i32)"),
            ("[v @ .., _]", "[i32; 2]"), ("foo @ _", "i32"), ("N(foo @ _)", "N"), ("N(r#type @ _)", "N"), ("N(arg1 @ _)", "N")]
    for pat, ty in pats:
        for pre in ("", "a: i32, ", "_: i32, "):
            out.append(Case("c16_subpat", "Foo", "fn foo(deps: &impl A, %s%s: %s) {}" % (pre, pat, ty)))
        out.append(Case("c16_subpat", "Foo, no_deps", "fn foo(%s: %s, z: u8) {}" % (pat, ty)))
        out.append(Case("c16_subpat", "Foo", "mod m { pub fn foo(deps: &impl A, %s: %s) {} pub fn bar(deps: &impl A, q: i32, %s: %s) {} }" % (pat, ty, pat, ty)))
        out.append(Case("c16_subpat", rng.choice(["", "ref"]), "impl FooImpl for MyType { fn foo<D>(deps: &D, %s: %s, __impl: i32) {} }" % (pat, ty)))
    return out


# the same attribute written twice (doc lines, lints, cfgs) on every kind of item: each occurrence is the user's
DUP_ATTRS = ["/// same line\n/// same line", "///\n/// text\n///", "#[allow(unused)]\n#[allow(unused)]", "/// a\n#[doc = \" a\"]",
             "#[cfg(all())]\n#[cfg(all())]", "#[inline]\n/// d\n#[inline]", "/// x\n#[allow(unused)]\n/// x\n#[allow(unused)]"]


def fam_dup_attrs(rng):
    out = []
    for da in DUP_ATTRS:
        out.append(Case("dup_attrs", "Foo", "%s\nfn foo(deps: &impl A) {}" % da))
        out.append(Case("dup_attrs", "Foo", "%s\nfn foo(deps: &App) {}" % da))
        out.append(Case("dup_attrs", "Foo", "%s\nmod m { %s\npub fn foo(deps: &impl A) {} }" % (da, da)))
        for attr in ("", "delegate_by = ref", "FooImpl, delegate_by = Deleg", "FooImpl, delegate_by = ref", "mock_api = M, unimock"):
            out.append(Case("dup_attrs", attr, "%s\npub trait T { %s\nfn f(&self); %s\nasync fn g(&self, a: i32) -> i32; }" % (da, da, da)))
        out.append(Case("dup_attrs", rng.choice(["", "ref"]), "%s\nimpl FooImpl for MyType { %s\nfn foo<D>(deps: &D) {} }" % (da, da)))
    # two different sub-attributes on one item, in both orders
    for a, b in (("#[async_trait]", "#[automock]"), ("#[async_trait::async_trait]", "#[mockall::automock]"), ("#[::async_trait::async_trait(?Send)]", "#[my::automock]")):
        for x, y in ((a, b), (b, a)):
            for tgt, attr, item in SUB_ITEMS:
                out.append(Case("dup_attrs", attr, "%s\n%s\n%s" % (x, y, item)))
    # trait methods without a receiver, without any parameter
    for m in ("fn z();", "fn z() -> i32;", "async fn z();", "fn z(a: i32, b: i32) -> i32;", "fn z<T>(t: T);", "fn z() where Self: Sized;"):
        for attr in ("", "delegate_by = ref", "delegate_by = Borrow", "FooImpl, delegate_by = Deleg", "FooImpl, delegate_by = ref", "mock_api = M, unimock"):
            out.append(Case("dup_attrs", attr, "trait T { %s fn f(&self); }" % m))
    return out


# every spelling of a visibility in front of the trait name, on functions and on modules
VIS_SPELLINGS = ["", "pub", "pub(crate)", "pub(self)", "pub(in self)", "pub(super)", "pub(in super)", "pub(in self::super)", "pub(in super::super)",
                 "pub(in crate)", "pub(in crate::a)", "pub(in crate::a::b)", "pub(in super::a)", "pub(in self::a)", "pub(in super::super::a::b)",
                 "pub(in self::super::a)", "pub(in super::self)", "pub(in a)", "pub(in ::a)", "pub(in crate::r#type)", "pub(in super::r#mod)", "pub ( crate )", "pub(in\nsuper)"]


def fam_vis_exhaustive(rng):
    out = []
    for v in VIS_SPELLINGS:
        head = (v + " " if v else "") + "Foo"
        for attr in (head, head + ", mock_api = M, unimock", head + ", export, mockall"):
            out.append(Case("vis_exhaustive", attr, "fn foo(deps: &impl A) {}"))
            out.append(Case("vis_exhaustive", attr, "mod m { pub fn foo(deps: &impl A) {} }"))
            out.append(Case("vis_exhaustive", attr, "pub(crate) mod m { pub(crate) fn foo(deps: &impl A) {} pub fn bar<D>(d: &D) {} }"))
        out.append(Case("vis_exhaustive", head, "fn foo(deps: &App) {}"))
        out.append(Case("vis_exhaustive", head, "fn foo(deps: &impl A) {}", macro="entrait_export"))
        out.append(Case("vis_exhaustive", head + ", mockall", "mod m { pub fn foo(deps: &impl A) {} }", macro="entrait_export"))
        out.append(Case("vis_exhaustive", (v + " " if v else "") + "FooImpl, delegate_by = ref", "pub trait T { fn f(&self); }"))
        out.append(Case("vis_exhaustive", (v + " " if v else "") + "FooImpl, delegate_by = Deleg", "trait T { fn f(&self); }"))
    return out


# found by harness/coverage.py (lines of the macro that no generated input reached): every option on impl blocks (only `debug` is
# accepted: each of the others is rejected at its own span), after `ref` / `dyn`, alone and behind `debug`; an impl header with a where
# clause. ("Read past the end" of input.rs cannot be reached through rustc: the compiler parses the item before the macro sees it.)
def fam_coverage_gaps(rng):
    out = []
    item = "impl FooImpl for MyType { fn foo<D>(d: &D, a: i32) -> i32 { a } }"
    for pre in ("", "ref ", "dyn ", "ref dyn "):
        for o in OPT_VOCAB_FN + ["delegate_by = Borrow", "delegate_by = Deleg", "debug", "debug = true = false", "mock_api", "mock_api = 3", "unimock = maybe"]:
            out.append(Case("coverage_gaps", pre + o, item))
            out.append(Case("coverage_gaps", pre + "debug = false, " + o, item))
    # every item of the malformed stream at least once under a plain and under an optioned attribute (the random stream picks a subset)
    for it in BAD_ITEMS:
        out.append(Case("malformed_item", "Foo", it))
        out.append(Case("malformed_item", "", it))
        out.append(Case("malformed_item", "Foo, no_deps, mock_api = M", it))
        out.append(Case("malformed_item", "FooImpl, delegate_by = ref", it))
    # an impl header the compiler accepts and the macro's own parser does not: a where clause before the block
    for item in ("impl FooImpl for MyType where Self: Sized { fn f<D>(d: &D) {} }", "impl FooImpl for MyType where { fn f<D>(d: &D) {} }",
                 "impl<T> FooImpl for Vec<T> where T: Send { fn f<D>(d: &D) {} }"):
        out.append(Case("coverage_gaps", "", item))
        out.append(Case("coverage_gaps", "ref", item))
    return out


# every shape of the dependency parameter once more with mocks switched on: which functions can be un-mocked (and what the impl is
# restricted to) depends on how the dependency is classified
def fam_deps_mock(rng):
    out = []
    for _, first, gens in DEPS_SHAPES:
        params = ", ".join([p for p in (first, "a: i32") if p])
        where = ""
        g = gens
        if " where " in gens:
            g, where = gens.split(" where ")
            where = " where " + where
        f = "fn foo%s(%s) -> i32%s { a }" % (g, params, where)
        for attr in ("Foo, mock_api = M, unimock", "Foo, mockall", "Foo, mock_api = M, unimock, mockall, export"):
            out.append(Case("deps_mock", attr, f))
            out.append(Case("deps_mock", attr, "mod m { pub %s pub async fn other(q: &impl B, z: u8) -> u8 { z } }" % f))
    return out


# after round 8: `async_trait` / `automock` on traits *without* an async method; parameter types that carry a `for<..>` binder of
# their own (on sync and async functions)
HRTB_PARAMS = ["f: impl for<'q> Fn(&'q str) -> &'q str + Send", "f: for<'q> fn(&'q str) -> &'q str", "f: &dyn for<'q> Fn(&'q str) -> usize",
               "f: Box<dyn for<'q> FnMut(&'q mut Vec<u8>) + Send + Sync>", "f: &(dyn for<'q, 'r> Cmp<'q, 'r> + Sync)", "f: impl Fn(&str) -> &str + Send"]


def fam_round8(rng):
    out = []
    for sa in SUB_ATTRS[:9]:
        for attr in ("", "delegate_by = ref", "delegate_by = Borrow", "FooImpl, delegate_by = Deleg", "FooImpl, delegate_by = ref", "?Send"):
            out.append(Case("round8", attr, "%s\ntrait T { fn g(&self) -> i32; fn h(&self, a: i32); }" % sa))
            out.append(Case("round8", attr, "%s\npub trait T {}" % sa))
    for pt in HRTB_PARAMS:
        for asy in ("", "async "):
            for attr in ("Foo", "Foo, ?Send", "Foo, no_deps"):
                dep = "" if "no_deps" in attr else "deps: &impl A, "
                out.append(Case("round8", attr, "%sfn foo(%s%s, x: u8) -> u8 { x }" % (asy, dep, pt)))
            out.append(Case("round8", "Foo", "mod m { pub %sfn foo(deps: &impl A, %s) {} pub fn bar(deps: &impl A) {} }" % (asy, pt)))
            out.append(Case("round8", rng.choice(["", "ref"]), "impl FooImpl for MyType { %sfn foo<D>(deps: &D, %s) {} }" % (asy, pt)))
        out.append(Case("round8", "delegate_by = ref", "trait T { fn m(&self, %s); async fn n(&self, %s); }" % (pt, pt)))
    return out


# after round 9: where predicates of an entraited TRAIT by where they put a `for<..>` binder (on the predicate, on the bound, on both,
# inside a parenthesised bound, on a `Fn` sugar bound), lifetime predicates and relaxed bounds - under every delegation kind
TRAIT_WHERE = ["P: for<'s> Parser<'s>", "F: for<'y> Fn(&'y str) -> &'y str", "for<'x> &'x P: Into<i32>", "for<'x> P: for<'y> Cmp<'x, 'y>",
               "P: (for<'s> Parser<'s>) + Send", "P: 'a", "'a: 'static", "P: ?Sized", "P: Parser<'a>", "P: Parser<'static> + 'static",
               "Self: for<'s> Parser<'s>", "P: Fn(&'a u8) -> &'a u8", "Vec<P>: for<'s> Parser<'s>", "P: Parser<'_>"]


def fam_round9(rng):
    out = []
    for w in TRAIT_WHERE:
        for attr in ("", "delegate_by = ref", "delegate_by = Borrow", "FooImpl, delegate_by = Deleg", "FooImpl, delegate_by = ref", "mock_api = M, unimock"):
            g = "<'a, P, F>" if "'a" in w.replace("'a u8", "'a") else "<P, F>"
            out.append(Case("round9", attr, "pub trait Scan%s where %s { fn scan(&self, p: &P, f: F) -> i32; }" % (g, w)))
        for _ in range(3):
            ws = rng.sample(TRAIT_WHERE, rng.choice([2, 3]))
            out.append(Case("round9", rng.choice(["", "delegate_by = ref", "FooImpl, delegate_by = Deleg"]),
                            "trait Scan<'a, P, F>: Sized where %s%s { fn scan(&self, p: &'a P, f: F); async fn later(&self); }" % (", ".join(ws), rng.choice(["", ","]))))
    # after round 10: raw (keyword) identifiers as parameter names of trait methods, and attributes on trait methods (cfg, doc,
    # lint levels, several at once) - under every delegation kind, the delegation-target trait included
    DELEG = ("", "delegate_by = ref", "delegate_by = Borrow", "FooImpl, delegate_by = Deleg", "FooImpl, delegate_by = ref", "?Send", "mock_api = M, unimock")
    for attr in DELEG:
        out.append(Case("round9", attr, "pub trait Sc { fn scale(&self, r#type: i32, r#in: i32, plain: i32) -> i32; fn off(&self, r#plain: i32, r#match: u8); }"))
        out.append(Case("round9", attr, "trait Sc { async fn scale(&self, r#type: i32, r#fn: i32) -> i32; fn r#loop(&self, r#self_: i32); }"))
        for ma in ("#[cfg(any())]", "#[cfg(all())]", "#[cfg(not(any()))] #[doc = \"d\"]", "#[doc = \"d\"]", "/** docs */", "#[allow(unused)]", "#[deprecated]", "#[cfg(test)] #[allow(unused)] #[cfg(any())]",
                   "#[must_use]", "#[inline]"):
            out.append(Case("round9", attr, "pub trait Sc { %s fn gone(&self) -> Missing; fn kept(&self, a: i32) -> i32; %s async fn last(&self); }" % (ma, ma)))
    return out


# after round 10 (a cache keyed by names, shared by the invocations of one compiler process): invocations that share every name -
# trait, methods, functions, the *set* of parameter names - and differ in parameter order, types, asyncness or return type.
# harness/corpus.py puts the whole family into ONE crate, so one proc-macro instance expands all of them (and C20's re-runs expand
# them in another order)
def fam_same_process(rng):
    import itertools
    out = []
    ps = [("a", "i32"), ("b", "i32"), ("c", "u8")]
    for perm in itertools.permutations(ps):
        plist = ", ".join("%s: %s" % p for p in perm)
        for attr in ("", "delegate_by = ref", "FooImpl, delegate_by = Deleg", "FooImpl, delegate_by = ref", "mock_api = M, unimock"):
            out.append(Case("same_process", attr, "pub trait Ledger { fn m(&self, %s) -> i32; fn n(&self, %s); }" % (plist, plist)))
        out.append(Case("same_process", "pub Ledger", "pub fn m(deps: &impl A, %s) -> i32 { 0 }" % plist))
        out.append(Case("same_process", "pub Ledger, no_deps", "pub fn m(%s) -> i32 { 0 }" % plist))
        out.append(Case("same_process", "pub Ledger", "pub mod ledger { pub fn m(deps: &impl A, %s) -> i32 { 0 } pub fn n<D>(deps: &D, %s) {} }" % (plist, plist)))
        out.append(Case("same_process", rng.choice(["", "ref"]), "impl FooImpl for MyType { pub fn m<D>(deps: &D, %s) -> i32 { 0 } }" % plist))
    for sig in ("fn m(&self, a: i32) -> i32;", "async fn m(&self, a: i32) -> i32;", "fn m(&self, a: u8) -> u8;", "fn m(&self, a: i32);", "fn m(self, a: i32) -> i32;",
                "fn m<'x>(&'x self, a: &'x i32) -> &'x i32;", "fn m(&self, (a, _): (i32, i32)) -> i32;"):
        for attr in ("", "delegate_by = ref", "FooImpl, delegate_by = Deleg"):
            out.append(Case("same_process", attr, "pub trait Ledger { %s }" % sig))
    for attr in ("pub Ledger", "pub Ledger, no_deps", "pub Ledger, mock_api = M, unimock", "pub(crate) Ledger, ?Send", "Ledger, export"):
        for f in ("pub fn m(deps: &impl A, a: i32) -> i32 { a }", "pub async fn m(deps: &impl A, a: i32) -> i32 { a }", "fn m<D: A + B>(deps: &D, a: i32) -> i32 { a }", "fn m(deps: &App, a: i32) {}"):
            if "no_deps" in attr:
                f = f.replace("deps: &impl A, ", "").replace("deps: &D, ", "").replace("deps: &App, ", "")
            out.append(Case("same_process", attr, f))
    rng.shuffle(out)
    return out


def build_corpus(seed, tier):
    rng = random.Random(seed)
    thorough = tier == "thorough"
    k = 8 if thorough else 1
    cases = []
    cases += fam_findings()
    cases += fam_regression(rng)
    cases += fam_fn_general(rng, 600 * k)
    cases += fam_mod_general(rng, 300 * k)
    cases += fam_trait_general(rng, 350 * k)
    cases += fam_impl_general(rng, 150 * k)
    cases += fam_c16(rng, 4 if thorough else 3, sample=None if thorough else 700)
    cases += fam_c16_random(rng, 200 * k)
    cases += fam_lattice(rng, sample=None if thorough else 500)
    cases += fam_c17(rng, 150 * k)
    cases += fam_malformed(rng, 80 * k)
    cases += fam_opt_exhaustive(rng, tier)
    cases += fam_subattr_exhaustive(rng)
    cases += fam_qualifiers_exhaustive(rng)
    cases += fam_deps_exhaustive(rng)
    cases += fam_trait_methods_exhaustive(rng)
    cases += fam_mod_items_exhaustive(rng)
    cases += fam_trait_header_exhaustive(rng)
    cases += fam_where_exhaustive(rng)
    cases += fam_nested_entrait(rng)
    cases += fam_c17_shapes(rng)
    cases += fam_private_qualified(rng)
    cases += fam_c16_subpat(rng)
    cases += fam_dup_attrs(rng)
    cases += fam_vis_exhaustive(rng)
    cases += fam_coverage_gaps(rng)
    cases += fam_deps_mock(rng)
    cases += fam_round8(rng)
    cases += fam_round9(rng)
    cases += fam_same_process(rng)
    for i, c in enumerate(cases):
        c.cid = i
    return cases
