"""setup_cmd: build everything from files on disk, offline; warm the cargo target dirs."""
import os
import sys
sys.path.insert(0, os.path.dirname(os.path.abspath(__file__)))
import common
import corpus
import gen

common.ensure_tools()
# warm up: compile entrait (+ unimock) with the recorder for both feature settings on a tiny corpus
c = gen.Case("warmup", "Foo", "fn foo(deps: &impl A) {}")
c.cid = 0
corpus.run_cases([c], "warmup")
print("setup ok")
