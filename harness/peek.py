import sys, json, collections
sys.path.insert(0,'/verif/harness')
import corpus
res=corpus.load_or_run(1,'quick')
rows=res['rows'][sys.argv[3] if len(sys.argv)>3 else 'off']
cases={c['cid']:c for c in res['cases']}
p=sys.argv[1]; code=sys.argv[2]
bad=[r for r in rows if r.get(p)==code]
print(len(bad), collections.Counter(cases[r['cid']]['family'] for r in bad))
import random
random.seed(0)
for r in random.sample(bad, min(int(sys.argv[4]) if len(sys.argv)>4 else 4,len(bad))):
    c=cases[r['cid']]
    print('---', r['cid'], c['family'], r['variant'], r['kind'], r['class'], 'nth',r['nth'])
    print('#[%s(%s)]'%(c['macro'],c['attr'])); print(c['item'][:700])
