"""Confirm a sub-agent's seeded change independently, in its scratch worktree /tmp/mut/<ID> (never in /repo):
   demo passes on the unchanged tree; with the patch the repository's test suite still passes and the demo fails.
   python3 harness/seedconfirm.py C03 1   -> writes /tmp/mut/out/C03/confirm1.json"""
import json
import os
import re
import subprocess
import sys


def sh(cmd, cwd=None, timeout=3000):
    env = dict(os.environ, CARGO_NET_OFFLINE="true")
    p = subprocess.run(cmd, shell=True, cwd=cwd, env=env, stdout=subprocess.PIPE, stderr=subprocess.STDOUT, text=True, timeout=timeout)
    return p.returncode, p.stdout


def main():
    pid, k = sys.argv[1], sys.argv[2]
    root = os.environ.get("MUT_ROOT", "/tmp/mut")
    wt = root + "/" + pid
    out = root + "/out/" + pid
    meta = json.load(open("%s/meta%s.json" % (out, k)))
    patch = "%s/patch%s.diff" % (out, k)
    demo = meta["demo_cmd"]
    if not demo.strip().startswith("cd "):
        demo = "cd %s/demo%s && %s" % (out, k, demo)
    res = {"property": pid, "k": k, "demo_cmd": demo}
    sh("git checkout -- .", cwd=wt)
    rc, o = sh("git status --porcelain", cwd=wt)
    res["worktree_clean_before"] = o.strip() == "" or all(l.startswith("??") for l in o.strip().split("\n"))
    rc0, o0 = sh(demo)
    res["demo_without_patch_rc"] = rc0
    rc, o = sh("git apply " + patch, cwd=wt)
    if rc != 0:
        rc, o = sh("git apply -3 " + patch + " && git reset -q", cwd=wt)      # the tree moved on since the patch was written
        res["applied_3way"] = rc == 0
    res["patch_applies"] = rc == 0
    if rc == 0:
        rct, ot = sh("cargo test --workspace --no-fail-fast --offline 2>&1", cwd=wt)
        passed = sum(int(m) for m in re.findall(r"test result: ok\. (\d+) passed", ot))
        failed = sum(int(m) for m in re.findall(r"(\d+) failed", ot))
        res.update({"tests_with_patch_rc": rct, "tests_with_patch_passed": passed, "tests_with_patch_failed": failed})
        rc1, o1 = sh(demo)
        res["demo_with_patch_rc"] = rc1
        res["demo_with_patch_tail"] = o1[-1500:]
    sh("git checkout -- .", cwd=wt)
    sh("rm -rf %s/target %s/demo%s/target" % (wt, out, k))
    res["confirmed"] = bool(res.get("patch_applies") and res["demo_without_patch_rc"] == 0 and res.get("tests_with_patch_rc") == 0
                            and res.get("tests_with_patch_failed") == 0 and res.get("demo_with_patch_rc", 0) != 0)
    json.dump(res, open("%s/confirm%s.json" % (out, k), "w"), indent=1)
    print(pid, k, "confirmed" if res["confirmed"] else "NOT CONFIRMED", {x: res.get(x) for x in ("demo_without_patch_rc", "tests_with_patch_passed", "tests_with_patch_failed", "demo_with_patch_rc")}, flush=True)


if __name__ == "__main__":
    main()
