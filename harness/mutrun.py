"""Development aid: evaluate the mutants of harness/mutate.py against the *corpus layer* of the checks.

   python3 harness/mutrun.py <outdir> [-j N]

One scratch worktree and one cache directory per slot (so cargo rebuilds only the macro and the corpus crates); for every mutant
the patch is applied there, the quick corpus of seed 1 is expanded by the mutated macro and run through the model, and the rows are
judged the way harness/verdict.py judges them: per property, a row *fails* when the property's predicate applies to the real
output, is decided and does not hold (outside the known classes), and the *tie is broken* when the predicate is undecided or the
projection of the real output differs from the model's. The Layer-B probes (compile / run / semantic) are not run here, so this
under-reports what the full checks detect. Results: <outdir>/run/<id>-patch.json in the format harness/mutate.py report reads."""
import json
import os
import subprocess
import sys
from concurrent.futures import ThreadPoolExecutor

VERIF = os.path.dirname(os.path.dirname(os.path.abspath(__file__)))
PROPS = ["C%02d" % i for i in range(1, 21)]

JUDGE = r'''
import json, sys
sys.path.insert(0, %r)
import corpus
res = corpus.load_or_run(1, "quick")
out = {}
for p in %r:
    fail = tie = 0
    wit = None
    for feat in ("off", "on"):
        for r in res["rows"][feat]:
            v = r.get(p)
            if not v or v[0] != "1":
                continue
            det, holds, aeq = v[1] == "1", v[2] == "1", v[3] == "1"
            if det and not holds and not r.get("known", {}).get(p):
                fail += 1
                wit = wit or r["cid"]
            if (not det) or (not aeq):
                tie += 1
                wit = wit if wit is not None else r["cid"]
    out[p] = {"fail": fail, "tie": tie, "wit": wit}
cases = {c["cid"]: c for c in res["cases"]}
dis = [r["cid"] for feat in ("off", "on") for r in res["rows"][feat] if r.get("agree") is False]
missing = sum(res["stats"][f]["missing_cases"] for f in ("off", "on"))
print("JUDGE " + json.dumps({"props": out, "disagree": len(dis), "missing": missing,
                             "first": (cases[dis[0]]["attr"] + " | " + cases[dis[0]]["item"])[:200] if dis else None}))
'''


def slot_run(slot, mutants, outdir):
    wt = os.path.join(outdir, "slot%d" % slot)
    work = os.path.join(outdir, "work%d" % slot)
    subprocess.run("git -C /repo worktree remove --force %s; rm -rf %s; git -C /repo worktree add --detach %s HEAD && cp /repo/Cargo.lock %s/" % (wt, wt, wt, wt),
                   shell=True, stdout=subprocess.DEVNULL, stderr=subprocess.DEVNULL)
    os.makedirs(os.path.join(outdir, "run"), exist_ok=True)
    for m in mutants:
        dst = os.path.join(outdir, "run", "%s-patch.json" % m)
        if os.path.exists(dst):
            continue
        patch = os.path.join(outdir, m, "patch.diff")
        subprocess.run(["git", "-C", wt, "checkout", "--", "."], stdout=subprocess.DEVNULL)
        a = subprocess.run(["git", "-C", wt, "apply", patch], stdout=subprocess.PIPE, stderr=subprocess.STDOUT, text=True)
        res = {"patch": patch, "applied": a.returncode == 0, "checks": {}}
        if a.returncode == 0:
            env = dict(os.environ, ENTRAIT_REPO=wt, VERIF_WORK=work, VERIF_OUT=os.path.join(outdir, "out%d" % slot))
            r = subprocess.run([sys.executable, "-c", JUDGE % (os.path.join(VERIF, "harness"), PROPS)], cwd=VERIF, env=env,
                               stdout=subprocess.PIPE, stderr=subprocess.PIPE, text=True)
            line = [l for l in r.stdout.split("\n") if l.startswith("JUDGE ")]
            if line:
                j = json.loads(line[0][6:])
                for p, d in j["props"].items():
                    rc = 1 if (d["fail"] or d["tie"]) else 0
                    res["checks"][p] = {"rc": rc, "summary": "%s: %d failing, tie broken on %d" % (p, d["fail"], d["tie"]),
                                        "replay": {"kind": "input" if d["fail"] else "correspondence"} if rc else None}
                if j["missing"]:
                    res["checks"]["C15"] = {"rc": 1, "summary": "C15: %d invocations without record" % j["missing"], "replay": {"kind": "input"}}
                res["disagree"] = j["disagree"]
                res["first_disagreement"] = j["first"]
            else:
                # the machinery stopped (for instance: the mutated macro does not build with the recorder on, or the compiler hung)
                res["checks"] = {p: {"rc": 2, "summary": (r.stdout + r.stderr)[-300:]} for p in PROPS[:1]}
        json.dump(res, open(dst, "w"), indent=1)
        det = sorted(p for p, c in res["checks"].items() if c["rc"] == 1)
        print("%s: disagree=%s detected_by=%s" % (m, res.get("disagree"), det), flush=True)
    subprocess.run("git -C /repo worktree remove --force %s; rm -rf %s %s" % (wt, wt, work), shell=True, stdout=subprocess.DEVNULL, stderr=subprocess.DEVNULL)


def main():
    outdir = sys.argv[1]
    j = int(sys.argv[3]) if len(sys.argv) > 3 and sys.argv[2] == "-j" else 6
    index = [m["id"] for m in json.load(open(os.path.join(outdir, "index.json")))]
    with ThreadPoolExecutor(j) as ex:
        list(ex.map(lambda s: slot_run(s, index[s::j], outdir), range(j)))


if __name__ == "__main__":
    main()
