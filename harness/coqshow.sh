#!/bin/sh
# usage: coqshow.sh Proofs/X.v LINE  — compile a copy truncated before LINE with `Show.` appended
f=$1; n=$2
cd ${COQDIR:-/verif/coq}
head -n $((n-1)) $f > /tmp/_show.v
echo "Show. Abort." >> /tmp/_show.v
coqc -Q . Entrait -o /tmp/_show.vo /tmp/_show.v 2>&1 | grep -v conda | tail -${3:-40}
