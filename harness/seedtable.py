"""Markdown table + seeded/RESULTS.json from /tmp/seedrun/summary.json (written by harness/seedreport.py) and seeded/*/meta.json."""
import json
import os

VERIF = os.path.dirname(os.path.dirname(os.path.abspath(__file__)))
rows = json.load(open("/tmp/seedrun/summary.json"))
out = []
res = []
for r in sorted(rows, key=lambda r: r["seed"]):
    meta = json.load(open(os.path.join(VERIF, "seeded", r["seed"], "meta.json")))
    rnd = meta.get("round", 1)
    own = r["own"].replace("caught: ", "")
    if own == "MISSED":
        own = "no alarm of its own"
    summ = " ".join(meta["summary"].split())
    cut = summ[:200].rsplit(" ", 1)[0] + " …" if len(summ) > 200 else summ
    out.append("| %s | %d | %s | %s | %s |" % (r["seed"], rnd, cut.replace("|", "/"), own, ", ".join(r["others_input"]) or "–"))
    res.append({"seed": r["seed"], "round": rnd, "own_check": own, "failing_input_also_by": r["others_input"],
                "correspondence_only": r["others_tie"], "witness": r["witness"]})
print("| seed | round | what the change does (needs to manifest) | own check | failing input found also by |")
print("|------|-------|------------------------------------------|-----------|------------------------------|")
print("\n".join(out))
json.dump(res, open(os.path.join(VERIF, "seeded", "RESULTS.json"), "w"), indent=1)
