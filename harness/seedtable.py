"""Markdown table + seeded/RESULTS.json.

   python3 harness/seedtable.py            # reads /tmp/seedrun_own/*.json (final evaluation: every seed against the check of its own
                                           # property, harness/seedrun.py -p <own>) and the record of the evaluation of all 20 checks made
                                           # when the seed was added (kept in seeded/RESULTS.json as `first_evaluation`)

A seed's first evaluation (all 20 quick checks) is recorded once, when it is stored; the final evaluation re-runs the check of the
seed's own property against the committed checks."""
import glob
import json
import os
import re

VERIF = os.path.dirname(os.path.dirname(os.path.abspath(__file__)))
OWN = os.environ.get("SEEDRUN_OWN", "/tmp/seedrun_own")


def own_verdict(sid):
    f = os.path.join(OWN, "%s-patch.json" % sid)
    if not os.path.exists(f):
        return None, None
    r = json.load(open(f))
    pid = sid.split("-")[0]
    own = r["checks"].get(pid, {})
    rp = own.get("replay") or {}
    if own.get("rc") != 1:
        return "no alarm of its own", None
    wit = ((rp.get("attr") or "") + " | " + (rp.get("item") or "").replace("\n", " "))[:140] if rp.get("item") else (rp.get("failing_predicate") or "")
    if rp.get("kind") in ("input", "history"):
        return "failing input", wit
    if rp.get("kind") == "correspondence":
        return "correspondence broken, no failing input found", wit
    return str(rp.get("kind")), wit


def main():
    old = {r["seed"]: r for r in json.load(open(os.path.join(VERIF, "seeded", "RESULTS.json")))}
    extra = {}
    p = os.path.join(VERIF, "seeded", "first_evaluation_r5_r7.json")
    if os.path.exists(p):
        extra = json.load(open(p))
    out, res = [], []
    seeds = sorted((d for d in os.listdir(os.path.join(VERIF, "seeded")) if re.match(r"C\d\d-\d+$", d)),
                   key=lambda s: (s.split("-")[0], int(s.split("-")[1])))
    for sid in seeds:
        meta = json.load(open(os.path.join(VERIF, "seeded", sid, "meta.json")))
        rnd = meta.get("round", 1)
        own, wit = own_verdict(sid)
        o = old.get(sid, {})
        first = o.get("first_evaluation")
        if first is None:
            if sid in extra:
                first = {"alarms_of_other_checks": extra[sid]}
            else:
                first = {"alarms_of_other_checks": sorted(set(o.get("failing_input_also_by", []) + o.get("correspondence_only", []))),
                         "with_failing_input": o.get("failing_input_also_by", [])}
        if own is None:
            own, wit = o.get("own_check", "not evaluated"), o.get("witness")
        summ = " ".join(meta["summary"].split())
        cut = summ[:200].rsplit(" ", 1)[0] + " …" if len(summ) > 200 else summ
        others = first.get("alarms_of_other_checks", [])
        out.append("| %s | %d | %s | %s | %s |" % (sid, rnd, cut.replace("|", "/"), own, ", ".join(others) or "–"))
        res.append({"seed": sid, "round": rnd, "own_check": own, "witness": wit, "first_evaluation": first})
    print("| seed | round | what the change does (needs to manifest) | own check (final evaluation) | other checks that raised an alarm (first evaluation) |")
    print("|------|-------|------------------------------------------|------------------------------|------------------------------------------------------|")
    print("\n".join(out))
    json.dump(res, open(os.path.join(VERIF, "seeded", "RESULTS.json"), "w"), indent=1)


if __name__ == "__main__":
    main()
