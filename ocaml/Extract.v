(* run from ocaml/extracted: coqc -Q ../../coq Entrait ../Extract.v *)
From Coq Require Import Extraction ExtrOcamlBasic ExtrOcamlString.
From Entrait Require Import Driver.
Extraction Language OCaml.
Separate Extraction Driver.run_line.
