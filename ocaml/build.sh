#!/bin/sh
# extraction + native build of the model driver; everything offline
set -e
cd "$(dirname "$0")"
rm -rf extracted _build && mkdir -p extracted _build
(cd extracted && coqc -Q ../../coq Entrait ../Extract.v >/dev/null)
rm -f Extract.vo Extract.glob Extract.vok Extract.vos .Extract.aux
cp extracted/*.ml extracted/*.mli main.ml _build/
cd _build
# dependency order from ocamlfind ocamldep
ORDER=$(ocamlfind ocamldep -sort *.mli *.ml)
ocamlfind ocamlopt -O2 -w -a -o ../model $ORDER 2>/dev/null || ocamlfind ocamlopt -w -a -o ../model $ORDER
