(* Thin driver around the extracted model: one s-expression per input line, one JSON line out. *)
let explode (s : string) : char list =
  let rec go i acc = if i < 0 then acc else go (i - 1) (Stdlib.String.get s i :: acc) in
  go (Stdlib.String.length s - 1) []

let implode (l : char list) : string =
  let b = Buffer.create 1024 in
  Stdlib.List.iter (Buffer.add_char b) l;
  Buffer.contents b

let () =
  try
    while true do
      let line = input_line stdin in
      if Stdlib.String.length line > 0 then begin
        let out = try implode (Driver.run_line (explode line))
                  with Stack_overflow -> "{\"error\":\"stack overflow in model\"}" in
        print_string out;
        print_newline ()
      end
    done
  with End_of_file -> ()
