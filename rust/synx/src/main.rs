//! synx: turns recorder dumps (see /repo/entrait_macros/src/verif.rs) into one s-expression per
//! invocation, in the shape the Gallina model decodes (coq/Decode.v).
//!
//! It lexes the recorded text with proc_macro2, and parses it with *syn* (the parser the macro itself
//! uses) into the "syn structure with opaque token leaves" AST of coq/Syn.v. Nothing here is trusted
//! blindly: the model re-prints every AST it receives and compares it with the recorded tokens.

use proc_macro2::{Delimiter, TokenStream, TokenTree};
use quote::ToTokens;
use std::fmt::Write as _;
use std::str::FromStr;
use syn::parse::{ParseStream, Parser};

// ---------------------------------------------------------------------------------------------
// s-expression helpers

fn esc(s: &str) -> String {
    let mut out = String::with_capacity(s.len() + 2);
    out.push('"');
    for c in s.chars() {
        match c {
            '"' => out.push_str("\\\""),
            '\\' => out.push_str("\\\\"),
            '\n' => out.push_str("\\n"),
            c => out.push(c),
        }
    }
    out.push('"');
    out
}

fn b(x: bool) -> &'static str {
    if x {
        "t"
    } else {
        "f"
    }
}

fn opt(x: Option<String>) -> String {
    match x {
        None => "none".to_string(),
        Some(s) => format!("(some {})", s),
    }
}

fn canon_lit(text: &str) -> String {
    // string literals are compared by value (rustc shows a doc attribute as `/// x`, `#[doc = " x"]`
    // or a raw string depending on where it is printed); everything else by source text.
    if text.starts_with('"') || text.starts_with("r\"") || text.starts_with("r#") {
        if let Ok(lit) = syn::parse_str::<syn::LitStr>(text) {
            return format!("{:?}", lit.value());
        }
    }
    text.to_string()
}

fn tok(out: &mut String, tt: &TokenTree) {
    match tt {
        TokenTree::Ident(id) => {
            let _ = write!(out, " i:{}", id);
        }
        TokenTree::Punct(p) => {
            let _ = write!(out, " p:{}", p.as_char());
        }
        TokenTree::Literal(l) => {
            let _ = write!(out, " (l {})", esc(&canon_lit(&l.to_string())));
        }
        TokenTree::Group(g) => {
            let d = match g.delimiter() {
                Delimiter::Parenthesis => "P",
                Delimiter::Brace => "B",
                Delimiter::Bracket => "K",
                Delimiter::None => "N",
            };
            let _ = write!(out, " ({}", d);
            for t in g.stream() {
                tok(out, &t);
            }
            out.push(')');
        }
    }
}

fn toks(ts: TokenStream) -> String {
    let mut out = String::from("(T");
    for t in ts {
        tok(&mut out, &t);
    }
    out.push(')');
    out
}

fn toks_of<T: ToTokens>(x: &T) -> String {
    toks(x.to_token_stream())
}

fn list(tag: &str, items: impl IntoIterator<Item = String>) -> String {
    let mut out = format!("({}", tag);
    for it in items {
        out.push(' ');
        out.push_str(&it);
    }
    out.push(')');
    out
}

// ---------------------------------------------------------------------------------------------
// syn AST -> s-expression

fn attrs(attrs: &[syn::Attribute]) -> String {
    list("attrs", attrs.iter().map(|a| toks_of(&a.meta)))
}

fn has_inner_attr(attrs: &[syn::Attribute]) -> bool {
    attrs.iter().any(|a| matches!(a.style, syn::AttrStyle::Inner(_)))
}

fn gparam(p: &syn::GenericParam) -> String {
    match p {
        syn::GenericParam::Lifetime(l) => {
            let mut rest = TokenStream::new();
            if !l.bounds.is_empty() {
                l.colon_token.unwrap_or_default().to_tokens(&mut rest);
                l.bounds.to_tokens(&mut rest);
            }
            format!(
                "(gp life {} {} {} {})",
                attrs(&l.attrs),
                esc(&l.lifetime.ident.to_string()),
                toks(rest),
                list("bounds", l.bounds.iter().map(|x| toks_of(x)))
            )
        }
        syn::GenericParam::Type(t) => {
            let mut rest = TokenStream::new();
            if !t.bounds.is_empty() {
                t.colon_token.unwrap_or_default().to_tokens(&mut rest);
                t.bounds.to_tokens(&mut rest);
            }
            if let Some(d) = &t.default {
                t.eq_token.unwrap_or_default().to_tokens(&mut rest);
                d.to_tokens(&mut rest);
            }
            format!(
                "(gp type {} {} {} {})",
                attrs(&t.attrs),
                esc(&t.ident.to_string()),
                toks(rest),
                list("bounds", t.bounds.iter().map(|x| toks_of(x)))
            )
        }
        syn::GenericParam::Const(c) => {
            // everything after the name, as syn prints it
            let mut whole = syn::ConstParam {
                attrs: vec![],
                ..c.clone()
            }
            .to_token_stream()
            .into_iter();
            whole.next(); // const
            whole.next(); // name
            let rest: TokenStream = whole.collect();
            format!(
                "(gp const {} {} {} (bounds))",
                attrs(&c.attrs),
                esc(&c.ident.to_string()),
                toks(rest)
            )
        }
    }
}

fn punct<T, P>(p: &syn::punctuated::Punctuated<T, P>, f: impl Fn(&T) -> String) -> String {
    let mut out = format!("(pl {}", b(p.trailing_punct()));
    for x in p.iter() {
        out.push(' ');
        out.push_str(&f(x));
    }
    out.push(')');
    out
}

fn bounded_class(ty: &syn::Type) -> String {
    match ty {
        syn::Type::Path(tp) => format!(
            "(bpath {} {} {} {})",
            b(tp.qself.is_some()),
            b(tp.path.leading_colon.is_some()),
            tp.path.segments.len(),
            esc(&tp
                .path
                .segments
                .first()
                .map(|s| s.ident.to_string())
                .unwrap_or_default())
        ),
        _ => "bother".to_string(),
    }
}

fn wpred(p: &syn::WherePredicate) -> String {
    match p {
        syn::WherePredicate::Type(t) => format!(
            "(wp t {} {} {} {})",
            bounded_class(&t.bounded_ty),
            list("bounds", t.bounds.iter().map(|x| toks_of(x))),
            toks_of(p),
            // the `for<..>` binder in front of the predicate, as syn prints it
            t.lifetimes
                .as_ref()
                .map(|l| toks_of(l))
                .unwrap_or_else(|| toks(TokenStream::new()))
        ),
        _ => format!(
            "(wp f bother (bounds) {} {})",
            toks_of(p),
            toks(TokenStream::new())
        ),
    }
}

fn generics(g: &syn::Generics) -> String {
    format!(
        "(gen {} {} {})",
        b(g.lt_token.is_some()),
        punct(&g.params, gparam),
        opt(g
            .where_clause
            .as_ref()
            .map(|w| punct(&w.predicates, wpred)))
    )
}

fn fty(ty: &syn::Type) -> String {
    match ty {
        syn::Type::Reference(r) => format!(
            "(tref {} {} {})",
            opt(r.lifetime.as_ref().map(|l| esc(&l.ident.to_string()))),
            b(r.mutability.is_some()),
            fty(&r.elem)
        ),
        syn::Type::Paren(p) => format!("(tparen {})", fty(&p.elem)),
        syn::Type::ImplTrait(i) => format!(
            "(timpl {} {})",
            b(i.bounds.trailing_punct()),
            list("bounds", i.bounds.iter().map(|x| toks_of(x)))
        ),
        syn::Type::Path(tp) => format!(
            "(tpath {} {} {} {} {})",
            b(tp.qself.is_some()),
            b(tp.path.leading_colon.is_some()),
            tp.path.segments.len(),
            esc(&tp
                .path
                .segments
                .first()
                .map(|s| s.ident.to_string())
                .unwrap_or_default()),
            toks_of(ty)
        ),
        _ => format!("(tother {})", toks_of(ty)),
    }
}

struct Binds(Vec<String>);
impl<'ast> syn::visit::Visit<'ast> for Binds {
    fn visit_pat_ident(&mut self, i: &'ast syn::PatIdent) {
        // like the macro's visitor: record, do not descend into the sub-pattern
        self.0.push(i.ident.to_string());
    }
}

fn pat(p: &syn::Pat) -> String {
    match p {
        syn::Pat::Ident(pi) if pi.attrs.is_empty() => {
            let mut sub = TokenStream::new();
            if let Some((at, sp)) = &pi.subpat {
                at.to_tokens(&mut sub);
                sp.to_tokens(&mut sub);
            }
            format!(
                "(pid {} {} {} {})",
                b(pi.by_ref.is_some()),
                b(pi.mutability.is_some()),
                esc(&pi.ident.to_string()),
                toks(sub)
            )
        }
        _ => {
            let mut binds = Binds(vec![]);
            syn::visit::Visit::visit_pat(&mut binds, p);
            format!(
                "(pnon {} {})",
                toks_of(p),
                list("binds", binds.0.iter().map(|s| esc(s)))
            )
        }
    }
}

fn fnarg(a: &syn::FnArg) -> String {
    match a {
        syn::FnArg::Receiver(r) => {
            let reference = match &r.reference {
                None => "none".to_string(),
                Some((_, None)) => "(some none)".to_string(),
                Some((_, Some(l))) => format!("(some (some {}))", esc(&l.ident.to_string())),
            };
            format!(
                "(recv {} {} {} {})",
                attrs(&r.attrs),
                reference,
                b(r.mutability.is_some()),
                opt(r.colon_token.map(|_| toks_of(&r.ty)))
            )
        }
        syn::FnArg::Typed(pt) => format!("(typed {} {} {})", attrs(&pt.attrs), pat(&pt.pat), fty(&pt.ty)),
    }
}

fn sig(s: &syn::Signature) -> String {
    format!(
        "(sig {} {} {} {} {} {} {} {} {})",
        b(s.constness.is_some()),
        b(s.asyncness.is_some()),
        b(s.unsafety.is_some()),
        opt(s.abi.as_ref().map(|a| toks_of(&a.name))),
        esc(&s.ident.to_string()),
        generics(&s.generics),
        punct(&s.inputs, fnarg),
        opt(s.variadic.as_ref().map(|v| toks_of(v))),
        opt(match &s.output {
            syn::ReturnType::Default => None,
            syn::ReturnType::Type(_, ty) => Some(toks_of(ty)),
        })
    )
}

fn trait_item(ti: &syn::TraitItem) -> String {
    match ti {
        syn::TraitItem::Fn(f) if !has_inner_attr(&f.attrs) => format!(
            "(tfn {} {} {} {})",
            attrs(&f.attrs),
            sig(&f.sig),
            opt(f.default.as_ref().map(|blk| toks_of(blk))),
            b(f.semi_token.is_some())
        ),
        syn::TraitItem::Type(t) => format!("(ttype {})", toks_of(t)),
        other => format!("(tother {})", toks_of(other)),
    }
}

fn item_trait(t: &syn::ItemTrait) -> String {
    format!(
        "(trait {} {} {} {} {} {} {} {} {})",
        attrs(&t.attrs),
        toks_of(&t.vis),
        b(t.unsafety.is_some()),
        b(t.auto_token.is_some()),
        esc(&t.ident.to_string()),
        generics(&t.generics),
        b(t.colon_token.is_some()),
        punct(&t.supertraits, |x| toks_of(x)),
        list("items", t.items.iter().map(trait_item))
    )
}

fn impl_item(ii: &syn::ImplItem) -> String {
    match ii {
        syn::ImplItem::Fn(f) if !has_inner_attr(&f.attrs) && f.defaultness.is_none() => format!(
            "(ifn {} {} {} {})",
            attrs(&f.attrs),
            toks_of(&f.vis),
            sig(&f.sig),
            toks_of(&f.block)
        ),
        other => format!("(iother {})", toks_of(other)),
    }
}

fn item(it: &syn::Item) -> String {
    match it {
        syn::Item::Fn(f) if !has_inner_attr(&f.attrs) => format!(
            "(fn {} {} {} {})",
            attrs(&f.attrs),
            toks_of(&f.vis),
            sig(&f.sig),
            toks_of(&f.block)
        ),
        syn::Item::Trait(t) if !has_inner_attr(&t.attrs) && t.restriction.is_none() => item_trait(t),
        syn::Item::Impl(i)
            if !has_inner_attr(&i.attrs)
                && i.defaultness.is_none()
                && i.trait_.as_ref().map(|t| t.0.is_none()).unwrap_or(true) =>
        {
            format!(
                "(impl {} {} {} {} {} {})",
                attrs(&i.attrs),
                b(i.unsafety.is_some()),
                generics(&i.generics),
                opt(i.trait_.as_ref().map(|t| toks_of(&t.1))),
                toks_of(&i.self_ty),
                list("items", i.items.iter().map(impl_item))
            )
        }
        syn::Item::Mod(m) if !has_inner_attr(&m.attrs) && m.content.is_some() && m.unsafety.is_none() => {
            format!(
                "(mod {} {} {} {})",
                attrs(&m.attrs),
                toks_of(&m.vis),
                esc(&m.ident.to_string()),
                list("items", m.content.as_ref().unwrap().1.iter().map(item))
            )
        }
        syn::Item::Use(u) if u.leading_colon.is_none() => format!(
            "(use {} {} {})",
            attrs(&u.attrs),
            toks_of(&u.vis),
            toks_of(&u.tree)
        ),
        other => format!("(other {})", toks_of(other)),
    }
}

// ---------------------------------------------------------------------------------------------
// the macro input, parsed the way `Input::parse` looks at it

/// signature oracle for module / impl bodies: at every top-level offset where a fn could start,
/// what syn's `Signature` parser makes of the tokens from there (and how many it consumes).
fn sig_oracle(body: &TokenStream) -> String {
    let tts: Vec<TokenTree> = body.clone().into_iter().collect();
    let mut out = String::from("(sigs");
    for (off, tt) in tts.iter().enumerate() {
        let starts = match tt {
            TokenTree::Ident(id) => {
                let s = id.to_string();
                s == "fn" || s == "const" || s == "async" || s == "unsafe" || s == "extern"
            }
            _ => false,
        };
        if !starts {
            continue;
        }
        let rest: TokenStream = tts[off..].iter().cloned().collect();
        let total = tts.len() - off;
        let parser = |input: ParseStream| -> syn::Result<(syn::Signature, usize)> {
            let s: syn::Signature = input.parse()?;
            let rest: TokenStream = input.parse()?;
            Ok((s, rest.into_iter().count()))
        };
        if let Ok((s, left)) = parser.parse2(rest) {
            let _ = write!(out, " ({} {} {})", off, total - left, sig(&s));
        }
    }
    out.push(')');
    out
}

struct Head {
    attrs: Vec<syn::Attribute>,
    vis: syn::Visibility,
    unsafety: bool,
    auto_token: bool,
}

fn input_item(ts: TokenStream) -> String {
    let parser = |input: ParseStream| -> syn::Result<String> {
        let head = {
            let a = match input.call(syn::Attribute::parse_outer) {
                Ok(a) => a,
                Err(_) => {
                    let _: TokenStream = input.parse()?;
                    return Ok("(in_head_err)".to_string());
                }
            };
            let vis: syn::Visibility = match input.parse() {
                Ok(v) => v,
                Err(_) => {
                    let _: TokenStream = input.parse()?;
                    return Ok("(in_head_err)".to_string());
                }
            };
            let unsafety: Option<syn::token::Unsafe> = input.parse()?;
            let auto_token: Option<syn::token::Auto> = input.parse()?;
            Head {
                attrs: a,
                vis,
                unsafety: unsafety.is_some(),
                auto_token: auto_token.is_some(),
            }
        };
        let head_s = format!(
            "{} {} {} {}",
            attrs(&head.attrs),
            toks_of(&head.vis),
            b(head.unsafety),
            b(head.auto_token)
        );
        let rest: TokenStream = input.parse()?;
        let first_kw = rest.clone().into_iter().next().and_then(|t| match t {
            TokenTree::Ident(i) => Some(i.to_string()),
            _ => None,
        });
        match first_kw.as_deref() {
            Some("trait") => match syn::parse2::<syn::ItemTrait>(rest) {
                Ok(t) => Ok(format!("(in_trait {} {})", head_s, item_trait(&t))),
                Err(_) => Ok(format!("(in_trait_err {})", head_s)),
            },
            Some("impl") => {
                let p = |input: ParseStream| -> syn::Result<String> {
                    let _: syn::token::Impl = input.parse()?;
                    let path: syn::Path = input.parse()?;
                    let _: syn::token::For = input.parse()?;
                    let self_ty: syn::Type = input.parse()?;
                    if !input.peek(syn::token::Brace) {
                        return Err(input.error("expected brace"));
                    }
                    let content;
                    let _ = syn::braced!(content in input);
                    let body: TokenStream = content.parse()?;
                    let fns = match (|input: ParseStream| -> syn::Result<Vec<syn::ImplItem>> {
                        let mut v = vec![];
                        while !input.is_empty() {
                            v.push(input.parse()?);
                        }
                        Ok(v)
                    })
                    .parse2(body.clone())
                    {
                        Ok(items) => format!(
                            "(some {})",
                            list(
                                "names",
                                items.iter().filter_map(|i| match i {
                                    syn::ImplItem::Fn(f) => Some(esc(&f.sig.ident.to_string())),
                                    _ => None,
                                })
                            )
                        ),
                        Err(_) => "none".to_string(),
                    };
                    Ok(format!(
                        "{} {} {} {} {}",
                        toks_of(&path),
                        toks_of(&self_ty),
                        toks(body.clone()),
                        sig_oracle(&body),
                        fns
                    ))
                };
                match p.parse2(rest) {
                    Ok(s) => Ok(format!("(in_impl {} {})", head_s, s)),
                    Err(_) => Ok(format!("(in_impl_err {})", head_s)),
                }
            }
            Some("mod") => {
                let p = |input: ParseStream| -> syn::Result<String> {
                    let _: syn::token::Mod = input.parse()?;
                    let ident: syn::Ident = input.parse()?;
                    if !input.peek(syn::token::Brace) {
                        return Err(input.error("expected brace"));
                    }
                    let content;
                    let _ = syn::braced!(content in input);
                    let body: TokenStream = content.parse()?;
                    // independent ground truth for C08: syn's own item parser on the module body
                    let fns = match (|input: ParseStream| -> syn::Result<Vec<syn::Item>> {
                        let mut v = vec![];
                        while !input.is_empty() {
                            v.push(input.parse()?);
                        }
                        Ok(v)
                    })
                    .parse2(body.clone())
                    {
                        Ok(items) => format!(
                            "(some {})",
                            list(
                                "names",
                                items.iter().filter_map(|i| match i {
                                    syn::Item::Fn(f) if !matches!(f.vis, syn::Visibility::Inherited) => {
                                        Some(esc(&f.sig.ident.to_string()))
                                    }
                                    _ => None,
                                })
                            )
                        ),
                        Err(_) => "none".to_string(),
                    };
                    Ok(format!(
                        "{} {} {} {}",
                        esc(&ident.to_string()),
                        toks(body.clone()),
                        sig_oracle(&body),
                        fns
                    ))
                };
                match p.parse2(rest) {
                    Ok(s) => Ok(format!("(in_mod {} {})", head_s, s)),
                    Err(_) => Ok(format!("(in_mod_err {})", head_s)),
                }
            }
            _ => {
                let p = |input: ParseStream| -> syn::Result<String> {
                    let s: syn::Signature = input.parse()?;
                    let body: TokenStream = input.parse()?;
                    Ok(format!("{} {}", sig(&s), toks(body)))
                };
                match p.parse2(rest) {
                    Ok(s) => Ok(format!("(in_fn {} {})", head_s, s)),
                    Err(_) => Ok(format!("(in_fn_err {})", head_s)),
                }
            }
        }
    };
    match parser.parse2(ts) {
        Ok(s) => s,
        Err(_) => "(in_head_err)".to_string(),
    }
}


// ---------------------------------------------------------------------------------------------
// structure of the macro's OUTPUT when it starts with / embeds the INPUT tokens (append-only):
// only the part the macro added is parsed with syn; the user's part is kept as verbatim tokens, so
// that items syn cannot parse (or prints differently) do not make the whole output "unparsable".

fn tt_eq(a: &TokenTree, b: &TokenTree) -> bool {
    match (a, b) {
        (TokenTree::Ident(x), TokenTree::Ident(y)) => x.to_string() == y.to_string(),
        (TokenTree::Punct(x), TokenTree::Punct(y)) => x.as_char() == y.as_char(),
        (TokenTree::Literal(x), TokenTree::Literal(y)) => canon_lit(&x.to_string()) == canon_lit(&y.to_string()),
        (TokenTree::Group(x), TokenTree::Group(y)) => {
            x.delimiter() == y.delimiter() && ts_eq(&x.stream().into_iter().collect::<Vec<_>>(), &y.stream().into_iter().collect::<Vec<_>>())
        }
        _ => false,
    }
}

fn ts_eq(a: &[TokenTree], b: &[TokenTree]) -> bool {
    a.len() == b.len() && a.iter().zip(b.iter()).all(|(x, y)| tt_eq(x, y))
}

fn parse_items(tts: &[TokenTree]) -> Option<Vec<String>> {
    let ts: TokenStream = tts.iter().cloned().collect();
    match syn::parse2::<syn::File>(ts) {
        Ok(f) if f.attrs.is_empty() && f.shebang.is_none() => Some(f.items.iter().map(item).collect()),
        _ => None,
    }
}

fn other_of(tts: &[TokenTree]) -> String {
    format!("(other {})", toks(tts.iter().cloned().collect()))
}

fn is_brace(tt: &TokenTree) -> bool {
    matches!(tt, TokenTree::Group(g) if g.delimiter() == proc_macro2::Delimiter::Brace)
}

fn is_ident(tt: &TokenTree, name: &str) -> bool {
    matches!(tt, TokenTree::Ident(i) if i.to_string() == name)
}

fn out_items_prefix_aware(input: &TokenStream, output: &TokenStream) -> Option<String> {
    let i: Vec<TokenTree> = input.clone().into_iter().collect();
    let o: Vec<TokenTree> = output.clone().into_iter().collect();
    if i.is_empty() || !is_brace(i.last().unwrap()) {
        return None;
    }
    let n = i.len();
    let body_i: Vec<TokenTree> = match &i[n - 1] {
        TokenTree::Group(g) => g.stream().into_iter().collect(),
        _ => return None,
    };
    // which kind of item: the keyword in front of the last brace group's header
    let is_mod = n >= 3 && is_ident(&i[n - 3], "mod");
    let has_kw = |k: &str| i[..n - 1].iter().any(|t| is_ident(t, k));
    if is_mod {
        // head `mod name { body' } rest` with body' starting with the input body
        if o.len() < n || !ts_eq(&i[..n - 1], &o[..n - 1]) {
            return None;
        }
        let body_o: Vec<TokenTree> = match &o[n - 1] {
            TokenTree::Group(g) if g.delimiter() == proc_macro2::Delimiter::Brace => g.stream().into_iter().collect(),
            _ => return None,
        };
        // the generated part of the module body: normally everything after the verbatim copy of the input body; when the
        // macro re-printed some of the user's items (a fn signature that syn normalises), the longest suffix that parses as
        // exactly `trait` + `impl` — the user's part before it stays verbatim tokens either way
        let split = if body_o.len() >= body_i.len() && ts_eq(&body_i, &body_o[..body_i.len()]) {
            body_i.len()
        } else {
            let mut found = None;
            for p in (0..body_o.len()).rev() {
                let ts: TokenStream = body_o[p..].iter().cloned().collect();
                if let Ok(f) = syn::parse2::<syn::File>(ts) {
                    if f.attrs.is_empty()
                        && f.items.len() == 2
                        && matches!(f.items[0], syn::Item::Trait(_))
                        && matches!(f.items[1], syn::Item::Impl(_))
                    {
                        found = Some(p);
                    } else if f.items.len() > 2 {
                        break;
                    }
                }
            }
            found?
        };
        let user_part: Vec<TokenTree> = body_o[..split].to_vec();
        let inner_gen = parse_items(&body_o[split..])?;
        let after = parse_items(&o[n..])?;
        // attrs / vis / name of the module from an empty-bodied copy
        let mut head: Vec<TokenTree> = i[..n - 1].to_vec();
        head.push(TokenTree::Group(proc_macro2::Group::new(proc_macro2::Delimiter::Brace, TokenStream::new())));
        let m: syn::ItemMod = syn::parse2(head.into_iter().collect()).ok()?;
        if has_inner_attr(&m.attrs) || m.unsafety.is_some() {
            return None;
        }
        let mut inner: Vec<String> = vec![];
        if !user_part.is_empty() {
            inner.push(other_of(&user_part));
        }
        inner.extend(inner_gen);
        let mut items = vec![format!(
            "(mod {} {} {} {})",
            attrs(&m.attrs),
            toks_of(&m.vis),
            esc(&m.ident.to_string()),
            list("items", inner)
        )];
        items.extend(after);
        return Some(list("items", items));
    }
    if has_kw("trait") {
        return None; // traits are re-synthesised by the macro: parsed as a whole
    }
    if has_kw("impl") {
        // `attrs' unsafe? impl SelfTy { body }` (the inherent impl holding the user's items verbatim), then the generated impl
        let k = o.iter().position(is_brace)?;
        let body_o: Vec<TokenTree> = match &o[k] {
            TokenTree::Group(g) => g.stream().into_iter().collect(),
            _ => return None,
        };
        // the inherent impl holds the user's items; the macro re-prints the fns among them (a signature that syn normalises
        // makes the copy differ from the input): the body is kept as verbatim tokens either way, C02 compares it with the input
        let mut head: Vec<TokenTree> = o[..k].to_vec();
        head.push(TokenTree::Group(proc_macro2::Group::new(proc_macro2::Delimiter::Brace, TokenStream::new())));
        let im: syn::ItemImpl = syn::parse2(head.into_iter().collect()).ok()?;
        if has_inner_attr(&im.attrs) || im.defaultness.is_some() || im.trait_.is_some() {
            return None;
        }
        let gen = parse_items(&o[k + 1..])?;
        let inner: Vec<String> = if body_o.is_empty() { vec![] } else { vec![format!("(iother {})", toks(body_o.iter().cloned().collect()))] };
        let mut items = vec![format!(
            "(impl {} {} {} {} {} {})",
            attrs(&im.attrs),
            b(im.unsafety.is_some()),
            generics(&im.generics),
            opt(None),
            toks_of(&im.self_ty),
            list("items", inner)
        )];
        items.extend(gen);
        return Some(list("items", items));
    }
    // fn: the output starts with the input tokens
    if o.len() < n || !ts_eq(&i, &o[..n]) {
        return None;
    }
    let f: syn::ItemFn = syn::parse2(input.clone()).ok()?;
    if has_inner_attr(&f.attrs) {
        return None;
    }
    let gen = parse_items(&o[n..])?;
    let mut items = vec![format!(
        "(fn {} {} {} {})",
        attrs(&f.attrs),
        toks_of(&f.vis),
        sig(&f.sig),
        toks_of(&f.block)
    )];
    items.extend(gen);
    Some(list("items", items))
}

// ---------------------------------------------------------------------------------------------
// dump reader

struct Record {
    variant: String,
    site: String,
    attr: String,
    input: String,
    output: Option<String>,
}

fn read_field<'a>(data: &'a [u8], pos: &mut usize, name: &str) -> Option<&'a [u8]> {
    let head = format!("@@{} ", name);
    if !data[*pos..].starts_with(head.as_bytes()) {
        return None;
    }
    let nl = data[*pos..].iter().position(|&c| c == b'\n')? + *pos;
    let n: usize = std::str::from_utf8(&data[*pos + head.len()..nl]).ok()?.parse().ok()?;
    let start = nl + 1;
    let end = start + n;
    if end > data.len() {
        return None;
    }
    *pos = end + 1;
    Some(&data[start..end])
}

fn read_records(data: &[u8]) -> Vec<Record> {
    let mut recs = vec![];
    let mut pos = 0usize;
    while pos < data.len() {
        if !data[pos..].starts_with(b"@@BEGIN ") {
            // resync (should not happen)
            match data[pos..].windows(8).position(|w| w == b"@@BEGIN ") {
                Some(k) if k > 0 => {
                    pos += k;
                    continue;
                }
                _ => break,
            }
        }
        let nl = match data[pos..].iter().position(|&c| c == b'\n') {
            Some(k) => k + pos,
            None => break,
        };
        let line = String::from_utf8_lossy(&data[pos + 8..nl]).to_string();
        let mut parts = line.splitn(2, ' ');
        let variant = parts.next().unwrap_or("").to_string();
        let site = parts.next().unwrap_or("").to_string();
        pos = nl + 1;
        let attr = match read_field(data, &mut pos, "ATTR") {
            Some(x) => String::from_utf8_lossy(x).to_string(),
            None => break,
        };
        let input = match read_field(data, &mut pos, "INPUT") {
            Some(x) => String::from_utf8_lossy(x).to_string(),
            None => break,
        };
        let output = read_field(data, &mut pos, "END").map(|x| String::from_utf8_lossy(x).to_string());
        recs.push(Record {
            variant,
            site,
            attr,
            input,
            output,
        });
    }
    recs
}

fn case(rec: &Record) -> String {
    let attr_ts = TokenStream::from_str(&rec.attr);
    let input_ts = TokenStream::from_str(&rec.input);
    let (attr_ts, input_ts) = match (attr_ts, input_ts) {
        (Ok(a), Ok(i)) => (a, i),
        _ => return format!("(lexerr {} {})", esc(&rec.variant), esc(&rec.site)),
    };
    let out = match &rec.output {
        None => "panic".to_string(),
        Some(text) => match TokenStream::from_str(text) {
            Err(_) => "outlexerr".to_string(),
            Ok(ts) => {
                let items = match out_items_prefix_aware(&input_ts, &ts) {
                    Some(s) => s,
                    None => match syn::parse2::<syn::File>(ts.clone()) {
                        Ok(f) if f.attrs.is_empty() && f.shebang.is_none() => list("items", f.items.iter().map(item)),
                        _ => "unparsable".to_string(),
                    },
                };
                format!("(out {} {})", toks(ts), items)
            }
        },
    };
    format!(
        "(case {} {} {} {} {} {})",
        esc(&rec.variant),
        esc(&rec.site),
        toks(attr_ts),
        toks(input_ts.clone()),
        input_item(input_ts),
        out
    )
}

fn main() {
    let args: Vec<String> = std::env::args().skip(1).collect();
    if args.is_empty() {
        eprintln!("usage: synx <dump-file>...   (one s-expression per invocation on stdout)");
        std::process::exit(2);
    }
    let stdout = std::io::stdout();
    let mut w = std::io::BufWriter::new(stdout.lock());
    use std::io::Write;
    for path in &args {
        let data = match std::fs::read(path) {
            Ok(d) => d,
            Err(e) => {
                eprintln!("synx: cannot read {}: {}", path, e);
                std::process::exit(2);
            }
        };
        for rec in read_records(&data) {
            // a panic inside syn / proc_macro2 on odd input must not lose the other records
            let line = std::panic::catch_unwind(|| case(&rec))
                .unwrap_or_else(|_| format!("(synxpanic {} {})", esc(&rec.variant), esc(&rec.site)));
            let _ = writeln!(w, "{}", line);
        }
    }
}
