(** * Tie: the fields of a decoded input that the print round trip does not cover

    synx hands the model two kinds of field that repeat or classify tokens it also hands over verbatim:
    the classification of a (bounded) type the macro's analysis looks at ([BPath ..] / [TyPath ..]: qself, leading
    colon, segment count, first segment) and the per-bound / per-binder token lists of where predicates and
    generic parameters ([wp_bounds], [wp_binder], [gp_bounds]).  The printers never look at them, so the
    print round trip says nothing about them.  [input_fields_ok] re-derives what can be re-derived from the
    verbatim tokens and compares; the driver reports it per record and the harness counts a [false] as a broken
    correspondence (the glue misread the source), never as a verdict about the property.  Evaluated on the
    extracted code; nothing here is used by the expansion model. *)
From Coq Require Import List String Ascii Bool Arith.
From Entrait Require Import Tok Syn.
Import ListNotations.
Local Open Scope string_scope.
Local Open Scope list_scope.

Fixpoint is_prefix (p l : toks) : option toks :=
  match p, l with
  | [], _ => Some l
  | x :: xs, y :: ys => if tt_eqb x y then is_prefix xs ys else None
  | _ :: _, [] => None
  end.

Definition plus : tt := pc "+".

(** [l] = [pre ++ suf]: the prefix, computed from the lengths *)
Definition split_suffix (suf l : toks) : option toks :=
  let n := List.length l - List.length suf in
  if Nat.leb (List.length suf) (List.length l) && toks_eqb (skipn n l) suf then Some (firstn n l) else None.

(** the bounds as syn prints a [Punctuated<_, Token![+]>]: with or without a trailing plus *)
Definition bounds_tail (bs : list toks) (l : toks) : option toks :=
  match split_suffix (join [plus] bs) l with
  | Some pre => Some pre
  | None => split_suffix (join [plus] bs ++ [plus]) l
  end.

(** words that start a type which is not a path *)
Definition non_path_word (s : string) : bool :=
  str_mem s ["dyn"; "impl"; "fn"; "unsafe"; "extern"; "for"; "_"].

(** the classification (qself, leading colon, segments, first segment) against the type's tokens, as far as the macro
    distinguishes: "is exactly the one-segment path [s]" *)
Definition path_class_ok (q l : bool) (n : nat) (first : string) (ty : toks) : bool :=
  match ty with
  | TP c :: _ => if Ascii.eqb c "<"%char then q
                 else if Ascii.eqb c ":"%char then negb q && l
                 else false
  | [TId s] => negb q && negb l && (Nat.eqb n 1) && String.eqb s first && negb (non_path_word s)
  | TId s :: t :: _ =>
      negb q && negb l && String.eqb s first &&
      (if Nat.eqb n 1 then is_p "<" t || (match t with TG Paren _ => true | _ => false end) || is_p ":" t
       else is_p ":" t || is_p "<" t)
  | _ => false
  end.

Definition other_class_ok (ty : toks) : bool :=
  match ty with
  | [] => false
  | [TId s] => non_path_word s
  | TId s :: t :: _ => non_path_word s || is_p "!" t
  | _ => true
  end.

Definition bounded_ok (b : bounded) (ty : toks) : bool :=
  match b with
  | BPath q l n first => path_class_ok q l n first ty
  | BOther => other_class_ok ty
  end.

Definition last_is_colon (l : toks) : option toks :=
  match rev l with
  | t :: r => if is_p ":" t then Some (rev r) else None
  | [] => None
  end.

Definition wpred_ok (w : wpred) : bool :=
  if wp_is_type w then
    match bounds_tail (wp_bounds w) (wp_toks w) with
    | Some pre =>
        match last_is_colon pre with
        | Some head =>
            match is_prefix (wp_binder w) head with
            | Some ty =>
                bounded_ok (wp_bounded w) ty &&
                (match wp_binder w with
                 | [] => match ty with TId "for" :: _ => false | _ => true end
                 | TId "for" :: _ => true
                 | _ => false
                 end)
            | None => false
            end
        | None => false
        end
    | None => false
    end
  else
    match wp_toks w, wp_bounds w, wp_binder w with
    | TP c :: _, [], [] => Ascii.eqb c "'"%char
    | _, _, _ => false
    end.

(** [gp_rest] of a type / lifetime parameter is [: bounds [+]] followed by nothing or by [= default] *)
Definition gparam_ok (g : gparam) : bool :=
  match gp_kind g with
  | GConst => match gp_bounds g with [] => true | _ => false end
  | _ =>
      match gp_bounds g with
      | [] => match gp_rest g with
              | [] => true
              | [t] => is_p ":" t
              | t :: u :: _ => is_p "=" t || (is_p ":" t && is_p "=" u)
              end
      | bs =>
          match gp_rest g with
          | t :: rest =>
              is_p ":" t &&
              (match is_prefix (join [plus] bs) rest with
               | Some [] => true
               | Some [u] => is_p "+" u
               | Some (u :: v :: _) => is_p "=" u || (is_p "+" u && is_p "=" v)
               | None => false
               end)
          | [] => false
          end
      end
  end.

Definition generics_ok (g : generics) : bool :=
  forallb gparam_ok (p_items (g_params g)) &&
  match g_where g with
  | Some ws => forallb wpred_ok (p_items ws)
  | None => true
  end.

Fixpoint fty_ok (t : fty) : bool :=
  match t with
  | TyRef _ _ e => fty_ok e
  | TyParen e => fty_ok e
  | TyImpl _ _ => true                      (* printed from its bounds: covered by the round trip *)
  | TyPath q l n first ts => path_class_ok q l n first ts
  | TyOther ts => other_class_ok ts
  end.

Definition fnarg_ok (a : fnarg) : bool :=
  match a with
  | ArgRecv _ _ _ _ => true
  | ArgTyped _ _ t => fty_ok t
  end.

Definition sig_ok (s : sig) : bool :=
  generics_ok (s_gen s) && forallb fnarg_ok (p_items (s_inputs s)).

Definition titem_ok (t : titem) : bool :=
  match t with
  | TFn _ s _ _ => sig_ok s
  | _ => true
  end.

Definition input_fields_ok (i : input) : bool :=
  match i with
  | InFn _ s _ => sig_ok s
  | InTrait _ t => generics_ok (t_gen t) && forallb titem_ok (t_items t)
  | InImpl _ _ _ _ sigs _ => forallb (fun sa => sig_ok (sa_sig sa)) sigs
  | InMod _ _ _ sigs _ => forallb (fun sa => sig_ok (sa_sig sa)) sigs
  | _ => true
  end.
