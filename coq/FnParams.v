(** * FnParams: signature/fn_params.rs — the three-stage parameter renaming *)
From Coq Require Import List String Ascii Bool Arith.
From Entrait Require Import Tok Syn Opts.
Import ListNotations.
Local Open Scope string_scope.
Local Open Scope list_scope.

Definition is_pident (a : fnarg) : bool :=
  match a with
  | ArgRecv _ _ _ _ => true
  | ArgTyped _ (PIdent _ _ _ _) _ => true
  | ArgTyped _ (PNon _ _) _ => false
  end.

Definition all_ok (l : list fnarg) : bool := forallb is_pident l.

(** ** Stage 1: [simplify_pat_idents] — binding modes and sub-patterns are dropped *)
Definition simplify (a : fnarg) : fnarg :=
  match a with
  | ArgTyped attrs (PIdent _ _ n _) ty => ArgTyped attrs (PIdent false false n []) ty
  | _ => a
  end.

Fixpoint map_res {A B} (f : A -> result B) (l : list A) : result (list B) :=
  match l with
  | [] => Ok []
  | x :: xs => let* y := f x in let* ys := map_res f xs in Ok (y :: ys)
  end.

(** ** Stage 2: [lift_inner_pat_idents] — exactly one lower-case-initial binding inside the pattern *)
Definition lower_initial (s : string) : bool :=
  match first_char s with Some c => is_lower c | None => false end.

Definition lift (a : fnarg) : fnarg :=
  match a with
  | ArgTyped attrs (PNon ts binds) ty =>
      match filter lower_initial binds with
      | [b] => ArgTyped attrs (PIdent false false b []) ty
      | _ => a
      end
  | _ => a
  end.

(** ** Stage 3: [autogenerate_for_non_idents] *)
Definition plain_names (l : list fnarg) : list string :=
  flat_map (fun a => match a with ArgTyped _ (PIdent _ _ n _) _ => [n] | _ => [] end) l.

Fixpoint nat_to_string_aux (fuel n : nat) (acc : string) : string :=
  match fuel with
  | O => acc
  | S k =>
      let d := String (ascii_of_nat (48 + n mod 10)) acc in
      match n / 10 with
      | O => d
      | q => nat_to_string_aux k q d
      end
  end.
Definition nat_to_string (n : nat) : string := nat_to_string_aux (S n) n EmptyString.

Fixpoint underscores (k : nat) : string :=
  match k with O => EmptyString | S j => String "_"%char (underscores j) end.

Definition candidate (index attempts : nat) : string := underscores attempts +++ "arg" +++ nat_to_string index.

(** [generate_ident index attempts taken]: the recursion of the Rust code tries attempts, attempts+1, ...
    It terminates because [taken] is finite; here on explicit fuel (|taken| + 1 suffices: FnParamsProofs). *)
Fixpoint generate_ident (fuel index attempts : nat) (taken : list string) : option string :=
  match fuel with
  | O => None
  | S k =>
      let c := candidate index attempts in
      if str_mem c taken then generate_ident k index (S attempts) taken else Some c
  end.

(** walk over the arguments; [index] counts typed parameters only *)
Fixpoint autogen (l : list fnarg) (index : nat) (taken : list string) : result (list fnarg) :=
  match l with
  | [] => Ok []
  | ArgRecv a r m c :: rest =>
      let* rest' := autogen rest index taken in Ok (ArgRecv a r m c :: rest')
  | ArgTyped attrs (PIdent r m n sub) ty :: rest =>
      let* rest' := autogen rest (S index) taken in Ok (ArgTyped attrs (PIdent r m n sub) ty :: rest')
  | ArgTyped attrs (PNon _ _) ty :: rest =>
      match generate_ident (S (List.length taken)) index 0 taken with
      | None => OutOfDomain "generate_ident fuel"
      | Some name =>
          let* rest' := autogen rest (S index) (name :: taken) in
          Ok (ArgTyped attrs (PIdent false false name []) ty :: rest')
      end
  end.

(** ** Final pass: [make_idents_unique] *)
Definition is_raw (s : string) : bool := starts_with "r#" s.

(** [IdentExt::unraw]: [r#type] and [type] are the same identifier *)
Definition unraw (s : string) : string := if is_raw s then drop_str 2 s else s.

(** [format_ident!("{}_", ident)]: a raw identifier loses its [r#] *)
Definition suffix (s : string) : string := unraw s +++ "_".

(** [while taken.contains(unraw(ident)) { ident = suffix ident }], on explicit fuel
    (|taken| + 1 rounds suffice: FnParamsProofs.uniq_name_total); the set holds un-raw'd names *)
Fixpoint uniq_name (fuel : nat) (name : string) (taken : list string) : option string :=
  if str_mem (unraw name) taken then
    match fuel with
    | O => None
    | S k => uniq_name k (suffix name) taken
    end
  else Some name.

Fixpoint make_unique (l : list fnarg) (taken : list string) : result (list fnarg) :=
  match l with
  | [] => Ok []
  | ArgTyped attrs (PIdent r m n sub) ty :: rest =>
      match uniq_name (S (List.length taken)) n taken with
      | None => OutOfDomain "make_idents_unique fuel"
      | Some n' =>
          let* rest' := make_unique rest (unraw n' :: taken) in
          Ok (ArgTyped attrs (PIdent r m n' sub) ty :: rest')
      end
  | a :: rest => let* rest' := make_unique rest taken in Ok (a :: rest')
  end.

(** ** [fix_fn_param_idents] *)
Definition fix_fn_param_idents (fn_name : string) (l : list fnarg) : result (list fnarg) :=
  let l1 := map simplify l in
  let* l3 :=
    if all_ok l1 then Ok l1
    else
      let l2 := map lift l1 in
      if all_ok l2 then Ok l2 else autogen l2 0 (unraw fn_name :: map unraw (plain_names l2)) in
  make_unique l3 [unraw fn_name].
