(** * Proj3: C03 C04 C05 C06 C07 C09 C14 C19 predicates (see Proj.v) *)
From Coq Require Import List String Ascii Bool Arith.
From Entrait Require Import Tok Syn Opts Split FnParams Convert Codegen Proj Proj2.
Import ListNotations.
Local Open Scope string_scope.
Local Open Scope list_scope.

(** ** C04: dependency bounds bubble up exactly *)
Definition declared_bounds (no_deps : bool) (s : sig) : list toks :=
  match deps_kind no_deps s with
  | DGeneric None b => b
  | DGeneric (Some name) _ =>
      flat_map (fun p => match gp_kind p with
                         | GType => if String.eqb (gp_name p) name then trait_bounds (life_names (s_gen s)) (gp_bounds p) else []
                         | _ => []
                         end) (p_items (g_params (s_gen s))) ++
      flat_map (fun w => if wp_is_type w then
                           match wp_bounded w with
                           | BPath false false 1 first => if String.eqb first name then pred_bounds (life_names (s_gen s)) w else []
                           | _ => []
                           end
                         else []) (where_items (s_gen s))
  | _ => []
  end.

Definition deps_by_value (no_deps : bool) (s : sig) : bool :=
  if no_deps then false
  else match p_items (s_inputs s) with
       | ArgTyped _ _ (TyRef _ _ _) :: _ => false
       | ArgTyped _ _ _ :: _ => true
       | _ => false
       end.

Definition mock_enabled (o : opts) : bool :=
  (unimock_value o && is_some (o_mock_api o)) || mockall_value o.

Definition expected_impl_t (by_value : bool) : toks :=
  [TId "EntraitT"; pc ":"] ++ core_marker "Sync" ++ (if by_value then [pc "+"] ++ core_marker "Send" else []) ++ [pc "+"; pc "'"; TId "static"].

Definition first_param_toks (g : generics) : toks :=
  match p_items (g_params g) with p :: _ => print_gparam p | [] => [] end.
(** the first generic parameter that is not a lifetime (the impl of an entraited trait declares the trait's
    lifetimes before the application's type parameter) *)
Definition app_param_toks (g : generics) : toks :=
  match filter (fun p => negb (is_life p)) (p_items (g_params g)) with p :: _ => print_gparam p | [] => [] end.
Definition first_where_toks (g : generics) : toks :=
  match g_where g with Some p => match p_items p with w :: _ => wp_toks w | [] => [] end | None => [] end.

Definition is_concrete (d : fn_deps) : bool := match d with DConcrete _ => true | _ => false end.

Definition view_C04 (c : ctx) (items : list item) : view :=
  match x_input c, source_fns (x_input c), parts (x_input c) items with
  | (InFn _ _ _ | InMod _ _ _ _ _), Some src, Some (GFn _ _ im | GMod _ _ _ _ _ im _ _) =>
      match fn_opts c with
      | Some o =>
          let nd := no_deps_value o in
          let sigs := map (fun '(_, _, s, _) => s) src in
          if existsb (fun s => is_concrete (deps_kind nd s)) sigs then na
          else
            let bounds := flat_map (declared_bounds nd) sigs in
            let lhs := [TId "Self"; pc ":"] in
            decided (toks_eqb (first_param_toks (i_gen im)) (expected_impl_t (existsb (deps_by_value nd) sigs)) &&
                     toks_eqb (i_self im) (if mock_enabled o then impl_path_toks else [TId "EntraitT"]) &&
                     match bounds with
                     | [] => negb (is_prefix lhs (first_where_toks (i_gen im)))
                     | _ => toks_eqb (first_where_toks (i_gen im)) (lhs ++ join [pc "+"] bounds)
                     end)
                    [first_param_toks (i_gen im); i_self im; first_where_toks (i_gen im)]
      | None => na
      end
  | (InFn _ _ _ | InMod _ _ _ _ _), Some _, None => undetermined
  | _, _, _ => na
  end.

(** ** C05: concrete dependencies *)
Fixpoint strip_refs (t : fty) : fty :=
  match t with
  | TyRef _ _ e | TyParen e => strip_refs e
  | _ => t
  end.

Definition view_C05 (c : ctx) (items : list item) : view :=
  match x_input c, parts (x_input c) items with
  | InFn _ s _, Some (GFn _ tr im) =>
      match fn_opts c with
      | Some o =>
          match deps_kind (no_deps_value o) s with
          | DConcrete _ =>
              let ty := match p_items (s_inputs s) with ArgTyped _ _ t :: _ => strip_refs t | _ => TyOther [] end in
              decided (Nat.eqb (List.length (filter (toks_eqb entrait_for_trait_attr) (t_attrs tr))) 1 &&
                       toks_eqb (i_self im) (print_fty ty) &&
                       negb (is_prefix [TId "EntraitT"] (first_param_toks (i_gen im))) &&
                       toks_eqb (match i_trait im with Some t => firstn 1 t | None => [] end) [TId (t_name tr)])
                      [i_self im; first_param_toks (i_gen im)]
          | _ => decided (negb (existsb (toks_eqb entrait_for_trait_attr) (t_attrs tr))) []
          end
      | None => na
      end
  | InFn _ _ _, None => undetermined
  | _, _ => na
  end.

(** ** C06 / C07 (trait side): Impl<T> forwards *)
Definition trait_args (g : generics) : toks := print_arguments false (p_items (g_params g)).

Definition c06_bound (a : trait_attr) (contains_async : bool) (name : string) (g : generics) : toks :=
  let twa := [TId name] ++ trait_args g in
  [TId "EntraitT"; pc ":"] ++
  match ta_impl_trait a, ta_delegate a with
  | None, Some (ByRef RAsRef) =>
      abs_path ["core"; "convert"; "AsRef"] ++ [pc "<"; TId "dyn"] ++ twa ++ [pc ">"] ++
      (if contains_async then ([pc "+"] ++ core_marker "Send" ++ [pc "+"] ++ core_marker "Sync") else []) ++ [pc "+"; pc "'"; TId "static"]
  | None, Some (ByRef RBorrow) =>
      abs_path ["core"; "borrow"; "Borrow"] ++ [pc "<"; TId "dyn"] ++ twa ++ [pc ">"] ++
      (if contains_async then ([pc "+"] ++ core_marker "Send" ++ [pc "+"] ++ core_marker "Sync") else []) ++ [pc "+"; pc "'"; TId "static"]
  | Some it, Some (ByTrait del) =>
      [TId del; pc "<"; TId "EntraitT"; pc ">"; pc "+"] ++ core_marker "Sync" ++ [pc "+"; pc "'"; TId "static"]
  | Some it, Some (ByRef r) =>
      abs_path (match r with RAsRef => ["core"; "convert"; "AsRef"] | RBorrow => ["core"; "borrow"; "Borrow"] end) ++
      [pc "<"; TId "dyn"; TId it; pc "<"; TId "EntraitT"; pc ">"] ++
      (if contains_async then [pc "+"] ++ core_marker "Sync" else []) ++ [pc ">"] ++
      (if contains_async then ([pc "+"] ++ core_marker "Send" ++ [pc "+"] ++ core_marker "Sync") else []) ++ [pc "+"; pc "'"; TId "static"]
  | _, _ => twa ++ [pc "+"] ++ core_marker "Sync" ++ (if contains_async then [pc "+"; pc "'"; TId "static"] else [])
  end.

Definition c06_call (a : trait_attr) (contains_async : bool) (s : sig) : toks :=
  let args := join [comma] (map (fun n => [TId n]) (typed_names s)) in
  let m := s_name s in
  let dynarg it := [pc "<"; TId "dyn"; TId it; pc "<"; TId "EntraitT"; pc ">"] ++
                   (if contains_async then [pc "+"] ++ core_marker "Sync" else []) ++ [pc ">"; pc ">"] in
  match ta_impl_trait a, ta_delegate a with
  | None, Some (ByRef RAsRef) =>
      [TId "self"; pc "."; TId "as_ref"; TG Paren []; pc "."; TId "as_ref"; TG Paren []; pc "."; TId m; TG Paren args]
  | None, Some (ByRef RBorrow) =>
      [TId "self"; pc "."; TId "as_ref"; TG Paren []; pc "."; TId "borrow"; TG Paren []; pc "."; TId m; TG Paren args]
  | Some it, Some (ByTrait _) =>
      [pc "<"; TId "EntraitT"] ++ path_sep ++ [TId "Target"; TId "as"; TId it; pc "<"; TId "EntraitT"; pc ">"; pc ">"] ++
      path_sep ++ [TId m; TG Paren ([TId "self"; comma] ++ args)]
  | Some it, Some (ByRef RAsRef) =>
      [pc "<"; TId "EntraitT"; TId "as"] ++ abs_path ["core"; "convert"; "AsRef"] ++ dynarg it ++ path_sep ++
      [TId "as_ref"; TG Paren [pc "&"; pc "*"; TId "self"]; pc "."; TId m; TG Paren ([TId "self"; comma] ++ args)]
  | Some it, Some (ByRef RBorrow) =>
      [pc "<"; TId "EntraitT"; TId "as"] ++ abs_path ["core"; "borrow"; "Borrow"] ++ dynarg it ++ path_sep ++
      [TId "borrow"; TG Paren [pc "&"; pc "*"; TId "self"]; pc "."; TId m; TG Paren ([TId "self"; comma] ++ args)]
  | _, _ => [TId "self"; pc "."; TId (if plain_self_by_value s then "into_inner" else "as_ref"); TG Paren []; pc "."; TId m; TG Paren args]
  end.

Fixpoint c06_methods (a : trait_attr) (contains_async : bool) (src : list (list attr * sig))
         (ms : list (list attr * sig * toks)) : bool :=
  match src, ms with
  | [], [] => true
  | (_, s) :: src', (_, s', b) :: ms' =>
      toks_eqb (print_sig s') (print_sig s) && forallb is_pident (p_items (s_inputs s)) &&
      toks_eqb b [TG Brace (c06_call a contains_async s ++ (if s_async s then [pc "."; TId "await"] else []))] &&
      c06_methods a contains_async src' ms'
  | _, _ => false
  end.

Definition view_C06_gen (want_target : bool) (c : ctx) (items : list item) : view :=
  match x_input c, parts (x_input c) items with
  | InTrait _ t, Some (GTrait tr ds im) =>
      match trait_attr_of c with
      | Some a =>
          if Bool.eqb (is_some (ta_impl_trait a)) want_target then
            let ca := has_async (map snd (trait_sigs t)) in
            decided (toks_eqb (i_self im) impl_path_toks &&
                     toks_eqb (app_param_toks (i_gen im)) (expected_impl_t false) &&
                     (* the whole parameter list of the impl: the trait's lifetimes, the application, the trait's other
                        parameters without their defaults *)
                     toks_list_eqb (map print_gparam (p_items (g_params (i_gen im))))
                                   (map print_gparam (trait_impl_params (p_items (g_params (t_gen t))))) &&
                     toks_eqb (first_where_toks (i_gen im)) (c06_bound a ca (t_name t) (t_gen t)) &&
                     (* ... followed by the trait's own where predicates *)
                     toks_list_eqb (map wp_toks (tl (where_items (i_gen im)))) (map wp_toks (where_items (t_gen t))) &&
                     toks_eqb (match i_trait im with Some x => x | None => [] end) ([TId (t_name t)] ++ trait_args (t_gen t)) &&
                     only_impl_fns im && c06_methods a ca (trait_sigs t) (impl_fns im))
                    ([first_where_toks (i_gen im)] ++ map print_gparam (p_items (g_params (i_gen im))) ++ map wp_toks (tl (where_items (i_gen im))) ++
                     map (fun '(_, _, b) => b) (impl_fns im))
          else na
      | None => na
      end
  | InTrait _ _, None => undetermined
  | _, _ => na
  end.

Definition view_C06 := view_C06_gen false.

(** C07 = the trait side with a delegation target (the target trait's shape included) plus the impl-block side *)
Definition c07_target_sig (dynamic : bool) (s : sig) : toks :=
  match p_items (s_inputs s) with
  | ArgRecv _ r _ _ :: rest =>
      let args := if dynamic then
                    p_insert 1 (impl_receiver_lt (ref_lifetime r)) (s_inputs s)
                  else mkP ((match r with
                             | Some l => ArgTyped [] (PIdent false false "__impl" []) (TyRef l false impl_path_fty)
                             | None => ArgTyped [] (PIdent false false "__impl" []) impl_path_fty
                             end) :: rest) (p_trail (s_inputs s)) in
      print_sig (mkSig (s_const s) (s_async s) (s_unsafe s) (s_abi s) (s_name s) (s_gen s) args (s_variadic s) (s_output s))
  | _ => print_sig s
  end.

(** the signature a method has in the delegation-target trait: receiver rewritten / [__impl] inserted,
    then the async rewrite of every generated trait *)
Definition c07_target_sig_full (dynamic async_trait send : bool) (s : sig) : toks :=
  if s_async s && negb async_trait then
    match p_items (s_inputs s) with
    | ArgRecv _ r _ _ :: rest =>
        let args := if dynamic then p_insert 1 (impl_receiver_lt (ref_lifetime r)) (s_inputs s)
                    else mkP ((match r with
                               | Some l => ArgTyped [] (PIdent false false "__impl" []) (TyRef l false impl_path_fty)
                               | None => ArgTyped [] (PIdent false false "__impl" []) impl_path_fty
                               end) :: rest) (p_trail (s_inputs s)) in
        print_sig (mkSig (s_const s) false (s_unsafe s) (s_abi s) (s_name s) (s_gen s) args (s_variadic s)
                         (Some (future_wrapper send (s_output s))))
    | _ => print_sig (mkSig (s_const s) false (s_unsafe s) (s_abi s) (s_name s) (s_gen s) (s_inputs s) (s_variadic s)
                            (Some (future_wrapper send (s_output s))))
    end
  else c07_target_sig dynamic s.

Definition view_C07 (c : ctx) (items : list item) : view :=
  match x_input c, source_fns (x_input c), parts (x_input c) items with
  | InTrait h t, _, Some (GTrait tr ds im) =>
      match trait_attr_of c with
      | Some a =>
          match ta_impl_trait a, ds with
          | Some it, d :: rest =>
              let base := view_C06_gen true c items in
              let dynamic := match ta_delegate a with Some (ByRef _) => true | _ => false end in
              let names_ok := String.eqb (t_name d) it in
              let first_ok := toks_eqb (first_param_toks (t_gen d)) [TId "EntraitT"] in
              let supers_ok := t_colon d && toks_eqb (print_punct (fun b => b) (pc "+") (t_supers d)) [pc "'"; TId "static"] in
              let sigs_ok :=
                str_list_eqb (map (fun '(_, s) => s_name s) (trait_sigs d)) (map (fun '(_, s) => s_name s) (trait_sigs t)) &&
                toks_list_eqb (map (fun '(_, s) => print_sig s) (trait_sigs d))
                              (map (fun '(_, s) => c07_target_sig_full dynamic (contains_async_trait (h_attrs h))
                                                                       (future_send (ta_opts a)) s) (trait_sigs t)) in
              let selector_ok :=
                match ta_delegate a, rest with
                | Some (ByTrait del), [sel] =>
                    String.eqb (t_name sel) del &&
                    toks_eqb (flat_map print_titem (t_items sel))
                             [TId "type"; TId "Target"; pc ":"; TId it; pc "<"; TId "T"; pc ">"; pc ";"]
                | Some (ByRef _), [] => true
                | _, _ => false
                end in
              mkView true (v_det base) (v_holds base && names_ok && first_ok && supers_ok && sigs_ok && selector_ok)
                     (v_alpha base ++ [print_trait d])
          | Some _, [] => decided false []
          | None, _ => na
          end
      | None => na
      end
  | InImpl _ tp st _ _ _, Some src, Some (GImpl inh im) =>
      decided (only_impl_fns im &&
               bodies_ok true false (src_names_async src) (impl_fns im) &&
               toks_eqb (i_self im) st && toks_eqb (i_self inh) st &&
               is_prefix (tp ++ [pc "<"; TId "EntraitT"]) (match i_trait im with Some x => x | None => [] end))
              (map (fun '(_, s, b) => b ++ ids (typed_names s)) (impl_fns im))
  | (InTrait _ _ | InImpl _ _ _ _ _ _), _, None => undetermined
  | _, _, _ => na
  end.

(** ** C09: the entraited trait is preserved *)
Definition c09_method (send async_trait : bool) (src out : titem) : bool :=
  match src, out with
  | TFn a s d _, TFn a' s' d' _ =>
      toks_list_eqb a a' && opt_toks_eqb d d' &&
      (if s_async s && negb async_trait then
         toks_eqb (print_sig s')
                  (print_sig (mkSig (s_const s) false (s_unsafe s) (s_abi s) (s_name s) (s_gen s) (s_inputs s) (s_variadic s)
                                    (Some (future_wrapper send (s_output s)))))
       else toks_eqb (print_sig s') (print_sig s))
  | TType x, TType y => toks_eqb x y
  | _, _ => false
  end.

Fixpoint c09_items (send async_trait : bool) (src out : list titem) : bool :=
  match src, out with
  | [], [] => true
  | s :: src', o :: out' => c09_method send async_trait s o && c09_items send async_trait src' out'
  | _, _ => false
  end.

Definition view_C09 (c : ctx) (items : list item) : view :=
  match x_input c, parts (x_input c) items with
  | InTrait h t, Some (GTrait tr _ _) =>
      match trait_attr_of c with
      | Some a =>
          decided (String.eqb (t_name tr) (t_name t) && toks_eqb (t_vis tr) (h_vis h) &&
                   Bool.eqb (t_unsafe tr) (h_unsafe h) && Bool.eqb (t_auto tr) (h_auto h) &&
                   (* generics, supertraits, where clause: the same lists (a trailing separator is not part of them) *)
                   toks_list_eqb (map print_gparam (p_items (g_params (t_gen tr)))) (map print_gparam (p_items (g_params (t_gen t)))) &&
                   toks_list_eqb (p_items (t_supers tr)) (p_items (t_supers t)) &&
                   toks_list_eqb (map wp_toks (where_items (t_gen tr))) (map wp_toks (where_items (t_gen t))) &&
                   (* the trait's own attributes, as written, after the mock derivations the macro owns *)
                   (let k := List.length (t_attrs tr) - List.length (h_attrs h) in
                    toks_list_eqb (skipn k (t_attrs tr)) (h_attrs h) && forallb is_mock_attr (firstn k (t_attrs tr))) &&
                   c09_items (future_send (ta_opts a)) (contains_async_trait (h_attrs h)) (t_items t) (t_items tr))
                  [print_trait (mkTrait (skipn (List.length (t_attrs tr) - List.length (h_attrs h)) (t_attrs tr)) (t_vis tr) (t_unsafe tr)
                                        (t_auto tr) (t_name tr) (t_gen tr) (t_colon tr) (t_supers tr) (t_items tr))]
      | None => na
      end
  | InTrait _ _, None => undetermined
  | _, _ => na
  end.

(** ** C14: no trait objects / boxing in what the macro adds, unless dynamic dispatch was requested *)
Fixpoint mentions_tt (names : list string) (t : tt) : bool :=
  match t with
  | TId s => str_mem s names
  | TG _ inner => (fix go (l : list tt) : bool :=
                     match l with [] => false | x :: r => mentions_tt names x || go r end) inner
  | _ => false
  end.
Definition mentions (names : list string) (ts : toks) : bool := existsb (mentions_tt names) ts.

Definition generated_regions (p : gen_parts) : list toks :=
  match p with
  | GFn _ tr im | GMod _ _ _ _ tr im _ _ =>
      [first_param_toks (i_gen im); i_self im] ++ map (fun '(_, _, b) => b) (impl_fns im) ++ t_attrs tr
  | GTrait tr ds im =>
      [app_param_toks (i_gen im); i_self im; first_where_toks (i_gen im)] ++ map (fun '(_, _, b) => b) (impl_fns im) ++
      filter is_mock_attr (t_attrs tr)
  | GImpl _ im =>
      [first_param_toks (i_gen im)] ++ map (fun '(_, _, b) => b) (impl_fns im)
  end.

(** return types the macro rewrote: the wrapper around the user's type *)
Definition rewritten_outputs (src out : list sig) : list toks :=
  flat_map (fun '(s, o) => if opt_toks_eqb (s_output s) (s_output o) then []
                           else match s_output o, s_output s with
                                | Some w, Some r =>
                                    (* drop the user's own return type from the wrapper before scanning *)
                                    [firstn (List.length w - List.length r - 1 - (if is_prefix (rev (abs_path ["core"; "marker"; "Send"])) (rev w) then 10 else 0)) w]
                                | Some w, None => [w]
                                | None, _ => []
                                end) (combine src out).

Definition dynamic_requested (c : ctx) : bool :=
  match x_input c with
  | InFn h _ _ | InMod h _ _ _ _ => contains_async_trait (h_attrs h)
  | InTrait h _ =>
      contains_async_trait (h_attrs h) ||
      match trait_attr_of c with Some a => match ta_delegate a with Some (ByRef _) => true | _ => false end | None => false end
  | InImpl h _ _ _ _ _ =>
      contains_async_trait (h_attrs h) ||
      match impl_attr_of c with Some a => match ia_kind a with KDynRef => true | KStatic => false end | None => false end
  | _ => false
  end.

Definition view_C14 (c : ctx) (items : list item) : view :=
  match parts (x_input c) items with
  | Some p =>
      if dynamic_requested c then na
      else
        let src := match x_input c, source_fns (x_input c) with
                   | InTrait _ t, _ => map snd (trait_sigs t)
                   | _, Some l => map (fun '(_, _, s, _) => s) l
                   | _, None => []
                   end in
        let outs := match p with
                    | GFn _ tr _ | GMod _ _ _ _ tr _ _ _ | GTrait tr _ _ => map snd (trait_sigs tr)
                    | GImpl _ _ => []
                    end in
        let regions := generated_regions p ++ rewritten_outputs src outs in
        decided (negb (existsb (mentions ["dyn"; "Box"]) regions)) regions
  | None => match x_input c with
            | InFn _ _ _ | InMod _ _ _ _ _ | InTrait _ _ | InImpl _ _ _ _ _ _ => undetermined
            | _ => na
            end
  end.

(** ** C19: every reference the macro makes on its own goes through an absolute path *)
Fixpoint split_plus (ts : toks) (cur : toks) (depth : nat) : list toks :=
  match ts with
  | [] => [rev cur]
  | TP "+"%char :: rest => if Nat.eqb depth 0 then rev cur :: split_plus rest [] 0 else split_plus rest (pc "+" :: cur) depth
  | TP "<"%char :: rest => split_plus rest (pc "<" :: cur) (S depth)
  | TP ">"%char :: rest => split_plus rest (pc ">" :: cur) (Nat.pred depth)
  | t :: rest => split_plus rest (t :: cur) depth
  end.

Definition bound_ok (user_names : list string) (b : toks) : bool :=
  match b with
  | TP "'"%char :: _ => true
  | TP ":"%char :: TP ":"%char :: _ => true
  | TId s :: _ => str_mem s user_names
  | [] => true
  | _ => false
  end.

Definition after_colon (ts : toks) : toks :=
  (fix go (l : toks) : toks := match l with [] => [] | TP ":"%char :: r => r | _ :: r => go r end) ts.

(** bounds nested one level inside [dyn ... + X] of the first bound are checked too *)
Definition inner_dyn_bounds (b : toks) : list toks :=
  (fix go (l : toks) : list toks :=
     match l with
     | [] => []
     | TId "dyn" :: rest =>
         let inner := (fix cut (l : toks) (depth : nat) : toks :=
                         match l with
                         | [] => []
                         | TP "<"%char :: r => pc "<" :: cut r (S depth)
                         | TP ">"%char :: r => match depth with O => [] | S d => pc ">" :: cut r d end
                         | t :: r => t :: cut r depth
                         end) rest 0 in
         tl (split_plus inner [] 0)
     | _ :: rest => go rest
     end) b.

Definition c19_bounds_ok (user_names : list string) (pred : toks) : bool :=
  let bs := split_plus (after_colon pred) [] 0 in
  forallb (bound_ok user_names) bs && forallb (bound_ok user_names) (flat_map inner_dyn_bounds bs).

(** the macro's fixed thread-safety requirement is there, and it is [::core::marker::Sync] — whatever [Sync] means in the
    invoking scope and whatever the user's own bounds are called *)
Definition c19_fixed_bounds (p : toks) : bool :=
  let bs := split_plus (after_colon p) [] 0 in
  existsb (toks_eqb (core_marker "Sync")) bs && existsb (toks_eqb [pc "'"; TId "static"]) bs.

Definition view_C19 (c : ctx) (items : list item) : view :=
  match x_input c, parts (x_input c) items with
  | InImpl _ tp _ _ _ _, Some (GImpl _ im) =>
      let p := first_param_toks (i_gen im) in
      if is_prefix [TId "EntraitT"] p then
        (* ... and the implemented trait is named by the very path the user wrote (an absolute path stays absolute) *)
        decided (c19_bounds_ok [] p && c19_fixed_bounds p &&
                 is_prefix tp (match i_trait im with Some x => x | None => [] end)) [p; tp]
      else na
  | (InFn _ _ _ | InMod _ _ _ _ _), Some (GFn _ _ im | GMod _ _ _ _ _ im _ _) =>
      let p := first_param_toks (i_gen im) in
      if is_prefix [TId "EntraitT"] p then
        decided (c19_bounds_ok [] p && c19_fixed_bounds p) [p]
      else na
  | InTrait _ t, Some (GTrait tr ds im) =>
      match trait_attr_of c with
      | Some a =>
          let users := [t_name t] ++ (match ta_impl_trait a with Some n => [n] | None => [] end) ++
                       (match ta_delegate a with Some (ByTrait d) => [d] | _ => [] end) in
          let p := app_param_toks (i_gen im) in
          let w := first_where_toks (i_gen im) in
          decided (c19_bounds_ok [] p && c19_fixed_bounds p && c19_bounds_ok users w) [p; w]
      | None => na
      end
  | (InFn _ _ _ | InMod _ _ _ _ _ | InImpl _ _ _ _ _ _ | InTrait _ _), None => undetermined
  | _, _ => na
  end.

(** ** C03: the emitted method is the source function seen as (receiver, arguments...) *)
Definition arg_types (l : list fnarg) : list toks :=
  flat_map (fun a => match a with ArgTyped _ _ t => [print_fty t] | _ => [] end) l.

Definition expected_receiver (no_deps : bool) (s : sig) : option fnarg :=
  if no_deps then Some (ArgRecv [] (Some None) false None)
  else match p_items (s_inputs s) with
       | ArgTyped _ _ (TyRef l _ _) :: _ => Some (ArgRecv [] (Some l) false None)
       | ArgTyped _ _ _ :: _ => Some (ArgRecv [] None false None)
       | _ => None
       end.

Definition gparam_names (l : list gparam) : list string := map gp_name l.

Definition c03_one (no_deps : bool) (trait_params : list gparam) (src out : sig) : bool :=
  (* same parameter types, in order *)
  toks_list_eqb (arg_types (forwarded_src_args no_deps src)) (arg_types (typed_args out)) &&
  (* receiver in place of the dependency *)
  match expected_receiver no_deps src, p_items (s_inputs out) with
  | Some r, r' :: _ => toks_eqb (print_fnarg r) (print_fnarg r')
  | _, _ => false
  end &&
  (* qualifiers and name *)
  Bool.eqb (s_unsafe src) (s_unsafe out) && Bool.eqb (s_const src) (s_const out) &&
  opt_toks_eqb (s_abi src) (s_abi out) && String.eqb (s_name src) (s_name out) &&
  (* lifetime parameters stay on the method; nothing on the method is also on the trait (E0403) *)
  toks_list_eqb (map print_gparam (filter is_life (p_items (g_params (s_gen src)))))
                (map print_gparam (filter is_life (p_items (g_params (s_gen out))))) &&
  forallb (fun p => negb (str_mem (gp_name p) (gparam_names trait_params)) || is_life p) (p_items (g_params (s_gen out))) .

(** a where predicate that bounds the dependency generic itself: it becomes a bound of the impl *)
Definition is_deps_pred (no_deps : bool) (src : sig) (w : wpred) : bool :=
  match deps_kind no_deps src with
  | DGeneric (Some n) _ => wp_is_type w && bounded_is_ident (wp_bounded w) n
  | _ => false
  end.

Definition is_deps_param (no_deps : bool) (src : sig) (p : gparam) : bool :=
  match deps_kind no_deps src, gp_kind p with
  | DGeneric (Some n) _, GType => String.eqb (gp_name p) n
  | _, _ => false
  end.

(** every where predicate of the source is carried by the trait or by the method (or bounds the
    dependency); every type / const parameter other than the dependency is a parameter of the trait *)
Definition c03_carried (no_deps : bool) (trait_params : list gparam) (trait_where : list wpred) (src out : sig) : bool :=
  forallb (fun w => is_deps_pred no_deps src w ||
                    existsb (toks_eqb (wp_toks w)) (map wp_toks (trait_where ++ where_items (s_gen out))))
          (where_items (s_gen src)) &&
  forallb (fun p => is_life p || is_deps_param no_deps src p || str_mem (gp_name p) (gparam_names trait_params))
          (p_items (g_params (s_gen src))).

Fixpoint c03_carried_all (no_deps : bool) (trait_params : list gparam) (trait_where : list wpred) (src out : list sig) : bool :=
  match src, out with
  | [], [] => true
  | s :: src', o :: out' => c03_carried no_deps trait_params trait_where s o && c03_carried_all no_deps trait_params trait_where src' out'
  | _, _ => false
  end.

(** the source declares each of its type / const parameters once (rustc rejects anything else: E0403) *)
Definition src_generics_nodup (s : sig) : bool :=
  nodup_str (map gp_name (filter (fun p => negb (is_life p)) (p_items (g_params (s_gen s))))).

Fixpoint c03_all (no_deps : bool) (trait_params : list gparam) (src out : list sig) : bool :=
  match src, out with
  | [], [] => true
  | s :: src', o :: out' => c03_one no_deps trait_params s o && c03_all no_deps trait_params src' out'
  | _, _ => false
  end.

Definition view_C03 (c : ctx) (items : list item) : view :=
  match x_input c, source_fns (x_input c), parts (x_input c) items with
  | (InFn _ _ _ | InMod _ _ _ _ _), Some src, Some (GFn _ tr im | GMod _ _ _ _ tr im _ _) =>
      match fn_opts c with
      | Some o =>
          let sigs := map (fun '(_, _, s, _) => s) src in
          let tparams := p_items (g_params (t_gen tr)) in
          if negb (forallb src_generics_nodup sigs) then na
          else
          decided (c03_all (no_deps_value o) tparams sigs (map snd (trait_sigs tr)) &&
                   c03_all (no_deps_value o) tparams sigs (map (fun '(_, s, _) => s) (impl_fns im)) &&
                   c03_carried_all (no_deps_value o) tparams (where_items (t_gen tr)) sigs (map snd (trait_sigs tr)) &&
                   c03_carried_all (no_deps_value o) (p_items (g_params (i_gen im))) (where_items (i_gen im)) sigs
                                   (map (fun '(_, s, _) => s) (impl_fns im)) &&
                   (* no where predicate on the trait names a lifetime parameter of the function (they stay on the method) *)
                   (match x_input c with
                    | InFn _ s _ => forallb (fun w => negb (mentions_lifetime (life_names (s_gen s)) (wp_toks w))) (where_items (t_gen tr))
                    | _ => true
                    end) &&
                   nodup_str (gparam_names tparams))
                  (map (fun '(_, s) => print_sig s) (trait_sigs tr) ++ [print_generics_stored (t_gen tr); print_where (g_where (t_gen tr))])
      | None => na
      end
  | (InFn _ _ _ | InMod _ _ _ _ _), Some _, None => undetermined
  | _, _, _ => na
  end.
