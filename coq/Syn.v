(** * Syn: a syn-shaped AST with opaque token leaves, and its ToTokens printers

    One AST is used for what the macro receives and for what it emits. Leaves that the macro never
    looks into (types other than the first parameter's shape, bounds, bodies, defaults ...) are token
    lists exactly as syn prints them. Printers follow syn 2.0's [ToTokens] impls for the constructs
    involved (see DESIGN.md, Appendix A) and entrait's own [Punctuator]-based header printing. *)
From Coq Require Import List String Ascii Bool Arith.
From Entrait Require Import Tok.
Import ListNotations.
Local Open Scope list_scope.

(** ** Punctuated sequences: items plus "has trailing punctuation" *)
Record punct (A : Type) := mkP { p_items : list A; p_trail : bool }.
Arguments mkP {A}.
Arguments p_items {A}.
Arguments p_trail {A}.

Definition pempty {A} : punct A := mkP [] false.
Definition p_len {A} (p : punct A) := List.length (p_items p).

(** [Punctuated::push]: a separator is added between, the result has no trailing punctuation
    (pushing onto a trailing-punctuated sequence re-uses that punctuation). *)
Definition p_push {A} (p : punct A) (x : A) : punct A := mkP (p_items p ++ [x]) false.

(** [Punctuated::insert idx v]: at the end it is [push]; otherwise inserted with its own separator,
    trailing flag unchanged. *)
Fixpoint insert_at {A} (n : nat) (x : A) (l : list A) : list A :=
  match n, l with
  | O, _ => x :: l
  | S k, y :: ys => y :: insert_at k x ys
  | S _, [] => [x]
  end.
Definition p_insert {A} (n : nat) (x : A) (p : punct A) : punct A :=
  if Nat.leb (p_len p) n then p_push p x else mkP (insert_at n x (p_items p)) (p_trail p).

(** from an iterator of values ([FromIterator] / repeated [push]) *)
Definition p_of_list {A} (l : list A) : punct A := mkP l false.

Fixpoint print_plist {A} (f : A -> toks) (sep : tt) (trail : bool) (l : list A) : toks :=
  match l with
  | [] => []
  | [x] => f x ++ (if trail then [sep] else [])
  | x :: xs => f x ++ [sep] ++ print_plist f sep trail xs
  end.
Definition print_punct {A} (f : A -> toks) (sep : tt) (p : punct A) : toks :=
  print_plist f sep (p_trail p) (p_items p).

(** ** Attributes, visibility *)
Definition attr := toks.        (* the tokens inside [#[ ... ]] *)
Definition vis := toks.         (* [] = inherited *)

Definition print_attr (a : attr) : toks := [pc "#"; TG Bracket a].
Definition print_attrs (l : list attr) : toks := flat_map print_attr l.

(** ** Generics *)
Inductive gkind := GLife | GType | GConst.

Record gparam := mkGP {
  gp_kind : gkind;
  gp_attrs : list attr;
  gp_name : string;             (* lifetime name without the quote *)
  gp_rest : toks;               (* everything syn prints after the name: bounds, default, const type *)
  gp_bounds : list toks         (* the bounds of a type / lifetime parameter, one token list each *)
}.

Definition print_gparam (g : gparam) : toks :=
  print_attrs (gp_attrs g) ++
  (match gp_kind g with
   | GLife => [pc "'"; TId (gp_name g)]
   | GType => [TId (gp_name g)]
   | GConst => [TId "const"; TId (gp_name g)]
   end) ++ gp_rest g.

(** classification of the bounded type of a where predicate, as far as the macro looks *)
Inductive bounded :=
| BPath (qself leading : bool) (nsegs : nat) (first : string)
| BOther.

Record wpred := mkWP {
  wp_is_type : bool;            (* WherePredicate::Type, as opposed to ::Lifetime *)
  wp_bounded : bounded;
  wp_bounds : list toks;
  wp_toks : toks;               (* the whole predicate as syn prints it *)
  wp_binder : toks              (* the [for<'a, ..>] in front of a type predicate as syn prints it; [] when there is none *)
}.

Record generics := mkGen {
  g_lt : bool;                  (* `<` `>` tokens present *)
  g_params : punct gparam;
  g_where : option (punct wpred)
}.

Definition no_generics : generics := mkGen false pempty None.

Definition is_life (g : gparam) : bool := match gp_kind g with GLife => true | _ => false end.

(** pairs (value, has-punct) of a Punctuated *)
Fixpoint pairs_of {A} (trail : bool) (l : list A) : list (A * bool) :=
  match l with
  | [] => []
  | [x] => [(x, trail)]
  | x :: xs => (x, true) :: pairs_of trail xs
  end.

(** syn's [Generics::to_tokens]: lifetimes first, then types and consts; a comma is inserted when the
    previously printed pair had none. *)
Fixpoint gen_pass1 (l : list (gparam * bool)) (trailing_or_empty : bool) : toks * bool :=
  match l with
  | [] => ([], trailing_or_empty)
  | (g, pu) :: rest =>
      if is_life g then
        let '(ts, st) := gen_pass1 rest pu in
        (print_gparam g ++ (if pu then [comma] else []) ++ ts, st)
      else gen_pass1 rest trailing_or_empty
  end.

Fixpoint gen_pass2 (l : list (gparam * bool)) (trailing_or_empty : bool) : toks :=
  match l with
  | [] => []
  | (g, pu) :: rest =>
      if is_life g then gen_pass2 rest trailing_or_empty
      else (if trailing_or_empty then [] else [comma]) ++
           print_gparam g ++ (if pu then [comma] else []) ++ gen_pass2 rest true
  end.

Definition print_generics_syn (g : generics) : toks :=
  match p_items (g_params g) with
  | [] => []
  | _ =>
      let prs := pairs_of (p_trail (g_params g)) (p_items (g_params g)) in
      let '(t1, st) := gen_pass1 prs true in
      [pc "<"] ++ t1 ++ gen_pass2 prs st ++ [pc ">"]
  end.

(** stored order (entrait's [ParamsGenerator] and, for well-ordered input, syn) *)
Definition print_generics_stored (g : generics) : toks :=
  match p_items (g_params g) with
  | [] => []
  | _ => [pc "<"] ++ print_punct print_gparam comma (g_params g) ++ [pc ">"]
  end.

Definition print_wpred (w : wpred) : toks := wp_toks w.

(** syn's [WhereClause::to_tokens] *)
Definition print_where (w : option (punct wpred)) : toks :=
  match w with
  | None => []
  | Some p => match p_items p with
              | [] => []
              | _ => [TId "where"] ++ print_punct print_wpred comma p
              end
  end.

(** ** Patterns, first-parameter types, arguments *)
Inductive pat :=
| PIdent (by_ref mut_ : bool) (name : string) (sub : toks)     (* Pat::Ident; sub = [@ subpattern] *)
| PNon (ts : toks) (binds : list string).
   (* any other pattern; [binds] = identifiers of the Pat::Ident nodes syn's visitor reaches,
      in visit order, not descending below a Pat::Ident *)

Definition print_pat (p : pat) : toks :=
  match p with
  | PIdent r m n sub => (if r then [TId "ref"] else []) ++ (if m then [TId "mut"] else []) ++ [TId n] ++ sub
  | PNon ts _ => ts
  end.

Inductive fty :=
| TyRef (lifetime : option string) (mut_ : bool) (elem : fty)
| TyParen (elem : fty)
| TyImpl (trail : bool) (bounds : list toks)
| TyPath (qself leading : bool) (nsegs : nat) (first : string) (ts : toks)
| TyOther (ts : toks).

Definition print_lifetime_opt (l : option string) : toks :=
  match l with Some n => [pc "'"; TId n] | None => [] end.

Fixpoint print_fty (t : fty) : toks :=
  match t with
  | TyRef l m e => [pc "&"] ++ print_lifetime_opt l ++ (if m then [TId "mut"] else []) ++ print_fty e
  | TyParen e => [TG Paren (print_fty e)]
  | TyImpl trail bs => [TId "impl"] ++ print_plist (fun b => b) (pc "+") trail bs
  | TyPath _ _ _ _ ts => ts
  | TyOther ts => ts
  end.

Inductive fnarg :=
| ArgRecv (attrs : list attr) (reference : option (option string)) (mut_ : bool) (colon_ty : option toks)
| ArgTyped (attrs : list attr) (p : pat) (ty : fty).

Definition print_fnarg (a : fnarg) : toks :=
  match a with
  | ArgRecv attrs r m cty =>
      print_attrs attrs ++
      (match r with Some l => [pc "&"] ++ print_lifetime_opt l | None => [] end) ++
      (if m then [TId "mut"] else []) ++ [TId "self"] ++
      (match cty with Some t => [pc ":"] ++ t | None => [] end)
  | ArgTyped attrs p t => print_attrs attrs ++ print_pat p ++ [pc ":"] ++ print_fty t
  end.

(** ** Signatures *)
Record sig := mkSig {
  s_const : bool;
  s_async : bool;
  s_unsafe : bool;
  s_abi : option toks;          (* tokens after [extern] (nothing, or the ABI literal) *)
  s_name : string;
  s_gen : generics;
  s_inputs : punct fnarg;
  s_variadic : option toks;
  s_output : option toks        (* the type after [->] *)
}.

Definition kw (on : bool) (k : string) : toks := if on then [TId k] else [].

Definition print_output (o : option toks) : toks :=
  match o with Some t => [pc "-"; pc ">"] ++ t | None => [] end.

(** syn's [Signature::to_tokens] *)
Definition print_sig (s : sig) : toks :=
  kw (s_const s) "const" ++ kw (s_async s) "async" ++ kw (s_unsafe s) "unsafe" ++
  (match s_abi s with Some a => [TId "extern"] ++ a | None => [] end) ++
  [TId "fn"; TId (s_name s)] ++ print_generics_syn (s_gen s) ++
  [TG Paren (print_punct print_fnarg comma (s_inputs s) ++
             match s_variadic s with
             | Some v => (match p_items (s_inputs s) with
                          | [] => []
                          | _ => if p_trail (s_inputs s) then [] else [comma]
                          end) ++ v
             | None => []
             end)] ++
  print_output (s_output s) ++ print_where (g_where (s_gen s)).

(** ** Items *)
Inductive titem :=
| TFn (attrs : list attr) (s : sig) (default : option toks) (semi : bool)
| TType (ts : toks)
| TOther (ts : toks).

Definition print_titem (t : titem) : toks :=
  match t with
  | TFn attrs s d _ => print_attrs attrs ++ print_sig s ++ (match d with Some blk => blk | None => [pc ";"] end)
  | TType ts => ts
  | TOther ts => ts
  end.

Record item_trait := mkTrait {
  t_attrs : list attr;
  t_vis : vis;
  t_unsafe : bool;
  t_auto : bool;
  t_name : string;
  t_gen : generics;
  t_colon : bool;
  t_supers : punct toks;
  t_items : list titem
}.

Definition print_supers (colon : bool) (s : punct toks) : toks :=
  if colon then [pc ":"] ++ print_punct (fun b => b) (pc "+") s else [].

Definition print_trait (t : item_trait) : toks :=
  print_attrs (t_attrs t) ++ t_vis t ++ kw (t_unsafe t) "unsafe" ++ kw (t_auto t) "auto" ++
  [TId "trait"; TId (t_name t)] ++ print_generics_stored (t_gen t) ++
  print_supers (t_colon t) (t_supers t) ++ print_where (g_where (t_gen t)) ++
  [TG Brace (flat_map print_titem (t_items t))].

Inductive iitem :=
| IIFn (attrs : list attr) (v : vis) (s : sig) (body : toks)
| IIOther (ts : toks).

Definition print_iitem (i : iitem) : toks :=
  match i with
  | IIFn attrs v s body => print_attrs attrs ++ v ++ print_sig s ++ body
  | IIOther ts => ts
  end.

Record item_impl := mkImpl {
  i_attrs : list attr;
  i_unsafe : bool;
  i_gen : generics;
  i_trait : option toks;
  i_self : toks;
  i_items : list iitem
}.

Definition print_impl (i : item_impl) : toks :=
  print_attrs (i_attrs i) ++ kw (i_unsafe i) "unsafe" ++ [TId "impl"] ++
  print_generics_stored (i_gen i) ++
  (match i_trait i with Some t => t ++ [TId "for"] | None => [] end) ++
  i_self i ++ print_where (g_where (i_gen i)) ++
  [TG Brace (flat_map print_iitem (i_items i))].

Inductive item :=
| IFn (attrs : list attr) (v : vis) (s : sig) (body : toks)
| ITrait (t : item_trait)
| IImpl (i : item_impl)
| IMod (attrs : list attr) (v : vis) (name : string) (items : list item)
| IUse (attrs : list attr) (v : vis) (tree : toks)
| IOther (ts : toks).

Fixpoint print_item (i : item) : toks :=
  match i with
  | IFn attrs v s body => print_attrs attrs ++ v ++ print_sig s ++ body
  | ITrait t => print_trait t
  | IImpl im => print_impl im
  | IMod attrs v name items =>
      print_attrs attrs ++ v ++ [TId "mod"; TId name] ++ [TG Brace (flat_map print_item items)]
  | IUse attrs v tree => print_attrs attrs ++ v ++ [TId "use"] ++ tree ++ [pc ";"]
  | IOther ts => ts
  end.

Definition print_items (l : list item) : toks := flat_map print_item l.

(** ** What the macro receives *)

(** syn's [Signature] parse at a top-level offset of a module / impl body (validated oracle) *)
Record sig_at := mkSigAt { sa_off : nat; sa_len : nat; sa_sig : sig }.

Record head := mkHead {
  h_attrs : list attr;
  h_vis : vis;
  h_unsafe : bool;
  h_auto : bool
}.

Inductive input :=
| InFn (h : head) (s : sig) (body : toks)
| InFnErr (h : head)                      (* syn could not parse a signature *)
| InTrait (h : head) (t : item_trait)     (* t parsed from the [trait] keyword on: no attrs / vis / unsafe / auto *)
| InTraitErr (h : head)
| InImpl (h : head) (trait_path self_ty body : toks) (sigs : list sig_at) (syn_fns : option (list string))
| InImplErr (h : head)
| InMod (h : head) (name : string) (body : toks) (sigs : list sig_at) (syn_fns : option (list string))
   (* syn_fns: names of the fns syn's own item parser finds directly in the body (mod: visible ones) *)
| InModErr (h : head)
| InHeadErr.

Definition print_head (h : head) : toks :=
  print_attrs (h_attrs h) ++ h_vis h ++ kw (h_unsafe h) "unsafe" ++ kw (h_auto h) "auto".

(** the source tokens an [input] stands for (used to validate synx's parse against the recording) *)
Definition print_input (i : input) : option toks :=
  match i with
  | InFn h s body => Some (print_head h ++ print_sig s ++ body)
  | InTrait h t => Some (print_head h ++ print_trait t)
  | InImpl h tp st body _ _ => Some (print_head h ++ [TId "impl"] ++ tp ++ [TId "for"] ++ st ++ [TG Brace body])
  | InMod h name body _ _ => Some (print_head h ++ [TId "mod"; TId name; TG Brace body])
  | _ => None
  end.
