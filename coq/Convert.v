(** * Convert: analyze_generics.rs and signature/converter.rs *)
From Coq Require Import List String Ascii Bool Arith.
From Entrait Require Import Tok Syn Opts FnParams.
Import ListNotations.
Local Open Scope string_scope.
Local Open Scope list_scope.

(** ** generics.rs data *)
Inductive fn_deps :=
| DGeneric (param : option string) (bounds : list toks)
| DConcrete (ty : fty)
| DNoDeps.

(** [TraitGenerics]: params are only ever iterated by value (printed without trailing comma);
    the where predicates keep their punctuation (trait mode prints [pairs()]). *)
Record trait_generics := mkTG { tg_params : list gparam; tg_where : punct wpred }.
Definition empty_tg : trait_generics := mkTG [] pempty.

Definition tg_push_param (tg : trait_generics) (g : gparam) : trait_generics :=
  mkTG (tg_params tg ++ [g]) (tg_where tg).
Definition tg_push_where (tg : trait_generics) (w : wpred) : trait_generics :=
  mkTG (tg_params tg) (p_push (tg_where tg) w).

Inductive receiver_kind := RSelfRef | RStaticImpl | RDynamicImpl.

Record trait_fn := mkTF {
  tf_deps : fn_deps;
  tf_attrs : list attr;
  tf_sig : sig;
  tf_async : bool        (* originally_async *)
}.

(** ** analyze_generics.rs *)

(** [lift_where_predicate]: a where predicate that names a lifetime parameter of the function is not
    lifted to the trait (the lifetime is declared on the method, where the predicate stays) *)
Fixpoint mentions_lt_tt (names : list string) (t : tt) : bool :=
  match t with
  | TG _ inner =>
      (fix go (l : list tt) (after_quote : bool) : bool :=
         match l with
         | [] => false
         | x :: r =>
             (match x with TId n => after_quote && str_mem n names | _ => false end) ||
             mentions_lt_tt names x || go r (is_p "'" x)
         end) inner false
  | _ => false
  end.
Definition mentions_lifetime (names : list string) (ts : toks) : bool := mentions_lt_tt names (TG NoDelim ts).

Definition life_names (g : generics) : list string := map gp_name (filter is_life (p_items (g_params g))).

Definition lift_where (lts : list string) (tg : trait_generics) (w : wpred) : trait_generics :=
  if mentions_lifetime lts (wp_toks w) then tg else tg_push_where tg w.

(** [extract_trait_bounds]: a relaxed bound ([?Sized]) is not a requirement on the dependency; a lifetime parameter of the
    function ([D: 'a]) cannot be named on the impl, where it is not declared (and the method's [&'a self] implies it) *)
Definition is_relaxed (b : toks) : bool := starts_with_punct "?"%char b.
Definition is_fn_lifetime (lts : list string) (b : toks) : bool :=
  match b with
  | [q; TId n] => is_p "'" q && str_mem n lts
  | _ => false
  end.
Definition trait_bounds (lts : list string) (l : list toks) : list toks :=
  filter (fun b => negb (is_relaxed b) && negb (is_fn_lifetime lts b)) l.

(** [with_bound_lifetimes]: the bounds of a higher-ranked predicate [for<'a> D: Bound<'a>] on the dependency are copied
    into [Self: ..], so the binder moves onto each trait bound that has none of its own ([Self: for<'a> Bound<'a>]).
    A bound is a trait bound (as opposed to a lifetime, a [use<..>] capture or tokens syn keeps verbatim) when it
    starts with a path: an identifier or [::]; a parenthesised bound carries the binder inside its parentheses. *)
Definition takes_binder (b : toks) : bool :=
  match b with
  | TId n :: _ => negb (str_mem n ["for"; "use"])
  | TP ":" :: _ => true
  | _ => false
  end.
Definition with_binder (binder b : toks) : toks :=
  match b with
  | [TG Paren inner] => if takes_binder inner then [TG Paren (binder ++ inner)] else b
  | _ => if takes_binder b then binder ++ b else b
  end.
(** what a where predicate on the dependency contributes to its bounds *)
Definition pred_bounds (lts : list string) (w : wpred) : list toks := map (with_binder (wp_binder w)) (trait_bounds lts (wp_bounds w)).

Definition where_items (g : generics) : list wpred :=
  match g_where g with Some p => p_items p | None => [] end.

(** [deps_with_generics]: every type and const parameter and every where predicate goes to the trait *)
Definition deps_with_generics (tg : trait_generics) (g : generics) : trait_generics :=
  let tg1 := fold_left (fun acc p => if is_life p then acc else tg_push_param acc p) (p_items (g_params g)) tg in
  fold_left (lift_where (life_names g)) (where_items g) tg1.

Fixpoint find_type_param (name : string) (l : list gparam) (idx : nat) : option (nat * gparam) :=
  match l with
  | [] => None
  | p :: rest =>
      match gp_kind p with
      | GType => if String.eqb (gp_name p) name then Some (idx, p) else find_type_param name rest (S idx)
      | _ => find_type_param name rest (S idx)
      end
  end.

Fixpoint push_others (l : list gparam) (idx skip : nat) (tg : trait_generics) : trait_generics :=
  match l with
  | [] => tg
  | p :: rest =>
      let tg' := if Nat.eqb idx skip || is_life p then tg else tg_push_param tg p in
      push_others rest (S idx) skip tg'
  end.

(** one where predicate in [find_deps_generic_bounds]: returns the bounds it contributes to the
    dependency and the updated trait generics *)
Definition deps_where_step (lts : list string) (deps_name : string) (acc : list toks * trait_generics) (w : wpred)
  : list toks * trait_generics :=
  let '(bounds, tg) := acc in
  if wp_is_type w then
    match wp_bounded w with
    | BPath qself leading nsegs first =>
        if qself || leading then (bounds, lift_where lts tg w)
        else if negb (Nat.eqb nsegs 1) then (bounds, lift_where lts tg w)
        else if String.eqb first deps_name then (bounds ++ pred_bounds lts w, tg)
        else (bounds, tg)      (* a predicate on another single-segment type: dropped from the trait *)
    | BOther => (bounds, lift_where lts tg w)
    end
  else (bounds, lift_where lts tg w).

Definition find_deps_generic_bounds (tg : trait_generics) (g : generics) (name : string)
  : option (fn_deps * trait_generics) :=
  match find_type_param name (p_items (g_params g)) 0 with
  | None => None
  | Some (idx, p) =>
      let tg1 := push_others (p_items (g_params g)) 0 idx tg in
      let '(bounds, tg2) := fold_left (deps_where_step (life_names g) name) (where_items g) (trait_bounds (life_names g) (gp_bounds p), tg1) in
      Some (DGeneric (Some name) bounds, tg2)
  end.

Fixpoint extract_deps_from_type (tg : trait_generics) (g : generics) (ty : fty)
  : result (fn_deps * trait_generics) :=
  match ty with
  | TyImpl _ bounds => Ok (DGeneric None (trait_bounds (life_names g) bounds), deps_with_generics tg g)
  | TyPath qself leading nsegs first _ =>
      if qself then Err (EMsg "No self allowed")
      else if leading then Err (EMsg "No leading colon allowed")
      else if negb (Nat.eqb nsegs 1) then Ok (DConcrete ty, deps_with_generics tg g)
      else match find_deps_generic_bounds tg g first with
           | Some r => Ok r
           | None => Ok (DConcrete ty, deps_with_generics tg g)
           end
  | TyRef _ _ elem => extract_deps_from_type tg g elem
  | TyParen elem => extract_deps_from_type tg g elem
  | TyOther _ => Ok (DConcrete ty, deps_with_generics tg g)
  end.

Definition no_receiver_msg : string :=
  "Function must have a dependency 'receiver' as its first parameter. Pass `no_deps` to entrait to disable dependency injection.".

Definition analyze_fn_deps (tg : trait_generics) (s : sig) (o : opts) : result (fn_deps * trait_generics) :=
  if no_deps_value o then
    match p_items (s_inputs s) with
    | ArgRecv _ _ _ _ :: _ => Err (EMsg "Function cannot have a self receiver")
    | _ => Ok (DNoDeps, deps_with_generics tg (s_gen s))
    end
  else match p_items (s_inputs s) with
       | [] => Err (EMsg no_receiver_msg)
       | ArgRecv _ _ _ _ :: _ => Err (EMsg "Function cannot have a self receiver")
       | ArgTyped _ _ ty :: _ => extract_deps_from_type tg (s_gen s) ty
       end.

(** ** signature/converter.rs *)

Definition strip_arg_attrs (a : fnarg) : fnarg :=
  match a with
  | ArgRecv _ r m c => ArgRecv [] r m c
  | ArgTyped _ p t => ArgTyped [] p t
  end.

Definition impl_path_toks : toks :=
  path_sep ++ [TId "entrait"] ++ path_sep ++ [TId "Impl"; pc "<"; TId "EntraitT"; pc ">"].

Definition impl_path_fty : fty := TyPath false true 2 "entrait" impl_path_toks.

(** [__impl: & 'a? ::entrait::Impl<EntraitT>]: [__impl] is borrowed for as long as the dependency reference /
    the receiver it stands for *)
Definition impl_receiver_lt (l : option string) : fnarg :=
  ArgTyped [] (PIdent false false "__impl" []) (TyRef l false impl_path_fty).
Definition impl_receiver : fnarg := impl_receiver_lt None.

(** the lifetime written on a reference ([Some (Some a)] = [&'a]), if any *)
Definition ref_lifetime (reference : option (option string)) : option string :=
  match reference with Some l => l | None => None end.

(** a plain [self] / [mut self] receiver (no reference, no type ascription) *)
Definition plain_self_by_value (s : sig) : bool :=
  match p_items (s_inputs s) with
  | ArgRecv _ None _ None :: _ => true
  | _ => false
  end.

Definition self_receiver (reference : option (option string)) : fnarg := ArgRecv [] reference false None.

Definition gen_first_receiver (k : receiver_kind) (reference : option (option string)) : fnarg :=
  match k with
  | RSelfRef | RDynamicImpl => self_receiver reference
  | RStaticImpl => impl_receiver_lt (ref_lifetime reference)
  end.

(** [generate_params] *)
Definition generate_params (k : receiver_kind) (deps : fn_deps) (inputs : punct fnarg) : result (punct fnarg) :=
  let* inputs1 :=
    match deps with
    | DNoDeps => Ok (p_insert 0 (gen_first_receiver k (Some None)) inputs)           (* Insert *)
    | _ =>
        match p_items inputs with
        | [] => Ok inputs                                                             (* None ("bug?") *)
        | ArgTyped _ _ (TyRef l _ _) :: rest => Ok (mkP (gen_first_receiver k (Some l) :: rest) (p_trail inputs))
        | ArgTyped _ _ _ :: rest => Ok (mkP (gen_first_receiver k None :: rest) (p_trail inputs))
        | ArgRecv _ _ _ _ :: _ => Panic "converter.rs:88 receiver in Rewrite"
        end
    end in
  let deps_lifetime :=
    match deps, p_items inputs with
    | DNoDeps, _ => None
    | _, ArgTyped _ _ (TyRef l _ _) :: _ => l
    | _, _ => None
    end in
  match k with
  | RDynamicImpl =>
      if Nat.ltb (p_len inputs1) 1 then Panic "Punctuated::insert: index out of range"
      else Ok (p_insert 1 (impl_receiver_lt deps_lifetime) inputs1)
  | _ => Ok inputs1
  end.

Definition bounded_is_ident (b : bounded) (name : string) : bool :=
  match b with
  | BPath _ _ nsegs first => Nat.eqb nsegs 1 && String.eqb first name
  | BOther => false
  end.

(** [remove_generic_type_params] + [tidy_generics] *)
Definition convert_generics (deps : fn_deps) (g : generics) : generics :=
  let params := filter is_life (p_items (g_params g)) in
  let keep (w : wpred) : bool :=
    match deps with
    | DGeneric (Some name) _ => if wp_is_type w then negb (bounded_is_ident (wp_bounded w) name) else true
    | _ => true
    end in
  let where' := match g_where g with
                | Some p => match filter keep (p_items p) with
                            | [] => None
                            | l => Some (p_of_list l)
                            end
                | None => None
                end in
  match params with
  | [] => mkGen false pempty where'
  | _ => mkGen (g_lt g) (p_of_list params) where'
  end.

(** [convert_fn_to_trait_fn] *)
Definition convert_sig (k : receiver_kind) (deps : fn_deps) (s : sig) : result sig :=
  let stripped := mkP (map strip_arg_attrs (p_items (s_inputs s))) (p_trail (s_inputs s)) in
  let* inputs1 := generate_params k deps stripped in
  let g' := convert_generics deps (s_gen s) in
  let* args := fix_fn_param_idents (s_name s) (p_items inputs1) in
  Ok (mkSig (s_const s) (s_async s) (s_unsafe s) (s_abi s) (s_name s) g'
            (mkP args (p_trail inputs1)) (s_variadic s) (s_output s)).

(** [TraitFnAnalyzer::analyze] *)
Definition analyze (k : receiver_kind) (o : opts) (tg : trait_generics) (s : sig)
  : result (trait_fn * trait_generics) :=
  let* (deps, tg') := analyze_fn_deps tg s o in
  let* s' := convert_sig k deps s in
  Ok (mkTF deps [] s' (s_async s), tg').

(** the accumulator is threaded through the fns of a module / impl block, in order *)
Fixpoint analyze_all (k : receiver_kind) (o : opts) (tg : trait_generics) (l : list sig)
  : result (list trait_fn * trait_generics) :=
  match l with
  | [] => Ok ([], tg)
  | s :: rest =>
      let* (tf, tg1) := analyze k o tg s in
      let* (tfs, tg2) := analyze_all k o tg1 rest in
      Ok (tf :: tfs, tg2)
  end.
