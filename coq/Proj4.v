(** * Proj4: C15 (outcome-level) and the table of all views *)
From Coq Require Import List String Ascii Bool Arith.
From Entrait Require Import Tok Syn Opts Split FnParams Convert Codegen Proj Proj2 Proj3 ProjSide.
Import ListNotations.
Local Open Scope string_scope.
Local Open Scope list_scope.

(** what came back from an expansion, abstractly *)
Inductive oclass :=
| CTokens
| CError (msg : option string)     (* compile_error!; [Some m]: the message (as a canonical string literal) *)
| CPanic.

(** documented misuses and the diagnostic each must produce (input-side, decidable) *)
Definition misuse_msg (c : ctx) : option string :=
  match x_input c with
  | InFn _ s _ =>
      match parse_fn_attr (x_attr c) with
      | Err (EMsg m) => Some m
      | Ok a =>
          let o := apply_variant (x_variant c) (fa_opts a) in
          if no_deps_value o then
            match p_items (s_inputs s) with
            | ArgRecv _ _ _ _ :: _ => Some "Function cannot have a self receiver"
            | _ => None
            end
          else match p_items (s_inputs s) with
               | [] => Some no_receiver_msg
               | ArgRecv _ _ _ _ :: _ => Some "Function cannot have a self receiver"
               | _ => None
               end
      | _ => None
      end
  | InMod h _ body sigs _ =>
      if h_unsafe h || h_auto h then None
      else match split_body true sigs body, parse_fn_attr (x_attr c) with
           | Ok _, Err (EMsg m) => Some m
           | Ok (l, _), Ok a =>
               let o := apply_variant (x_variant c) (fa_opts a) in
               let sigs' := map (fun '(_, _, s, _) => s) (body_fns l) in
               if negb (no_deps_value o) &&
                  forallb (fun s => match p_items (s_inputs s) with
                                    | ArgTyped _ _ ty :: _ =>
                                        match strip_refs ty with
                                        | TyPath true _ _ _ _ | TyPath _ true _ _ _ => false
                                        | _ => true
                                        end
                                    | _ => false
                                    end) sigs' &&
                  existsb (fun s => is_concrete (deps_kind false s)) sigs'
               then Some concrete_in_module_msg else None
           | _, _ => None
           end
  | InTrait _ _ =>
      match parse_trait_attr (x_attr c) with
      | Err (EMsg m) => Some m
      | Ok a =>
          match ta_impl_trait a, ta_delegate a with
          | None, Some (ByTrait _) => Some custom_delegate_msg
          | _, _ => None
          end
      | _ => None
      end
  | InImpl h _ _ body sigs _ =>
      if h_auto h then None
      else match split_body false sigs body, parse_impl_attr (x_attr c) with
           | Ok _, Err (EMsg m) => Some m
           | _, _ => None
           end
  | _ => None
  end.

(** Rust's [{:?}] of an ASCII message: the canonical form synx gives string literals *)
Fixpoint escape_lit (s : string) : string :=
  match s with
  | EmptyString => EmptyString
  | String c r =>
      let n := nat_of_ascii c in
      if Nat.eqb n 34 || Nat.eqb n 92 then String "\"%char (String c (escape_lit r)) else String c (escape_lit r)
  end.
Definition quote_lit (s : string) : string := String """"%char (escape_lit s) +++ """".

Definition view_C15 (c : ctx) (real : oclass) (parsable : bool) : view :=
  let alpha := match real with
               | CTokens => [[TId "tokens"]]
               | CError (Some m) => [[TId "error"; TLit m]]
               | CError None => [[TId "error"]]
               | CPanic => [[TId "panic"]]
               end in
  match real with
  | CPanic => decided false alpha
  | CTokens =>
      (* tokens came back: not for a documented misuse, and they must parse ([parsable]: syn parsed what the macro added
         and the items print back to exactly the emitted tokens) *)
      match misuse_msg c with
      | Some _ => decided false alpha
      | None => decided parsable alpha
      end
  | CError m =>
      match misuse_msg c, m with
      | Some want, Some got => decided (String.eqb got (quote_lit want)) alpha
      | Some _, None => decided false alpha
      | None, _ => decided true alpha
      end
  end.

(** all item-level views, by property id *)
Definition item_views : list (string * (ctx -> list item -> view)) :=
  [("C01", view_C01); ("C03", view_C03); ("C04", view_C04g); ("C05", view_C05g); ("C06", view_C06);
   ("C07", view_C07); ("C08", view_C08g); ("C09", view_C09); ("C10", view_C10); ("C11", view_C11);
   ("C12", view_C12); ("C13", view_C13); ("C14", view_C14g); ("C16", view_C16); ("C18", view_C18);
   ("C19", view_C19g)].
