(** * Split: input.rs — item dispatch and the module / impl-block item splitter, at token level *)
From Coq Require Import List String Ascii Bool Arith.
From Entrait Require Import Tok Syn Opts.
Import ListNotations.
Local Open Scope string_scope.
Local Open Scope list_scope.

(** ** [syn::Attribute::parse_outer] on tokens: [#] [[...]] repeated; [#] followed by anything else
    (inner attribute [#!]) is a syn error. The attribute's meta is not re-parsed here (the generator
    and rustc only hand over well-formed attributes). *)
Fixpoint parse_outer (ts : toks) : result (list attr * toks) :=
  match ts with
  | TP c :: rest0 =>
      if Ascii.eqb c "#"%char then
        match rest0 with
        | TG Bracket inner :: rest => let* (more, rest') := parse_outer rest in Ok (inner :: more, rest')
        | _ => Err ESyn
        end
      else Ok ([], ts)
  | _ => Ok ([], ts)
  end.

(** ** Which kind of item did the macro get (the keyword [Input::parse] peeks at) *)
Inductive kind := KTrait | KImpl | KMod | KFn.

Definition skip_id (name : string) (ts : toks) : bool * toks :=
  match ts with
  | TId s :: rest => if String.eqb s name then (true, rest) else (false, ts)
  | _ => (false, ts)
  end.

Definition classify (ts : toks) : result (kind * bool * bool) :=
  let* (_, r0) := parse_outer ts in
  let '(_, r1) := parse_vis r0 in
  let '(uns, r2) := skip_id "unsafe" r1 in
  let '(aut, r3) := skip_id "auto" r2 in
  if fst (skip_id "trait" r3) then Ok (KTrait, uns, aut)
  else if fst (skip_id "impl" r3) then Ok (KImpl, uns, aut)
  else if fst (skip_id "mod" r3) then Ok (KMod, uns, aut)
  else Ok (KFn, uns, aut).

(** ** [peek_fn]: [fn], or [const? async? unsafe? (extern "abi"?)? fn] *)
Definition skip_abi (ts : toks) : toks :=
  let '(is_extern, rest) := skip_id "extern" ts in
  if is_extern then match rest with TLit _ :: rest' => rest' | _ => rest end else ts.

Definition peek_fn (ts : toks) : bool :=
  if fst (skip_id "fn" ts) then true
  else
      let r1 := snd (skip_id "const" ts) in
      let r2 := snd (skip_id "async" r1) in
      let r3 := snd (skip_id "unsafe" r2) in
      fst (skip_id "fn" (skip_abi r3)).

(** ** [parse_matched_braces_or_ending_semi] *)
Definition is_semi (t : tt) : bool := match t with TP c => Ascii.eqb c ";"%char | _ => false end.
Definition is_brace (t : tt) : bool := match t with TG Brace _ => true | _ => false end.

(** tokens up to and including the first top-level brace group or [;]; [None] = "Read past the end" *)
Fixpoint take_item (ts : toks) : option (toks * toks) :=
  match ts with
  | [] => None
  | t :: rest =>
      if is_brace t || is_semi t then Some ([t], rest)
      else match take_item rest with
           | Some (taken, rest') => Some (t :: taken, rest')
           | None => None
           end
  end.

Fixpoint take_semis (ts : toks) : toks * toks :=
  match ts with
  | t :: rest => if is_semi t then let '(s, r) := take_semis rest in (t :: s, r) else ([], ts)
  | [] => ([], [])
  end.

Definition read_past_the_end : err := EMsg "Read past the end".

Definition matched_braces_or_semi (ts : toks) : result (toks * toks) :=
  match take_item ts with
  | None => Err read_past_the_end
  | Some (taken, rest) => let '(semis, rest') := take_semis rest in Ok (taken ++ semis, rest')
  end.

(** ** Items of a module / impl body *)
Inductive body_item :=
| BFn (attrs : list attr) (v : vis) (s : sig) (body : toks)
| BUnknown (attrs : list attr) (v : vis) (ts : toks).

Definition print_body_item (b : body_item) : toks :=
  match b with
  | BFn attrs v s body => print_attrs attrs ++ v ++ print_sig s ++ body
  | BUnknown attrs v ts => print_attrs attrs ++ v ++ ts
  end.

Fixpoint find_sig (off : nat) (sigs : list sig_at) : option sig_at :=
  match sigs with
  | [] => None
  | s :: rest => if Nat.eqb (sa_off s) off then Some s else find_sig off rest
  end.

(** [in_mod] = true: [ModItem] (a fn needs a visibility); false: [ImplItem].
    [pos] = number of top-level tokens of the body consumed so far (index for the signature oracle).
    A signature the oracle lacks where [peek_fn] holds is a syn parse error. The flag returned with
    every fn says whether syn's print of the parsed signature equals the source tokens. *)
Definition parse_body_item (in_mod : bool) (sigs : list sig_at) (pos : nat) (ts : toks)
  : result (body_item * bool * toks) :=
  let* (attrs, r0) := parse_outer ts in
  let '(v, r1) := parse_vis r0 in
  let is_fn := (if in_mod then match v with [] => false | _ => true end else true) && peek_fn r1 in
  if is_fn then
    let off := pos + (List.length ts - List.length r1) in
    match find_sig off sigs with
    | None => Err ESyn
    | Some sa =>
        let sig_toks := firstn (sa_len sa) r1 in
        let r2 := skipn (sa_len sa) r1 in
        let faithful := toks_eqb (print_sig (sa_sig sa)) sig_toks in
        if match r2 with t :: _ => is_semi t | [] => false end
        then Ok (BUnknown attrs v (sig_toks ++ [pc ";"]), faithful, tl r2)
        else
            let* (body, r3) := matched_braces_or_semi r2 in
            Ok (BFn attrs v (sa_sig sa) body, faithful, r3)
    end
  else
    let* (tokens, r2) := matched_braces_or_semi r1 in
    Ok (BUnknown attrs v tokens, true, r2).

(** [while !content.is_empty() { items.push(content.parse()?) }]; fuel = number of tokens + 1 *)
Fixpoint parse_body (in_mod : bool) (sigs : list sig_at) (fuel : nat) (pos : nat) (ts : toks)
  : result (list body_item * bool) :=
  match ts with
  | [] => Ok ([], true)
  | _ =>
      match fuel with
      | O => OutOfDomain "fuel"
      | S k =>
          let* (it, faithful, rest) := parse_body_item in_mod sigs pos ts in
          if Nat.leb (List.length ts) (List.length rest) then OutOfDomain "no progress"
          else
            let* (more, f2) := parse_body in_mod sigs k (pos + (List.length ts - List.length rest)) rest in
            Ok (it :: more, faithful && f2)
      end
  end.

Definition split_body (in_mod : bool) (sigs : list sig_at) (body : toks) : result (list body_item * bool) :=
  parse_body in_mod sigs (S (List.length body)) 0 body.

Definition body_fns (l : list body_item) : list (list attr * vis * sig * toks) :=
  flat_map (fun b => match b with BFn a v s body => [(a, v, s, body)] | BUnknown _ _ _ => [] end) l.

Definition not_allowed_here : err := EMsg "Not allowed here".
