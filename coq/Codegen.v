(** * Codegen: generics.rs, attributes.rs, sub_attributes.rs, trait_codegen.rs, fn_delegation_codegen.rs *)
From Coq Require Import List String Ascii Bool Arith.
From Entrait Require Import Tok Syn Opts FnParams Convert.
Import ListNotations.
Local Open Scope string_scope.
Local Open Scope list_scope.

(** [::a::b::c] *)
Definition abs_path (segs : list string) : toks := flat_map (fun s => path_sep ++ [TId s]) segs.

(** ** sub_attributes.rs: the last path segment of an attribute decides *)

(** last identifier of the leading path [::a::b::c] of an attribute's meta *)
Fixpoint path_last (ts : toks) (last : option string) : option string :=
  match ts with
  | TP ":"%char :: TP ":"%char :: rest => path_last rest last
  | TId s :: rest =>
      match rest with
      | TP ":"%char :: TP ":"%char :: _ => path_last rest (Some s)
      | _ => Some s
      end
  | _ => last
  end.

Inductive sub_kind := SAsyncTrait | SAutomock | SOther.

Definition sub_kind_of (a : attr) : sub_kind :=
  match path_last a None with
  | Some s => if String.eqb s "async_trait" then SAsyncTrait
              else if String.eqb s "automock" then SAutomock else SOther
  | None => SOther
  end.

Definition is_async_trait (a : attr) : bool := match sub_kind_of a with SAsyncTrait => true | _ => false end.
Definition is_trait_sub (a : attr) : bool :=
  match sub_kind_of a with SAsyncTrait | SAutomock => true | SOther => false end.
Definition contains_async_trait (l : list attr) : bool := existsb is_async_trait l.

(** ** generics.rs *)
Inductive trait_dep_mode := MGeneric | MConcrete (ty : fty).
Inductive impl_indirection := INone | IStatic (ty : toks) | IDynamic (ty : toks).
Inductive trait_indirection := TPlain | TTrait | TStaticImpl | TDynamicImpl.
Inductive input_mode := MSingleFn | MModule | MImplBlock | MRawTrait.

Definition has_any_self_by_value (fns : list trait_fn) : bool :=
  existsb (fun tf => match p_items (s_inputs (tf_sig tf)) with
                     | ArgRecv _ None _ _ :: _ => true
                     | _ => false
                     end) fns.

(** [token_util::CoreMarker] *)
Definition core_marker (name : string) : toks := abs_path ["core"; "marker"; name].

(** the [EntraitT: ::core::marker::Sync [+ ::core::marker::Send] + 'static] parameter of [ParamsGenerator] *)
Definition impl_t_param (self_by_value : bool) : gparam :=
  let bounds := [core_marker "Sync"] ++ (if self_by_value then [core_marker "Send"] else []) ++ [[pc "'"; TId "static"]] in
  mkGP GType [] "EntraitT" ([pc ":"] ++ join [pc "+"] bounds) bounds.

(** an impl header declares no defaults: everything from the first [=] outside angle brackets on is dropped
    ([->] does not close a bracket) *)
Fixpoint cut_default (ts : toks) (depth : nat) (prev_minus : bool) : toks :=
  match ts with
  | [] => []
  | t :: r =>
      if is_p "=" t && Nat.eqb depth 0 then []
      else t :: cut_default r (if is_p "<" t then S depth
                               else if is_p ">" t && negb prev_minus then Nat.pred depth else depth)
                            (is_p "-" t)
  end.

Definition strip_default (p : gparam) : gparam :=
  if is_life p then p
  else mkGP (gp_kind p) (gp_attrs p) (gp_name p) (cut_default (gp_rest p) 0 false) (gp_bounds p).

(** [impl<..Param>] for an entraited trait, whose generic parameters are the user's: the lifetimes, then the
    application's type parameter, then the other parameters without their defaults *)
Definition trait_impl_params (params : list gparam) : list gparam :=
  filter is_life params ++ [impl_t_param false] ++
  map strip_default (filter (fun p => negb (is_life p)) params).

Definition impl_params (with_impl_t self_by_value : bool) (params : list gparam) : list gparam :=
  (if with_impl_t then [impl_t_param self_by_value] else []) ++ params.

(** [ArgumentsGenerator] *)
Definition arg_of_param (g : gparam) : toks :=
  match gp_kind g with
  | GLife => [pc "'"; TId (gp_name g)]
  | _ => [TId (gp_name g)]
  end.

Definition print_arguments (with_entrait_t : bool) (params : list gparam) : toks :=
  match (if with_entrait_t then [[TId "EntraitT"]] else []) ++ map arg_of_param params with
  | [] => []
  | l => [pc "<"] ++ join [comma] l ++ [pc ">"]
  end.

Definition deps_bounds (fns : list trait_fn) : list toks :=
  flat_map (fun tf => match tf_deps tf with DGeneric _ b => b | _ => [] end) fns.

Definition has_bounds (fns : list trait_fn) : bool :=
  existsb (fun tf => match tf_deps tf with
                     | DGeneric _ (_ :: _) => true
                     | _ => false
                     end) fns.

Definition mk_pred (ts : toks) : wpred := mkWP true BOther [] ts [].

(** [ImplWhereClauseGenerator] *)
Definition impl_where (mode : trait_dep_mode) (ind : impl_indirection) (fns : list trait_fn)
           (tg : trait_generics) : list wpred :=
  (match mode with
   | MGeneric =>
       if has_bounds fns then
         let lhs := match ind with INone => [TId "Self"] | _ => impl_path_toks end in
         [mk_pred (lhs ++ [pc ":"] ++ join [pc "+"] (deps_bounds fns))]
       else []
   | MConcrete _ => []
   end) ++ p_items (tg_where tg).

Definition where_of_list (l : list wpred) : option (punct wpred) :=
  match l with [] => None | _ => Some (p_of_list l) end.

(** ** attributes.rs *)
Definition export_gated (o : opts) (params : toks) : attr :=
  if export_value o then params
  else [TId "cfg_attr"; TG Paren ([TId "test"; comma] ++ params)].

Definition entrait_for_trait_attr : attr :=
  abs_path ["entrait"; "entrait"] ++
  [TG Paren [TId "unimock"; pc "="; TId "false"; comma; TId "mockall"; pc "="; TId "false"]].

Definition typed_ident_names (l : list fnarg) : list string := plain_names l.

Definition unmock_entry (tf : trait_fn) : toks :=
  let name := s_name (tf_sig tf) in
  match tf_deps tf with
  | DGeneric _ _ => [TId name]
  | DConcrete _ => [TId "_"]
  | DNoDeps => [TId name; TG Paren (join [comma] (map (fun n => [TId n]) (typed_ident_names (p_items (s_inputs (tf_sig tf))))))]
  end.

Definition unimock_params (mock_api : option string) (mode : input_mode) (fns : list trait_fn) : toks :=
  abs_path ["entrait"; "__unimock"; "unimock"] ++
  [TG Paren (join [comma]
     ([[TId "prefix"; pc "="] ++ abs_path ["entrait"; "__unimock"]] ++
      (match mock_api with
       | Some api => [[TId "api"; pc "="] ++
                      (match mode with MSingleFn => [TG Bracket [TId api]] | _ => [TId api] end)]
       | None => []
       end) ++
      (match mode with
       | MRawTrait => []
       | _ => match fns with
              | [] => []
              | _ => [[TId "unmock_with"; pc "="; TG Bracket (join [comma] (map unmock_entry fns))]]
              end
       end)))].

Definition unimock_params_empty (ti : trait_indirection) (mock_api : option string) : bool :=
  match ti, mock_api with TPlain, None => true | _, _ => false end.

Definition mockall_params : toks := abs_path ["mockall"; "automock"].

(** ** trait_codegen.rs *)
Definition pub_super : vis := [TId "pub"; TG Paren [TId "super"]].

(** the trait of an entraited module is defined one module level below the invocation site: a visibility
    relative to that site ([pub(self)], [pub(super)], [pub(in super::..)], none) is written one level deeper *)
Definition module_vis (v : vis) : vis :=
  match v with
  | [] => pub_super
  | [p; TG Paren inner] =>
      let path := match inner with
                  | t :: rest => if is_id "in" t then rest else inner
                  | [] => inner
                  end in
      match path with
      | [] => v
      | t :: rest =>
          if is_id "self" t then
            match rest with
            | [] => [p; TG Paren [TId "super"]]
            | _ => [p; TG Paren ([TId "in"; TId "super"] ++ rest)]          (* self::path -> super::path *)
            end
          else if is_id "super" t then [p; TG Paren ([TId "in"; TId "super"] ++ path_sep ++ path)]
          else v
      end
  | _ => v
  end.

Definition trait_visibility (mode : input_mode) (v : vis) : vis :=
  match mode with
  | MModule | MImplBlock => module_vis v
  | _ => v
  end.

Definition future_output (o : opts) (ret : option toks) : toks :=
  [TId "impl"] ++ abs_path ["core"; "future"; "Future"] ++
  [pc "<"; TId "Output"; pc "="] ++ (match ret with Some t => t | None => [TG Paren []] end) ++ [pc ">"] ++
  (if future_send o then [pc "+"] ++ abs_path ["core"; "marker"; "Send"] else []).

(** [make_trait_fn_sig] *)
Definition make_trait_fn_sig (s : sig) (subs : list attr) (o : opts) : sig :=
  if s_async s && negb (contains_async_trait subs) then
    mkSig (s_const s) false (s_unsafe s) (s_abi s) (s_name s) (s_gen s) (s_inputs s) (s_variadic s)
          (Some (future_output o (s_output s)))
  else s.

(** [gen_trait_def] *)
Definition gen_trait_def (o : opts) (ti : trait_indirection) (mode : trait_dep_mode) (subs : list attr)
           (literal : option (list attr))   (* RawTrait: the entraited trait's own attributes, emitted as written *)
           (v : vis) (name : string) (tg : trait_generics) (colon : bool) (supers : punct toks)
           (fns : list trait_fn) (im : input_mode) : item_trait :=
  let unimock_attr :=
    if unimock_value o && negb (unimock_params_empty ti (o_mock_api o))
    then [export_gated o (unimock_params (o_mock_api o) im fns)] else [] in
  let entrait_attr := match mode with MConcrete _ => [entrait_for_trait_attr] | MGeneric => [] end in
  let mockall_attr := if mockall_value o then [export_gated o mockall_params] else [] in
  let fn_defs := map (fun tf => TFn (tf_attrs tf) (make_trait_fn_sig (tf_sig tf) subs o) None true) fns in
  mkTrait (unimock_attr ++ entrait_attr ++ mockall_attr ++
           match literal with Some l => l | None => filter is_trait_sub subs end)
          (trait_visibility im v) false false name
          (mkGen true (p_of_list (tg_params tg))
                 (match p_items (tg_where tg) with [] => None | _ => Some (tg_where tg) end))
          colon supers fn_defs.

(** ** fn_delegation_codegen.rs *)
Definition self_ty (mode : trait_dep_mode) (ind : impl_indirection) (o : opts) : toks :=
  match mode with
  | MGeneric =>
      match ind with
      | INone => if mockable o then impl_path_toks else [TId "EntraitT"]
      | IStatic ty | IDynamic ty => ty
      end
  | MConcrete ty => print_fty ty
  end.

(** [gen_delegating_fn_item]; a non-identifier pattern left in the signature is a [panic!] *)
Fixpoint call_args (l : list fnarg) : result (list toks) :=
  match l with
  | [] => Ok []
  | ArgRecv _ _ _ _ :: rest => call_args rest
  | ArgTyped _ (PIdent _ _ n _) _ :: rest => let* r := call_args rest in Ok ([TId n] :: r)
  | ArgTyped _ (PNon _ _) _ :: _ => Panic "fn_delegation_codegen.rs:127 non-ident pattern"
  end.

Definition delegating_fn (ind : impl_indirection) (im : input_mode) (tf : trait_fn) : result iitem :=
  let s := tf_sig tf in
  let self_comma :=
    match tf_deps tf, p_items (s_inputs s), ind with
    | DNoDeps, _, _ => []
    | _, [], _ => []
    | _, _, (IStatic _ | IDynamic _) => []
    | _, _ :: _, INone => [TId "self"; comma]
    end in
  let* args := call_args (p_items (s_inputs s)) in
  let scoping := match im with MImplBlock => [TId "Self"] ++ path_sep | _ => [] end in
  Ok (IIFn (tf_attrs tf) [] s
        [TG Brace (scoping ++ [TId (s_name s); TG Paren (self_comma ++ join [comma] args)] ++
                   (if tf_async tf then [pc "."; TId "await"] else []))]).

(** [TraitFn::with_cfg_attrs_of]: [attr.path().is_ident("cfg")] *)
Definition is_cfg_attr (a : attr) : bool :=
  match a with
  | TId "cfg" :: TP ":"%char :: _ => false
  | TId "cfg" :: _ => true
  | _ => false
  end.

(** [gen_impl_block] *)
Definition gen_impl_block (o : opts) (trait_ref : toks) (ind : impl_indirection) (tg : trait_generics)
           (im : input_mode) (mode : trait_dep_mode) (subs : list attr) (fns : list trait_fn)
  : result item_impl :=
  let with_t := match mode with MGeneric => true | MConcrete _ => false end in
  let params := impl_params with_t (has_any_self_by_value fns) (tg_params tg) in
  let args := print_arguments (match ind with INone => false | _ => true end) (tg_params tg) in
  let* items := map_res (delegating_fn ind im) fns in
  Ok (mkImpl (filter is_async_trait subs) false
             (mkGen true (p_of_list params) (where_of_list (impl_where mode ind fns tg)))
             (Some (trait_ref ++ args)) (self_ty mode ind o) items).

(** [detect_trait_dependency_mode] *)
Fixpoint first_concrete (fns : list trait_fn) : option fty :=
  match fns with
  | [] => None
  | tf :: rest => match tf_deps tf with DConcrete ty => Some ty | _ => first_concrete rest end
  end.

Definition concrete_in_module_msg : string :=
  "Using concrete dependencies in a module is an anti-pattern. Instead, write a trait manually, use the #[entrait] attribute on it, and implement it for your application type".

Definition detect_trait_dependency_mode (im : input_mode) (fns : list trait_fn) : result trait_dep_mode :=
  match first_concrete fns with
  | None => Ok MGeneric
  | Some ty =>
      match im with
      | MSingleFn => Ok (MConcrete ty)
      | MModule => Err (EMsg concrete_in_module_msg)
      | MImplBlock => Err (EMsg "Cannot (yet) use concrete dependency in an impl block")
      | MRawTrait => Panic "analyze_generics.rs:84 Should not detect dependencies for this input mode"
      end
  end.

Definition custom_delegate_msg : string :=
  "Cannot use a custom delegating trait without a custom trait to delegate to. Use either `#[entrait(TraitImpl, delegate_by = DelegateTrait)]` or `#[entrait(delegate_by = ref)]`".

