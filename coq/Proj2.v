(** * Proj2: more per-property predicates (see Proj.v) *)
From Coq Require Import List String Ascii Bool Arith.
From Entrait Require Import Tok Syn Opts Split FnParams Convert Codegen Proj.
Import ListNotations.
Local Open Scope string_scope.
Local Open Scope list_scope.

(** ** C02: append-only (pure token comparison between the recorded input and output) *)
Fixpoint last_brace (ts : toks) : option (toks * toks) :=
  match ts with
  | [] => None
  | [TG Brace body] => Some ([], body)
  | t :: rest => match last_brace rest with Some (pre, body) => Some (t :: pre, body) | None => None end
  end.

Fixpoint strip_prefix (pre l : toks) : option toks :=
  match pre, l with
  | [], _ => Some l
  | x :: xs, y :: ys => if tt_eqb x y then strip_prefix xs ys else None
  | _, [] => None
  end.

Definition c02_fn (input_toks out : toks) : bool := is_prefix input_toks out.

Definition c02_mod (input_toks out : toks) : bool :=
  match last_brace input_toks with
  | Some (pre, body) =>
      match strip_prefix pre out with
      | Some (TG Brace body' :: _) => is_prefix body body'
      | _ => false
      end
  | None => false
  end.

(** impl block: [attrs' unsafe? impl SelfTy { body }] first, with attrs' = attrs minus async_trait *)
Definition c02_impl (h : head) (self_ty body out : toks) : bool :=
  is_prefix (print_attrs (filter (fun a => negb (is_async_trait a)) (h_attrs h)) ++
             kw (h_unsafe h) "unsafe" ++ [TId "impl"] ++ self_ty ++ [TG Brace body]) out.

Definition view_C02 (c : ctx) (input_toks out : toks) : view :=
  match x_input c with
  | InFn _ _ _ => decided (c02_fn input_toks out) [firstn (List.length input_toks) out]
  | InMod _ _ body _ _ =>
      (* the header, and as much of the emitted module body as the original body is long *)
      decided (c02_mod input_toks out)
              (match last_brace input_toks with
               | Some (pre, _) =>
                   [firstn (List.length pre) out;
                    match skipn (List.length pre) out with
                    | TG Brace body' :: _ => firstn (List.length body) body'
                    | _ => []
                    end]
               | None => []
               end)
  | InImpl h _ st body _ _ =>
      decided (c02_impl h st body out)
              [firstn (List.length (print_attrs (filter (fun a => negb (is_async_trait a)) (h_attrs h)) ++
                                    kw (h_unsafe h) "unsafe" ++ [TId "impl"] ++ st) + 1) out]
  | _ => na
  end.

(** ** C12: async *)
Definition future_wrapper (send : bool) (ret : option toks) : toks :=
  [TId "impl"] ++ abs_path ["core"; "future"; "Future"] ++
  [pc "<"; TId "Output"; pc "="] ++ (match ret with Some t => t | None => [TG Paren []] end) ++ [pc ">"] ++
  (if send then [pc "+"] ++ abs_path ["core"; "marker"; "Send"] else []).

Definition opt_toks_eqb (a b : option toks) : bool :=
  match a, b with
  | None, None => true
  | Some x, Some y => toks_eqb x y
  | _, _ => false
  end.

(** one source fn / method against its trait method and its implementation method *)
Definition c12_one (async_trait send : bool) (src : sig) (t : sig) (i : sig) : bool :=
  if s_async src then
    if async_trait then s_async t && opt_toks_eqb (s_output t) (s_output src) &&
                        s_async i && opt_toks_eqb (s_output i) (s_output src)
    else negb (s_async t) && opt_toks_eqb (s_output t) (Some (future_wrapper send (s_output src))) &&
         s_async i && opt_toks_eqb (s_output i) (s_output src)
  else negb (s_async t) && opt_toks_eqb (s_output t) (s_output src) &&
       negb (s_async i) && opt_toks_eqb (s_output i) (s_output src).

(** the trait side alone (used for the delegation-target trait, whose receivers differ from the source's) *)
Definition c12_trait_one (async_trait send : bool) (src t : sig) : bool :=
  if s_async src then
    if async_trait then s_async t && opt_toks_eqb (s_output t) (s_output src)
    else negb (s_async t) && opt_toks_eqb (s_output t) (Some (future_wrapper send (s_output src)))
  else negb (s_async t) && opt_toks_eqb (s_output t) (s_output src).

Fixpoint c12_trait_all (async_trait send : bool) (src ts : list sig) : bool :=
  match src, ts with
  | [], [] => true
  | s :: src', t :: ts' => c12_trait_one async_trait send s t && c12_trait_all async_trait send src' ts'
  | _, _ => false
  end.

Fixpoint c12_all (async_trait send : bool) (src ts is_ : list sig) : bool :=
  match src, ts, is_ with
  | [], [], [] => true
  | s :: src', t :: ts', i :: is' => c12_one async_trait send s t i && c12_all async_trait send src' ts' is'
  | _, _, _ => false
  end.

Definition sub_attrs_reapplied (attrs : list attr) (on_trait on_impl : list attr) : bool :=
  let want := filter is_async_trait attrs in
  forallb (fun a => existsb (toks_eqb a) on_trait && existsb (toks_eqb a) on_impl) want &&
  forallb (fun a => existsb (toks_eqb a) want) (filter is_async_trait (on_trait ++ on_impl)).

Definition has_async (l : list sig) : bool := existsb s_async l.

Definition view_C12 (c : ctx) (items : list item) : view :=
  match x_input c, source_fns (x_input c), parts (x_input c) items with
  | (InFn h _ _ | InMod h _ _ _ _), Some src, Some (GFn _ tr im | GMod _ _ _ _ tr im _ _) =>
      match fn_opts c with
      | Some o =>
          let sigs := map (fun '(_, _, s, _) => s) src in
          if has_async sigs then
            decided (c12_all (contains_async_trait (h_attrs h)) (future_send o) sigs
                             (map snd (trait_sigs tr)) (map (fun '(_, s, _) => s) (impl_fns im)) &&
                     sub_attrs_reapplied (h_attrs h) (t_attrs tr) (i_attrs im))
                    (map (fun '(_, s) => kw (s_async s) "async" ++ print_output (s_output s)) (trait_sigs tr) ++
                     filter is_async_trait (t_attrs tr ++ i_attrs im))
          else na
      | None => na
      end
  | InTrait h t, _, Some (GTrait tr ds im) =>
      match trait_attr_of c with
      | Some a =>
          let sigs := map snd (trait_sigs t) in
          if has_async sigs then
            decided (c12_all (contains_async_trait (h_attrs h)) (future_send (ta_opts a)) sigs
                             (map snd (trait_sigs tr)) (map (fun '(_, s, _) => s) (impl_fns im)) &&
                     sub_attrs_reapplied (h_attrs h) (t_attrs tr) (i_attrs im) &&
                     match ta_impl_trait a, ds with
                     | Some _, d :: _ =>
                         sub_attrs_reapplied (h_attrs h) (t_attrs d) (i_attrs im) &&
                         (* the delegation-target trait gets the same async rewrite, honouring ?Send *)
                         c12_trait_all (contains_async_trait (h_attrs h)) (future_send (ta_opts a)) sigs (map snd (trait_sigs d))
                     | _, _ => true
                     end)
                    (map (fun '(_, s) => kw (s_async s) "async" ++ print_output (s_output s))
                         (trait_sigs tr ++ flat_map trait_sigs ds) ++
                     filter is_async_trait (t_attrs tr ++ flat_map t_attrs ds ++ i_attrs im))
          else na
      | None => na
      end
  | InImpl h _ _ _ _ _, Some src, Some (GImpl _ im) =>
      let sigs := map (fun '(_, _, s, _) => s) src in
      if has_async sigs then
        (* the impl block side: methods stay async with their declared return type; async_trait re-applied *)
        decided (c12_all true true sigs (map (fun '(_, s, _) => s) (impl_fns im)) (map (fun '(_, s, _) => s) (impl_fns im)) &&
                 forallb (fun a => existsb (toks_eqb a) (i_attrs im)) (filter is_async_trait (h_attrs h)))
                (map (fun '(_, s, _) => kw (s_async s) "async" ++ print_output (s_output s)) (impl_fns im) ++
                 filter is_async_trait (i_attrs im))
      else na
  | (InFn _ _ _ | InMod _ _ _ _ _ | InTrait _ _ | InImpl _ _ _ _ _ _), _, None => undetermined
  | _, _, _ => na
  end.

(** ** C11: unimock wiring *)
Definition unmock_entry_spec (no_deps : bool) (src : sig) (emitted : sig) (deps : fn_deps) : toks :=
  match deps with
  | DNoDeps => [TId (s_name src); TG Paren (join [comma] (map (fun n => [TId n]) (typed_names emitted)))]
  | DConcrete _ => [TId "_"]
  | DGeneric _ _ => [TId (s_name src)]
  end.

(** dependency kind of a source fn, as the documentation describes it *)
Fixpoint deps_kind_of_type (g : generics) (ty : fty) : fn_deps :=
  match ty with
  | TyImpl _ b => DGeneric None (trait_bounds (life_names g) b)
  | TyRef _ _ e | TyParen e => deps_kind_of_type g e
  | TyPath false false 1 first _ =>
      if existsb (fun p => match gp_kind p with GType => String.eqb (gp_name p) first | _ => false end)
                 (p_items (g_params g))
      then DGeneric (Some first) [] else DConcrete ty
  | _ => DConcrete ty
  end.

Definition deps_kind (no_deps : bool) (s : sig) : fn_deps :=
  if no_deps then DNoDeps
  else match p_items (s_inputs s) with
       | ArgTyped _ _ ty :: _ => deps_kind_of_type (s_gen s) ty
       | _ => DNoDeps
       end.

Definition unimock_attr_spec (o : opts) (single_fn raw_trait : bool) (entries : list toks) : toks :=
  unimock_path ++
  [TG Paren (join [comma]
     ([[TId "prefix"; pc "="] ++ abs_path ["entrait"; "__unimock"]] ++
      (match o_mock_api o with
       | Some api => [[TId "api"; pc "="] ++ (if single_fn then [TG Bracket [TId api]] else [TId api])]
       | None => []
       end) ++
      (if raw_trait then [] else match entries with
                                 | [] => []
                                 | _ => [[TId "unmock_with"; pc "="; TG Bracket (join [comma] entries)]]
                                 end)))].

Fixpoint zip_entries (no_deps : bool) (src : list sig) (emitted : list sig) : list toks :=
  match src, emitted with
  | s :: src', e :: em' => unmock_entry_spec no_deps s e (deps_kind no_deps s) :: zip_entries no_deps src' em'
  | _, _ => []
  end.

Definition view_C11 (c : ctx) (items : list item) : view :=
  match x_input c, source_fns (x_input c), parts (x_input c) items with
  | (InFn h _ _ | InMod h _ _ _ _), Some src, Some (GFn _ tr _ | GMod _ _ _ _ tr _ _ _) =>
      match fn_opts c with
      | Some o =>
          match filter is_unimock_attr (minus_attrs (t_attrs tr) (h_attrs h)) with
          | [a] =>
              let single := match x_input c with InFn _ _ _ => true | _ => false end in
              let entries := zip_entries (no_deps_value o) (map (fun '(_, _, s, _) => s) src) (map snd (trait_sigs tr)) in
              decided (toks_eqb (snd (ungate a)) (unimock_attr_spec o single false entries)) [snd (ungate a)]
          | [] => na
          | _ => decided false (filter is_unimock_attr (t_attrs tr))
          end
      | None => na
      end
  | InTrait h _, _, Some (GTrait tr _ _) =>
      match trait_attr_of c with
      | Some a =>
          match filter is_unimock_attr (minus_attrs (t_attrs tr) (h_attrs h)) with
          | [u] => decided (toks_eqb (snd (ungate u)) (unimock_attr_spec (ta_opts a) false true [])) [snd (ungate u)]
          | [] => na
          | _ => decided false (filter is_unimock_attr (t_attrs tr))
          end
      | None => na
      end
  | (InFn _ _ _ | InMod _ _ _ _ _ | InTrait _ _), _, None => undetermined
  | _, _, _ => na
  end.

(** ** C18: foreign attributes *)
Definition arg_has_attrs (a : fnarg) : bool :=
  match a with
  | ArgRecv (_ :: _) _ _ _ | ArgTyped (_ :: _) _ _ => true
  | _ => false
  end.
Definition sig_no_param_attrs (s : sig) : bool := negb (existsb arg_has_attrs (p_items (s_inputs s))).

Definition macro_owned (a : attr) : bool :=
  is_mock_attr a || toks_eqb a entrait_for_trait_attr.

Definition is_cfg (a : attr) : bool := is_cfg_attr a.

Fixpoint attrs_mirrored (src ts is_ : list (list attr)) : bool :=
  match src, ts, is_ with
  | [], [], [] => true
  | a :: src', t :: ts', i :: is' => toks_list_eqb a t && toks_list_eqb a i && attrs_mirrored src' ts' is'
  | _, _, _ => false
  end.

(** the attributes of a trait method and of its implementation method are exactly the [cfg]s of the source fn, in
    order: every [cfg] is mirrored, and nothing else ([cfg_attr], docs, lints, other macros) is copied *)
Fixpoint cfgs_mirrored (src ts is_ : list (list attr)) : bool :=
  match src, ts, is_ with
  | [], [], [] => true
  | a :: src', t :: ts', i :: is' =>
      toks_list_eqb (filter is_cfg a) t && toks_list_eqb (filter is_cfg a) i &&
      cfgs_mirrored src' ts' is'
  | _, _, _ => false
  end.

(** the methods of the delegation-target trait (the first generated trait, when there is one) carry the attributes of the
    source trait's methods: a [cfg] dropped there leaves a dangling method in the trait the implementations are written against *)
Definition target_attrs_mirrored (src : list (list attr)) (ds : list item_trait) : bool :=
  match ds with
  | d :: _ => attrs_mirrored src (map fst (trait_sigs d)) (map fst (trait_sigs d))
  | [] => true
  end.

Definition view_C18 (c : ctx) (items : list item) : view :=
  match x_input c, source_fns (x_input c), parts (x_input c) items with
  | InFn h _ _, Some _, Some (GFn f tr im) =>
      let on_fn := match f with IFn a _ _ _ => a | _ => [] end in
      decided (toks_list_eqb on_fn (h_attrs h) &&
               forallb (fun a => macro_owned a || is_trait_sub a) (t_attrs tr) &&
               forallb is_async_trait (i_attrs im) &&
               forallb (fun a => existsb (toks_eqb a) (h_attrs h)) (filter (fun a => negb (macro_owned a)) (t_attrs tr) ++ i_attrs im) &&
               forallb (fun '(a, s) => match a with [] => sig_no_param_attrs s | _ => false end) (trait_sigs tr) &&
               forallb (fun '(a, s, _) => match a with [] => sig_no_param_attrs s | _ => false end) (impl_fns im))
              (t_attrs tr ++ i_attrs im)
  | InMod h _ _ _ _, Some src, Some (GMod _ _ _ _ tr im _ _) =>
      decided (forallb (fun a => macro_owned a || is_trait_sub a) (t_attrs tr) &&
               forallb is_async_trait (i_attrs im) &&
               forallb (fun '(_, s) => sig_no_param_attrs s) (trait_sigs tr) &&
               forallb (fun '(_, s, _) => sig_no_param_attrs s) (impl_fns im) &&
               cfgs_mirrored (map (fun '(a, _, _, _) => a) src) (map fst (trait_sigs tr))
                             (map (fun '(a, _, _) => a) (impl_fns im)))
              (t_attrs tr ++ i_attrs im ++ flat_map fst (trait_sigs tr) ++ flat_map (fun '(a, _, _) => a) (impl_fns im))
  | InImpl h _ _ _ _ _, Some src, Some (GImpl _ im) =>
      decided (forallb (fun '(_, s, _) => sig_no_param_attrs s) (impl_fns im) &&
               cfgs_mirrored (map (fun '(a, _, _, _) => a) src) (map (fun '(a, _, _) => a) (impl_fns im))
                             (map (fun '(a, _, _) => a) (impl_fns im)))
              (i_attrs im ++ flat_map (fun '(a, _, _) => a) (impl_fns im))
  | InTrait _ t, _, Some (GTrait tr ds im) =>
      decided (attrs_mirrored (map fst (trait_sigs t)) (map fst (trait_sigs tr)) (map (fun '(a, _, _) => a) (impl_fns im)) &&
               target_attrs_mirrored (map fst (trait_sigs t)) ds)
              (flat_map fst (trait_sigs tr) ++ flat_map (fun '(a, _, _) => a) (impl_fns im) ++
               flat_map (fun d => flat_map fst (trait_sigs d)) ds)
  | (InFn _ _ _ | InMod _ _ _ _ _ | InTrait _ _ | InImpl _ _ _ _ _ _), _, None => undetermined
  | _, _, _ => na
  end.
