(** * Known: decidable input classes of the recorded (unrepaired) findings, see /verif/known_findings.json

    The property theorems are stated for inputs outside these classes; each class comes with a
    refutation witness in Properties/. Membership depends on the input only. *)
From Coq Require Import List String Ascii Bool Arith.
From Entrait Require Import Tok Syn Opts Split FnParams Convert Codegen Proj Proj2 Proj3.
Import ListNotations.
Local Open Scope string_scope.
Local Open Scope list_scope.

(** C02 / F13: vacuous [<>] or an empty [where] in a signature: syn's printer drops them *)
Definition vacuous_generics (g : generics) : bool :=
  (g_lt g && match p_items (g_params g) with [] => true | _ => false end) ||
  match g_where g with Some p => match p_items p with [] => true | _ => false end | None => false end.

(** ... and it prints lifetime parameters first, wherever they were declared *)
Fixpoint misordered (seen_other : bool) (l : list gparam) : bool :=
  match l with
  | [] => false
  | p :: rest => if is_life p then seen_other || misordered seen_other rest else misordered true rest
  end.

Definition known_C02 (i : input) : bool :=
  match source_fns i with
  | Some l => existsb (fun '(_, _, s, _) => vacuous_generics (s_gen s) || misordered false (p_items (g_params (s_gen s)))) l
  | None => false
  end.

(** C03 / F3: two functions of one module declare a lifted generic parameter of the same name *)
Definition lifted_names (no_deps : bool) (s : sig) : list string :=
  let deps_name := match deps_kind no_deps s with DGeneric (Some n) _ => Some n | _ => None end in
  flat_map (fun p => if is_life p then []
                     else match deps_name with
                          | Some n => if String.eqb n (gp_name p) then [] else [gp_name p]
                          | None => [gp_name p]
                          end) (p_items (g_params (s_gen s))).

Definition known_C03 (c : ctx) : bool :=
  match x_input c, source_fns (x_input c), fn_opts c with
  | InMod _ _ _ _ _, Some l, Some o =>
      negb (nodup_str (flat_map (fun '(_, _, s, _) => lifted_names (no_deps_value o) s) l))
  | _, _, _ => false
  end.

(** C09 / F7: what trait mode still does not carry over *)
Definition known_C09 (i : input) : bool :=
  match i with
  | InTrait h t =>
      h_unsafe h || h_auto h ||
      existsb (fun x => match x with
                        | TType _ => true
                        | TFn _ _ (Some _) _ => true
                        | _ => false
                        end) (t_items t)
  | _ => false
  end.
