(** * ProjSide: input-only side conditions of the C04 / C05 / C14 / C19 predicates, and the guarded views

    The unguarded [view_C04] / [view_C05] / [view_C14] / [view_C19] of Proj3.v misjudge a few input classes
    (refuted in Proofs/PC04.v, PC05.v, PC14.v, PC19.v): they take user-supplied tokens for the macro's own.
    Every condition below looks at the macro's INPUT (attribute + item) only, never at the output; where it
    fails the guarded view does not speak ([na]). *)
From Coq Require Import List String Ascii Bool Arith.
From Entrait Require Import Tok Syn Opts Split FnParams Convert Codegen Proj Proj2 Proj3.
Import ListNotations.
Local Open Scope string_scope.
Local Open Scope list_scope.

Definition src_sig (x : list attr * vis * sig * toks) : sig := let '(_, _, s, _) := x in s.

(** the non-lifetime generic parameters of a function: what a concrete / [impl] / absent dependency lifts to the trait *)
Definition lifted_params (g : generics) : list gparam := filter (fun p => negb (is_life p)) (p_items (g_params g)).

(** the type of the first parameter *)
Definition first_ty (s : sig) : fty :=
  match p_items (s_inputs s) with ArgTyped _ _ t :: _ => t | _ => TyOther [] end.

(** ** C05: the function's own first lifted parameter prints with a leading [EntraitT] *)
Definition c05_clash (i : input) : bool :=
  match i with
  | InFn _ s _ => match lifted_params (s_gen s) with
                  | p :: _ => is_prefix [TId "EntraitT"] (print_gparam p)
                  | [] => false
                  end
  | _ => false
  end.

Definition view_C05g (c : ctx) (items : list item) : view :=
  if c05_clash (x_input c) then na else view_C05 c items.

(** ** C19: ... and has a bound that is not an absolute path *)
Definition c19_clash (i : input) : bool :=
  match i with
  | InFn _ s _ => match lifted_params (s_gen s) with
                  | p :: _ => is_prefix [TId "EntraitT"] (print_gparam p) &&
                              negb (c19_bounds_ok [] (print_gparam p) && c19_fixed_bounds (print_gparam p))
                  | [] => false
                  end
  | _ => false
  end.

(** every attribute the macro adds to a generated / re-emitted trait refers to its macro by an absolute path *)
Definition attr_abs (a : attr) : bool := is_prefix path_sep (snd (ungate a)).

Definition c19_attrs_view (c : ctx) (items : list item) : view :=
  match x_input c, parts (x_input c) items with
  | (InFn h _ _ | InMod h _ _ _ _), Some (GFn _ tr _ | GMod _ _ _ _ tr _ _ _) =>
      let added := minus_attrs (t_attrs tr) (filter is_trait_sub (h_attrs h)) in
      decided (forallb attr_abs added) added
  | InTrait h _, Some (GTrait tr ds _) =>
      let added := minus_attrs (t_attrs tr) (h_attrs h) ++ flat_map (fun d => minus_attrs (t_attrs d) (h_attrs h)) ds in
      decided (forallb attr_abs added) added
  | (InFn _ _ _ | InMod _ _ _ _ _ | InTrait _ _), None => undetermined
  | _, _ => na
  end.

(** both views, where they speak *)
Definition view_and (a b : view) : view :=
  if v_app a then
    if v_app b then mkView true (v_det a && v_det b) (v_holds a && v_holds b) (v_alpha a ++ v_alpha b) else a
  else b.

(** C08's last sentence ("importable from the module's parent under the requested name and visibility, as if it had
    been declared next to the module") is the module branch of C13's predicate *)
Definition view_C13_mod (c : ctx) (items : list item) : view :=
  match x_input c with InMod _ _ _ _ _ => view_C13 c items | _ => na end.
Definition view_C08g (c : ctx) (items : list item) : view :=
  view_and (view_C08 c items) (view_C13_mod c items).

Definition view_C19g (c : ctx) (items : list item) : view :=
  if c19_clash (x_input c) then na else view_and (view_C19 c items) (c19_attrs_view c items).

(** ** C04: distinct type parameter names; no where predicate printed as [Self: ...] *)
Definition tparam_names (g : generics) : list string :=
  map gp_name (filter (fun p => match gp_kind p with GType => true | _ => false end) (p_items (g_params g))).

Definition c04_sig_side (s : sig) : bool :=
  nodup_str (tparam_names (s_gen s)) &&
  forallb (fun w => negb (is_prefix [TId "Self"; pc ":"] (wp_toks w))) (where_items (s_gen s)).

Definition c04_side (c : ctx) : bool :=
  match x_input c with
  | InFn _ _ _ | InMod _ _ _ _ _ =>
      match source_fns (x_input c) with
      | Some src => forallb c04_sig_side (map src_sig src)
      | None => true
      end
  | _ => true
  end.

(** C04's "a mockable one for [Impl<T>] (and the mock type)": where the impl is restricted to [Impl<T>] the mock
    derivations that give the mock types their implementation are on the trait, and only there — C10's predicate
    on fn / mod inputs *)
Definition view_C10_fnmod (c : ctx) (items : list item) : view :=
  match x_input c with InFn _ _ _ | InMod _ _ _ _ _ => view_C10 c items | _ => na end.

Definition view_C04g (c : ctx) (items : list item) : view :=
  view_and (if c04_side c then view_C04 c items else na) (view_C10_fnmod c items).

(** ** C14: the user's own identifiers and tokens that end up in the scanned regions do not mention [dyn] / [Box] *)
Definition NB : list string := ["dyn"; "Box"].
Definition name_ok (s : string) : bool := negb (str_mem s NB).
Definition api_ok (api : option string) : bool := match api with Some a => name_ok a | None => true end.

(** function name and the names its forwarded parameters ask for *)
Definition names_ok_sig (nd : bool) (s : sig) : bool :=
  name_ok (s_name s) && forallb name_ok (somes (map desired_name (forwarded_src_args nd s))).

Definition c14_fn_side (o : opts) (h : head) (sigs : list sig) : bool :=
  forallb (names_ok_sig (no_deps_value o)) sigs &&
  (negb (unimock_value o) || api_ok (o_mock_api o)) &&
  negb (existsb (mentions NB) (filter is_trait_sub (h_attrs h))).

(** concrete dependencies: the impl block's first parameter and self type are the user's *)
Definition c14_concrete_side (nd : bool) (s : sig) : bool :=
  negb (is_concrete (deps_kind nd s)) ||
  (negb (mentions NB (match lifted_params (s_gen s) with p :: _ => print_gparam p | [] => [] end)) &&
   negb (mentions NB (print_fty (strip_refs (first_ty s))))).

Definition c14_trait_side (a : trait_attr) (h : head) (t : item_trait) : bool :=
  name_ok (t_name t) && forallb name_ok (map gp_name (p_items (g_params (t_gen t)))) &&
  (match ta_impl_trait a with Some it => name_ok it | None => true end) &&
  (match ta_delegate a with Some (ByTrait d) => name_ok d | _ => true end) &&
  forallb (fun '(_, s) => name_ok (s_name s) && forallb name_ok (plain_names (p_items (s_inputs s)))) (trait_sigs t) &&
  (negb (unimock_value (ta_opts a)) || api_ok (o_mock_api (ta_opts a))) &&
  negb (existsb (mentions NB) (filter is_mock_attr (h_attrs h))).

Definition c14_side (c : ctx) : bool :=
  match x_input c with
  | InFn h s _ =>
      match fn_opts c with
      | Some o => c14_fn_side o h [s] && c14_concrete_side (no_deps_value o) s
      | None => true
      end
  | InMod h _ _ _ _ =>
      match fn_opts c, source_fns (x_input c) with
      | Some o, Some src => c14_fn_side o h (map src_sig src)
      | _, _ => true
      end
  | InImpl _ _ _ _ _ _ =>
      match source_fns (x_input c) with
      | Some src => forallb (names_ok_sig false) (map src_sig src)
      | None => true
      end
  | InTrait h t => match trait_attr_of c with Some a => c14_trait_side a h t | None => true end
  | _ => true
  end.

Definition view_C14g (c : ctx) (items : list item) : view :=
  if c14_side c then view_C14 c items else na.
