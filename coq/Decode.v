(** * Decode: s-expressions (from synx) -> the AST of Syn.v *)
From Coq Require Import List String Ascii Bool Arith.
From Entrait Require Import Tok Sexp Syn.
Import ListNotations.
Local Open Scope string_scope.
Local Open Scope list_scope.

Definition d_attrs : dec (list attr) := d_list "attrs" d_toks.
Definition d_bounds : dec (list toks) := d_list "bounds" d_toks.

Definition d_punct {A} (d : dec A) : dec (punct A) := fun s =>
  match s with
  | SList (SAtom "pl" :: tr :: rest) =>
      do t <- d_bool tr; do xs <- map_opt d rest; Some (mkP xs t)
  | _ => None
  end.

Definition d_gkind : dec gkind := fun s =>
  match s with
  | SAtom "life" => Some GLife
  | SAtom "type" => Some GType
  | SAtom "const" => Some GConst
  | _ => None
  end.

Definition d_gparam : dec gparam := fun s =>
  match s with
  | SList [SAtom "gp"; k; a; n; r; bs] =>
      do k' <- d_gkind k; do a' <- d_attrs a; do n' <- d_str n; do r' <- d_toks r; do b' <- d_bounds bs;
      Some (mkGP k' a' n' r' b')
  | _ => None
  end.

Definition d_bounded : dec bounded := fun s =>
  match s with
  | SAtom "bother" => Some BOther
  | SList [SAtom "bpath"; q; l; n; f] =>
      do q' <- d_bool q; do l' <- d_bool l; do n' <- d_nat n; do f' <- d_str f; Some (BPath q' l' n' f')
  | _ => None
  end.

Definition d_wpred : dec wpred := fun s =>
  match s with
  | SList [SAtom "wp"; t; bd; bs; ts; bi] =>
      do t' <- d_bool t; do bd' <- d_bounded bd; do bs' <- d_bounds bs; do ts' <- d_toks ts; do bi' <- d_toks bi;
      Some (mkWP t' bd' bs' ts' bi')
  | _ => None
  end.

Definition d_generics : dec generics := fun s =>
  match s with
  | SList [SAtom "gen"; lt; ps; w] =>
      do lt' <- d_bool lt; do ps' <- d_punct d_gparam ps; do w' <- d_opt (d_punct d_wpred) w;
      Some (mkGen lt' ps' w')
  | _ => None
  end.

Fixpoint d_fty (s : sexp) : option fty :=
  match s with
  | SList [SAtom "tref"; l; m; e] =>
      do l' <- d_opt d_str l; do m' <- d_bool m; do e' <- d_fty e; Some (TyRef l' m' e')
  | SList [SAtom "tparen"; e] => do e' <- d_fty e; Some (TyParen e')
  | SList [SAtom "timpl"; tr; bs] => do tr' <- d_bool tr; do bs' <- d_bounds bs; Some (TyImpl tr' bs')
  | SList [SAtom "tpath"; q; l; n; f; ts] =>
      do q' <- d_bool q; do l' <- d_bool l; do n' <- d_nat n; do f' <- d_str f; do ts' <- d_toks ts;
      Some (TyPath q' l' n' f' ts')
  | SList [SAtom "tother"; ts] => do ts' <- d_toks ts; Some (TyOther ts')
  | _ => None
  end.

Definition d_pat : dec pat := fun s =>
  match s with
  | SList [SAtom "pid"; r; m; n; sub] =>
      do r' <- d_bool r; do m' <- d_bool m; do n' <- d_str n; do sub' <- d_toks sub; Some (PIdent r' m' n' sub')
  | SList [SAtom "pnon"; ts; bs] =>
      do ts' <- d_toks ts; do bs' <- d_list "binds" d_str bs; Some (PNon ts' bs')
  | _ => None
  end.

Definition d_fnarg : dec fnarg := fun s =>
  match s with
  | SList [SAtom "recv"; a; r; m; c] =>
      do a' <- d_attrs a; do r' <- d_opt (d_opt d_str) r; do m' <- d_bool m; do c' <- d_opt d_toks c;
      Some (ArgRecv a' r' m' c')
  | SList [SAtom "typed"; a; p; t] =>
      do a' <- d_attrs a; do p' <- d_pat p; do t' <- d_fty t; Some (ArgTyped a' p' t')
  | _ => None
  end.

Definition d_sig : dec sig := fun s =>
  match s with
  | SList [SAtom "sig"; c; a; u; abi; n; g; ins; v; o] =>
      do c' <- d_bool c; do a' <- d_bool a; do u' <- d_bool u; do abi' <- d_opt d_toks abi;
      do n' <- d_str n; do g' <- d_generics g; do ins' <- d_punct d_fnarg ins;
      do v' <- d_opt d_toks v; do o' <- d_opt d_toks o;
      Some (mkSig c' a' u' abi' n' g' ins' v' o')
  | _ => None
  end.

Definition d_titem : dec titem := fun s =>
  match s with
  | SList [SAtom "tfn"; a; sg; d; semi] =>
      do a' <- d_attrs a; do sg' <- d_sig sg; do d' <- d_opt d_toks d; do semi' <- d_bool semi;
      Some (TFn a' sg' d' semi')
  | SList [SAtom "ttype"; ts] => do ts' <- d_toks ts; Some (TType ts')
  | SList [SAtom "tother"; ts] => do ts' <- d_toks ts; Some (TOther ts')
  | _ => None
  end.

Definition d_trait : dec item_trait := fun s =>
  match s with
  | SList [SAtom "trait"; a; v; u; au; n; g; c; sup; its] =>
      do a' <- d_attrs a; do v' <- d_toks v; do u' <- d_bool u; do au' <- d_bool au; do n' <- d_str n;
      do g' <- d_generics g; do c' <- d_bool c; do sup' <- d_punct d_toks sup;
      do its' <- d_list "items" d_titem its;
      Some (mkTrait a' v' u' au' n' g' c' sup' its')
  | _ => None
  end.

Definition d_iitem : dec iitem := fun s =>
  match s with
  | SList [SAtom "ifn"; a; v; sg; body] =>
      do a' <- d_attrs a; do v' <- d_toks v; do sg' <- d_sig sg; do b' <- d_toks body; Some (IIFn a' v' sg' b')
  | SList [SAtom "iother"; ts] => do ts' <- d_toks ts; Some (IIOther ts')
  | _ => None
  end.

Definition d_impl : dec item_impl := fun s =>
  match s with
  | SList [SAtom "impl"; a; u; g; t; st; its] =>
      do a' <- d_attrs a; do u' <- d_bool u; do g' <- d_generics g; do t' <- d_opt d_toks t;
      do st' <- d_toks st; do its' <- d_list "items" d_iitem its;
      Some (mkImpl a' u' g' t' st' its')
  | _ => None
  end.

Fixpoint d_item (s : sexp) : option item :=
  match s with
  | SList [SAtom "fn"; a; v; sg; body] =>
      do a' <- d_attrs a; do v' <- d_toks v; do sg' <- d_sig sg; do b' <- d_toks body; Some (IFn a' v' sg' b')
  | SList (SAtom "trait" :: _) => do t <- d_trait s; Some (ITrait t)
  | SList (SAtom "impl" :: _) => do i <- d_impl s; Some (IImpl i)
  | SList [SAtom "mod"; a; v; n; SList (SAtom "items" :: its)] =>
      do a' <- d_attrs a; do v' <- d_toks v; do n' <- d_str n;
      do its' <- (fix go (l : list sexp) : option (list item) :=
                    match l with
                    | [] => Some []
                    | x :: xs => do y <- d_item x; do ys <- go xs; Some (y :: ys)
                    end) its;
      Some (IMod a' v' n' its')
  | SList [SAtom "use"; a; v; tree] =>
      do a' <- d_attrs a; do v' <- d_toks v; do t' <- d_toks tree; Some (IUse a' v' t')
  | SList [SAtom "other"; ts] => do ts' <- d_toks ts; Some (IOther ts')
  | _ => None
  end.

Definition d_sig_at : dec sig_at := fun s =>
  match s with
  | SList [off; len; sg] => do o <- d_nat off; do l <- d_nat len; do sg' <- d_sig sg; Some (mkSigAt o l sg')
  | _ => None
  end.

Definition d_head (a v u au : sexp) : option head :=
  do a' <- d_attrs a; do v' <- d_toks v; do u' <- d_bool u; do au' <- d_bool au; Some (mkHead a' v' u' au').

Definition d_input : dec input := fun s =>
  match s with
  | SList [SAtom "in_fn"; a; v; u; au; sg; body] =>
      do h <- d_head a v u au; do sg' <- d_sig sg; do b' <- d_toks body; Some (InFn h sg' b')
  | SList [SAtom "in_fn_err"; a; v; u; au] => do h <- d_head a v u au; Some (InFnErr h)
  | SList [SAtom "in_trait"; a; v; u; au; t] => do h <- d_head a v u au; do t' <- d_trait t; Some (InTrait h t')
  | SList [SAtom "in_trait_err"; a; v; u; au] => do h <- d_head a v u au; Some (InTraitErr h)
  | SList [SAtom "in_impl"; a; v; u; au; tp; st; body; sigs; fns] =>
      do h <- d_head a v u au; do tp' <- d_toks tp; do st' <- d_toks st; do b' <- d_toks body;
      do sg' <- d_list "sigs" d_sig_at sigs; do fns' <- d_opt (d_list "names" d_str) fns;
      Some (InImpl h tp' st' b' sg' fns')
  | SList [SAtom "in_impl_err"; a; v; u; au] => do h <- d_head a v u au; Some (InImplErr h)
  | SList [SAtom "in_mod"; a; v; u; au; n; body; sigs; fns] =>
      do h <- d_head a v u au; do n' <- d_str n; do b' <- d_toks body;
      do sg' <- d_list "sigs" d_sig_at sigs; do fns' <- d_opt (d_list "names" d_str) fns;
      Some (InMod h n' b' sg' fns')
  | SList [SAtom "in_mod_err"; a; v; u; au] => do h <- d_head a v u au; Some (InModErr h)
  | SList [SAtom "in_head_err"] => Some InHeadErr
  | _ => None
  end.

(** what the recorder saw coming back from the macro *)
Inductive real_out :=
| RPanic                                       (* BEGIN without END *)
| ROut (ts : toks) (items : option (list item)).

Definition d_real_out : dec real_out := fun s =>
  match s with
  | SAtom "panic" => Some RPanic
  | SList [SAtom "out"; ts; SAtom "unparsable"] => do ts' <- d_toks ts; Some (ROut ts' None)
  | SList [SAtom "out"; ts; its] =>
      do ts' <- d_toks ts; do its' <- d_list "items" d_item its; Some (ROut ts' (Some its'))
  | _ => None
  end.

Record case := mkCase {
  c_variant : string;
  c_site : string;
  c_attr : toks;
  c_input_toks : toks;
  c_input : input;
  c_real : real_out
}.

Definition d_case : dec case := fun s =>
  match s with
  | SList [SAtom "case"; v; site; a; it; inp; out] =>
      do v' <- d_str v; do site' <- d_str site; do a' <- d_toks a; do it' <- d_toks it;
      do inp' <- d_input inp; do out' <- d_real_out out;
      Some (mkCase v' site' a' it' inp' out')
  | _ => None
  end.
