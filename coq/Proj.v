(** * Proj: per-property decidable predicates [holds] and projections [alpha] on (input, output items)

    Everything here looks only at the macro's *input* (as recorded) and at an *output item list* — the
    model's own, or the one syn parsed from the real macro's tokens. None of these definitions calls
    [expand]. The theorems in Proofs/ show that [expand]'s output satisfies them; the checker evaluates
    them on what the implementation emitted. *)
From Coq Require Import List String Ascii Bool Arith.
From Entrait Require Import Tok Syn Opts Split FnParams Convert Codegen.
Import ListNotations.
Local Open Scope string_scope.
Local Open Scope list_scope.

Record view := mkView {
  v_app : bool;            (* the property speaks about this case *)
  v_det : bool;            (* the output had a shape the predicate understands *)
  v_holds : bool;
  v_alpha : list toks      (* what the property looks at; compared between model and implementation *)
}.

Definition na : view := mkView false true true [].
Definition undetermined : view := mkView true false false [].
Definition decided (h : bool) (alpha : list toks) : view := mkView true true h alpha.

Record ctx := mkCtx { x_variant : variant; x_attr : toks; x_input : input }.

(** ** Locating the generated parts *)
Inductive gen_parts :=
| GFn (f : item) (tr : item_trait) (im : item_impl)
| GMod (attrs : list attr) (v : vis) (name : string) (user : list item) (tr : item_trait) (im : item_impl)
       (use_vis : vis) (use_tree : toks)
| GTrait (tr : item_trait) (deleg : list item_trait) (im : item_impl)
| GImpl (inherent im : item_impl).

Fixpoint split_last2 {A} (l : list A) : option (list A * A * A) :=
  match l with
  | [] | [_] => None
  | [a; b] => Some ([], a, b)
  | x :: rest => match split_last2 rest with
                 | Some (pre, a, b) => Some (x :: pre, a, b)
                 | None => None
                 end
  end.

Fixpoint all_traits (l : list item) : option (list item_trait) :=
  match l with
  | [] => Some []
  | ITrait t :: rest => match all_traits rest with Some r => Some (t :: r) | None => None end
  | _ => None
  end.

Definition parts (i : input) (items : list item) : option gen_parts :=
  match i with
  | InFn _ _ _ =>
      match items with
      | [IFn a v s b; ITrait tr; IImpl im] => Some (GFn (IFn a v s b) tr im)
      | _ => None
      end
  | InMod _ _ _ _ _ =>
      match items with
      | [IMod attrs v name inner; IUse [] uv tree] =>
          match split_last2 inner with
          | Some (user, ITrait tr, IImpl im) => Some (GMod attrs v name user tr im uv tree)
          | _ => None
          end
      | _ => None
      end
  | InTrait _ _ =>
      match items with
      | ITrait tr :: rest =>
          match split_last2 (ITrait tr :: rest) with
          | Some (pre, x, IImpl im) =>
              match all_traits (tl (pre ++ [x])) with
              | Some ds => Some (GTrait tr ds im)
              | None => None
              end
          | _ => match rest with [IImpl im] => Some (GTrait tr [] im) | _ => None end
          end
      | _ => None
      end
  | InImpl _ _ _ _ _ _ =>
      match items with
      | [IImpl inh; IImpl im] => Some (GImpl inh im)
      | _ => None
      end
  | _ => None
  end.

Definition trait_sigs (t : item_trait) : list (list attr * sig) :=
  flat_map (fun x => match x with TFn a s _ _ => [(a, s)] | _ => [] end) (t_items t).
Definition impl_fns (i : item_impl) : list (list attr * sig * toks) :=
  flat_map (fun x => match x with IIFn a _ s b => [(a, s, b)] | _ => [] end) (i_items i).

Definition only_trait_fns (t : item_trait) : bool :=
  forallb (fun x => match x with TFn _ _ None true => true | _ => false end) (t_items t).
Definition only_impl_fns (i : item_impl) : bool :=
  forallb (fun x => match x with IIFn _ [] _ _ => true | _ => false end) (i_items i).

(** ** Input-side facts *)
Definition fn_opts (c : ctx) : option opts :=
  match parse_fn_attr (x_attr c) with
  | Ok a => Some (apply_variant (x_variant c) (fa_opts a))
  | _ => None
  end.
Definition fn_attr_of (c : ctx) : option fn_attr :=
  match parse_fn_attr (x_attr c) with Ok a => Some a | _ => None end.
Definition trait_attr_of (c : ctx) : option trait_attr :=
  match parse_trait_attr (x_attr c) with
  | Ok a => Some (mkTraitAttr (ta_impl_trait a) (apply_variant (x_variant c) (ta_opts a)) (ta_delegate a))
  | _ => None
  end.
Definition impl_attr_of (c : ctx) : option impl_attr :=
  match parse_impl_attr (x_attr c) with Ok a => Some a | _ => None end.

(** the functions the macro was asked to put behind the trait: [(attrs, vis, sig, body)] *)
Definition source_fns (i : input) : option (list (list attr * vis * sig * toks)) :=
  match i with
  | InFn h s body =>
      (* a leading [unsafe] is part of the function's signature *)
      Some [(h_attrs h, h_vis h,
             mkSig (s_const s) (s_async s) (s_unsafe s || h_unsafe h) (s_abi s) (s_name s) (s_gen s)
                   (s_inputs s) (s_variadic s) (s_output s), body)]
  | InMod _ _ body sigs _ => match split_body true sigs body with Ok (l, _) => Some (body_fns l) | _ => None end
  | InImpl _ _ _ body sigs _ => match split_body false sigs body with Ok (l, _) => Some (body_fns l) | _ => None end
  | _ => None
  end.

Fixpoint str_list_eqb (a b : list string) : bool :=
  match a, b with
  | [], [] => true
  | x :: xs, y :: ys => String.eqb x y && str_list_eqb xs ys
  | _, _ => false
  end.

Fixpoint toks_list_eqb (a b : list toks) : bool :=
  match a, b with
  | [], [] => true
  | x :: xs, y :: ys => toks_eqb x y && toks_list_eqb xs ys
  | _, _ => false
  end.

Fixpoint nodup_str (l : list string) : bool :=
  match l with
  | [] => true
  | x :: xs => negb (str_mem x xs) && nodup_str xs
  end.

Definition ids (l : list string) : toks := map TId l.
Definition typed_names (s : sig) : list string := plain_names (p_items (s_inputs s)).

Definition typed_args (s : sig) : list fnarg :=
  filter (fun a => match a with ArgTyped _ _ _ => true | _ => false end) (p_items (s_inputs s)).

Definition is_plain_ident_arg (a : fnarg) : bool :=
  match a with
  | ArgTyped _ (PIdent false false _ []) _ => true
  | ArgRecv _ _ _ _ => true
  | _ => false
  end.

(** ** C01 / C07(impl half): delegating bodies *)
Definition expected_body (scoped with_self : bool) (s : sig) (await : bool) : toks :=
  [TG Brace ((if scoped then [TId "Self"] ++ path_sep else []) ++
             [TId (s_name s);
              TG Paren ((if with_self then [TId "self"; comma] else []) ++
                        join [comma] (map (fun n => [TId n]) (typed_names s)))] ++
             (if await then [pc "."; TId "await"] else []))].

Fixpoint bodies_ok (scoped with_self : bool) (src : list (string * bool)) (ms : list (list attr * sig * toks)) : bool :=
  match src, ms with
  | [], [] => true
  | (n, a) :: src', (_, s, b) :: ms' =>
      String.eqb (s_name s) n && forallb is_pident (p_items (s_inputs s)) &&
      toks_eqb b (expected_body scoped with_self s a) && bodies_ok scoped with_self src' ms'
  | _, _ => false
  end.

Definition src_names_async (l : list (list attr * vis * sig * toks)) : list (string * bool) :=
  map (fun '(_, _, s, _) => (s_name s, s_async s)) l.

Definition view_C01 (c : ctx) (items : list item) : view :=
  match x_input c with
  | InFn _ _ _ | InMod _ _ _ _ _ =>
      match fn_opts c, source_fns (x_input c), parts (x_input c) items with
      | Some o, Some src, Some (GFn _ _ im | GMod _ _ _ _ _ im _ _) =>
          decided (only_impl_fns im && bodies_ok false (negb (no_deps_value o)) (src_names_async src) (impl_fns im))
                  (map (fun '(_, s, b) => b ++ ids (typed_names s)) (impl_fns im))
      | Some _, Some _, None => undetermined
      | _, _, _ => na
      end
  | _ => na
  end.

(** ** C16: generated parameter names *)
Definition names_usable (s : sig) : bool :=
  forallb is_plain_ident_arg (p_items (s_inputs s)) &&
  (* distinct as identifiers: [r#x] and [x] are the same identifier *)
  nodup_str (map unraw (typed_names s)) && negb (str_mem (unraw (s_name s)) (map unraw (typed_names s))).

(** the name the property's rules ask for, when they ask for one *)
Definition desired_name (a : fnarg) : option string :=
  match a with
  | ArgTyped _ (PIdent _ _ n _) _ => Some n
  | ArgTyped _ (PNon _ binds) _ => match filter lower_initial binds with [b] => Some b | _ => None end
  | ArgRecv _ _ _ _ => None
  end.

Fixpoint somes {A} (l : list (option A)) : list A :=
  match l with [] => [] | Some x :: r => x :: somes r | None :: r => somes r end.

Fixpoint rules_ok (desired : list (option string)) (out : list string) : bool :=
  match desired, out with
  | [], [] => true
  | Some d :: ds, o :: os => String.eqb d o && rules_ok ds os
  | None :: ds, _ :: os => rules_ok ds os
  | _, _ => false
  end.

(** source parameters that become typed parameters of the method (the dependency parameter excluded) *)
Definition is_typed (a : fnarg) : bool := match a with ArgTyped _ _ _ => true | _ => false end.
Definition forwarded_src_args (no_deps : bool) (s : sig) : list fnarg :=
  filter is_typed (if no_deps then p_items (s_inputs s) else tl (p_items (s_inputs s))).

(** typed parameters of the emitted method that stem from source parameters ([__impl] is the macro's own) *)
Definition out_names (k : receiver_kind) (s : sig) : list string :=
  match k with
  | RSelfRef => typed_names s
  | RStaticImpl | RDynamicImpl => tl (typed_names s)
  end.

Definition c16_rules (k : receiver_kind) (no_deps : bool) (src out : sig) : bool :=
  let desired := map desired_name (forwarded_src_args no_deps src) in
  let wanted := somes desired in
  (* the rules speak when the wanted names are distinct and none is the function's own name; for impl
     blocks [__impl] is the macro's reserved receiver identifier *)
  if nodup_str (map unraw wanted) && negb (str_mem (unraw (s_name src)) (map unraw wanted))
     && negb (match k with RSelfRef => false | _ => str_mem "__impl" (map unraw (s_name src :: wanted)) end)
  then rules_ok desired (out_names k out)
  else Nat.eqb (List.length desired) (List.length (out_names k out)).

Fixpoint c16_all (k : receiver_kind) (no_deps : bool) (src : list sig) (tsigs isigs : list sig) : bool :=
  match src, tsigs, isigs with
  | [], [], [] => true
  | s :: src', t :: ts, i :: is_ =>
      names_usable t && names_usable i && c16_rules k no_deps s t &&
      str_list_eqb (typed_names t) (typed_names i) && c16_all k no_deps src' ts is_
  | _, _, _ => false
  end.

Definition view_C16 (c : ctx) (items : list item) : view :=
  match x_input c, source_fns (x_input c), parts (x_input c) items with
  | (InFn _ _ _ | InMod _ _ _ _ _), Some src, Some (GFn _ tr im | GMod _ _ _ _ tr im _ _) =>
      match fn_opts c with
      | Some o =>
          decided (c16_all RSelfRef (no_deps_value o) (map (fun '(_, _, s, _) => s) src)
                           (map snd (trait_sigs tr)) (map (fun '(_, s, _) => s) (impl_fns im)))
                  (map (fun '(_, s) => ids (typed_names s)) (trait_sigs tr))
      | None => na
      end
  | InImpl _ _ _ _ _ _, Some src, Some (GImpl _ im) =>
      match impl_attr_of c with
      | Some a =>
          let k := match ia_kind a with KStatic => RStaticImpl | KDynRef => RDynamicImpl end in
          let isigs := map (fun '(_, s, _) => s) (impl_fns im) in
          decided (c16_all k false (map (fun '(_, _, s, _) => s) src) isigs isigs)
                  (map (fun s => ids (typed_names s)) isigs)
      | None => na
      end
  | (InFn _ _ _ | InMod _ _ _ _ _ | InImpl _ _ _ _ _ _), Some _, None => undetermined
  | _, _, _ => na
  end.

(** ** C13: visibility of generated traits *)
Definition view_C13 (c : ctx) (items : list item) : view :=
  match x_input c, parts (x_input c) items with
  | InFn _ _ _, Some (GFn _ tr _) =>
      match fn_attr_of c with
      | Some a => decided (toks_eqb (t_vis tr) (fa_vis a)) [t_vis tr]
      | None => na
      end
  | InMod _ name _ _ _, Some (GMod _ _ _ _ tr _ uv tree) =>
      match fn_attr_of c with
      | Some a =>
          decided (toks_eqb (t_vis tr) (module_vis (fa_vis a)) &&
                   toks_eqb uv (fa_vis a) &&
                   toks_eqb tree ([TId name] ++ path_sep ++ [TId (fa_trait a)]) && String.eqb (t_name tr) (fa_trait a))
                  [t_vis tr; uv; tree]
      | None => na
      end
  | InTrait h _, Some (GTrait tr ds _) =>
      decided (toks_eqb (t_vis tr) (h_vis h) &&
               match ds with
               | [] => true
               | d :: _ => toks_eqb (t_vis d) (h_vis h)
               end)
              (t_vis tr :: map t_vis ds)
  | (InFn _ _ _ | InMod _ _ _ _ _ | InTrait _ _), None => undetermined
  | _, _ => na
  end.

(** ** C10: mock attributes *)
Definition unimock_path : toks := abs_path ["entrait"; "__unimock"; "unimock"].

Fixpoint is_prefix (pre l : toks) : bool :=
  match pre, l with
  | [], _ => true
  | x :: xs, y :: ys => tt_eqb x y && is_prefix xs ys
  | _, [] => false
  end.

(** [(gated, inner)] of an attribute: [cfg_attr(test, inner)] or [inner] *)
Definition ungate (a : attr) : bool * toks :=
  match a with
  | [TId "cfg_attr"; TG Paren (TId "test" :: TP ","%char :: inner)] => (true, inner)
  | _ => (false, a)
  end.

Definition is_unimock_attr (a : attr) : bool := is_prefix unimock_path (snd (ungate a)).
Definition is_mockall_attr (a : attr) : bool := toks_eqb (snd (ungate a)) (abs_path ["mockall"; "automock"]).
Definition is_mock_attr (a : attr) : bool := is_unimock_attr a || is_mockall_attr a.

(** attributes of the emitted trait that the macro added: the user's own (multiset) removed *)
Fixpoint remove_one (a : attr) (l : list attr) : option (list attr) :=
  match l with
  | [] => None
  | x :: r => if toks_eqb a x then Some r
              else match remove_one a r with Some r' => Some (x :: r') | None => None end
  end.
Fixpoint minus_attrs (l user : list attr) : list attr :=
  match user with
  | [] => l
  | u :: rest => match remove_one u l with
                 | Some l' => minus_attrs l' rest
                 | None => minus_attrs l rest
                 end
  end.

Definition c10_ok (o : opts) (needs_api : bool) (attrs : list attr) : bool :=
  let want_unimock := unimock_value o && (negb needs_api || is_some (o_mock_api o)) in
  let want_mockall := mockall_value o in
  Nat.eqb (List.length (filter is_unimock_attr attrs)) (if want_unimock then 1 else 0) &&
  Nat.eqb (List.length (filter is_mockall_attr attrs)) (if want_mockall then 1 else 0) &&
  forallb (fun a => Bool.eqb (fst (ungate a)) (negb (export_value o))) (filter is_mock_attr attrs).

Definition view_C10 (c : ctx) (items : list item) : view :=
  match x_input c, parts (x_input c) items with
  | (InFn h _ _ | InMod h _ _ _ _), Some (GFn _ tr _ | GMod _ _ _ _ tr _ _ _) =>
      match fn_opts c with
      | Some o => (* only async_trait / automock sub-attributes of the user are re-applied to the trait *)
                  let added := minus_attrs (t_attrs tr) (filter is_trait_sub (h_attrs h)) in
                  decided (c10_ok o true added) (filter is_mock_attr added)
      | None => na
      end
  | InTrait h _, Some (GTrait tr ds _) =>
      match trait_attr_of c with
      | Some a => let added := minus_attrs (t_attrs tr) (h_attrs h) in
                  decided (c10_ok (ta_opts a) false added &&
                           forallb (fun d => negb (existsb is_mock_attr (minus_attrs (t_attrs d) (h_attrs h)))) ds)
                          (filter is_mock_attr (added ++ flat_map (fun d => minus_attrs (t_attrs d) (h_attrs h)) ds))
      | None => na
      end
  | (InFn _ _ _ | InMod _ _ _ _ _ | InTrait _ _), None => undetermined
  | _, _ => na
  end.

(** ** C08: module mode — methods are exactly the visible functions *)
Definition view_C08 (c : ctx) (items : list item) : view :=
  match x_input c, parts (x_input c) items with
  | InMod _ _ _ _ (Some syn_fns), Some (GMod _ _ _ _ tr im _ _) =>
      let names := map (fun '(_, s) => s_name s) (trait_sigs tr) in
      decided (str_list_eqb names syn_fns && only_trait_fns tr &&
               str_list_eqb (map (fun '(_, s, _) => s_name s) (impl_fns im)) syn_fns)
              [ids names]
  | InMod _ _ _ _ None, Some _ => na
  | InMod _ _ _ _ _, None => undetermined
  | _, _ => na
  end.
