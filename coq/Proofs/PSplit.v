(** * PSplit: the token-level item splitter of input.rs is lossless *)
From Coq Require Import List String Ascii Bool Arith Lia.
From Entrait Require Import Tok Syn Opts Split.
From Entrait.Proofs Require Import Base.
Import ListNotations.
Local Open Scope list_scope.

(** ** [parse_outer]: the attributes it takes, printed back, followed by the rest, are the input *)
Lemma parse_outer_spec : forall ts attrs r, parse_outer ts = Ok (attrs, r) -> ts = print_attrs attrs ++ r.
Proof.
  fix IH 1. intros ts attrs r H. destruct ts as [|t ts1]; [injection H as <- <-; reflexivity|].
  destruct t as [s|c|s|d g]; try (injection H as <- <-; reflexivity).
  cbn [parse_outer] in H. destruct (Ascii.eqb c "#"%char) eqn:Ec; [|injection H as <- <-; reflexivity].
  apply Ascii.eqb_eq in Ec. subst c.
  destruct ts1 as [|t2 ts2]; [discriminate H|].
  destruct t2 as [s|c|s|d g]; try discriminate H. destruct d; try discriminate H.
  destruct (rbind_ok _ _ _ H) as [[more rest'] [E H2]]. cbv beta in H2. injection H2 as <- <-.
  rewrite (IH _ _ _ E) at 1. reflexivity.
Qed.

Lemma print_attrs_app a b : print_attrs (a ++ b) = print_attrs a ++ print_attrs b.
Proof. unfold print_attrs. apply flat_map_app. Qed.

(** ** [parse_vis] *)
Lemma parse_vis_spec ts : let '(v, r) := parse_vis ts in ts = v ++ r.
Proof.
  destruct ts as [|t ts1]; [reflexivity|]. destruct t as [s|c|s|d g]; try reflexivity.
  cbn [parse_vis]. destruct (String.eqb s "pub") eqn:Es; [|reflexivity].
  apply String.eqb_eq in Es. subst s. destruct ts1 as [|t2 ts2]; [reflexivity|].
  destruct t2 as [s|c|s|d g]; try reflexivity. destruct d; try reflexivity.
  destruct (restricted_head g); reflexivity.
Qed.

(** ** [matched_braces_or_semi] *)
Lemma take_item_spec : forall ts taken rest, take_item ts = Some (taken, rest) -> ts = taken ++ rest.
Proof.
  induction ts as [|t ts IH]; intros taken rest H; simpl in H; [discriminate|].
  destruct (is_brace t || is_semi t).
  - injection H as <- <-. reflexivity.
  - destruct (take_item ts) as [[tk rs]|]; [|discriminate]. injection H as <- <-. rewrite (IH _ _ eq_refl). reflexivity.
Qed.

Lemma take_semis_spec : forall ts, let '(s, r) := take_semis ts in ts = s ++ r.
Proof.
  induction ts as [|t ts IH]; [reflexivity|]. simpl. destruct (is_semi t); [|reflexivity].
  destruct (take_semis ts) as [s r]. simpl. rewrite IH at 1. reflexivity.
Qed.

Lemma matched_spec ts tokens rest : matched_braces_or_semi ts = Ok (tokens, rest) -> ts = tokens ++ rest.
Proof.
  unfold matched_braces_or_semi. destruct (take_item ts) as [[taken r]|] eqn:E; [|discriminate].
  pose proof (take_semis_spec r) as Hs. destruct (take_semis r) as [semis r']. intros H. injection H as <- <-.
  rewrite (take_item_spec _ _ _ E), Hs, app_assoc. reflexivity.
Qed.

Lemma is_semi_spec t : is_semi t = true -> t = pc ";".
Proof. destruct t as [s|c|s|d g]; try discriminate. cbn [is_semi]. intros H. apply Ascii.eqb_eq in H. subst c. reflexivity. Qed.

(** ** one item *)
Lemma parse_body_item_spec in_mod sigs pos ts it faithful rest :
  parse_body_item in_mod sigs pos ts = Ok (it, faithful, rest) ->
  faithful = true -> ts = print_body_item it ++ rest.
Proof.
  unfold parse_body_item. intros H Hf. destruct (rbind_ok _ _ _ H) as [[attrs r0] [E H0]]. cbv beta in H0. clear H.
  pose proof (parse_outer_spec _ _ _ E) as Ho.
  pose proof (parse_vis_spec r0) as Hv. destruct (parse_vis r0) as [v r1].
  destruct ((if in_mod then match v with [] => false | _ => true end else true) && peek_fn r1).
  - destruct (find_sig (pos + (List.length ts - List.length r1)) sigs) as [sa|]; [|discriminate].
    destruct (skipn (sa_len sa) r1) as [|t r2] eqn:Es.
    + destruct (rbind_ok _ _ _ H0) as [[body r3] [E0 H2]]. cbv beta in H2. injection H2 as <- <- <-.
      apply toks_eqb_eq in Hf. cbn [print_body_item]. rewrite Hf.
      rewrite Ho, Hv, <- (firstn_skipn (sa_len sa) r1) at 1. rewrite Es, (matched_spec _ _ _ E0).
      rewrite <- !app_assoc. reflexivity.
    + destruct (is_semi t) eqn:Et.
      * apply is_semi_spec in Et. subst t. cbn [tl] in H0. injection H0 as <- _ <-. cbn [print_body_item].
        rewrite Ho, Hv, <- (firstn_skipn (sa_len sa) r1) at 1. rewrite Es. rewrite <- !app_assoc. reflexivity.
      * destruct (rbind_ok _ _ _ H0) as [[body r3] [E0 H2]]. cbv beta in H2. injection H2 as <- <- <-.
        apply toks_eqb_eq in Hf. cbn [print_body_item]. rewrite Hf.
        rewrite Ho, Hv, <- (firstn_skipn (sa_len sa) r1) at 1. rewrite Es, (matched_spec _ _ _ E0).
        rewrite <- !app_assoc. reflexivity.
  - destruct (rbind_ok _ _ _ H0) as [[tokens r2] [E0 H2]]. cbv beta in H2. injection H2 as <- _ <-. cbn [print_body_item].
    rewrite Ho, Hv at 1. rewrite (matched_spec _ _ _ E0). rewrite <- !app_assoc. reflexivity.
Qed.

(** ** the whole body: every token of the module / impl body is in exactly one chunk, in order *)
Theorem split_lossless in_mod sigs : forall fuel pos ts items faithful,
  parse_body in_mod sigs fuel pos ts = Ok (items, faithful) ->
  faithful = true -> flat_map print_body_item items = ts.
Proof.
  induction fuel as [|k IH]; intros pos ts items faithful H Hf.
  - destruct ts; simpl in H; [injection H as <- _; reflexivity | discriminate].
  - destruct ts as [|t ts1]; [simpl in H; injection H as <- _; reflexivity|].
    cbn [parse_body] in H. inv_ok H. destruct a as [[it f1] rest].
    destruct (List.length (t :: ts1) <=? List.length rest); [discriminate|].
    destruct (rbind_ok _ _ _ H0) as [[more f2] [E0 H2]]. cbv beta in H2. injection H2 as <- <-.
    apply andb_true_iff in Hf as [Hf1 Hf2]. cbn [flat_map].
    rewrite (IH _ _ _ _ E0 Hf2). symmetry. eapply parse_body_item_spec; eassumption.
Qed.

Corollary split_body_lossless in_mod sigs body items :
  split_body in_mod sigs body = Ok (items, true) -> flat_map print_body_item items = body.
Proof. unfold split_body. intros H. eapply split_lossless; [exact H | reflexivity]. Qed.
