(** * C09: trait mode re-emits the entraited trait (outside the recorded class [Known.known_C09]) *)
From Coq Require Import List String Ascii Bool Arith Lia.
From Entrait Require Import Tok Syn Opts Split FnParams Convert Codegen Expand Proj Proj2 Proj3 Known.
From Entrait.Proofs Require Import Base Shapes PC06.
Import ListNotations.
Local Open Scope string_scope.
Local Open Scope list_scope.

(** ** the mock attributes the macro puts in front of the trait's own attributes *)
Definition mock_attrs (o : opts) (fns : list trait_fn) : list attr :=
  (if unimock_value o && negb (unimock_params_empty TTrait (o_mock_api o))
   then [export_gated o (unimock_params (o_mock_api o) MRawTrait fns)] else []) ++
  (if mockall_value o then [export_gated o mockall_params] else []).

Lemma is_unimock_gated o r : is_unimock_attr (export_gated o (unimock_path ++ r)) = true.
Proof.
  unfold export_gated, is_unimock_attr. destruct (export_value o).
  - change (ungate (unimock_path ++ r)) with (false, unimock_path ++ r). apply is_prefix_app.
  - change (ungate [TId "cfg_attr"; TG Paren ([TId "test"; comma] ++ unimock_path ++ r)]) with (true, unimock_path ++ r).
    apply is_prefix_app.
Qed.

Lemma is_mockall_gated o : is_mockall_attr (export_gated o mockall_params) = true.
Proof. unfold export_gated. destruct (export_value o); vm_compute; reflexivity. Qed.

Lemma mock_attrs_are_mock o fns : forallb is_mock_attr (mock_attrs o fns) = true.
Proof.
  unfold mock_attrs.
  destruct (unimock_value o && negb (unimock_params_empty TTrait (o_mock_api o))), (mockall_value o);
    cbn [app forallb]; unfold is_mock_attr;
    change (unimock_params (o_mock_api o) MRawTrait fns) with (unimock_path ++ [TG Paren (join [comma]
     ([[TId "prefix"; pc "="] ++ abs_path ["entrait"; "__unimock"]] ++
      (match o_mock_api o with Some api => [[TId "api"; pc "="] ++ [TId api]] | None => [] end) ++ []))]);
    rewrite ?is_unimock_gated, ?is_mockall_gated, ?orb_true_r; reflexivity.
Qed.

Lemma skipn_len_app {A} (pre l : list A) : skipn (List.length (pre ++ l) - List.length l) (pre ++ l) = l.
Proof.
  rewrite app_length. replace (List.length pre + List.length l - List.length l) with (List.length pre) by lia.
  induction pre; [reflexivity | assumption].
Qed.

Lemma firstn_len_app {A} (pre l : list A) : firstn (List.length (pre ++ l) - List.length l) (pre ++ l) = pre.
Proof.
  rewrite app_length. replace (List.length pre + List.length l - List.length l) with (List.length pre) by lia.
  induction pre; [reflexivity | simpl; f_equal; assumption].
Qed.

(** ** the re-emitted trait, field by field *)
Lemma c09_trait_fields a h t :
  let tr := c06_trait a h t in
  t_name tr = t_name t /\ t_vis tr = h_vis h /\ t_unsafe tr = false /\ t_auto tr = false /\
  p_items (g_params (t_gen tr)) = p_items (g_params (t_gen t)) /\
  t_colon tr = t_colon t /\ t_supers tr = t_supers t /\
  where_items (t_gen tr) = where_items (t_gen t) /\
  t_attrs tr = mock_attrs (ta_opts a) (map tf_of_method (trait_sigs t)) ++ h_attrs h /\
  t_items tr = map (fun x => TFn (fst x) (make_trait_fn_sig (snd x) (h_attrs h) (ta_opts a)) None true) (trait_sigs t).
Proof.
  cbv zeta. unfold c06_trait, gen_trait_def. cbn [t_name t_vis t_unsafe t_auto t_gen t_colon t_supers t_attrs t_items g_params p_items p_of_list].
  repeat split.
  - unfold where_items, trait_tg. cbn [g_where tg_where]. destruct (g_where (t_gen t)) as [w|]; [|reflexivity].
    destruct (p_items w) eqn:Ew; [reflexivity | exact Ew].
  - unfold mock_attrs. cbn [app]. rewrite app_assoc. reflexivity.
  - rewrite map_map. reflexivity.
Qed.

(** ** the items: every method re-emitted with its attributes and signature, an [async fn] turned into
    [fn .. -> impl Future<Output = R> [+ Send]] unless [async_trait] is in use — for any number of items *)
Definition c09_lost (x : titem) : bool :=
  match x with TType _ => true | TFn _ _ (Some _) _ => true | _ => false end.

Lemma c09_items_ok o subs : forall l,
  Forall (fun x => match x with TOther _ => False | _ => True end) l ->
  existsb c09_lost l = false ->
  c09_items (future_send o) (contains_async_trait subs) l
            (map (fun x => TFn (fst x) (make_trait_fn_sig (snd x) subs o) None true) (items_sigs l)) = true.
Proof.
  induction l as [|x l IH]; intros F E; [reflexivity|].
  inversion F as [|? ? Fx Fl]; subst. cbn [existsb] in E. apply orb_false_iff in E as [Ex El].
  destruct x as [a s [d|] semi|ts|ts]; try discriminate Ex; [|contradiction].
  cbn [items_sigs flat_map app map fst snd c09_items c09_method]. fold (items_sigs l).
  rewrite toks_list_eqb_refl, (IH Fl El). cbn [opt_toks_eqb andb]. rewrite andb_true_r.
  unfold make_trait_fn_sig. destruct (s_async s && negb (contains_async_trait subs)); apply toks_eqb_refl.
Qed.

(** ** the view *)
Lemma known_C09_false h t :
  known_C09 (InTrait h t) = false -> h_unsafe h = false /\ h_auto h = false /\ existsb c09_lost (t_items t) = false.
Proof.
  unfold known_C09. intros H. apply orb_false_iff in H as [H H3]. apply orb_false_iff in H as [H1 H2]. auto.
Qed.

Lemma c09_view v attr i items :
  expand_items v attr i = Ok items -> known_C09 i = false -> good (view_C09 (mkCtx v attr i) items).
Proof.
  intros H K. destruct i as [h s body|h|h t|h|h tp st body sigs sf|h|h name body sigs sf|h|]; try discriminate H;
    try (unfold view_C09, good; cbn; discriminate).
  destruct (c06_expansion_full _ _ _ _ _ H) as (a0 & ds & Ha & _ & _ & _ & Hp & _ & Fo).
  destruct (known_C09_false _ _ K) as (K1 & K2 & K3).
  unfold view_C09, good, trait_attr_of. cbn [x_input x_attr x_variant]. rewrite Hp, Ha. fold (eff_trait_attr v a0).
  cbn [decided v_app v_det v_holds]. intros _. split; [reflexivity|].
  destruct (c09_trait_fields (eff_trait_attr v a0) h t) as (E1 & E2 & E3 & E4 & E5 & _ & E7 & E8 & E9 & E10).
  rewrite E1, E2, E3, E4, E5, E7, E8, E9, E10, K1, K2, skipn_len_app, firstn_len_app, mock_attrs_are_mock.
  rewrite String.eqb_refl, toks_eqb_refl, !toks_list_eqb_refl. cbn [Bool.eqb andb].
  rewrite trait_sigs_items. apply c09_items_ok; assumption.
Qed.

(** ** outside the theorem's domain the property fails: recorded finding F7 *)
Definition c09_head : head := mkHead [] [] false false.
Definition c09_sig : sig :=
  mkSig false false false None "foo" no_generics (mkP [ArgRecv [] (Some None) false None] false) None None.

(** [#[entrait] trait Foo { type X; }]: the associated type is not re-emitted *)
Definition c09_witness_type : input :=
  InTrait c09_head (mkTrait [] [] false false "Foo" no_generics false pempty [TType [TId "type"; TId "X"; pc ";"]]).
(** [#[entrait] trait Foo { fn foo(&self) {} }]: the default body is not re-emitted *)
Definition c09_witness_default : input :=
  InTrait c09_head (mkTrait [] [] false false "Foo" no_generics false pempty [TFn [] c09_sig (Some [TG Brace []]) false]).
(** [#[entrait] unsafe trait Foo { fn foo(&self); }]: [unsafe] is not re-emitted *)
Definition c09_witness_unsafe : input :=
  InTrait (mkHead [] [] true false) (mkTrait [] [] false false "Foo" no_generics false pempty [TFn [] c09_sig None true]).

Definition c09_refutes (i : input) : Prop :=
  exists items, expand_items VEntrait [] i = Ok items /\ known_C09 i = true /\
                v_app (view_C09 (mkCtx VEntrait [] i) items) = true /\
                v_det (view_C09 (mkCtx VEntrait [] i) items) = true /\
                v_holds (view_C09 (mkCtx VEntrait [] i) items) = false.

Lemma c09_refuted_type : c09_refutes c09_witness_type.
Proof. eexists. split; [vm_compute; reflexivity|]. repeat split; vm_compute; reflexivity. Qed.
Lemma c09_refuted_default : c09_refutes c09_witness_default.
Proof. eexists. split; [vm_compute; reflexivity|]. repeat split; vm_compute; reflexivity. Qed.
Lemma c09_refuted_unsafe : c09_refutes c09_witness_unsafe.
Proof. eexists. split; [vm_compute; reflexivity|]. repeat split; vm_compute; reflexivity. Qed.

Lemma c09_refuted :
  exists v attr i items, expand_items v attr i = Ok items /\ known_C09 i = true /\
                         v_holds (view_C09 (mkCtx v attr i) items) = false.
Proof.
  destruct c09_refuted_type as (items & H1 & H2 & _ & _ & H3).
  exists VEntrait, [], c09_witness_type, items. auto.
Qed.
