(** * PTie: what [Tie.input_fields_ok] guarantees about the fields the print round trip does not cover *)
From Coq Require Import List String Ascii Bool Arith Lia.
From Entrait Require Import Tok Syn Tie.
From Entrait.Proofs Require Import Base.
Import ListNotations.
Local Open Scope list_scope.

Lemma is_prefix_spec : forall p l r, is_prefix p l = Some r -> l = p ++ r.
Proof.
  induction p as [|x xs IH]; intros l r H; cbn in H.
  - inversion H; reflexivity.
  - destruct l as [|y ys]; [discriminate|].
    destruct (tt_eqb x y) eqn:E; [|discriminate].
    apply tt_eqb_eq in E; subst y. cbn. f_equal. apply IH; exact H.
Qed.

Lemma split_suffix_spec : forall suf l pre, split_suffix suf l = Some pre -> l = pre ++ suf.
Proof.
  intros suf l pre H. unfold split_suffix in H. cbv zeta in H.
  remember (List.length l - List.length suf) as n eqn:Hn. clear Hn.
  destruct (Nat.leb (List.length suf) (List.length l) && toks_eqb (skipn n l) suf) eqn:E; [|discriminate].
  apply andb_prop in E. destruct E as [_ E]. apply toks_eqb_eq in E.
  inversion H; subst pre. rewrite <- E. symmetry. apply firstn_skipn.
Qed.

Lemma bounds_tail_spec : forall bs l pre, bounds_tail bs l = Some pre ->
  l = pre ++ join [plus] bs \/ l = pre ++ join [plus] bs ++ [plus].
Proof.
  intros bs l pre H. unfold bounds_tail in H.
  destruct (split_suffix (join [plus] bs) l) as [p|] eqn:E.
  - inversion H; subst p. left. apply split_suffix_spec; exact E.
  - right. apply split_suffix_spec; exact H.
Qed.

Lemma last_is_colon_spec : forall l h, last_is_colon l = Some h -> l = h ++ [pc ":"].
Proof.
  intros l h H. unfold last_is_colon in H.
  destruct (rev l) as [|t r] eqn:E; [discriminate|].
  destruct (is_p ":" t) eqn:P; [|discriminate].
  inversion H; subst h. unfold is_p in P. apply tt_eqb_eq in P. subst t.
  rewrite <- (rev_involutive l), E. cbn. reflexivity.
Qed.

(** A type predicate that passes the check is, token for token,
    [binder ++ bounded type ++ ":" ++ bounds joined by "+"] (possibly with a trailing "+"): the per-bound lists and the binder the
    model's analysis works on are exactly the parts of the predicate the macro's own printer emits. *)
Theorem wpred_ok_decomposes : forall w,
  wp_is_type w = true -> wpred_ok w = true ->
  exists ty, bounded_ok (wp_bounded w) ty = true /\
    (wp_toks w = wp_binder w ++ ty ++ [pc ":"] ++ join [plus] (wp_bounds w) \/
     wp_toks w = wp_binder w ++ ty ++ [pc ":"] ++ join [plus] (wp_bounds w) ++ [plus]).
Proof.
  intros w Ht H. unfold wpred_ok in H. rewrite Ht in H.
  destruct (bounds_tail (wp_bounds w) (wp_toks w)) as [pre|] eqn:Eb; [|discriminate].
  destruct (last_is_colon pre) as [head|] eqn:Ec; [|discriminate].
  destruct (is_prefix (wp_binder w) head) as [ty|] eqn:Ep; [|discriminate].
  apply andb_prop in H. destruct H as [Hb _].
  exists ty. split; [exact Hb|].
  apply last_is_colon_spec in Ec. apply is_prefix_spec in Ep. subst head pre.
  apply bounds_tail_spec in Eb. destruct Eb as [E|E]; [left|right]; rewrite E; rewrite <- !app_assoc; reflexivity.
Qed.

(** A lifetime predicate that passes the check carries no bound lists and no binder. *)
Theorem wpred_ok_lifetime : forall w,
  wp_is_type w = false -> wpred_ok w = true -> wp_bounds w = [] /\ wp_binder w = [] /\ exists r, wp_toks w = pc "'" :: r.
Proof.
  intros w Ht H. unfold wpred_ok in H. rewrite Ht in H.
  destruct (wp_toks w) as [|t r]; [discriminate|].
  destruct t as [s|c|s|d ts]; try discriminate.
  destruct (wp_bounds w); [|discriminate]. destruct (wp_binder w); [|discriminate].
  apply Ascii.eqb_eq in H. subst c. repeat split. exists r. reflexivity.
Qed.

(** The classification "the bounded type is the one-segment path [s]" (what [Convert] asks through [bounded_is_ident]) is right
    whenever the type is a single token, in both directions. *)
Theorem path_class_single : forall q l n first s,
  path_class_ok q l n first [TId s] = true -> q = false /\ l = false /\ n = 1 /\ first = s.
Proof.
  intros q l n first s H. cbn in H.
  repeat (apply andb_prop in H; destruct H as [H ?]).
  destruct q; [discriminate|]. destruct l; [discriminate|].
  match goal with E : Nat.eqb n 1 = true |- _ => apply Nat.eqb_eq in E end.
  match goal with E : String.eqb s first = true |- _ => apply String.eqb_eq in E end.
  subst. repeat split.
Qed.

Theorem other_class_single : forall s, other_class_ok [TId s] = true -> non_path_word s = true.
Proof. intros s H. exact H. Qed.

(** every generic parameter list and where clause of an input that passes the check satisfies the per-field predicates *)
Theorem generics_ok_spec : forall g,
  generics_ok g = true ->
  (forall p, In p (p_items (g_params g)) -> gparam_ok p = true) /\
  (forall ws w, g_where g = Some ws -> In w (p_items ws) -> wpred_ok w = true).
Proof.
  intros g H. unfold generics_ok in H. apply andb_prop in H. destruct H as [Hp Hw]. split.
  - intros p Hin. rewrite forallb_forall in Hp. apply Hp; exact Hin.
  - intros ws w E Hin. rewrite E in Hw. rewrite forallb_forall in Hw. apply Hw; exact Hin.
Qed.

(** A type / lifetime parameter that passes the check and has bounds prints them right after its name:
    [gp_rest] is [":" ++ bounds joined by "+"] followed by nothing, a trailing "+", or a default. *)
Theorem gparam_ok_decomposes : forall g b bs,
  gp_kind g <> GConst -> gp_bounds g = b :: bs -> gparam_ok g = true ->
  exists tail, gp_rest g = pc ":" :: join [plus] (b :: bs) ++ tail /\
    (tail = [] \/ tail = [plus] \/ exists t u r, tail = t :: u :: r /\ (is_p "=" t = true \/ (is_p "+" t = true /\ is_p "=" u = true))).
Proof.
  intros g b bs Hk Hb H. unfold gparam_ok in H. rewrite Hb in H.
  destruct (gp_kind g); try congruence.
  - destruct (gp_rest g) as [|t rest]; [discriminate|].
    apply andb_prop in H. destruct H as [Ht H]. unfold is_p in Ht. apply tt_eqb_eq in Ht. subst t.
    destruct (is_prefix (join [plus] (b :: bs)) rest) as [tail|] eqn:E; [|discriminate].
    apply is_prefix_spec in E. exists tail. split; [rewrite E; reflexivity|].
    destruct tail as [|u [|v r]].
    + left; reflexivity.
    + right; left. unfold is_p in H. apply tt_eqb_eq in H. subst u. reflexivity.
    + right; right. exists u, v, r. split; [reflexivity|].
      apply orb_prop in H. destruct H as [H|H]; [left; exact H|right; apply andb_prop in H; exact H].
  - destruct (gp_rest g) as [|t rest]; [discriminate|].
    apply andb_prop in H. destruct H as [Ht H]. unfold is_p in Ht. apply tt_eqb_eq in Ht. subst t.
    destruct (is_prefix (join [plus] (b :: bs)) rest) as [tail|] eqn:E; [|discriminate].
    apply is_prefix_spec in E. exists tail. split; [rewrite E; reflexivity|].
    destruct tail as [|u [|v r]].
    + left; reflexivity.
    + right; left. unfold is_p in H. apply tt_eqb_eq in H. subst u. reflexivity.
    + right; right. exists u, v, r. split; [reflexivity|].
      apply orb_prop in H. destruct H as [H|H]; [left; exact H|right; apply andb_prop in H; exact H].
Qed.
