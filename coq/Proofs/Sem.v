(** * Sem: a mini-semantics of the delegating bodies the macro emits (Layer B)

    What a generated method *does* when called: parameters are bound positionally to the caller's
    argument values, the callee path is resolved (a parameter of the same name would capture a
    single-segment callee: rustc E0618, assumption S1), the arguments are looked up by name (a
    duplicated parameter name would be rejected: E0415, assumption S2) and the call is performed —
    one trace event. The user's function / the provider's method is an uninterpreted primitive. *)
From Coq Require Import List String Ascii Bool Arith Lia.
From Entrait Require Import Tok Syn Opts FnParams Proj.
From Entrait.Proofs Require Import Base.
Import ListNotations.
Local Open Scope list_scope.

(** caller-side values: the receiver the method was called on, and the i-th argument *)
Inductive value :=
| VSelf                      (* the receiver ([self] / [&self]) of the generated method *)
| VArg (i : nat)             (* the i-th typed argument, in declared order *)
| VDerefSelf                 (* [&*self] *)
| VNamed (n : string).       (* a name that is not a parameter: some item in scope *)

Inductive callee :=
| CFn (name : string)                         (* the free function [name] *)
| CSelfFn (name : string)                     (* [Self::name] of the enclosing impl's self type *)
| CProvider (hops : list string) (m : string) (* [self.as_ref()[.as_ref()|.borrow()].m(..)]: method of what the hops reach *)
| CTarget (it m : string)                     (* [<EntraitT::Target as it<EntraitT>>::m] *)
| CDyn (via it m : string).                   (* [<EntraitT as ..via<dyn it<EntraitT>>>::via_method(&*self).m] *)

Record event := mkEvent { ev_callee : callee; ev_args : list value; ev_await : bool }.

(** ** environment: the method's parameters bound positionally *)
Fixpoint index_of (n : string) (l : list string) (i : nat) : option nat :=
  match l with
  | [] => None
  | x :: xs => if String.eqb x n then Some i else index_of n xs (S i)
  end.

Definition lookup (params : list string) (n : string) : value :=
  if String.eqb n "self" then VSelf
  else match index_of n params 0 with Some i => VArg i | None => VNamed n end.

(** ** reading an argument list [a , b , c] back from tokens *)
Fixpoint read_args (ts : toks) : option (list string) :=
  match ts with
  | [] => Some []
  | [TId n] => Some [n]
  | TId n :: t :: rest =>
      if is_p "," t then match read_args rest with Some l => Some (n :: l) | None => None end else None
  | _ => None
  end.

Definition strip_await (ts : toks) : toks * bool :=
  match rev ts with
  | t2 :: t1 :: r => if is_id "await" t2 && is_p "." t1 then (rev r, true) else (ts, false)
  | _ => (ts, false)
  end.

(** ** evaluation of the free-function form [{ [Self ::] f ( args ) [. await] }] *)
Definition eval_fn_call (params : list string) (body : toks) : option event :=
  match body with
  | [TG Brace inner] =>
      let '(core, aw) := strip_await inner in
      match core with
      | [TId f; TG Paren args] =>
          (* S1: a single-segment callee resolves to a local binding of that name first *)
          if str_mem f params then None
          else match read_args args with
               | Some names => Some (mkEvent (CFn f) (map (lookup params) names) aw)
               | None => None
               end
      | [TId s; c1; c2; TId f; TG Paren args] =>
          if is_id "Self" (TId s) && is_p ":" c1 && is_p ":" c2 then
            match read_args args with
            | Some names => Some (mkEvent (CSelfFn f) (map (lookup params) names) aw)
            | None => None
            end
          else None
      | _ => None
      end
  | _ => None
  end.

(** ** facts *)
Lemma read_args_join : forall names,
  read_args (join [comma] (map (fun n => [TId n]) names)) = Some names.
Proof.
  induction names as [|n [|m ms] IH]; [reflexivity | reflexivity|].
  change (join [comma] (map (fun n => [TId n]) (n :: m :: ms)))
    with (TId n :: comma :: join [comma] (map (fun n => [TId n]) (m :: ms))).
  cbn [read_args]. change (is_p "," comma) with true. cbn iota. rewrite IH. reflexivity.
Qed.

Lemma index_of_app : forall pre n r i, ~ In n pre -> index_of n (pre ++ n :: r) i = Some (i + List.length pre).
Proof.
  induction pre as [|x pre IH]; intros n r i Hni; simpl.
  - rewrite String.eqb_refl. f_equal. lia.
  - destruct (String.eqb x n) eqn:E; [apply String.eqb_eq in E; subst; exfalso; apply Hni; left; reflexivity|].
    rewrite IH; [f_equal; lia | intros Hin; apply Hni; right; exact Hin].
Qed.

Lemma map_lookup_aux : forall l pre, NoDup (pre ++ l) -> ~ In "self"%string (pre ++ l) ->
  map (lookup (pre ++ l)) l = map VArg (seq (List.length pre) (List.length l)).
Proof.
  induction l as [|x l IH]; intros pre Hnd Hself; [reflexivity|].
  cbn [map List.length seq]. f_equal.
  - unfold lookup. assert (Hx : String.eqb x "self" = false).
    { apply String.eqb_neq. intros ->. apply Hself. apply in_or_app. right. left. reflexivity. }
    rewrite Hx, index_of_app; [reflexivity|].
    apply NoDup_remove_2 in Hnd. intros Hin. apply Hnd. apply in_or_app. left. exact Hin.
  - specialize (IH (pre ++ [x])). rewrite <- app_assoc in IH. cbn [app] in IH.
    rewrite IH by assumption. rewrite app_length. cbn [List.length]. rewrite Nat.add_1_r. reflexivity.
Qed.

(** distinct parameter names, bound positionally, are looked up as the arguments in declared order *)
Lemma lookup_params : forall params, NoDup params -> ~ In "self"%string params ->
  map (lookup params) params = map VArg (seq 0 (List.length params)).
Proof. intros params Hnd Hs. exact (map_lookup_aux params [] Hnd Hs). Qed.

Lemma strip_await_app (core : toks) (aw : bool) :
  strip_await (core ++ (if aw then [pc "."; TId "await"] else [])) =
  if aw then (core, true)
  else strip_await core.
Proof.
  destruct aw; [|rewrite app_nil_r; reflexivity].
  unfold strip_await. rewrite rev_app_distr. cbn [rev app]. cbn. rewrite rev_involutive. reflexivity.
Qed.

(** ** C01 / C07(impl half): the delegating body of [bodies_ok] calls its own function once, with the
    receiver (if any) and the caller's arguments in declared order *)
Definition expected_event (scoped with_self : bool) (s : sig) (aw : bool) : event :=
  mkEvent (if scoped then CSelfFn (s_name s) else CFn (s_name s))
          ((if with_self then [VSelf] else []) ++ map VArg (seq 0 (List.length (typed_names s)))) aw.

Theorem eval_expected_body scoped with_self s aw :
  names_usable s = true -> ~ In "self"%string (typed_names s) ->
  eval_fn_call (typed_names s) (expected_body scoped with_self s aw) = Some (expected_event scoped with_self s aw).
Proof.
  unfold names_usable. intros H Hself. apply andb_true_iff in H as [H H3]. apply andb_true_iff in H as [_ H2].
  apply nodup_str_NoDup in H2. apply NoDup_map_inv in H2. apply negb_true_iff in H3.
  assert (H3' : str_mem (s_name s) (typed_names s) = false).
  { apply str_mem_false_In. intros Hin. apply str_mem_false_In in H3. apply H3, in_map, Hin. }
  clear H3. rename H3' into H3.
  unfold expected_body, eval_fn_call, expected_event.
  assert (Hra : read_args ((if with_self then [TId "self"; comma] else []) ++
                           join [comma] (map (fun n => [TId n]) (typed_names s)))
                = Some ((if with_self then ["self"%string] else []) ++ typed_names s)).
  { destruct with_self; [|apply read_args_join]. cbn [app].
    destruct (typed_names s) as [|n ns] eqn:En; [reflexivity|].
    change (read_args (TId "self" :: comma :: join [comma] (map (fun n0 => [TId n0]) (n :: ns))))
      with (match read_args (join [comma] (map (fun n0 => [TId n0]) (n :: ns))) with Some l => Some ("self"%string :: l) | None => None end).
    rewrite read_args_join. reflexivity. }
  assert (Hlk : map (lookup (typed_names s)) ((if with_self then ["self"%string] else []) ++ typed_names s)
                = (if with_self then [VSelf] else []) ++ map VArg (seq 0 (List.length (typed_names s)))).
  { rewrite map_app, lookup_params by assumption. destruct with_self; reflexivity. }
  remember ((if with_self then [TId "self"; comma] else []) ++ join [comma] (map (fun n => [TId n]) (typed_names s))) as X eqn:HX.
  remember (map VArg (seq 0 (List.length (typed_names s)))) as VS eqn:HVS.
  remember (typed_names s) as params eqn:HP. remember (s_name s) as f eqn:Hf.
  clear HX HVS HP Hf H2 Hself.
  destruct scoped.
  - change ([TId "Self"] ++ path_sep) with [TId "Self"; pc ":"; pc ":"].
    cbn [app].
    change (TId "Self" :: pc ":" :: pc ":" :: TId f :: TG Paren X :: (if aw then [pc "."; TId "await"] else []))
      with ([TId "Self"; pc ":"; pc ":"; TId f; TG Paren X] ++ (if aw then [pc "."; TId "await"] else [])).
    rewrite strip_await_app. destruct aw; cbn; rewrite Hra, Hlk; reflexivity.
  - cbn [app].
    change (TId f :: TG Paren X :: (if aw then [pc "."; TId "await"] else []))
      with ([TId f; TG Paren X] ++ (if aw then [pc "."; TId "await"] else [])).
    rewrite strip_await_app. destruct aw; cbn; rewrite H3, Hra, Hlk; reflexivity.
Qed.
