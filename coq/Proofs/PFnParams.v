(** * PFnParams: the three-stage parameter renaming (signature/fn_params.rs) — totality, usable names, rules *)
From Coq Require Import List String Ascii Bool Arith Lia ZArith FinFun.
From Entrait Require Import Tok Syn Opts FnParams Proj.
From Entrait.Proofs Require Import Base.
Import ListNotations.
Local Open Scope list_scope.

(** ** Strings *)
Lemma length_append a b : String.length (a +++ b) = String.length a + String.length b.
Proof. induction a as [|c a IH]; simpl; [reflexivity | rewrite IH; reflexivity]. Qed.

Lemma underscores_length k : String.length (underscores k) = k.
Proof. induction k; simpl; congruence. Qed.

Lemma candidate_inj index a b : candidate index a = candidate index b -> a = b.
Proof.
  unfold candidate. intros H. apply (f_equal String.length) in H.
  rewrite !length_append, !underscores_length in H. lia.
Qed.

(** ** [generate_ident]: result not taken; enough fuel (pigeonhole) *)
Lemma generate_ident_fresh : forall fuel index att taken c,
  generate_ident fuel index att taken = Some c -> str_mem c taken = false.
Proof.
  induction fuel as [|k IH]; intros index att taken c H; simpl in H; [discriminate|].
  destruct (str_mem (candidate index att) taken) eqn:E; [eapply IH; exact H|]. injection H as <-. exact E.
Qed.

Lemma generate_ident_none : forall fuel index att taken,
  generate_ident fuel index att taken = None ->
  forall k, k < fuel -> In (candidate index (att + k)) taken.
Proof.
  induction fuel as [|f IH]; intros index att taken H k Hk; [lia|]. simpl in H.
  destruct (str_mem (candidate index att) taken) eqn:E; [|discriminate].
  destruct k as [|k'].
  - rewrite Nat.add_0_r. apply str_mem_In. exact E.
  - replace (att + S k') with (S att + k') by lia. apply (IH _ _ _ H). lia.
Qed.

Lemma generate_ident_total index taken :
  exists c, generate_ident (S (List.length taken)) index 0 taken = Some c.
Proof.
  destruct (generate_ident (S (List.length taken)) index 0 taken) eqn:E; [eexists; reflexivity|].
  exfalso.
  pose (cands := map (candidate index) (seq 0 (S (List.length taken)))).
  assert (Hnd : NoDup cands).
  { unfold cands. apply FinFun.Injective_map_NoDup; [intros a b; apply candidate_inj | apply seq_NoDup]. }
  assert (Hincl : incl cands taken).
  { intros c Hc. unfold cands in Hc. apply in_map_iff in Hc as [k [<- Hk]]. apply in_seq in Hk.
    apply (generate_ident_none _ _ _ _ E k). lia. }
  pose proof (NoDup_incl_length Hnd Hincl) as Hlen. unfold cands in Hlen. rewrite map_length, seq_length in Hlen. lia.
Qed.

(** ** [uniq_name]: result not taken; enough fuel *)
Lemma uniq_name_fresh : forall fuel name taken n,
  uniq_name fuel name taken = Some n -> str_mem (unraw n) taken = false.
Proof.
  induction fuel as [|k IH]; intros name taken n H; simpl in H.
  - destruct (str_mem (unraw name) taken) eqn:E; [discriminate|]. injection H as <-. exact E.
  - destruct (str_mem (unraw name) taken) eqn:E; [eapply IH; exact H|]. injection H as <-. exact E.
Qed.

Lemma uniq_name_id fuel name taken : str_mem (unraw name) taken = false -> uniq_name fuel name taken = Some name.
Proof. intros H. destruct fuel; simpl; rewrite H; reflexivity. Qed.

Local Open Scope Z_scope.
Definition key (s : string) : Z := if is_raw s then - Z.of_nat (String.length s) else Z.of_nat (String.length s).

Lemma starts_with_r_hash_length s : starts_with "r#" s = true -> (2 <= String.length s)%nat.
Proof.
  intros H. destruct s as [|a [|b r]]; [discriminate H | exfalso | simpl; lia].
  cbn [starts_with] in H. rewrite andb_false_r in H. discriminate H.
Qed.

Lemma not_raw_append s : is_raw s = false -> is_raw (s +++ "_") = false.
Proof.
  unfold is_raw. destruct s as [|a [|b r]]; cbn [starts_with String.append]; intros H.
  - reflexivity.
  - destruct (Ascii.eqb "r" a); reflexivity.
  - exact H.
Qed.

Lemma drop_str_length : forall n s, (n <= String.length s)%nat -> String.length (drop_str n s) = (String.length s - n)%nat.
Proof. induction n as [|n IH]; intros s H; [simpl; lia|]. destruct s as [|c r]; simpl in *; [lia|]. apply IH. lia. Qed.

Lemma key_suffix s : key s < key (suffix s).
Proof.
  unfold suffix, unraw, key. destruct (is_raw s) eqn:E.
  - pose proof (starts_with_r_hash_length s E) as Hl.
    rewrite length_append, drop_str_length by exact Hl. simpl String.length.
    destruct (is_raw (drop_str 2 s +++ "_")); lia.
  - rewrite (not_raw_append s E), length_append. simpl String.length. lia.
Qed.
Local Close Scope Z_scope.

Fixpoint iter_suffix (k : nat) (s : string) : string :=
  match k with O => s | S j => iter_suffix j (suffix s) end.

Lemma key_iter_lt : forall k s, (0 < k)%nat -> (key s < key (iter_suffix k s))%Z.
Proof.
  induction k as [|k IH]; intros s Hk; [lia|]. simpl.
  destruct k as [|k']; [simpl; apply key_suffix|].
  pose proof (key_suffix s). pose proof (IH (suffix s) ltac:(lia)). lia.
Qed.

Lemma iter_suffix_add : forall a b s, iter_suffix (a + b) s = iter_suffix b (iter_suffix a s).
Proof. induction a as [|a IH]; intros b s; simpl; [reflexivity | apply IH]. Qed.

Lemma iter_suffix_inj s a b : iter_suffix a s = iter_suffix b s -> a = b.
Proof.
  intros H. destruct (Nat.lt_trichotomy a b) as [Hlt|[->|Hlt]]; [|reflexivity|]; exfalso.
  - replace b with (a + (b - a)) in H by lia. rewrite iter_suffix_add in H.
    pose proof (key_iter_lt (b - a) (iter_suffix a s) ltac:(lia)) as K. rewrite <- H in K. lia.
  - replace a with (b + (a - b)) in H by lia. rewrite iter_suffix_add in H.
    pose proof (key_iter_lt (a - b) (iter_suffix b s) ltac:(lia)) as K. rewrite H in K. lia.
Qed.

Lemma uniq_name_none : forall fuel name taken,
  uniq_name fuel name taken = None -> forall k, k <= fuel -> In (unraw (iter_suffix k name)) taken.
Proof.
  induction fuel as [|f IH]; intros name taken H k Hk; simpl in H.
  - destruct (str_mem (unraw name) taken) eqn:E; [|discriminate]. replace k with 0 by lia. apply str_mem_In. exact E.
  - destruct (str_mem (unraw name) taken) eqn:E; [|discriminate].
    destruct k as [|k']; [apply str_mem_In; exact E|]. simpl. apply (IH _ _ H). lia.
Qed.

(** the keys tried are pairwise distinct: [unraw s] is [suffix s] without its last character *)
Lemma append_underscore_inj : forall a b, a +++ "_" = b +++ "_" -> a = b.
Proof.
  induction a as [|x a IH]; intros [|y b] H; cbn [String.append] in H.
  - reflexivity.
  - exfalso. apply (f_equal String.length) in H. cbn [String.length] in H. rewrite length_append in H. simpl in H. lia.
  - exfalso. apply (f_equal String.length) in H. cbn [String.length] in H. rewrite length_append in H. simpl in H. lia.
  - injection H as -> H. f_equal. exact (IH _ H).
Qed.

Lemma suffix_iter k s : suffix (iter_suffix k s) = iter_suffix (S k) s.
Proof. replace (S k) with (k + 1) by lia. rewrite iter_suffix_add. reflexivity. Qed.

Lemma unraw_iter_inj s a b : unraw (iter_suffix a s) = unraw (iter_suffix b s) -> a = b.
Proof.
  intros H. assert (E : suffix (iter_suffix a s) = suffix (iter_suffix b s)) by (unfold suffix; rewrite H; reflexivity).
  rewrite !suffix_iter in E. apply iter_suffix_inj in E. lia.
Qed.

Lemma uniq_name_total name taken : exists n, uniq_name (S (List.length taken)) name taken = Some n.
Proof.
  destruct (uniq_name (S (List.length taken)) name taken) eqn:E; [eexists; reflexivity|]. exfalso.
  pose (its := map (fun k => unraw (iter_suffix k name)) (seq 0 (S (S (List.length taken))))).
  assert (Hnd : NoDup its).
  { unfold its. apply FinFun.Injective_map_NoDup; [intros a b; apply unraw_iter_inj | apply seq_NoDup]. }
  assert (Hincl : incl its taken).
  { intros c Hc. unfold its in Hc. apply in_map_iff in Hc as [k [<- Hk]]. apply in_seq in Hk.
    apply (uniq_name_none _ _ _ E k). lia. }
  pose proof (NoDup_incl_length Hnd Hincl) as Hlen. unfold its in Hlen. rewrite map_length, seq_length in Hlen. lia.
Qed.

(** ** Shapes of arguments through the stages *)
Definition simple_or_non (a : fnarg) : Prop :=
  match a with
  | ArgRecv _ _ _ _ => True
  | ArgTyped _ (PIdent r m _ sub) _ => r = false /\ m = false /\ sub = []
  | ArgTyped _ (PNon _ _) _ => True
  end.

(** same attributes and type (or the same receiver): only the pattern may differ *)
Definition same_shape (a b : fnarg) : Prop :=
  match a, b with
  | ArgRecv x r m c, ArgRecv x' r' m' c' => x = x' /\ r = r' /\ m = m' /\ c = c'
  | ArgTyped x _ t, ArgTyped x' _ t' => x = x' /\ t = t'
  | _, _ => False
  end.

Lemma same_shape_refl a : same_shape a a.
Proof. destruct a; simpl; auto. Qed.

Lemma same_shape_trans a b c : same_shape a b -> same_shape b c -> same_shape a c.
Proof. destruct a, b, c; simpl; intuition congruence. Qed.

Lemma Forall2_same_shape_refl l : Forall2 same_shape l l.
Proof. induction l; constructor; [apply same_shape_refl | assumption]. Qed.

Lemma Forall2_same_shape_trans : forall l1 l2 l3,
  Forall2 same_shape l1 l2 -> Forall2 same_shape l2 l3 -> Forall2 same_shape l1 l3.
Proof.
  induction l1 as [|a l1 IH]; intros l2 l3 H12 H23; inversion H12; subst; inversion H23; subst; constructor.
  - eapply same_shape_trans; eassumption.
  - eapply IH; eassumption.
Qed.

Lemma simplify_simple a : simple_or_non (simplify a).
Proof. destruct a as [|x [r m n sub|ts b] t]; simpl; auto. Qed.
Lemma simplify_shape a : same_shape a (simplify a).
Proof. destruct a as [|x [r m n sub|ts b] t]; simpl; auto. Qed.
Lemma lift_simple a : simple_or_non a -> simple_or_non (lift a).
Proof.
  destruct a as [|x [r m n sub|ts b] t]; simpl; auto. intros _.
  destruct (filter lower_initial b) as [|y [|z w]]; simpl; auto.
Qed.
Lemma lift_shape a : same_shape a (lift a).
Proof.
  destruct a as [|x [r m n sub|ts b] t]; simpl; auto.
  destruct (filter lower_initial b) as [|y [|z w]]; simpl; auto.
Qed.

Lemma desired_simplify a : desired_name (simplify a) = desired_name a.
Proof. destruct a as [|x [r m n sub|ts b] t]; reflexivity. Qed.
Lemma desired_lift a : desired_name (lift a) = desired_name a.
Proof.
  destruct a as [|x [r m n sub|ts b] t]; try reflexivity. simpl.
  destruct (filter lower_initial b) as [|y [|z w]] eqn:E; simpl; rewrite ?E; reflexivity.
Qed.
Lemma is_typed_simplify a : is_typed (simplify a) = is_typed a.
Proof. destruct a as [|x [r m n sub|ts b] t]; reflexivity. Qed.
Lemma is_typed_lift a : is_typed (lift a) = is_typed a.
Proof.
  destruct a as [|x [r m n sub|ts b] t]; try reflexivity. simpl.
  destruct (filter lower_initial b) as [|y [|z w]]; reflexivity.
Qed.

Lemma desired_map (f : fnarg -> fnarg) :
  (forall a, desired_name (f a) = desired_name a) -> (forall a, is_typed (f a) = is_typed a) ->
  forall l, map desired_name (filter is_typed (map f l)) = map desired_name (filter is_typed l).
Proof.
  intros Hd Ht. induction l as [|a l IH]; simpl; [reflexivity|]. rewrite Ht.
  destruct (is_typed a); simpl; rewrite ?Hd, IH; reflexivity.
Qed.

(** a non-identifier pattern that stage 2 left in place has no single liftable binding *)
Definition non_has_none (a : fnarg) : Prop :=
  match a with ArgTyped _ (PNon _ _) _ => desired_name a = None | _ => True end.

Lemma lift_non_has_none a : non_has_none (lift a).
Proof.
  destruct a as [|x [r m n sub|ts b] t]; simpl; auto.
  destruct (filter lower_initial b) as [|y [|z w]] eqn:E; simpl; rewrite ?E; auto.
Qed.

(** ** Stage 3 *)
Lemma autogen_spec : forall l index taken l',
  autogen l index taken = Ok l' ->
  Forall simple_or_non l ->
  Forall2 same_shape l l' /\
  forallb is_plain_ident_arg l' = true /\
  (forall n, In n (plain_names l') -> In n (plain_names l) \/ ~ In n taken) /\
  (Forall non_has_none l -> rules_ok (map desired_name (filter is_typed l)) (plain_names l') = true).
Proof.
  induction l as [|a l IH]; intros index taken l' H Hs; cbn [autogen] in H.
  - injection H as <-. repeat split; simpl; auto; try (intros n []).
  - inversion Hs as [|? ? Ha Hl]; subst.
    destruct a as [x r m c|x [r m n sub|ts b] t].
    + inv_ok H. injection H0 as <-. destruct (IH _ _ _ E Hl) as (S1 & S2 & S3 & S4).
      repeat split; simpl; auto.
      * constructor; [simpl; auto | exact S1].
      * intros Hn. inversion Hn; subst. apply S4. assumption.
    + inv_ok H. injection H0 as <-. destruct (IH _ _ _ E Hl) as (S1 & S2 & S3 & S4).
      simpl in Ha. destruct Ha as (-> & -> & ->).
      repeat split; simpl; auto.
      * constructor; [simpl; auto | exact S1].
      * intros k [<-|Hk]; [left; left; reflexivity|]. destruct (S3 _ Hk); [left; right; assumption | right; assumption].
      * intros Hn. inversion Hn; subst. rewrite String.eqb_refl. apply S4. assumption.
    + destruct (generate_ident (S (List.length taken)) index 0 taken) as [g|] eqn:G; [|discriminate].
      inv_ok H. injection H0 as <-. destruct (IH _ _ _ E Hl) as (S1 & S2 & S3 & S4).
      repeat split; simpl; auto.
      * constructor; [simpl; auto | exact S1].
      * intros k [<-|Hk].
        -- right. apply str_mem_false_In. eapply generate_ident_fresh; exact G.
        -- destruct (S3 _ Hk) as [?|Hnot]; [left; assumption | right; intros Hin; apply Hnot; right; exact Hin].
      * intros Hn. inversion Hn as [|? ? Hna Hnl]; subst. simpl in Hna. simpl. rewrite Hna. apply S4. assumption.
Qed.

Lemma candidate_not_raw index att : unraw (candidate index att) = candidate index att.
Proof. unfold unraw, is_raw, candidate. destruct att; reflexivity. Qed.

Lemma generate_ident_not_raw : forall fuel index att taken c,
  generate_ident fuel index att taken = Some c -> unraw c = c.
Proof.
  induction fuel as [|k IH]; intros index att taken c H; cbn [generate_ident] in H; [discriminate|].
  destruct (str_mem (candidate index att) taken); [eapply IH; exact H|].
  injection H as <-. apply candidate_not_raw.
Qed.

Lemma autogen_names : forall l0 i0 tk l0', autogen l0 i0 tk = Ok l0' ->
  forall k, In k (plain_names l0') -> In k (plain_names l0) \/ (~ In k tk /\ unraw k = k).
Proof.
  induction l0 as [|a l0 IH0]; intros i0 tk l0' H k Hk; cbn [autogen] in H.
  - injection H as <-. destruct Hk.
  - destruct a as [x r m c|x [r m n sub|ts b] t].
    + inv_ok H. injection H0 as <-. simpl in Hk |- *. eapply IH0; eassumption.
    + inv_ok H. injection H0 as <-. simpl in Hk |- *. destruct Hk as [<-|Hk]; [left; left; reflexivity|].
      destruct (IH0 _ _ _ E _ Hk); [left; right; assumption | right; assumption].
    + destruct (generate_ident (S (List.length tk)) i0 0 tk) as [g|] eqn:G; [|discriminate].
      inv_ok H. injection H0 as <-. simpl in Hk |- *. destruct Hk as [<-|Hk].
      * right. split; [apply str_mem_false_In; eapply generate_ident_fresh; exact G | eapply generate_ident_not_raw; exact G].
      * destruct (IH0 _ _ _ E _ Hk) as [?|[Hnot Hu]]; [left; assumption | right; split; [intros Hin; apply Hnot; right; exact Hin | exact Hu]].
Qed.

Lemma autogen_nodup : forall l index taken l',
  autogen l index taken = Ok l' ->
  (forall n, In n (plain_names l) -> In (unraw n) taken) -> NoDup (map unraw (plain_names l)) ->
  NoDup (map unraw (plain_names l')).
Proof.
  induction l as [|a l IH]; intros index taken l' H Hi Hn; cbn [autogen] in H.
  - injection H as <-. constructor.
  - destruct a as [x r m c|x [r m n sub|ts b] t].
    + inv_ok H. injection H0 as <-. simpl in Hi, Hn |- *. eapply IH; eassumption.
    + inv_ok H. injection H0 as <-. change (NoDup (unraw n :: map unraw (plain_names a))).
      change (NoDup (unraw n :: map unraw (plain_names l))) in Hn.
      inversion Hn as [|? ? Hnotin Hn']; subst.
      assert (Hi' : forall k, In k (plain_names l) -> In (unraw k) taken) by (intros k Hk; apply Hi; right; exact Hk).
      constructor; [|eapply IH; eassumption].
      intros Hin. apply in_map_iff in Hin as [k [Ek Hk]].
      destruct (autogen_names _ _ _ _ E _ Hk) as [Ho|[Hnt Hu]].
      * apply Hnotin. rewrite <- Ek. apply in_map. exact Ho.
      * apply Hnt. rewrite <- Hu, Ek. apply Hi. left. reflexivity.
    + destruct (generate_ident (S (List.length taken)) index 0 taken) as [g|] eqn:G; [|discriminate].
      inv_ok H. injection H0 as <-. change (NoDup (unraw g :: map unraw (plain_names a))).
      change (NoDup (map unraw (plain_names l))) in Hn.
      change (forall n, In n (plain_names l) -> In (unraw n) taken) in Hi.
      assert (Hg : ~ In g taken) by (apply str_mem_false_In; eapply generate_ident_fresh; exact G).
      rewrite (generate_ident_not_raw _ _ _ _ _ G).
      constructor.
      * intros Hin. apply in_map_iff in Hin as [k [Ek Hk]].
        destruct (autogen_names _ _ _ _ E _ Hk) as [Ho|[Hnt Hu]].
        -- apply Hg. rewrite <- Ek. apply Hi, Ho.
        -- apply Hnt. left. rewrite <- Hu, Ek. reflexivity.
      * eapply IH; [exact E | intros k Hk; right; apply Hi; exact Hk | exact Hn].
Qed.

Lemma autogen_total : forall l index taken, exists l', autogen l index taken = Ok l'.
Proof.
  induction l as [|a l IH]; intros index taken; cbn [autogen]; [eexists; reflexivity|].
  destruct a as [x r m c|x [r m n sub|ts b] t].
  - destruct (IH index taken) as [l' ->]. simpl. eexists; reflexivity.
  - destruct (IH (S index) taken) as [l' ->]. simpl. eexists; reflexivity.
  - destruct (generate_ident_total index taken) as [g ->].
    destruct (IH (S index) (g :: taken)) as [l' ->]. simpl. eexists; reflexivity.
Qed.

(** ** Final pass *)
Lemma make_unique_spec : forall l taken l',
  make_unique l taken = Ok l' ->
  Forall2 same_shape l l' /\
  (forallb is_plain_ident_arg l = true -> forallb is_plain_ident_arg l' = true) /\
  NoDup (map unraw (plain_names l')) /\ (forall n, In n (plain_names l') -> ~ In (unraw n) taken).
Proof.
  induction l as [|a l IH]; intros taken l' H; cbn [make_unique] in H.
  - injection H as <-. repeat split; simpl; auto; try constructor; try (intros n []).
  - destruct a as [x r m c|x [r m n sub|ts b] t].
    + inv_ok H. injection H0 as <-. destruct (IH _ _ E) as (S1 & S2 & S3 & S4).
      repeat split; simpl; auto. constructor; [simpl; auto | exact S1].
    + destruct (uniq_name (S (List.length taken)) n taken) as [n'|] eqn:U; [|discriminate].
      inv_ok H. injection H0 as <-. destruct (IH _ _ E) as (S1 & S2 & S3 & S4).
      repeat split; simpl.
      * constructor; [simpl; auto | exact S1].
      * intros Hp. apply andb_true_iff in Hp as [Hp1 Hp2]. rewrite (S2 Hp2), andb_true_r. exact Hp1.
      * constructor; [|exact S3]. intros Hin. apply in_map_iff in Hin as [k [Ek Hk]].
        apply (S4 _ Hk). left. symmetry. exact Ek.
      * intros k [<-|Hk]; [apply str_mem_false_In; eapply uniq_name_fresh; exact U|].
        intros Hin. apply (S4 _ Hk). right. exact Hin.
    + inv_ok H. injection H0 as <-. destruct (IH _ _ E) as (S1 & S2 & S3 & S4).
      repeat split; simpl; auto; try discriminate. constructor; [simpl; auto | exact S1].
Qed.

Lemma make_unique_id : forall l taken,
  (forall n, In n (plain_names l) -> ~ In (unraw n) taken) -> NoDup (map unraw (plain_names l)) -> make_unique l taken = Ok l.
Proof.
  induction l as [|a l IH]; intros taken Hd Hn; cbn [make_unique]; [reflexivity|].
  destruct a as [x r m c|x [r m n sub|ts b] t]; simpl in *.
  - rewrite IH; auto.
  - inversion Hn as [|? ? Hnotin Hn']; subst.
    assert (E : str_mem (unraw n) taken = false) by (apply str_mem_false_In, Hd; left; reflexivity).
    rewrite E. rewrite IH; [reflexivity| |exact Hn'].
    intros k Hk [Ek|Hin]; [apply Hnotin; rewrite Ek; apply in_map; exact Hk | apply (Hd k); [right; exact Hk | exact Hin]].
  - rewrite IH; auto.
Qed.

Lemma make_unique_total : forall l taken, exists l', make_unique l taken = Ok l'.
Proof.
  induction l as [|a l IH]; intros taken; cbn [make_unique]; [eexists; reflexivity|].
  destruct a as [x r m c|x [r m n sub|ts b] t].
  - destruct (IH taken) as [l' ->]. simpl. eexists; reflexivity.
  - destruct (uniq_name_total n taken) as [n' ->]. destruct (IH (unraw n' :: taken)) as [l' ->]. simpl. eexists; reflexivity.
  - destruct (IH taken) as [l' ->]. simpl. eexists; reflexivity.
Qed.

(** ** [fix_fn_param_idents] *)
Lemma all_ok_plain l : Forall simple_or_non l -> all_ok l = true -> forallb is_plain_ident_arg l = true.
Proof.
  induction l as [|a l IH]; intros Hs Ho; [reflexivity|]. inversion Hs as [|? ? Ha Hl]; subst.
  simpl in *. apply andb_true_iff in Ho as [Ho1 Ho2]. rewrite (IH Hl Ho2), andb_true_r.
  destruct a as [x r m c|x [r m n sub|ts b] t]; simpl in *; [reflexivity| |discriminate].
  destruct Ha as (-> & -> & ->). reflexivity.
Qed.

Lemma map_shape (f : fnarg -> fnarg) : (forall a, same_shape a (f a)) -> forall l, Forall2 same_shape l (map f l).
Proof. intros Hf. induction l; simpl; constructor; auto. Qed.

Lemma Forall_map_simple (f : fnarg -> fnarg) l : (forall a, simple_or_non (f a)) -> Forall simple_or_non (map f l).
Proof. intros Hf. induction l; simpl; constructor; auto. Qed.

(** stage result before the final pass: [l3] *)
Definition stage3 (fn_name : string) (l : list fnarg) : result (list fnarg) :=
  let l1 := map simplify l in
  if all_ok l1 then Ok l1
  else let l2 := map lift l1 in
       if all_ok l2 then Ok l2 else autogen l2 0 (unraw fn_name :: map unraw (plain_names l2)).

Lemma fix_unfold fn_name l :
  fix_fn_param_idents fn_name l = (let* l3 := stage3 fn_name l in make_unique l3 [unraw fn_name]).
Proof. reflexivity. Qed.

Lemma all_plain_desired : forall l, forallb is_plain_ident_arg l = true ->
  map desired_name (filter is_typed l) = map Some (plain_names l).
Proof.
  induction l as [|a l IH]; intros H; [reflexivity|]. simpl in H. apply andb_true_iff in H as [H1 H2].
  destruct a as [x r m c|x [r m n sub|ts b] t]; simpl in *; try discriminate; rewrite (IH H2); reflexivity.
Qed.

Lemma somes_map_Some {A} (l : list A) : somes (map Some l) = l.
Proof. induction l; simpl; congruence. Qed.

Lemma rules_ok_Some : forall l, rules_ok (map Some l) l = true.
Proof. induction l as [|a l IH]; simpl; [reflexivity|]. rewrite String.eqb_refl. exact IH. Qed.

Lemma rules_ok_somes_in : forall desired out, rules_ok desired out = true ->
  forall n, In n (somes desired) -> In n out.
Proof.
  induction desired as [|[d|] ds IH]; intros [|o os] H n Hn; simpl in *; try discriminate; try contradiction.
  - apply andb_true_iff in H as [H1 H2]. apply String.eqb_eq in H1. subst o.
    destruct Hn as [<-|Hn]; [left; reflexivity | right; eapply IH; eassumption].
  - right. eapply IH; eassumption.
Qed.

Lemma non_has_none_names : forall l, Forall non_has_none l ->
  somes (map desired_name (filter is_typed l)) = plain_names l.
Proof.
  induction 1 as [|a l Ha _ IH]; [reflexivity|].
  destruct a as [x r m c|x [r m k sub|ts b] t]; simpl in *.
  - exact IH.
  - rewrite IH. reflexivity.
  - rewrite Ha. simpl. exact IH.
Qed.

Lemma stage3_spec fn_name l l3 :
  stage3 fn_name l = Ok l3 ->
  Forall2 same_shape l l3 /\
  forallb is_plain_ident_arg l3 = true /\
  rules_ok (map desired_name (filter is_typed l)) (plain_names l3) = true /\
  (NoDup (map unraw (somes (map desired_name (filter is_typed l)))) ->
   ~ In (unraw fn_name) (map unraw (somes (map desired_name (filter is_typed l)))) ->
   NoDup (map unraw (plain_names l3)) /\ ~ In (unraw fn_name) (map unraw (plain_names l3))).
Proof.
  unfold stage3. intros H.
  pose proof (Forall_map_simple simplify l simplify_simple) as Hs1.
  pose proof (desired_map simplify desired_simplify is_typed_simplify l) as Hd1.
  destruct (all_ok (map simplify l)) eqn:O1.
  - injection H as <-. pose proof (all_ok_plain _ Hs1 O1) as Hp.
    rewrite <- Hd1, (all_plain_desired _ Hp), somes_map_Some.
    repeat split; auto using map_shape, simplify_shape, rules_ok_Some.
  - pose proof (desired_map lift desired_lift is_typed_lift (map simplify l)) as Hd2.
    assert (Hs2 : Forall simple_or_non (map lift (map simplify l))).
    { clear -Hs1. induction Hs1; simpl; constructor; auto using lift_simple. }
    assert (Hsh : Forall2 same_shape l (map lift (map simplify l))).
    { eapply Forall2_same_shape_trans; [apply map_shape, simplify_shape | apply map_shape, lift_shape]. }
    destruct (all_ok (map lift (map simplify l))) eqn:O2.
    + injection H as <-. pose proof (all_ok_plain _ Hs2 O2) as Hp.
      rewrite <- Hd1, <- Hd2, (all_plain_desired _ Hp), somes_map_Some.
      repeat split; auto using rules_ok_Some.
    + set (l2 := map lift (map simplify l)) in *.
      destruct (autogen_spec _ _ _ _ H Hs2) as (S1 & S2 & S3 & S4).
      assert (Hnn : Forall non_has_none l2).
      { unfold l2. clear. induction (map simplify l); simpl; constructor; auto using lift_non_has_none. }
      specialize (S4 Hnn). rewrite Hd2, Hd1 in S4.
      split; [eapply Forall2_same_shape_trans; eassumption|]. split; [exact S2|]. split; [exact S4|].
      rewrite <- Hd1, <- Hd2. fold l2. rewrite (non_has_none_names _ Hnn).
      intros Hnd Hnot. split.
      * eapply autogen_nodup; [exact H | intros n Hn; right; apply in_map; exact Hn | exact Hnd].
      * intros Hin. apply in_map_iff in Hin as [k [Ek Hk]].
        destruct (autogen_names _ _ _ _ H _ Hk) as [Ho|[Hnt Hu]].
        -- apply Hnot. rewrite <- Ek. apply in_map. exact Ho.
        -- apply Hnt. left. rewrite <- Hu. symmetry. exact Ek.
Qed.

Lemma stage3_total fn_name l : exists l3, stage3 fn_name l = Ok l3.
Proof.
  unfold stage3. destruct (all_ok (map simplify l)); [eexists; reflexivity|].
  destruct (all_ok (map lift (map simplify l))); [eexists; reflexivity|]. apply autogen_total.
Qed.

(** *** The main facts about the renaming *)
Theorem fix_total fn_name l : exists l', fix_fn_param_idents fn_name l = Ok l'.
Proof.
  rewrite fix_unfold. destruct (stage3_total fn_name l) as [l3 ->]. simpl. apply make_unique_total.
Qed.

Theorem fix_usable fn_name l l' :
  fix_fn_param_idents fn_name l = Ok l' ->
  Forall2 same_shape l l' /\
  forallb is_plain_ident_arg l' = true /\
  NoDup (map unraw (plain_names l')) /\ ~ In (unraw fn_name) (map unraw (plain_names l')).
Proof.
  rewrite fix_unfold. intros H. inv_ok H.
  destruct (stage3_spec _ _ _ E) as (S1 & S2 & _ & _).
  destruct (make_unique_spec _ _ _ H0) as (M1 & M2 & M3 & M4).
  repeat split; auto.
  - eapply Forall2_same_shape_trans; eassumption.
  - intros Hin. apply in_map_iff in Hin as [k [Ek Hk]]. apply (M4 _ Hk). left. symmetry. exact Ek.
Qed.

(** two names that are the same identifier to rustc are never both among the result: in particular the names are
    distinct as strings, and none is the function's *)
Corollary fix_usable_strings fn_name l l' :
  fix_fn_param_idents fn_name l = Ok l' ->
  NoDup (plain_names l') /\ ~ In fn_name (plain_names l').
Proof.
  intros H. destruct (fix_usable _ _ _ H) as (_ & _ & N1 & N2). split.
  - eapply NoDup_map_inv; exact N1.
  - intros Hin. apply N2. apply in_map. exact Hin.
Qed.

Theorem fix_rules fn_name l l' :
  fix_fn_param_idents fn_name l = Ok l' ->
  let desired := map desired_name (filter is_typed l) in
  NoDup (map unraw (somes desired)) -> ~ In (unraw fn_name) (map unraw (somes desired)) ->
  rules_ok desired (plain_names l') = true.
Proof.
  rewrite fix_unfold. intros H desired Hnd Hnot. inv_ok H.
  destruct (stage3_spec _ _ _ E) as (_ & _ & S3 & S4). destruct (S4 Hnd Hnot) as [N1 N2].
  rewrite make_unique_id in H0; [injection H0 as <-; exact S3 | | exact N1].
  intros n Hn [Ek|[]]. apply N2. rewrite Ek. apply in_map. exact Hn.
Qed.

Lemma same_shape_typed_length : forall l l', Forall2 same_shape l l' ->
  List.length (filter is_typed l) = List.length (filter is_typed l').
Proof.
  induction 1 as [|a b l l' Hab _ IH]; [reflexivity|].
  destruct a, b; simpl in *; try contradiction; auto.
Qed.

Lemma plain_typed_length : forall l, forallb is_plain_ident_arg l = true ->
  List.length (plain_names l) = List.length (filter is_typed l).
Proof.
  induction l as [|a l IH]; intros H; [reflexivity|]. simpl in H. apply andb_true_iff in H as [H1 H2].
  destruct a as [x r m c|x [r m n sub|ts b] t]; simpl in *; try discriminate; auto.
Qed.

Theorem fix_length fn_name l l' :
  fix_fn_param_idents fn_name l = Ok l' ->
  List.length (plain_names l') = List.length (filter is_typed l).
Proof.
  intros H. destruct (fix_usable _ _ _ H) as (S1 & S2 & _). rewrite (plain_typed_length _ S2).
  symmetry. apply same_shape_typed_length. exact S1.
Qed.
