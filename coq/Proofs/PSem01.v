(** * C01 / C07 (semantic half): what calling a generated delegating method does *)
From Coq Require Import List String Ascii Bool Arith Lia.
From Entrait Require Import Tok Syn Opts Split FnParams Convert Codegen Expand Proj.
From Entrait.Proofs Require Import Base Shapes PFnParams PC16 PC01 Sem.
Import ListNotations.
Local Open Scope list_scope.

(** For every function the macro analyses (standalone, module fn, impl-block fn), evaluating the body of
    its delegating method with the method's parameters bound positionally to the caller's arguments
    performs exactly one call: of the function with the source function's own name ([Self::name] for
    impl blocks), passing the receiver (when the function has a dependency parameter and the impl is the
    direct one) followed by the caller's arguments 0..n-1 in declared order; awaited iff the source is async. *)
Theorem delegating_call_semantics ind im k o s tf args :
  fn_ok k o s tf ->
  call_args (p_items (s_inputs (tf_sig tf))) = Ok args ->
  ~ In "self"%string (typed_names (tf_sig tf)) ->
  eval_fn_call (typed_names (tf_sig tf)) (deleg_body ind im tf args) =
  Some (mkEvent
          (match im with MImplBlock => CSelfFn (s_name s) | _ => CFn (s_name s) end)
          ((if match ind with INone => negb (no_deps_value o) | _ => false end then [VSelf] else []) ++
           map VArg (seq 0 (List.length (typed_names (tf_sig tf)))))
          (s_async s)).
Proof.
  intros Hok Hc Hself.
  destruct (deleg_body_expected ind im _ _ _ _ _ Hok Hc) as (B1 & B2 & _).
  assert (Hu : names_usable (tf_sig tf) = true).
  { destruct Hok as (tg1 & tg2 & tf0 & Ha & _ & E2 & _). rewrite E2. destruct (c16_sig _ _ _ _ _ _ Ha) as [N _]. exact N. }
  rewrite B1, (eval_expected_body _ _ _ _ Hu Hself). unfold expected_event. rewrite B2. destruct im; reflexivity.
Qed.
