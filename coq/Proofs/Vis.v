(** * Vis: what a visibility denotes, and why the trait of an entraited module is written one level deeper

    C13 says the generated trait "has exactly the requested visibility".  For a function or a trait the
    generated trait stands where the attribute stands, so the same tokens denote the same scope.  For a module
    the trait is defined *inside* the module, one level below the invocation site, and is re-exported beside it:
    there the same tokens denote another scope whenever they are relative ([pub(self)], [pub(super)],
    [pub(in super::..)], or none at all).  This file gives the denotation ([vis_scope]: the module within which
    the item is visible) and proves that [Codegen.module_vis v], read inside the module, denotes what [v]
    denotes at the invocation site; [same_tokens_would_be_wrong] shows that [v] itself does not (what the
    unrepaired macro emitted: finding F17). *)
From Coq Require Import List String Ascii Bool Arith Lia.
From Entrait Require Import Tok Syn Codegen.
From Entrait.Proofs Require Import Base.
Import ListNotations.
Local Open Scope string_scope.
Local Open Scope list_scope.

(** A module is named by its path from the crate root, INNERMOST first: [["b"; "a"]] is [crate::a::b]. *)
Definition mpath := list string.

Inductive scope := Everywhere | Within (m : mpath).

(** [(:: ident)*] *)
Fixpoint segs (ts : toks) : option (list string) :=
  match ts with
  | [] => Some []
  | c1 :: c2 :: TId s :: rest =>
      if is_p ":" c1 && is_p ":" c2 then option_map (cons s) (segs rest) else None
  | _ => None
  end.

Definition path_idents (path : toks) : option (list string) :=
  match path with
  | TId s :: rest => option_map (cons s) (segs rest)
  | _ => None
  end.

(** follow path segments from a module: [super] goes up, a name goes down *)
Fixpoint walk (at_ : mpath) (p : list string) : option mpath :=
  match p with
  | [] => Some at_
  | s :: rest =>
      if String.eqb s "super" then match at_ with _ :: up => walk up rest | [] => None end
      else walk (s :: at_) rest
  end.

(** 2018 edition: the path of a restricted visibility starts with [crate], [self] or [super] *)
Definition resolve (site : mpath) (p : list string) : option mpath :=
  match p with
  | s :: rest =>
      if String.eqb s "crate" then walk [] rest
      else if String.eqb s "self" then walk site rest
      else if String.eqb s "super" then walk site p
      else None
  | [] => None
  end.

Fixpoint mpath_eqb (a b : mpath) : bool :=
  match a, b with
  | [], [] => true
  | x :: a', y :: b' => String.eqb x y && mpath_eqb a' b'
  | _, _ => false
  end.

Fixpoint is_suffix (s l : mpath) : bool :=
  mpath_eqb s l || match l with [] => false | _ :: up => is_suffix s up end.

(** rustc: the path must name an ancestor of the module the visibility is written in (E0742 otherwise) *)
Definition ancestor (site m : mpath) : option scope := if is_suffix m site then Some (Within m) else None.

Definition vis_path (inner : toks) : toks :=
  match inner with
  | t :: rest => if is_id "in" t then rest else inner
  | [] => inner
  end.

(** the scope a visibility denotes when written in module [site]; [None]: not a visibility rustc accepts there *)
Definition vis_scope (site : mpath) (v : vis) : option scope :=
  match v with
  | [] => Some (Within site)
  | [p] => if is_id "pub" p then Some Everywhere else None
  | [p; TG Paren inner] =>
      if is_id "pub" p then
        match path_idents (vis_path inner) with
        | Some ids => match resolve site ids with Some m => ancestor site m | None => None end
        | None => None
        end
      else None
  | _ => None
  end.

(** ** lemmas *)
Lemma list_eqb_string_refl (l : list string) : mpath_eqb l l = true.
Proof. induction l as [|x l IH]; cbn; [reflexivity|]. rewrite String.eqb_refl. exact IH. Qed.

Lemma is_suffix_refl m : is_suffix m m = true.
Proof. destruct m; cbn [is_suffix]; rewrite list_eqb_string_refl; reflexivity. Qed.

Lemma is_suffix_cons s x l : is_suffix s l = true -> is_suffix s (x :: l) = true.
Proof. intros H. cbn [is_suffix]. rewrite H. apply orb_true_r. Qed.

Lemma ancestor_deeper site x m s : ancestor site m = Some s -> ancestor (x :: site) m = Some s.
Proof.
  unfold ancestor. destruct (is_suffix m site) eqn:E; [|discriminate]. intros <-.
  rewrite (is_suffix_cons _ x _ E). reflexivity.
Qed.

(** the scope of a restricted visibility, from the identifiers of its path *)
Definition ids_scope (site : mpath) (ids : list string) : option scope :=
  match resolve site ids with Some m => ancestor site m | None => None end.

Lemma restricted_scope site p inner :
  is_id "pub" p = true ->
  vis_scope site [p; TG Paren inner] =
  match path_idents (vis_path inner) with Some ids => ids_scope site ids | None => None end.
Proof. intros E. cbn [vis_scope]. rewrite E. reflexivity. Qed.

(** one level deeper, [super :: ids'] reaches what [self :: ids'] reached, and [super :: super :: ids'] what
    [super :: ids'] reached; [crate ..] is absolute *)
Lemma deeper_self site m ids' s :
  ids_scope site ("self" :: ids') = Some s -> ids_scope (m :: site) ("super" :: ids') = Some s.
Proof.
  unfold ids_scope. cbn. destruct (walk site ids') as [m0|]; [|discriminate]. apply ancestor_deeper.
Qed.

Lemma deeper_super site m ids' s :
  ids_scope site ("super" :: ids') = Some s -> ids_scope (m :: site) ("super" :: "super" :: ids') = Some s.
Proof.
  unfold ids_scope. cbn. destruct site as [|x up]; [discriminate|].
  destruct (walk up ids') as [m0|]; [|discriminate]. apply ancestor_deeper.
Qed.

Lemma deeper_crate site m ids' s :
  ids_scope site ("crate" :: ids') = Some s -> ids_scope (m :: site) ("crate" :: ids') = Some s.
Proof.
  unfold ids_scope. cbn. destruct (walk [] ids') as [m0|]; [|discriminate]. apply ancestor_deeper.
Qed.

Lemma module_vis_restricted p inner :
  module_vis [p; TG Paren inner] =
  match vis_path inner with
  | [] => [p; TG Paren inner]
  | t :: rest =>
      if is_id "self" t then
        match rest with
        | [] => [p; TG Paren [TId "super"]]
        | _ => [p; TG Paren ([TId "in"; TId "super"] ++ rest)]
        end
      else if is_id "super" t then [p; TG Paren ([TId "in"; TId "super"] ++ path_sep ++ vis_path inner)]
      else [p; TG Paren inner]
  end.
Proof. reflexivity. Qed.

(** ** the theorem: read inside the module, [module_vis v] denotes what [v] denotes at the invocation site *)
Theorem module_vis_scope : forall site m v s,
  vis_scope site v = Some s -> vis_scope (m :: site) (module_vis v) = Some s.
Proof.
  intros site m v s H.
  destruct v as [|p [|g [|x rest]]].
  - (* none: visible in the invocation site = pub(super) from inside the module *)
    cbn in H. injection H as <-. cbn. unfold ancestor. rewrite (is_suffix_cons _ m _ (is_suffix_refl site)). reflexivity.
  - cbn in H |- *. exact H.
  - destruct g as [s0|c|l|d inner]; try (cbn in H; discriminate).
    destruct d; try (cbn in H; discriminate).
    assert (Ep : is_id "pub" p = true) by (cbn [vis_scope] in H; destruct (is_id "pub" p); [reflexivity|discriminate]).
    rewrite (restricted_scope _ _ _ Ep) in H.
    rewrite module_vis_restricted.
    destruct (vis_path inner) as [|t path'] eqn:Epath; [discriminate H|].
    destruct t as [s1|c|l|d i0]; try discriminate H.
    cbn [path_idents] in H. destruct (segs path') as [ids'|] eqn:Es; [|discriminate]. cbn [option_map] in H.
    cbn [is_id].
    destruct (String.eqb s1 "self") eqn:Eself.
    + apply String.eqb_eq in Eself. subst s1.
      destruct path' as [|c1 path''].
      * cbn in Es. injection Es as <-. rewrite (restricted_scope _ _ _ Ep). cbn [vis_path is_id]. cbn [path_idents segs option_map].
        apply deeper_self. exact H.
      * rewrite (restricted_scope _ _ _ Ep).
        change (vis_path ([TId "in"; TId "super"] ++ c1 :: path'')) with (TId "super" :: c1 :: path'').
        cbn [path_idents]. rewrite Es. cbn [option_map]. apply deeper_self. exact H.
    + destruct (String.eqb s1 "super") eqn:Esuper.
      * apply String.eqb_eq in Esuper. subst s1. rewrite (restricted_scope _ _ _ Ep).
        change (vis_path ([TId "in"; TId "super"] ++ path_sep ++ TId "super" :: path')) with (TId "super" :: path_sep ++ TId "super" :: path').
        change (path_idents (TId "super" :: path_sep ++ TId "super" :: path')) with (option_map (cons "super") (option_map (cons "super") (segs path'))).
        rewrite Es. cbn [option_map]. apply deeper_super. exact H.
      * rewrite (restricted_scope _ _ _ Ep), Epath. cbn [path_idents]. rewrite Es. cbn [option_map].
        unfold ids_scope in H |- *. cbn [resolve] in H |- *. rewrite Eself, Esuper in *.
        destruct (String.eqb s1 "crate"); [|discriminate].
        destruct (walk [] ids') as [m0|]; [|discriminate]. apply ancestor_deeper. exact H.
  - cbn in H. destruct g as [s0|c|l|d inner]; try discriminate H. destruct d; discriminate H.
Qed.

(** emitting the requested tokens unchanged inside the module (the unrepaired macro) denotes another scope:
    [pub(super)] requested in [crate::a::b] means [crate::a], but inside [crate::a::b::m] it means [crate::a::b] *)
Example same_tokens_would_be_wrong :
  let v := [TId "pub"; TG Paren [TId "super"]] in
  vis_scope ["b"; "a"] v = Some (Within ["a"]) /\
  vis_scope ["m"; "b"; "a"] v = Some (Within ["b"; "a"]) /\
  vis_scope ["m"; "b"; "a"] (module_vis v) = Some (Within ["a"]).
Proof. vm_compute. repeat split. Qed.

(** non-vacuity: every form of visibility has a scope somewhere *)
Example vis_scope_examples :
  vis_scope ["b"; "a"] [] = Some (Within ["b"; "a"]) /\
  vis_scope ["b"; "a"] [TId "pub"] = Some Everywhere /\
  vis_scope ["b"; "a"] [TId "pub"; TG Paren [TId "crate"]] = Some (Within []) /\
  vis_scope ["b"; "a"] [TId "pub"; TG Paren [TId "self"]] = Some (Within ["b"; "a"]) /\
  vis_scope ["b"; "a"] [TId "pub"; TG Paren ([TId "in"; TId "super"] ++ path_sep ++ [TId "super"])] = Some (Within []) /\
  vis_scope ["b"; "a"] [TId "pub"; TG Paren ([TId "in"; TId "crate"] ++ path_sep ++ [TId "a"])] = Some (Within ["a"]) /\
  vis_scope ["b"; "a"] [TId "pub"; TG Paren ([TId "in"; TId "self"] ++ path_sep ++ [TId "super"])] = Some (Within ["a"]) /\
  vis_scope ["b"; "a"] [TId "pub"; TG Paren ([TId "in"; TId "self"] ++ path_sep ++ [TId "c"])] = None.
Proof. vm_compute. repeat split. Qed.
