(** * C08: module mode — the trait's methods are exactly the module's visible functions with a body *)
From Coq Require Import List String Ascii Bool Arith Lia.
From Entrait Require Import Tok Syn Opts Split FnParams Convert Codegen Expand Proj.
From Entrait.Proofs Require Import Base Shapes PSplit PFnParams PC16 PC01.
Import ListNotations.
Local Open Scope list_scope.

Lemma fn_ok_names k o : forall sigs fns, Forall2 (fn_ok k o) sigs fns ->
  map (fun tf => s_name (tf_sig tf)) fns = map s_name sigs.
Proof.
  induction 1 as [|s tf sigs fns Hh _ IH]; [reflexivity|]. cbn [map]. rewrite IH. f_equal.
  destruct Hh as (tg1 & tg2 & tf0 & Ha & _ & E2 & _). rewrite E2.
  destruct (analyze_facts _ _ _ _ _ _ Ha) as (F1 & _). exact F1.
Qed.

(** the functions the splitter classified as visible fns with a body, by name, in source order *)
Definition split_fn_names (bitems : list body_item) : list string := map (fun x => s_name (sig_of x)) (body_fns bitems).

(** *** methods of the generated trait and impl = the splitter's visible functions, in order *)
Lemma c08_methods_eq v attr h name body sigs sf items :
  expand_items v attr (InMod h name body sigs sf) = Ok items ->
  exists bitems fl user tr im uv tree,
    split_body true sigs body = Ok (bitems, fl) /\
    parts (InMod h name body sigs sf) items = Some (GMod (h_attrs h) (h_vis h) name user tr im uv tree) /\
    map (fun '(_, s) => s_name s) (trait_sigs tr) = split_fn_names bitems /\
    map (fun '(_, s, _) => s_name s) (impl_fns im) = split_fn_names bitems /\
    only_trait_fns tr = true /\ only_impl_fns im = true.
Proof.
  intros H.
  destruct (expand_mod_inv _ _ _ _ _ _ _ _ H) as (_ & bitems & fl & a & fns0 & tg & mode & ib & Hs & Ha & Hz & _ & Hib & ->).
  destruct (gen_impl_block_fns _ _ _ _ _ _ _ _ _ Hib) as (argss & Fa & Hfns & Honly & _).
  pose proof (with_cfg_attrs_fn_ok _ _ _ _ (body_fns bitems) (analyze_all_fn_ok _ _ _ _ _ _ Hz)) as Hok.
  pose proof (fn_ok_names _ _ _ _ Hok) as Hn.
  do 7 eexists. split; [exact Hs|]. split; [apply parts_mod|].
  rewrite trait_sigs_gen_trait_def, Hfns, only_trait_fns_gen_trait_def, Honly. unfold split_fn_names.
  rewrite map_map in Hn.
  repeat split.
  - rewrite map_map. etransitivity; [|exact Hn]. apply map_ext. intros tf. cbn. apply make_trait_fn_sig_name.
  - rewrite map_map, <- Hn.
    rewrite <- (combine_map_fst _ _ (Forall2_length' _ _ _ Fa)) at 2. rewrite map_map.
    apply map_ext. intros [tf args]. reflexivity.
Qed.

(** *** which chunks are functions (module items) *)

(** a chunk without a visibility qualifier is never a trait method *)
Lemma private_chunk_is_not_fn sigs pos ts attrs r0 r1 it f rest :
  parse_outer ts = Ok (attrs, r0) -> parse_vis r0 = ([], r1) ->
  parse_body_item true sigs pos ts = Ok (it, f, rest) ->
  exists tokens, it = BUnknown attrs [] tokens.
Proof.
  intros Ho Hv H. unfold parse_body_item in H. rewrite Ho in H. cbn [rbind] in H. rewrite Hv in H. cbn [andb] in H.
  destruct (rbind_ok _ _ _ H) as [[tokens r2] [_ H2]]. cbv beta in H2. injection H2 as <- _ _. eexists. reflexivity.
Qed.

(** a chunk whose tokens after attributes and visibility do not start like a fn is never a trait method *)
Lemma non_fn_chunk_is_not_fn in_mod sigs pos ts attrs r0 v r1 it f rest :
  parse_outer ts = Ok (attrs, r0) -> parse_vis r0 = (v, r1) -> peek_fn r1 = false ->
  parse_body_item in_mod sigs pos ts = Ok (it, f, rest) ->
  exists tokens, it = BUnknown attrs v tokens.
Proof.
  intros Ho Hv Hp H. unfold parse_body_item in H. rewrite Ho in H. cbn [rbind] in H. rewrite Hv, Hp, andb_false_r in H.
  destruct (rbind_ok _ _ _ H) as [[tokens r2] [_ H2]]. cbv beta in H2. injection H2 as <- _ _. eexists. reflexivity.
Qed.

(** a signature directly followed by [;] (a body-less declaration) is never a trait method *)
Lemma bodiless_chunk_is_not_fn in_mod sigs pos ts attrs r0 v r1 sa r3 it f rest :
  parse_outer ts = Ok (attrs, r0) -> parse_vis r0 = (v, r1) ->
  find_sig (pos + (List.length ts - List.length r1)) sigs = Some sa ->
  skipn (sa_len sa) r1 = pc ";" :: r3 ->
  parse_body_item in_mod sigs pos ts = Ok (it, f, rest) ->
  exists tokens, it = BUnknown attrs v tokens.
Proof.
  intros Ho Hv Hf Hs H. unfold parse_body_item in H. rewrite Ho in H. cbn [rbind] in H. rewrite Hv in H.
  destruct ((if in_mod then match v with [] => false | _ => true end else true) && peek_fn r1).
  - rewrite Hf, Hs in H. cbn in H. injection H as <- _ _. eexists. reflexivity.
  - destruct (rbind_ok _ _ _ H) as [[tokens r2] [_ H2]]. cbv beta in H2. injection H2 as <- _ _. eexists. reflexivity.
Qed.

(** a function chunk of a module has a visibility qualifier, starts like a fn, and ends with its body *)
Lemma fn_chunk_is_visible_fn sigs pos ts attrs v s body f rest :
  parse_body_item true sigs pos ts = Ok (BFn attrs v s body, f, rest) ->
  exists r0 r1, parse_outer ts = Ok (attrs, r0) /\ parse_vis r0 = (v, r1) /\ v <> [] /\ peek_fn r1 = true.
Proof.
  unfold parse_body_item. intros H. destruct (rbind_ok _ _ _ H) as [[attrs' r0] [Ho H2]]. cbv beta in H2. clear H.
  destruct (parse_vis r0) as [v' r1] eqn:Hv.
  destruct ((match v' with [] => false | _ => true end) && peek_fn r1) eqn:Hc.
  - apply andb_true_iff in Hc as [Hc1 Hc2].
    destruct (find_sig (pos + (List.length ts - List.length r1)) sigs) as [sa|]; [|discriminate].
    assert (Hx : attrs' = attrs /\ v' = v).
    { destruct (match skipn (sa_len sa) r1 with t :: _ => is_semi t | [] => false end); [discriminate H2|].
      destruct (rbind_ok _ _ _ H2) as [[b r3] [_ H3]]. cbv beta in H3. injection H3 as <- <- _ _ _ _. auto. }
    destruct Hx as [-> ->]. exists r0, r1. repeat split; auto. intros ->. discriminate Hc1.
  - destruct (rbind_ok _ _ _ H2) as [[tokens r2] [_ H3]]. cbv beta in H3. discriminate H3.
Qed.

(** *** the view, relative to an oracle that agrees with the splitter *)
Lemma c08_view v attr h name body sigs sf items bitems fl :
  expand_items v attr (InMod h name body sigs sf) = Ok items ->
  split_body true sigs body = Ok (bitems, fl) ->
  (forall l, sf = Some l -> l = split_fn_names bitems) ->
  good (view_C08 (mkCtx v attr (InMod h name body sigs sf)) items).
Proof.
  intros H Hs Hsf. destruct (c08_methods_eq _ _ _ _ _ _ _ _ H) as (bitems' & fl' & user & tr & im & uv & tree & Hs' & Hp & Ht & Hi & Hot & Hoi).
  rewrite Hs in Hs'. injection Hs' as <- <-.
  unfold view_C08, good. cbn [x_input]. rewrite Hp. destruct sf as [l|]; cbn [decided na v_app v_det v_holds]; [|discriminate].
  intros _. rewrite (Hsf l eq_refl), Ht, Hi, Hot, str_list_eqb_refl. auto.
Qed.
