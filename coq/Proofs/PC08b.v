(** * C08, grammar: on a body that is a concatenation of well-delimited items the splitter's chunks are
    exactly those items (so that "functions declared directly in the module" is what it classifies) *)
From Coq Require Import List String Ascii Bool Arith Lia.
From Entrait Require Import Tok Syn Opts Split.
From Entrait.Proofs Require Import Base PSplit.
Import ListNotations.
Local Open Scope list_scope.

(** a well-delimited non-function item: outer attributes, an optional visibility, tokens without a
    top-level brace group or [;], one terminator (a brace group or [;]), and directly following [;]s *)
Record witem := mkW { wi_attrs : list attr; wi_vis : vis; wi_core : toks; wi_term : tt; wi_semis : toks }.

Definition print_witem (w : witem) : toks :=
  print_attrs (wi_attrs w) ++ wi_vis w ++ wi_core w ++ [wi_term w] ++ wi_semis w.

Definition starts_hash (ts : toks) : bool := match ts with TP c :: _ => Ascii.eqb c "#"%char | _ => false end.
Definition starts_semi (ts : toks) : bool := match ts with t :: _ => is_semi t | [] => false end.

Definition vis_shape_ok (v : vis) (after : toks) : Prop :=
  (v = [] /\ match after with TId p :: _ => String.eqb p "pub" = false | _ => True end) \/
  (v = [TId "pub"] /\ match after with TG Paren inner :: _ => restricted_head inner = false | _ => True end) \/
  (exists inner, v = [TId "pub"; TG Paren inner] /\ restricted_head inner = true).

Record witem_ok (w : witem) : Prop := {
  wo_core : forallb (fun t => negb (is_brace t || is_semi t)) (wi_core w) = true;
  wo_term : is_brace (wi_term w) || is_semi (wi_term w) = true;
  wo_semis : forallb is_semi (wi_semis w) = true;
  wo_nohash : starts_hash (wi_vis w ++ wi_core w ++ [wi_term w]) = false;
  wo_vis : vis_shape_ok (wi_vis w) (wi_core w ++ [wi_term w])
}.

Lemma parse_outer_attrs : forall (attrs : list attr) (rest : toks), starts_hash rest = false ->
  parse_outer (print_attrs attrs ++ rest) = Ok (attrs, rest).
Proof.
  induction attrs as [|a attrs IH]; intros rest H; cbn [print_attrs flat_map app].
  - destruct rest as [|[s|c|s|d g] r]; try reflexivity. cbn in H. cbn [parse_outer]. rewrite H. reflexivity.
  - change (flat_map print_attr attrs) with (print_attrs attrs). unfold print_attr at 1. cbn [app].
    cbn [parse_outer]. change (Ascii.eqb "#" "#") with true. cbn iota. rewrite (IH rest H). reflexivity.
Qed.

Lemma parse_vis_shape v after : vis_shape_ok v after -> parse_vis (v ++ after) = (v, after).
Proof.
  intros [[-> H]|[[-> H]|(inner & -> & H)]]; cbn [app].
  - destruct after as [|[p|c|p|d g] r]; try reflexivity. cbn [parse_vis]. rewrite H. reflexivity.
  - cbn [parse_vis]. change (String.eqb "pub" "pub") with true. cbn iota.
    destruct after as [|[p|c|p|d g] r]; try reflexivity. destruct d; try reflexivity. rewrite H. reflexivity.
  - cbn [parse_vis]. change (String.eqb "pub" "pub") with true. cbn iota. rewrite H. reflexivity.
Qed.

Lemma take_item_core : forall (core : toks) (term : tt) (rest : toks),
  forallb (fun t => negb (is_brace t || is_semi t)) core = true -> is_brace term || is_semi term = true ->
  take_item (core ++ term :: rest) = Some (core ++ [term], rest).
Proof.
  induction core as [|t core IH]; intros term rest Hc Ht; cbn [app take_item].
  - rewrite Ht. reflexivity.
  - cbn [forallb] in Hc. apply andb_true_iff in Hc as [H1 H2]. apply negb_true_iff in H1. rewrite H1.
    rewrite (IH term rest H2 Ht). reflexivity.
Qed.

Lemma take_semis_all : forall (semis rest : toks), forallb is_semi semis = true -> starts_semi rest = false ->
  take_semis (semis ++ rest) = (semis, rest).
Proof.
  induction semis as [|t semis IH]; intros rest Hs Hr; cbn [app].
  - destruct rest as [|t r]; [reflexivity|]. cbn in Hr. cbn [take_semis]. rewrite Hr. reflexivity.
  - cbn [forallb] in Hs. apply andb_true_iff in Hs as [H1 H2]. cbn [take_semis]. rewrite H1, (IH rest H2 Hr). reflexivity.
Qed.

(** one non-function item, whatever follows (as long as it does not start with another [;]) *)
Theorem non_fn_item_is_one_chunk (in_mod : bool) sigs pos w (rest : toks) :
  witem_ok w -> starts_semi rest = false ->
  ((if in_mod then match wi_vis w with [] => false | _ => true end else true) && peek_fn (wi_core w ++ [wi_term w] ++ wi_semis w ++ rest)) = false ->
  parse_body_item in_mod sigs pos (print_witem w ++ rest) =
  Ok (BUnknown (wi_attrs w) (wi_vis w) (wi_core w ++ [wi_term w] ++ wi_semis w), true, rest).
Proof.
  intros [Hc Ht Hs Hh Hv] Hr Hf. unfold parse_body_item, print_witem.
  rewrite <- !app_assoc.
  rewrite parse_outer_attrs.
  2:{ destruct (wi_vis w) as [|v0 vr]; cbn [app] in *.
      - destruct (wi_core w) as [|c0 cr]; cbn [app] in *; exact Hh.
      - exact Hh. }
  cbn [rbind].
  replace (wi_vis w ++ wi_core w ++ [wi_term w] ++ wi_semis w ++ rest)
    with (wi_vis w ++ ((wi_core w ++ [wi_term w]) ++ wi_semis w ++ rest)) by (rewrite <- !app_assoc; reflexivity).
  assert (Hv' : vis_shape_ok (wi_vis w) ((wi_core w ++ [wi_term w]) ++ wi_semis w ++ rest)).
  { destruct Hv as [[E H]|[[E H]|(inner & E & H)]]; [left|right; left|right; right; eauto]; split; try exact E;
      destruct (wi_core w) as [|c0 cr]; cbn [app] in *; exact H. }
  rewrite (parse_vis_shape _ _ Hv').
  replace ((wi_core w ++ [wi_term w]) ++ wi_semis w ++ rest) with (wi_core w ++ [wi_term w] ++ wi_semis w ++ rest)
    by (rewrite <- !app_assoc; reflexivity).
  rewrite Hf. unfold matched_braces_or_semi.
  change (wi_core w ++ [wi_term w] ++ wi_semis w ++ rest) with (wi_core w ++ wi_term w :: (wi_semis w ++ rest)).
  rewrite (take_item_core _ _ _ Hc Ht), (take_semis_all _ _ Hs Hr). cbn [rbind]. rewrite <- !app_assoc. reflexivity.
Qed.

(** one visible function with a body *)
Theorem fn_item_is_one_chunk (in_mod : bool) sigs pos (attrs : list attr) (v : vis) (sigtoks : toks) sg (body : tt) (semis rest : toks) :
  starts_hash (v ++ sigtoks) = false ->
  vis_shape_ok v (sigtoks ++ [body] ++ semis ++ rest) ->
  (if in_mod then match v with [] => false | _ => true end else true) = true ->
  peek_fn (sigtoks ++ [body] ++ semis ++ rest) = true ->
  find_sig (pos + (List.length (print_attrs attrs) + List.length v)) sigs = Some (mkSigAt (pos + (List.length (print_attrs attrs) + List.length v)) (List.length sigtoks) sg) ->
  print_sig sg = sigtoks ->
  is_brace body = true -> forallb is_semi semis = true -> starts_semi rest = false ->
  parse_body_item in_mod sigs pos (print_attrs attrs ++ v ++ sigtoks ++ [body] ++ semis ++ rest) =
  Ok (BFn attrs v sg ([body] ++ semis), true, rest).
Proof.
  intros Hh Hv Hm Hp Hf Hs Hb Hse Hr. unfold parse_body_item.
  rewrite parse_outer_attrs.
  2:{ destruct v as [|v0 vr]; cbn [app] in *; [destruct sigtoks as [|s0 sr]; cbn [app] in *; [destruct body as [s|c|s|d g]; try discriminate Hb; reflexivity | exact Hh] | exact Hh]. }
  cbn [rbind]. rewrite (parse_vis_shape _ _ Hv), Hm, Hp. cbn [andb].
  replace (List.length (print_attrs attrs ++ v ++ sigtoks ++ [body] ++ semis ++ rest) - List.length (sigtoks ++ [body] ++ semis ++ rest))
    with (List.length (print_attrs attrs) + List.length v) by (rewrite !app_length; lia).
  rewrite Hf. cbn [sa_len sa_sig].
  rewrite firstn_app, firstn_all, Nat.sub_diag, firstn_O, app_nil_r.
  rewrite skipn_app, skipn_all, Nat.sub_diag, skipn_O. cbn [app].
  assert (Hnb : is_semi body = false) by (destruct body as [s|c|s|d g]; try discriminate Hb; reflexivity).
  rewrite Hnb, Hs, toks_eqb_refl.
  unfold matched_braces_or_semi. cbn [take_item]. rewrite Hb. cbn [orb].
  rewrite (take_semis_all _ _ Hse Hr). reflexivity.
Qed.

Lemma parse_body_step in_mod sigs k pos ts0 : ts0 <> [] ->
  parse_body in_mod sigs (S k) pos ts0 =
  (let* (it, faithful, rest) := parse_body_item in_mod sigs pos ts0 in
   if Nat.leb (List.length ts0) (List.length rest) then OutOfDomain "no progress"
   else
     let* (more, f2) := parse_body in_mod sigs k (pos + (List.length ts0 - List.length rest)) rest in
     Ok (it :: more, faithful && f2)).
Proof. destruct ts0; [contradiction | reflexivity]. Qed.

(** chunks compose: if every piece is split off as one item with whatever follows it, the whole body
    splits into exactly these items *)
Theorem chunks_compose in_mod sigs : forall (pieces : list (toks * body_item)) fuel pos,
  (forall pre ts it post, pieces = pre ++ (ts, it) :: post ->
     ts <> [] /\
     parse_body_item in_mod sigs (pos + List.length (flat_map fst pre)) (ts ++ flat_map fst post) = Ok (it, true, flat_map fst post)) ->
  List.length (flat_map fst pieces) < fuel ->
  parse_body in_mod sigs fuel pos (flat_map fst pieces) = Ok (map snd pieces, true).
Proof.
  induction pieces as [|[ts it] pieces IH]; intros fuel pos H Hl.
  - destruct fuel; reflexivity.
  - destruct fuel as [|k]; [lia|].
    destruct (H [] ts it pieces eq_refl) as [Hne Hp]. cbn [flat_map fst app List.length] in Hp. rewrite Nat.add_0_r in Hp.
    cbn [flat_map fst].
    assert (Hne2 : ts ++ flat_map fst pieces <> []) by (destruct ts; [contradiction | discriminate]).
    rewrite (parse_body_step _ _ _ _ _ Hne2), Hp. cbn [rbind].
    assert (Hlt : (List.length (ts ++ flat_map fst pieces) <=? List.length (flat_map fst pieces)) = false).
    { apply Nat.leb_gt. rewrite app_length. destruct ts; [contradiction | simpl; lia]. }
    rewrite Hlt.
    replace (List.length (ts ++ flat_map fst pieces) - List.length (flat_map fst pieces)) with (List.length ts)
      by (rewrite app_length; lia).
    rewrite (IH k (pos + List.length ts)).
    + reflexivity.
    + intros pre ts' it' post Hpieces. destruct (H ((ts, it) :: pre) ts' it' post) as [Hne' Hp'].
      { rewrite Hpieces. reflexivity. }
      split; [exact Hne'|]. cbn [flat_map fst] in Hp'. rewrite app_length, Nat.add_assoc in Hp'. exact Hp'.
    + cbn [flat_map fst] in Hl. rewrite app_length in Hl. destruct ts; [contradiction | simpl in Hl; lia].
Qed.
