(** * C05, composition: the trait emitted for a concrete-dependency function, handed back to the macro
    (as the compiler does for the nested [#[::entrait::entrait(unimock = false, mockall = false)]]), expands *)
From Coq Require Import List String Ascii Bool Arith Lia.
From Entrait Require Import Tok Syn Opts Split FnParams Convert Codegen Expand Proj Proj2 Proj3.
From Entrait.Proofs Require Import Base Shapes PFnParams PC16 PC01 PC06.
Import ListNotations.
Local Open Scope list_scope.

(** the tokens inside the nested attribute's parentheses *)
Definition nested_attr_toks : toks := [TId "unimock"; pc "="; TId "false"; comma; TId "mockall"; pc "="; TId "false"].

Lemma entrait_for_trait_attr_toks : entrait_for_trait_attr = abs_path ["entrait"; "entrait"]%string ++ [TG Paren nested_attr_toks].
Proof. reflexivity. Qed.

(** what the nested invocation receives: the emitted trait without the nested attribute (and without the
    attributes in front of it, which the compiler has expanded before) *)
Definition nested_input (tr : item_trait) (rest_attrs : list attr) : input :=
  InTrait (mkHead rest_attrs (t_vis tr) false false)
          (mkTrait [] [] false false (t_name tr) (t_gen tr) (t_colon tr) (t_supers tr) (t_items tr)).

Lemma nested_attr_parses : parse_trait_attr nested_attr_toks =
  Ok (mkTraitAttr None (mkOpts None None None None None (Some false) (Some false)) None).
Proof. vm_compute. reflexivity. Qed.

Lemma analyze_trait_items_of_fns subs o : forall fns,
  Forall (fun tf => forallb is_pident (p_items (s_inputs (tf_sig tf))) = true) fns ->
  exists r, analyze_trait_items (map (fun tf => TFn (tf_attrs tf) (make_trait_fn_sig (tf_sig tf) subs o) None true) fns) = Ok r /\
            Forall (fun tf => forallb is_pident (p_items (s_inputs (tf_sig tf))) = true) r.
Proof.
  induction 1 as [|tf fns Hp _ IH]; [exists []; split; [reflexivity | constructor]|].
  destruct IH as (r & Hr & Fr). cbn [map analyze_trait_items]. rewrite make_trait_fn_sig_inputs, Hp, Hr. cbn [rbind].
  eexists. split; [reflexivity|]. constructor; [cbn [tf_sig]; rewrite make_trait_fn_sig_inputs; exact Hp | exact Fr].
Qed.

Lemma map_res_delegation_ok a ca : forall fns,
  Forall (fun tf => forallb is_pident (p_items (s_inputs (tf_sig tf))) = true) fns ->
  exists ms, map_res (delegation_method a ca) fns = Ok ms.
Proof.
  induction 1 as [|tf fns Hp _ IH]; [exists []; reflexivity|]. destruct IH as (ms & Hm).
  cbn [map_res]. unfold delegation_method at 1. rewrite (trait_call_args_pident _ Hp). cbn [rbind]. rewrite Hm. cbn [rbind].
  eexists; reflexivity.
Qed.

(** For every function with a concrete dependency that the macro accepts, the nested invocation on the
    emitted trait succeeds — under either facade variant and whatever further attributes remain on the trait —
    and produces the re-emitted trait plus the forwarding impl for [::entrait::Impl<EntraitT>] (whose shape
    and method bodies are C06's theorems). *)
Theorem nested_invocation_expands v attr h s body a tf tg ty ib v' rest_attrs :
  parse_fn_attr attr = Ok a ->
  analyze RSelfRef (apply_variant v (fa_opts a)) empty_tg (merged_sig h s) = Ok (tf, tg) ->
  expand_items v attr (InFn h s body) =
    Ok [IFn (h_attrs h) (h_vis h) (merged_sig h s) body;
        ITrait (gen_trait_def (apply_variant v (fa_opts a)) TPlain (MConcrete ty) (h_attrs h) None (fa_vis a) (fa_trait a) tg false pempty [tf] MSingleFn);
        IImpl ib] ->
  let tr := gen_trait_def (apply_variant v (fa_opts a)) TPlain (MConcrete ty) (h_attrs h) None (fa_vis a) (fa_trait a) tg false pempty [tf] MSingleFn in
  In entrait_for_trait_attr (t_attrs tr) /\
  exists items', expand_items v' nested_attr_toks (nested_input tr rest_attrs) = Ok items' /\
                 good (view_C06 (mkCtx v' nested_attr_toks (nested_input tr rest_attrs)) items').
Proof.
  intros Ha Hz H tr. split.
  - unfold tr, gen_trait_def. cbn [t_attrs]. apply in_or_app. right. apply in_or_app. left. left. reflexivity.
  - assert (Hok : exists items', expand_items v' nested_attr_toks (nested_input tr rest_attrs) = Ok items').
    { unfold nested_input. cbn [expand_items]. rewrite nested_attr_parses. cbn [rbind ta_impl_trait ta_opts ta_delegate].
      unfold output_for_trait. cbn [ta_impl_trait ta_delegate t_items t_name t_gen t_colon t_supers h_attrs h_vis].
      assert (Hp : Forall (fun tf0 => forallb is_pident (p_items (s_inputs (tf_sig tf0))) = true) [tf]).
      { constructor; [|constructor]. apply plain_is_pident. destruct (analyze_facts _ _ _ _ _ _ Hz) as (_ & _ & _ & _ & F5). exact F5. }
      unfold tr at 1. unfold gen_trait_def at 1. cbn [t_items].
      destruct (analyze_trait_items_of_fns (h_attrs h) (apply_variant v (fa_opts a)) [tf] Hp) as (r & Hr & Fr).
      rewrite Hr. cbn [rbind]. unfold delegation_trait_defs. cbn [ta_impl_trait rbind].
      match goal with |- context [map_res (delegation_method ?aa ?ca) r] =>
        destruct (map_res_delegation_ok aa ca r Fr) as (ms & Hm)
      end.
      rewrite Hm. cbn [rbind]. eexists; reflexivity. }
    destruct Hok as (items' & Hi). exists items'. split; [exact Hi|]. apply c06_view. exact Hi.
Qed.
