(** * C01 / C07 (impl-block half): the delegating bodies *)
From Coq Require Import List String Ascii Bool Arith Lia.
From Entrait Require Import Tok Syn Opts Split FnParams Convert Codegen Expand Proj.
From Entrait.Proofs Require Import Base Shapes PFnParams PC16.
Import ListNotations.
Local Open Scope list_scope.

Lemma plain_is_pident l : forallb is_plain_ident_arg l = true -> forallb is_pident l = true.
Proof.
  induction l as [|a l IH]; intros H; [reflexivity|]. simpl in *. apply andb_true_iff in H as [H1 H2].
  rewrite (IH H2), andb_true_r. destruct a as [|x [r m n sub|ts b] t]; simpl in *; auto.
Qed.

(** facts about one analysed function *)
Lemma analyze_facts k o tg s tf tg' :
  analyze k o tg s = Ok (tf, tg') ->
  s_name (tf_sig tf) = s_name s /\ tf_async tf = s_async s /\
  (tf_deps tf = DNoDeps <-> no_deps_value o = true) /\
  p_items (s_inputs (tf_sig tf)) <> [] /\
  forallb is_plain_ident_arg (p_items (s_inputs (tf_sig tf))) = true.
Proof.
  intros H. destruct (c16_sig _ _ _ _ _ _ H) as [N _].
  destruct (analyze_inv _ _ _ _ _ _ H) as (deps & s' & Ha & Hc & ->). cbn [tf_sig tf_async tf_deps] in *.
  destruct (convert_sig_inv _ _ _ _ Hc) as (inputs1 & args & Hg & Hf & ->). cbn [s_name s_inputs p_items] in *.
  destruct (inputs1_shape _ _ _ _ _ _ _ Ha Hg) as (reference & Hp & Hd).
  destruct (fix_usable _ _ _ Hf) as (U1 & U2 & _).
  repeat split; try apply Hd; try exact U2.
  intros ->. rewrite Hp in U1. inversion U1 as [Hnil|]. destruct k; discriminate Hnil.
Qed.

(** the delegating body is [[Self::]f([self,] own parameters in order)[.await]] *)
Lemma deleg_body_expected ind im k o s tf args :
  fn_ok k o s tf ->
  call_args (p_items (s_inputs (tf_sig tf))) = Ok args ->
  deleg_body ind im tf args =
  expected_body (match im with MImplBlock => true | _ => false end)
                (match ind with INone => negb (no_deps_value o) | _ => false end) (tf_sig tf) (s_async s) /\
  s_name (tf_sig tf) = s_name s /\
  forallb is_pident (p_items (s_inputs (tf_sig tf))) = true.
Proof.
  intros (tg1 & tg2 & tf0 & Ha & E1 & E2 & E3) Hc.
  destruct (analyze_facts _ _ _ _ _ _ Ha) as (F1 & F2 & F3 & F4 & F5).
  rewrite <- E2 in F1, F4, F5. rewrite <- E3 in F2. rewrite <- E1 in F3.
  rewrite (call_args_plain _ F5) in Hc. injection Hc as <-.
  split; [|split; [exact F1 | apply plain_is_pident; exact F5]].
  assert (Hself : match tf_deps tf, p_items (s_inputs (tf_sig tf)), ind with
                  | DNoDeps, _, _ => []
                  | _, [], _ => []
                  | _, _, (IStatic _ | IDynamic _) => []
                  | _, _ :: _, INone => [TId "self"; comma]
                  end = if match ind with INone => negb (no_deps_value o) | _ => false end then [TId "self"; comma] else []).
  { destruct (tf_deps tf) eqn:Ed.
    - assert (Hn : no_deps_value o = false) by (destruct (no_deps_value o); [destruct F3 as [_ F3]; specialize (F3 eq_refl); discriminate | reflexivity]).
      rewrite Hn. destruct (p_items (s_inputs (tf_sig tf))); [contradiction|]. destruct ind; reflexivity.
    - assert (Hn : no_deps_value o = false) by (destruct (no_deps_value o); [destruct F3 as [_ F3]; specialize (F3 eq_refl); discriminate | reflexivity]).
      rewrite Hn. destruct (p_items (s_inputs (tf_sig tf))); [contradiction|]. destruct ind; reflexivity.
    - destruct F3 as [F3 _]. rewrite (F3 eq_refl). destruct ind; reflexivity. }
  unfold deleg_body, expected_body, typed_names. rewrite F2, Hself. destruct im; reflexivity.
Qed.

Lemma bodies_ok_all ind im k o : forall sigs fns argss,
  Forall2 (fn_ok k o) sigs fns ->
  Forall2 (fun tf args => call_args (p_items (s_inputs (tf_sig tf))) = Ok args) fns argss ->
  bodies_ok (match im with MImplBlock => true | _ => false end)
            (match ind with INone => negb (no_deps_value o) | _ => false end)
            (map (fun s => (s_name s, s_async s)) sigs)
            (map (fun '(tf, args) => (tf_attrs tf, tf_sig tf, deleg_body ind im tf args)) (combine fns argss)) = true.
Proof.
  intros sigs fns argss H. revert argss. induction H as [|s tf sigs fns Hh _ IH]; intros argss Hc.
  - inversion Hc; subst. reflexivity.
  - inversion Hc as [|? args ? argss' Hc1 Hc2]; subst. cbn [map combine bodies_ok].
    destruct (deleg_body_expected ind im _ _ _ _ _ Hh Hc1) as (B1 & B2 & B3).
    rewrite B1, B2, B3, String.eqb_refl, toks_eqb_refl. cbn [andb]. apply IH. exact Hc2.
Qed.

Lemma src_names_async_map l : src_names_async l = map (fun s => (s_name s, s_async s)) (map sig_of l).
Proof. unfold src_names_async. rewrite map_map. apply map_ext. intros [[[a v] s] b]. reflexivity. Qed.

Lemma c01_view v attr i items :
  expand_items v attr i = Ok items -> good (view_C01 (mkCtx v attr i) items).
Proof.
  intros H. destruct i as [h s body|h|h t|h|h tp st body sigs sf|h|h name body sigs sf|h|]; try discriminate H.
  - destruct (expand_fn_inv _ _ _ _ _ _ H) as (a & tf & tg & mode & ib & Ha & Hz & _ & Hib & ->).
    destruct (gen_impl_block_fns _ _ _ _ _ _ _ _ _ Hib) as (argss & Fa & Hfns & Honly & _).
    unfold view_C01, good, fn_opts. cbn [x_input x_attr x_variant source_fns]. rewrite parts_fn, Ha. cbn [decided v_app v_det v_holds].
    intros _. split; [reflexivity|]. rewrite Honly, Hfns. cbn [andb]. fold (merged_sig h s).
    pose proof (bodies_ok_all INone MSingleFn RSelfRef _ [merged_sig h s] [tf] argss
                  (Forall2_cons _ _ (fn_ok_single _ _ _ _ _ _ Hz) (Forall2_nil _)) Fa) as B.
    exact B.
  - unfold view_C01, good. cbn. discriminate.
  - unfold view_C01, good. cbn. discriminate.
  - destruct (expand_mod_inv _ _ _ _ _ _ _ _ H) as (_ & bitems & fl & a & fns0 & tg & mode & ib & Hs & Ha & Hz & _ & Hib & ->).
    destruct (gen_impl_block_fns _ _ _ _ _ _ _ _ _ Hib) as (argss & Fa & Hfns & Honly & _).
    unfold view_C01, good, fn_opts. cbn [x_input x_attr x_variant source_fns]. rewrite Hs, parts_mod, Ha. cbn [decided v_app v_det v_holds].
    intros _. split; [reflexivity|]. rewrite Honly, Hfns, src_names_async_map. cbn [andb].
    exact (bodies_ok_all INone MModule RSelfRef _ _ _ argss
             (with_cfg_attrs_fn_ok _ _ _ _ _ (analyze_all_fn_ok _ _ _ _ _ _ Hz)) Fa).
Qed.
