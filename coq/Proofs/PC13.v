(** * C13: generated traits have exactly the requested visibility *)
From Coq Require Import List String Ascii Bool Arith Lia.
From Entrait Require Import Tok Syn Opts Split FnParams Convert Codegen Expand Proj.
From Entrait.Proofs Require Import Base Shapes.
Import ListNotations.
Local Open Scope list_scope.

(** explicit statements *)
Lemma c13_fn_vis v attr h s body items :
  expand_items v attr (InFn h s body) = Ok items ->
  exists a f tr im, parse_fn_attr attr = Ok a /\ items = [f; ITrait tr; IImpl im] /\
                    t_vis tr = fa_vis a /\ t_name tr = fa_trait a.
Proof.
  intros H. destruct (expand_fn_inv _ _ _ _ _ _ H) as (a & tf & tg & mode & ib & Ha & _ & _ & _ & ->).
  exists a. do 3 eexists. repeat split; try reflexivity. exact Ha.
Qed.

Lemma c13_mod_vis v attr h name body sigs sf items :
  expand_items v attr (InMod h name body sigs sf) = Ok items ->
  exists a user tr im,
    parse_fn_attr attr = Ok a /\
    items = [IMod (h_attrs h) (h_vis h) name (user ++ [ITrait tr; IImpl im]);
             IUse [] (fa_vis a) ([TId name] ++ path_sep ++ [TId (fa_trait a)])] /\
    t_name tr = fa_trait a /\
    t_vis tr = module_vis (fa_vis a).
Proof.
  intros H. destruct (expand_mod_inv _ _ _ _ _ _ _ _ H) as (_ & bitems & fl & a & fns0 & tg & mode & ib & _ & Ha & _ & _ & _ & ->).
  exists a. do 3 eexists. repeat split; try reflexivity; try exact Ha.
Qed.

Lemma delegation_vis a v tg fns subs deleg d :
  delegation_trait_defs a v tg fns subs = Ok deleg -> hd_error deleg = Some (ITrait d) -> t_vis d = v.
Proof.
  unfold delegation_trait_defs. destruct (ta_impl_trait a); [|intros H; injection H as <-; discriminate].
  destruct (ta_delegate a) as [[|r|x]|]; intros H; try discriminate; injection H as <-; simpl; intros E; injection E as <-; reflexivity.
Qed.

Lemma c13_trait_vis v attr h t items :
  expand_items v attr (InTrait h t) = Ok items ->
  exists tr ds im, items = [ITrait tr] ++ map ITrait ds ++ [IImpl im] /\
                   parts (InTrait h t) items = Some (GTrait tr ds im) /\
                   t_vis tr = h_vis h /\ (forall d, hd_error ds = Some d -> t_vis d = h_vis h).
Proof.
  intros H. destruct (expand_trait_inv _ _ _ _ _ H) as (a0 & fns & deleg & methods & Ha & _ & _ & Hd & _ & ->).
  destruct (parts_trait h t (gen_trait_def (ta_opts (eff_trait_attr v a0)) TTrait MGeneric (h_attrs h) (Some (h_attrs h)) (h_vis h) (t_name t) (trait_tg t)
                                   (t_colon t) (t_supers t) fns MRawTrait) deleg
             (mkImpl (filter is_async_trait (h_attrs h)) false
                           (mkGen true (p_of_list (trait_impl_params (tg_params (trait_tg t))))
                                  (where_of_list (mk_pred (impl_t_bounds (eff_trait_attr v a0) (trait_contains_async (t_items t)) (t_name t) (trait_tg t)) :: p_items (tg_where (trait_tg t)))))
                           (Some ([TId (t_name t)] ++ print_arguments false (tg_params (trait_tg t))))
                           impl_path_toks methods)
             (delegation_trait_defs_shape _ _ _ _ _ _ Hd)) as (ds & Hp & Hds).
  do 3 eexists. split; [rewrite Hds; reflexivity|]. split; [exact Hp|]. split; [reflexivity|].
  intros d Hhd. apply (delegation_vis _ _ _ _ _ _ d Hd). rewrite Hds. destruct ds; [discriminate|]. simpl in *. congruence.
Qed.

(** the decidable predicate evaluated on the implementation holds of every model expansion *)
Lemma c13_view v attr i items :
  expand_items v attr i = Ok items -> good (view_C13 (mkCtx v attr i) items).
Proof.
  intros H. destruct i as [h s body|h|h t|h|h tp st body sigs sf|h|h name body sigs sf|h|]; try discriminate H.
  - destruct (expand_fn_inv _ _ _ _ _ _ H) as (a & tf & tg & mode & ib & Ha & _ & _ & _ & ->).
    unfold view_C13, good, fn_attr_of. cbn [x_input x_attr parts]. rewrite Ha. cbn. intros _.
    rewrite toks_eqb_refl. auto.
  - destruct (c13_trait_vis _ _ _ _ _ H) as (tr & ds & im & -> & Hp & Hv & Hd).
    unfold view_C13, good. cbn [x_input]. rewrite Hp. cbn. intros _. rewrite Hv, toks_eqb_refl.
    destruct ds as [|d ds']; [auto|]. rewrite (Hd d eq_refl), toks_eqb_refl. auto.
  - unfold view_C13, good. cbn. discriminate.
  - destruct (expand_mod_inv _ _ _ _ _ _ _ _ H) as (_ & bitems & fl & a & fns0 & tg & mode & ib & _ & Ha & _ & _ & _ & ->).
    unfold view_C13, good, fn_attr_of. cbn [x_input x_attr]. rewrite parts_mod, Ha. cbn. intros _.
    rewrite ?toks_eqb_refl, ?String.eqb_refl. cbn. rewrite ?String.eqb_refl. auto.
Qed.
