(** * Sem2: mini-semantics of the forwarding bodies of trait mode (C06) and static dependency inversion (C07) *)
From Coq Require Import List String Ascii Bool Arith Lia.
From Entrait Require Import Tok Syn Opts FnParams Convert Codegen Expand Proj Proj2 Proj3.
From Entrait.Proofs Require Import Base Sem.
Import ListNotations.
Local Open Scope list_scope.

Definition eval_provider_call (params : list string) (body : toks) : option event :=
  match body with
  | [TG Brace inner] =>
      let '(core, aw) := strip_await inner in
      match core with
      | [s; d1; h1; TG Paren []; d2; TId m; TG Paren args] =>
          (* self . as_ref ( ) . m ( args ) *)
          (* self . as_ref|into_inner ( ) . m ( args ) *)
          if is_id "self" s && is_p "." d1 && (is_id "as_ref" h1 || is_id "into_inner" h1) && is_p "." d2 then
            match read_args args with
            | Some names => Some (mkEvent (CProvider [if is_id "into_inner" h1 then "into_inner"%string else "as_ref"%string] m) (map (lookup params) names) aw)
            | None => None
            end
          else None
      | [s; d1; h1; TG Paren []; d2; TId h2; TG Paren []; d3; TId m; TG Paren args] =>
          (* self . as_ref ( ) . as_ref|borrow ( ) . m ( args ) *)
          if is_id "self" s && is_p "." d1 && is_id "as_ref" h1 && is_p "." d2 && is_p "." d3 &&
             (String.eqb h2 "as_ref" || String.eqb h2 "borrow") then
            match read_args args with
            | Some names => Some (mkEvent (CProvider ["as_ref"%string; h2] m) (map (lookup params) names) aw)
            | None => None
            end
          else None
      | [l1; e1; c1; c2; tg; as_; TId it; l2; e2; g1; g2; c3; c4; TId m; TG Paren args] =>
          (* < EntraitT :: Target as it < EntraitT > > :: m ( self , args ) *)
          if is_p "<" l1 && is_id "EntraitT" e1 && is_p ":" c1 && is_p ":" c2 && is_id "Target" tg && is_id "as" as_ &&
             is_p "<" l2 && is_id "EntraitT" e2 && is_p ">" g1 && is_p ">" g2 && is_p ":" c3 && is_p ":" c4 then
            match read_args args with
            | Some names => Some (mkEvent (CTarget it m) (map (lookup params) names) aw)
            | None => None
            end
          else None
      | _ => None
      end
  | _ => None
  end.

Lemma read_args_self_join names :
  read_args ([TId "self"; comma] ++ join [comma] (map (fun n => [TId n]) names)) = Some ("self"%string :: names).
Proof.
  cbn [app]. destruct names as [|n ns]; [reflexivity|].
  change (read_args (TId "self" :: comma :: join [comma] (map (fun n0 => [TId n0]) (n :: ns))))
    with (match read_args (join [comma] (map (fun n0 => [TId n0]) (n :: ns))) with Some l => Some ("self"%string :: l) | None => None end).
  rewrite read_args_join. reflexivity.
Qed.

Lemma lookup_self_params params : NoDup params -> ~ In "self"%string params ->
  map (lookup params) ("self"%string :: params) = VSelf :: map VArg (seq 0 (List.length params)).
Proof. intros Hn Hs. cbn [map]. rewrite (lookup_params _ Hn Hs). reflexivity. Qed.

(** what the forwarding body of an entraited trait's method does: one call of method [m] on what
    [self.as_ref()[.as_ref()|.borrow()]] reaches (the provider selected by [delegate_by]), resp. of
    [<T::Target as it<T>>::m] with the caller's [&Impl<T>] first — with the caller's arguments in declared order *)
Definition c06_expected_event (a : trait_attr) (s : sig) : option event :=
  let n := List.length (typed_names s) in
  match ta_impl_trait a, ta_delegate a with
  | None, Some (ByRef RAsRef) => Some (mkEvent (CProvider ["as_ref"; "as_ref"]%string (s_name s)) (map VArg (seq 0 n)) (s_async s))
  | None, Some (ByRef RBorrow) => Some (mkEvent (CProvider ["as_ref"; "borrow"]%string (s_name s)) (map VArg (seq 0 n)) (s_async s))
  | Some it, Some (ByTrait _) => Some (mkEvent (CTarget it (s_name s)) (VSelf :: map VArg (seq 0 n)) (s_async s))
  | Some _, Some (ByRef _) => None      (* dynamic inversion: not covered by this evaluator *)
  | _, _ => Some (mkEvent (CProvider [if plain_self_by_value s then "into_inner"%string else "as_ref"%string] (s_name s)) (map VArg (seq 0 n)) (s_async s))
  end.

Theorem eval_c06_call a ca s ev :
  NoDup (typed_names s) -> ~ In "self"%string (typed_names s) ->
  c06_expected_event a s = Some ev ->
  eval_provider_call (typed_names s)
    [TG Brace (c06_call a ca s ++ (if s_async s then [pc "."; TId "await"] else []))] = Some ev.
Proof.
  intros Hn Hs He. unfold eval_provider_call. rewrite strip_await_app.
  pose proof (read_args_join (typed_names s)) as Hr.
  pose proof (read_args_self_join (typed_names s)) as Hrs.
  pose proof (lookup_params _ Hn Hs) as Hl.
  pose proof (lookup_self_params _ Hn Hs) as Hls.
  unfold c06_expected_event in He. unfold c06_call.
  remember (join [comma] (map (fun n => [TId n]) (typed_names s))) as X eqn:HX.
  remember ([TId "self"; comma] ++ X) as Y eqn:HY.
  remember (typed_names s) as params eqn:HP. remember (s_name s) as m eqn:Hm.
  remember (map VArg (seq 0 (List.length params))) as VS eqn:HVS.
  clear HX HP Hm HVS Hn Hs.
  destruct (plain_self_by_value s);
  destruct (ta_impl_trait a) as [it|]; destruct (ta_delegate a) as [[|[|]|d]|]; try discriminate He;
    injection He as <-; destruct (s_async s); cbn; rewrite ?Hr, ?Hrs, ?Hl, ?Hls; try reflexivity;
    try (destruct X; reflexivity);
    subst Y; cbn; rewrite ?Hrs, ?Hls; try reflexivity; destruct X; reflexivity.
Qed.
