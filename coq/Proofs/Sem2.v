(** * Sem2: mini-semantics of the forwarding bodies of trait mode (C06) and static dependency inversion (C07) *)
From Coq Require Import List String Ascii Bool Arith Lia.
From Entrait Require Import Tok Syn Opts FnParams Convert Codegen Expand Proj Proj2 Proj3.
From Entrait.Proofs Require Import Base Sem.
Import ListNotations.
Local Open Scope list_scope.

(** the dynamic-inversion form, read from its end:
    [< EntraitT as ::core::{convert::AsRef|borrow::Borrow} < dyn It < EntraitT > [+ ::core::marker::Sync] > > :: via ( & * self ) . m ( self , args )] *)
Fixpoint dyn_target (ts : toks) : option string :=
  match ts with
  | [] => None
  | t :: r =>
      match r with
      | TId it :: _ => if is_id "dyn" t then Some it else dyn_target r
      | _ => dyn_target r
      end
  end.

Definition eval_dyn_call (params : list string) (core : toks) (aw : bool) : option event :=
  match rev core with
  | TG Paren args :: TId m :: d :: TG Paren recv :: TId via :: r =>
      if is_p "." d && toks_eqb recv [pc "&"; pc "*"; TId "self"] &&
         (String.eqb via "as_ref" || String.eqb via "borrow") then
        match rev r with
        | l1 :: e1 :: as_ :: rest =>
            if is_p "<" l1 && is_id "EntraitT" e1 && is_id "as" as_ then
              match dyn_target rest, read_args args with
              | Some it, Some names => Some (mkEvent (CDyn via it m) (map (lookup params) names) aw)
              | _, _ => None
              end
            else None
        | _ => None
        end
      else None
  | _ => None
  end.

Definition eval_fixed_call (params : list string) (core : toks) (aw : bool) : option event :=
  match core with
  | [s; d1; h1; TG Paren []; d2; TId m; TG Paren args] =>
      (* self . as_ref|into_inner ( ) . m ( args ) *)
      if is_id "self" s && is_p "." d1 && (is_id "as_ref" h1 || is_id "into_inner" h1) && is_p "." d2 then
        match read_args args with
        | Some names => Some (mkEvent (CProvider [if is_id "into_inner" h1 then "into_inner"%string else "as_ref"%string] m) (map (lookup params) names) aw)
        | None => None
        end
      else None
  | [s; d1; h1; TG Paren []; d2; TId h2; TG Paren []; d3; TId m; TG Paren args] =>
      (* self . as_ref ( ) . as_ref|borrow ( ) . m ( args ) *)
      if is_id "self" s && is_p "." d1 && is_id "as_ref" h1 && is_p "." d2 && is_p "." d3 &&
         (String.eqb h2 "as_ref" || String.eqb h2 "borrow") then
        match read_args args with
        | Some names => Some (mkEvent (CProvider ["as_ref"%string; h2] m) (map (lookup params) names) aw)
        | None => None
        end
      else None
  | [l1; e1; c1; c2; tg; as_; TId it; l2; e2; g1; g2; c3; c4; TId m; TG Paren args] =>
      (* < EntraitT :: Target as it < EntraitT > > :: m ( self , args ) *)
      if is_p "<" l1 && is_id "EntraitT" e1 && is_p ":" c1 && is_p ":" c2 && is_id "Target" tg && is_id "as" as_ &&
         is_p "<" l2 && is_id "EntraitT" e2 && is_p ">" g1 && is_p ">" g2 && is_p ":" c3 && is_p ":" c4 then
        match read_args args with
        | Some names => Some (mkEvent (CTarget it m) (map (lookup params) names) aw)
        | None => None
        end
      else None
  | _ => None
  end.

Definition eval_provider_call (params : list string) (body : toks) : option event :=
  match body with
  | [TG Brace inner] =>
      let '(core, aw) := strip_await inner in
      match eval_dyn_call params core aw with
      | Some e => Some e
      | None => eval_fixed_call params core aw
      end
  | _ => None
  end.

Lemma dyn_target_abs_path it rest : forall segs,
  dyn_target (abs_path segs ++ pc "<" :: TId "dyn" :: TId it :: rest) = Some it.
Proof.
  induction segs as [|sg segs IH].
  - reflexivity.
  - change (abs_path (sg :: segs)) with ([pc ":"; pc ":"; TId sg] ++ abs_path segs).
    rewrite <- app_assoc. cbn [app dyn_target pc is_id].
    destruct segs as [|s2 segs'].
    + cbn [abs_path flat_map app] in IH |- *. exact IH.
    + change (abs_path (s2 :: segs')) with ([pc ":"; pc ":"; TId s2] ++ abs_path segs') in IH |- *.
      rewrite <- app_assoc in IH |- *. cbn [app pc] in IH |- *. exact IH.
Qed.

Lemma eval_dyn_spec params (core_path : list string) via it m (ca : bool) Y names aw :
  (via = "as_ref" \/ via = "borrow")%string ->
  read_args Y = Some names ->
  eval_dyn_call params
    ([pc "<"; TId "EntraitT"; TId "as"] ++ abs_path core_path ++
     ([pc "<"; TId "dyn"; TId it; pc "<"; TId "EntraitT"; pc ">"] ++
      (if ca then [pc "+"] ++ core_marker "Sync" else []) ++ [pc ">"; pc ">"]) ++ path_sep ++
     [TId via; TG Paren [pc "&"; pc "*"; TId "self"]; pc "."; TId m; TG Paren Y]) aw
  = Some (mkEvent (CDyn via it m) (map (lookup params) names) aw).
Proof.
  intros Hv Hr. unfold eval_dyn_call.
  rewrite !app_assoc. rewrite rev_app_distr. cbn [rev app].
  assert (Ev : (String.eqb via "as_ref" || String.eqb via "borrow")%bool = true) by (destruct Hv as [-> | ->]; reflexivity).
  rewrite Ev. cbn [is_p tt_eqb pc andb].
  rewrite !rev_app_distr, rev_involutive. cbn [rev app is_p is_id tt_eqb pc andb].
  rewrite <- !app_assoc. cbn [app].
  rewrite dyn_target_abs_path, Hr. reflexivity.
Qed.

Lemma read_args_self_join names :
  read_args ([TId "self"; comma] ++ join [comma] (map (fun n => [TId n]) names)) = Some ("self"%string :: names).
Proof.
  cbn [app]. destruct names as [|n ns]; [reflexivity|].
  change (read_args (TId "self" :: comma :: join [comma] (map (fun n0 => [TId n0]) (n :: ns))))
    with (match read_args (join [comma] (map (fun n0 => [TId n0]) (n :: ns))) with Some l => Some ("self"%string :: l) | None => None end).
  rewrite read_args_join. reflexivity.
Qed.

Lemma lookup_self_params params : NoDup params -> ~ In "self"%string params ->
  map (lookup params) ("self"%string :: params) = VSelf :: map VArg (seq 0 (List.length params)).
Proof. intros Hn Hs. cbn [map]. rewrite (lookup_params _ Hn Hs). reflexivity. Qed.

(** what the forwarding body of an entraited trait's method does: one call of method [m] on what
    [self.as_ref()[.as_ref()|.borrow()]] reaches (the provider selected by [delegate_by]), resp. of
    [<T::Target as it<T>>::m] with the caller's [&Impl<T>] first — with the caller's arguments in declared order *)
Definition c06_expected_event (a : trait_attr) (s : sig) : option event :=
  let n := List.length (typed_names s) in
  match ta_impl_trait a, ta_delegate a with
  | None, Some (ByRef RAsRef) => Some (mkEvent (CProvider ["as_ref"; "as_ref"]%string (s_name s)) (map VArg (seq 0 n)) (s_async s))
  | None, Some (ByRef RBorrow) => Some (mkEvent (CProvider ["as_ref"; "borrow"]%string (s_name s)) (map VArg (seq 0 n)) (s_async s))
  | Some it, Some (ByTrait _) => Some (mkEvent (CTarget it (s_name s)) (VSelf :: map VArg (seq 0 n)) (s_async s))
  | Some it, Some (ByRef r) =>
      Some (mkEvent (CDyn (match r with RAsRef => "as_ref" | RBorrow => "borrow" end)%string it (s_name s))
                    (VSelf :: map VArg (seq 0 n)) (s_async s))
  | _, _ => Some (mkEvent (CProvider [if plain_self_by_value s then "into_inner"%string else "as_ref"%string] (s_name s)) (map VArg (seq 0 n)) (s_async s))
  end.

Lemma strip_await_dyn A B C D x1 x2 x3 x4 Y :
  strip_await (A ++ B ++ C ++ D ++ [x1; x2; x3; x4; TG Paren Y]) = (A ++ B ++ C ++ D ++ [x1; x2; x3; x4; TG Paren Y], false).
Proof. unfold strip_await. rewrite !app_assoc, rev_app_distr. cbn [rev app]. reflexivity. Qed.

Theorem eval_c06_call a ca s ev :
  NoDup (typed_names s) -> ~ In "self"%string (typed_names s) ->
  c06_expected_event a s = Some ev ->
  eval_provider_call (typed_names s)
    [TG Brace (c06_call a ca s ++ (if s_async s then [pc "."; TId "await"] else []))] = Some ev.
Proof.
  intros Hn Hs He. unfold eval_provider_call. rewrite strip_await_app.
  pose proof (read_args_join (typed_names s)) as Hr.
  pose proof (read_args_self_join (typed_names s)) as Hrs.
  pose proof (lookup_params _ Hn Hs) as Hl.
  pose proof (lookup_self_params _ Hn Hs) as Hls.
  unfold c06_expected_event in He. unfold c06_call.
  remember (join [comma] (map (fun n => [TId n]) (typed_names s))) as X eqn:HX.
  remember ([TId "self"; comma] ++ X) as Y eqn:HY.
  remember (typed_names s) as params eqn:HP. remember (s_name s) as m eqn:Hm.
  remember (map VArg (seq 0 (List.length params))) as VS eqn:HVS.
  clear HX HP Hm HVS Hn Hs. cbv zeta.
  destruct (ta_impl_trait a) as [it|] eqn:Eit; destruct (ta_delegate a) as [[|r|d]|] eqn:Ed.
  2: { (* dynamic inversion: read from the end of the call *)
       injection He as <-. destruct r; rewrite strip_await_dyn; destruct (s_async s); cbv iota beta.
       - rewrite (eval_dyn_spec params ["core"; "convert"; "AsRef"]%string "as_ref"%string it m ca Y _ true (or_introl eq_refl) Hrs).
         rewrite Hls. reflexivity.
       - rewrite (eval_dyn_spec params ["core"; "convert"; "AsRef"]%string "as_ref"%string it m ca Y _ false (or_introl eq_refl) Hrs).
         rewrite Hls. reflexivity.
       - rewrite (eval_dyn_spec params ["core"; "borrow"; "Borrow"]%string "borrow"%string it m ca Y _ true (or_intror eq_refl) Hrs).
         rewrite Hls. reflexivity.
       - rewrite (eval_dyn_spec params ["core"; "borrow"; "Borrow"]%string "borrow"%string it m ca Y _ false (or_intror eq_refl) Hrs).
         rewrite Hls. reflexivity. }
  all: try destruct r.
  all: destruct (plain_self_by_value s); try discriminate He;
    injection He as <-; destruct (s_async s); cbn; rewrite ?Hr, ?Hrs, ?Hl, ?Hls; try reflexivity;
    try (destruct X; reflexivity);
    subst Y; cbn; rewrite ?Hrs, ?Hls; try reflexivity; destruct X; reflexivity.
Qed.

(** the evaluator covers every delegation kind *)
Lemma c06_expected_event_total a s : exists ev, c06_expected_event a s = Some ev.
Proof.
  unfold c06_expected_event. destruct (ta_impl_trait a), (ta_delegate a) as [[|[|]|d]|]; eexists; reflexivity.
Qed.

(** dependency inversion (C07): the method of [Impl<T>] performs exactly one call — of the target selected
    statically ([<T::Target as It<T>>::m]) or of the [dyn It<T>] object obtained from [T] by [as_ref] / [borrow] —
    with the caller's [&Impl<T>] first and the caller's arguments in declared order *)
Definition c07_callee (a : trait_attr) (it m : string) : callee :=
  match ta_delegate a with
  | Some (ByRef RAsRef) => CDyn "as_ref" it m
  | Some (ByRef RBorrow) => CDyn "borrow" it m
  | _ => CTarget it m
  end.

Lemma c07_call_event a ca s it :
  ta_impl_trait a = Some it ->
  (exists d, ta_delegate a = Some (ByTrait d)) \/ (exists r, ta_delegate a = Some (ByRef r)) ->
  NoDup (typed_names s) -> ~ In "self"%string (typed_names s) ->
  eval_provider_call (typed_names s)
    [TG Brace (c06_call a ca s ++ (if s_async s then [pc "."; TId "await"] else []))]
  = Some (mkEvent (c07_callee a it (s_name s)) (VSelf :: map VArg (seq 0 (List.length (typed_names s)))) (s_async s)).
Proof.
  intros Hit Hd Hn Hs. apply eval_c06_call; try assumption.
  unfold c06_expected_event, c07_callee. rewrite Hit.
  destruct Hd as [[d ->] | [[|] ->]]; reflexivity.
Qed.

