(** * C08, last sentence: the module's trait is importable under the requested name and visibility *)
From Coq Require Import List String Ascii Bool Arith Lia.
From Entrait Require Import Tok Syn Opts Split FnParams Convert Codegen Expand Proj Proj2 Proj3 ProjSide.
From Entrait.Proofs Require Import Base Shapes PC08 PC13 PC19.
Import ListNotations.
Local Open Scope list_scope.

Lemma c13_mod_good v attr i items :
  expand_items v attr i = Ok items -> good (view_C13_mod (mkCtx v attr i) items).
Proof.
  intros H. unfold view_C13_mod. cbn [x_input].
  destruct i; try (unfold good; cbn; discriminate). apply c13_view. exact H.
Qed.

Lemma c08g_view v attr h name body sigs sf items bitems fl :
  expand_items v attr (InMod h name body sigs sf) = Ok items ->
  split_body true sigs body = Ok (bitems, fl) ->
  (forall l, sf = Some l -> l = split_fn_names bitems) ->
  good (view_C08g (mkCtx v attr (InMod h name body sigs sf)) items).
Proof.
  intros H Hs Ho. unfold view_C08g. apply good_view_and.
  - exact (c08_view _ _ _ _ _ _ _ _ _ _ H Hs Ho).
  - exact (c13_mod_good _ _ _ _ H).
Qed.
