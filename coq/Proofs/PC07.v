(** * C07: delegation to a target trait (trait side) and [#[entrait] impl] blocks (impl side) *)
From Coq Require Import List String Ascii Bool Arith Lia.
From Entrait Require Import Tok Syn Opts Split FnParams Convert Codegen Expand Proj Proj2 Proj3.
From Entrait.Proofs Require Import Base Shapes PFnParams PC16 PC01 PC06.
Import ListNotations.
Local Open Scope list_scope.

(** ** trait side: the delegation-target trait (and the selector trait) *)

(** the signatures of the target trait's methods: [self] becomes / is followed by [__impl] *)
Lemma static_receiver_sig s : print_sig (static_impl_receiver s) = c07_target_sig false s.
Proof.
  unfold static_impl_receiver, c07_target_sig.
  destruct (p_items (s_inputs s)) as [|[x r m c|x p ty] rest]; reflexivity.
Qed.

Lemma dynamic_receiver_sig s : print_sig (dynamic_impl_receiver s) = c07_target_sig true s.
Proof.
  unfold dynamic_impl_receiver, receiver_lifetime, c07_target_sig, first_is_receiver.
  destruct (p_items (s_inputs s)) as [|[x r m c|x p ty] rest]; reflexivity.
Qed.

Lemma static_receiver_name s : s_name (static_impl_receiver s) = s_name s.
Proof. unfold static_impl_receiver. destruct (p_items (s_inputs s)) as [|[x r m c|x p ty] rest]; reflexivity. Qed.

Lemma dynamic_receiver_name s : s_name (dynamic_impl_receiver s) = s_name s.
Proof. unfold dynamic_impl_receiver. destruct (first_is_receiver s); reflexivity. Qed.

Lemma items_sigs_map_TFn (f : trait_fn -> sig) : forall fns,
  items_sigs (map (fun tf => TFn (tf_attrs tf) (f tf) None true) fns) = map (fun tf => (tf_attrs tf, f tf)) fns.
Proof. induction fns as [|tf fns IH]; [reflexivity|]. simpl. f_equal. exact IH. Qed.

Definition selector_trait (it del : string) : item_trait :=
  mkTrait [] [TId "pub"] false false del (mkGen true (p_of_list [mkGP GType [] "T" [] []]) None) false pempty
          [TType [TId "type"; TId "Target"; pc ":"; TId it; pc "<"; TId "T"; pc ">"; pc ";"]].

(** With a delegation target [it] the macro emits [trait it<EntraitT, P..>: 'static { methods }] whose
    methods are the entraited trait's methods, in order, with the receiver replaced by / followed by
    [__impl]; for [delegate_by = Trait] it is followed by [pub trait Trait<T> { type Target: it<T>; }] *)
Lemma delegation_defs_target a v tg src subs ds it :
  ta_impl_trait a = Some it ->
  delegation_trait_defs a v tg (map tf_of_method src) subs = Ok (map ITrait ds) ->
  exists d rest recv,
    ds = d :: rest /\
    t_name d = it /\ t_vis d = v /\
    p_items (g_params (t_gen d)) = entrait_t_param :: tg_params tg /\
    t_colon d = true /\ t_supers d = static_supers /\
    trait_sigs d = map (fun x => (fst x, make_trait_fn_sig (recv (snd x)) subs (no_mock_opts (ta_opts a)))) src /\
    ((exists del, ta_delegate a = Some (ByTrait del) /\ recv = static_impl_receiver /\ rest = [selector_trait it del]) \/
     (exists r, ta_delegate a = Some (ByRef r) /\ recv = dynamic_impl_receiver /\ rest = [])).
Proof.
  intros Hit. unfold delegation_trait_defs. rewrite Hit.
  destruct (ta_delegate a) as [[|r|del]|]; intros H; try discriminate; injection H as H.
  - destruct ds as [|d [|x xs]]; try discriminate. injection H as <-.
    eexists. exists [], dynamic_impl_receiver. split; [reflexivity|]. cbn [t_name t_vis t_gen t_colon t_supers].
    repeat split; try reflexivity.
    + rewrite trait_sigs_items. cbn [t_items]. rewrite items_sigs_map_TFn, !map_map. reflexivity.
    + right. exists r. auto.
  - destruct ds as [|d [|x [|y ys]]]; try discriminate. injection H as <- <-.
    eexists. exists [selector_trait it del], static_impl_receiver. split; [reflexivity|]. cbn [t_name t_vis t_gen t_colon t_supers].
    repeat split; try reflexivity.
    + rewrite trait_sigs_items. cbn [t_items]. rewrite items_sigs_map_TFn, !map_map. reflexivity.
    + left. exists del. auto.
Qed.

Lemma target_names (recv : sig -> sig) subs o src :
  (forall s, s_name (recv s) = s_name s) ->
  map (fun '(_, s) => s_name s) (map (fun x : list attr * sig => (fst x, make_trait_fn_sig (recv (snd x)) subs o)) src)
  = map (fun '(_, s) => s_name s) src.
Proof.
  intros Hr. rewrite map_map. apply map_ext. intros [a s]. cbn [fst snd].
  rewrite make_trait_fn_sig_name. apply Hr.
Qed.

(** the target trait's method signatures, the async rewrite of generated traits included *)
Lemma contains_async_filter l : contains_async_trait (filter is_async_trait l) = contains_async_trait l.
Proof.
  unfold contains_async_trait. induction l as [|x l IH]; [reflexivity|]. cbn [filter existsb].
  destruct (is_async_trait x) eqn:E; cbn [existsb]; rewrite ?E, IH; reflexivity.
Qed.

Lemma static_target_sig_full subs o s :
  print_sig (make_trait_fn_sig (static_impl_receiver s) subs o)
  = c07_target_sig_full false (contains_async_trait subs) (future_send o) s.
Proof.
  unfold make_trait_fn_sig, static_impl_receiver, c07_target_sig_full, c07_target_sig.
  destruct (p_items (s_inputs s)) as [|[x r m c|x p ty] rest]; cbn [s_async];
    destruct (s_async s && negb (contains_async_trait subs)); reflexivity.
Qed.

Lemma dynamic_target_sig_full subs o s :
  print_sig (make_trait_fn_sig (dynamic_impl_receiver s) subs o)
  = c07_target_sig_full true (contains_async_trait subs) (future_send o) s.
Proof.
  unfold make_trait_fn_sig, dynamic_impl_receiver, receiver_lifetime, c07_target_sig_full, c07_target_sig, first_is_receiver.
  destruct (p_items (s_inputs s)) as [|[x r m c|x p ty] rest]; cbn [s_async];
    destruct (s_async s && negb (contains_async_trait subs)); reflexivity.
Qed.

Lemma target_sigs_full (recv : sig -> sig) dyn attrs o src :
  (forall subs o s, print_sig (make_trait_fn_sig (recv s) subs o) = c07_target_sig_full dyn (contains_async_trait subs) (future_send o) s) ->
  map (fun '(_, s) => print_sig s)
      (map (fun x : list attr * sig => (fst x, make_trait_fn_sig (recv (snd x)) (filter is_async_trait attrs) (no_mock_opts o))) src)
  = map (fun '(_, s) => c07_target_sig_full dyn (contains_async_trait attrs) (future_send o) s) src.
Proof.
  intros Hr. rewrite map_map. apply map_ext. intros [a s]. cbn [fst snd].
  rewrite Hr, contains_async_filter. reflexivity.
Qed.

Lemma c07_trait_view v attr h t items :
  expand_items v attr (InTrait h t) = Ok items -> good (view_C07 (mkCtx v attr (InTrait h t)) items).
Proof.
  intros H. destruct (c06_expansion_full _ _ _ _ _ H) as (a0 & ds & Ha & _ & Hd & _ & Hp & _ & _).
  unfold view_C07, good, trait_attr_of. cbn [x_input x_attr x_variant source_fns]. rewrite Hp, Ha. cbn [ta_impl_trait].
  destruct (ta_impl_trait a0) as [it|] eqn:Hit; [|cbn; discriminate].
  destruct (c06_gen_holds true _ _ _ _ _ _ H Ha) as (_ & B1 & B2); [rewrite Hit; reflexivity|].
  destruct (delegation_defs_target (eff_trait_attr v a0) _ _ _ _ _ it Hit Hd) as (d & rest & recv & -> & N1 & _ & N2 & N3 & N4 & N5 & Hsel).
  cbn [v_app v_det v_holds]. intros _. split; [exact B1|]. rewrite B2. cbn [andb].
  rewrite N1, String.eqb_refl. unfold first_param_toks. rewrite N2, N3, N4, N5. cbn [andb].
  destruct Hsel as [(del & Hdel & -> & ->)|(r & Hdel & -> & ->)]; cbn [ta_delegate eff_trait_attr] in *; rewrite Hdel.
  - rewrite (target_names _ _ _ _ static_receiver_name), str_list_eqb_refl.
    rewrite (target_sigs_full _ false _ _ _ static_target_sig_full), toks_list_eqb_refl.
    cbn [selector_trait t_name t_items flat_map print_titem app]. rewrite String.eqb_refl, !toks_eqb_refl. reflexivity.
  - rewrite (target_names _ _ _ _ dynamic_receiver_name), str_list_eqb_refl.
    rewrite (target_sigs_full _ true _ _ _ dynamic_target_sig_full), toks_list_eqb_refl. reflexivity.
Qed.

(** ** impl side: [#[entrait] impl Trait for Type] *)
Lemma print_arguments_entrait_t params : exists r, print_arguments true params = [pc "<"; TId "EntraitT"] ++ r.
Proof.
  unfold print_arguments. cbn [app]. destruct (map arg_of_param params) as [|x xs]; eexists; cbn [join app]; reflexivity.
Qed.

Lemma impl_block_mode fns mode : detect_trait_dependency_mode MImplBlock fns = Ok mode -> mode = MGeneric.
Proof. unfold detect_trait_dependency_mode. destruct (first_concrete fns); [discriminate|]. intros H. injection H as <-. reflexivity. Qed.

(** the generated impl block of an [#[entrait] impl]: [impl<EntraitT: .., P..> Trait<EntraitT, P..> for Type { fn m(..) { Self::m(__impl, args)[.await] } .. }]
    next to the inherent [impl Type { the user's items }] *)
Lemma c07_impl_expansion v attr h tp st body sigs sf items :
  expand_items v attr (InImpl h tp st body sigs sf) = Ok items ->
  exists bitems fl inh im r,
    split_body false sigs body = Ok (bitems, fl) /\
    items = [IImpl inh; IImpl im] /\
    i_self inh = st /\ i_trait inh = None /\ i_items inh = map iitem_of_body_item bitems /\
    i_self im = st /\ i_trait im = Some ((tp ++ [pc "<"; TId "EntraitT"]) ++ r) /\
    only_impl_fns im = true /\
    bodies_ok true false (src_names_async (body_fns bitems)) (impl_fns im) = true.
Proof.
  intros H.
  destruct (expand_impl_inv _ _ _ _ _ _ _ _ _ H) as (_ & bitems & fl & a & fns0 & tg & mode & ib & Hs & Ha & Hz & Hm & Hib & ->).
  cbv zeta in Hz, Hib, Hm. apply impl_block_mode in Hm. subst mode.
  destruct (gen_impl_block_fns _ _ _ _ _ _ _ _ _ Hib) as (argss & Fa & Hfns & Honly & _ & Hself & _ & Htr).
  destruct (print_arguments_entrait_t (tg_params tg)) as (r & Hr).
  exists bitems, fl. do 2 eexists. exists r.
  split; [exact Hs|]. split; [reflexivity|]. cbn [i_self i_trait i_items].
  split; [reflexivity|]. split; [reflexivity|]. split; [reflexivity|].
  split; [rewrite Hself; destruct (ia_kind a); reflexivity|].
  split; [rewrite Htr; destruct (ia_kind a); rewrite Hr, app_assoc; reflexivity|].
  split; [exact Honly|].
  rewrite Hfns, src_names_async_map.
  pose proof (with_cfg_attrs_fn_ok _ _ _ _ (body_fns bitems) (analyze_all_fn_ok _ _ _ _ _ _ Hz)) as Fk.
  destruct (ia_kind a).
  - exact (bodies_ok_all (IStatic st) MImplBlock _ _ _ _ argss Fk Fa).
  - exact (bodies_ok_all (IDynamic st) MImplBlock _ _ _ _ argss Fk Fa).
Qed.

Lemma c07_impl_view v attr h tp st body sigs sf items :
  expand_items v attr (InImpl h tp st body sigs sf) = Ok items ->
  good (view_C07 (mkCtx v attr (InImpl h tp st body sigs sf)) items).
Proof.
  intros H.
  destruct (c07_impl_expansion _ _ _ _ _ _ _ _ _ H) as (bitems & fl & inh & im & r & Hs & -> & I1 & _ & _ & M1 & M2 & M3 & M4).
  unfold view_C07, good. cbn [x_input source_fns]. rewrite Hs, parts_impl. cbn [decided v_app v_det v_holds].
  intros _. split; [reflexivity|]. rewrite M3, M4, M1, I1, M2, !toks_eqb_refl, is_prefix_app. reflexivity.
Qed.

(** ** the view *)
Lemma c07_view v attr i items :
  expand_items v attr i = Ok items -> good (view_C07 (mkCtx v attr i) items).
Proof.
  intros H. destruct i as [h s body|h|h t|h|h tp st body sigs sf|h|h name body sigs sf|h|]; try discriminate H.
  - unfold view_C07, good. cbn. discriminate.
  - apply c07_trait_view. exact H.
  - apply c07_impl_view. exact H.
  - unfold view_C07, good. cbn [x_input source_fns]. destruct (split_body true sigs body) as [[l fl]| | |]; cbn; discriminate.
Qed.

(** the forwarding call with a delegation target, spelled out *)
Lemma c07_call_by_trait a ca s it del :
  ta_impl_trait a = Some it -> ta_delegate a = Some (ByTrait del) ->
  c06_call a ca s =
  [pc "<"; TId "EntraitT"; pc ":"; pc ":"; TId "Target"; TId "as"; TId it; pc "<"; TId "EntraitT"; pc ">"; pc ">"; pc ":"; pc ":";
   TId (s_name s); TG Paren ([TId "self"; comma] ++ join [comma] (map (fun n => [TId n]) (typed_names s)))].
Proof. intros H1 H2. unfold c06_call. rewrite H1, H2. reflexivity. Qed.

Lemma c07_bound_by_trait a ca name g it del :
  ta_impl_trait a = Some it -> ta_delegate a = Some (ByTrait del) ->
  c06_bound a ca name g =
  [TId "EntraitT"; pc ":"; TId del; pc "<"; TId "EntraitT"; pc ">"; pc "+"; pc ":"; pc ":"; TId "core"; pc ":"; pc ":"; TId "marker";
   pc ":"; pc ":"; TId "Sync"; pc "+"; pc "'"; TId "static"].
Proof. intros H1 H2. unfold c06_bound. rewrite H1, H2. reflexivity. Qed.
