(** * C02: append-only — the annotated fn / mod / impl items are emitted unchanged *)
From Coq Require Import List String Ascii Bool Arith Lia.
From Entrait Require Import Tok Syn Opts Split FnParams Convert Codegen Expand Proj Proj2.
From Entrait.Proofs Require Import Base Shapes PSplit.
Import ListNotations.
Local Open Scope list_scope.

(** what the compiler can hand over in front of a fn: no [auto]; a leading [unsafe] (consumed by
    [Input::parse]) only directly before [extern]/[fn] *)
Definition fn_head_ok (h : head) (s : sig) : Prop :=
  h_auto h = false /\
  (h_unsafe h = true -> s_const s = false /\ s_async s = false /\ s_unsafe s = false).

Lemma merged_sig_print h s : fn_head_ok h s -> print_head h ++ print_sig s = print_attrs (h_attrs h) ++ h_vis h ++ print_sig (merged_sig h s).
Proof.
  intros [Ha Hu]. unfold print_head, print_sig, merged_sig. cbn [s_const s_async s_unsafe s_abi s_name s_gen s_inputs s_variadic s_output].
  rewrite Ha. destruct (h_unsafe h).
  - destruct (Hu eq_refl) as (-> & -> & ->). cbn [kw orb app]. rewrite <- !app_assoc. reflexivity.
  - rewrite orb_false_r. cbn [kw app]. rewrite !app_nil_r, <- !app_assoc. reflexivity.
Qed.

(** *** fn: the source tokens, then what the macro generates *)
Lemma c02_fn_prefix v attr h s body items :
  fn_head_ok h s ->
  expand_items v attr (InFn h s body) = Ok items ->
  exists gen, print_items items = (print_head h ++ print_sig s ++ body) ++ gen.
Proof.
  intros Hok H. destruct (expand_fn_inv _ _ _ _ _ _ H) as (a & tf & tg & mode & ib & _ & _ & _ & _ & ->).
  eexists. unfold print_items. cbn [flat_map print_item].
  rewrite (app_assoc (print_head h)), (merged_sig_print _ _ Hok).
  rewrite <- !app_assoc. reflexivity.
Qed.

(** *** mod: attributes, visibility, [mod name], a body that starts with the original body; then the re-export *)
Lemma print_item_of_body_item b : print_item (item_of_body_item b) = print_body_item b.
Proof. destruct b; reflexivity. Qed.
Lemma print_iitem_of_body_item b : print_iitem (iitem_of_body_item b) = print_body_item b.
Proof. destruct b; reflexivity. Qed.

Lemma flat_map_print_items l : flat_map print_item (map item_of_body_item l) = flat_map print_body_item l.
Proof. induction l as [|b l IH]; [reflexivity|]. cbn [map flat_map]. rewrite print_item_of_body_item, IH. reflexivity. Qed.
Lemma flat_map_print_iitems l : flat_map print_iitem (map iitem_of_body_item l) = flat_map print_body_item l.
Proof. induction l as [|b l IH]; [reflexivity|]. cbn [map flat_map]. rewrite print_iitem_of_body_item, IH. reflexivity. Qed.

Lemma c02_mod_shape v attr h name body sigs sf items :
  expand_items v attr (InMod h name body sigs sf) = Ok items ->
  (exists bitems, split_body true sigs body = Ok (bitems, true)) ->
  exists gen_inside after,
    print_items items = print_head h ++ [TId "mod"; TId name; TG Brace (body ++ gen_inside)] ++ after.
Proof.
  intros H [bitems' Hf].
  destruct (expand_mod_inv _ _ _ _ _ _ _ _ H) as (Hu & bitems & fl & a & fns0 & tg & mode & ib & Hs & _ & _ & _ & _ & ->).
  rewrite Hf in Hs. injection Hs as <- <-.
  apply orb_false_iff in Hu as [Hu1 Hu2].
  match goal with |- context [ITrait ?t] => set (tr := t) end.
  exists (flat_map print_item [ITrait tr; IImpl ib]),
         (print_item (IUse [] (fa_vis a) ([TId name] ++ path_sep ++ [TId (fa_trait a)]))).
  unfold print_items, print_head. cbn [flat_map print_item]. rewrite Hu1, Hu2. cbn [kw].
  rewrite flat_map_app, flat_map_print_items, (split_body_lossless _ _ _ _ Hf). cbn [flat_map print_item].
  rewrite ?app_nil_r, <- ?app_assoc. reflexivity.
Qed.

(** *** impl block: the inherent impl holds the original items verbatim *)
Lemma c02_impl_shape v attr h tp st body sigs sf items :
  expand_items v attr (InImpl h tp st body sigs sf) = Ok items ->
  (exists bitems, split_body false sigs body = Ok (bitems, true)) ->
  exists gen,
    print_items items =
    (print_attrs (filter (fun a => negb (is_async_trait a)) (h_attrs h)) ++ kw (h_unsafe h) "unsafe" ++
     [TId "impl"] ++ st ++ [TG Brace body]) ++ gen.
Proof.
  intros H [bitems' Hf].
  destruct (expand_impl_inv _ _ _ _ _ _ _ _ _ H) as (_ & bitems & fl & a & fns0 & tg & mode & ib & Hs & _ & _ & _ & _ & ->).
  rewrite Hf in Hs. injection Hs as <- <-.
  exists (print_impl ib). unfold print_items. cbn [flat_map print_item]. unfold print_impl at 1.
  cbn [i_attrs i_unsafe i_gen i_trait i_self i_items].
  rewrite flat_map_print_iitems, (split_body_lossless _ _ _ _ Hf).
  cbn [no_generics print_generics_stored g_params pempty p_items print_where g_where app].
  rewrite ?app_nil_r, <- ?app_assoc. reflexivity.
Qed.

(** *** the view *)
Lemma last_brace_step x y r :
  last_brace (x :: y :: r) = match last_brace (y :: r) with Some (pre, body) => Some (x :: pre, body) | None => None end.
Proof. destruct x as [s|c|s|dd g]; try reflexivity. destruct dd; reflexivity. Qed.

Lemma last_brace_app : forall l b, last_brace (l ++ [TG Brace b]) = Some (l, b).
Proof.
  induction l as [|x l IH]; intros b; [reflexivity|].
  change ((x :: l) ++ [TG Brace b]) with (x :: (l ++ [TG Brace b])).
  assert (Hne : exists y r, l ++ [TG Brace b] = y :: r) by (destruct l; simpl; eauto).
  destruct Hne as (y & r & Hne). specialize (IH b). rewrite Hne in *.
  rewrite last_brace_step, IH. reflexivity.
Qed.

Lemma c02_view v attr i ts items :
  print_input i = Some ts ->
  expand_items v attr i = Ok items ->
  match i with
  | InFn h s _ => fn_head_ok h s
  | InMod _ _ body sigs _ => exists bitems, split_body true sigs body = Ok (bitems, true)
  | InImpl _ _ _ body sigs _ => exists bitems, split_body false sigs body = Ok (bitems, true)
  | _ => True
  end ->
  good (view_C02 (mkCtx v attr i) ts (print_items items)).
Proof.
  intros Hp H Hcond. destruct i as [h s body|h|h t|h|h tp st body sigs sf|h|h name body sigs sf|h|]; try discriminate H.
  - injection Hp as <-. destruct (c02_fn_prefix _ _ _ _ _ _ Hcond H) as [gen ->].
    unfold view_C02, good, c02_fn. cbn [x_input decided v_app v_det v_holds]. intros _. rewrite is_prefix_app. auto.
  - unfold view_C02, good. cbn. discriminate.
  - injection Hp as <-. destruct (c02_impl_shape _ _ _ _ _ _ _ _ _ H Hcond) as [gen ->].
    unfold view_C02, good, c02_impl. cbn [x_input decided v_app v_det v_holds]. intros _. rewrite is_prefix_app. auto.
  - injection Hp as <-. destruct (c02_mod_shape _ _ _ _ _ _ _ _ H Hcond) as (gi & after & ->).
    unfold view_C02, good, c02_mod. cbn [x_input decided v_app v_det v_holds]. intros _.
    replace (print_head h ++ [TId "mod"; TId name; TG Brace body]) with ((print_head h ++ [TId "mod"; TId name]) ++ [TG Brace body])
      by (rewrite <- app_assoc; reflexivity).
    rewrite last_brace_app.
    replace (print_head h ++ [TId "mod"; TId name; TG Brace (body ++ gi)] ++ after)
      with ((print_head h ++ [TId "mod"; TId name]) ++ (TG Brace (body ++ gi) :: after))
      by (rewrite <- app_assoc; reflexivity).
    rewrite strip_prefix_app, is_prefix_app. auto.
Qed.
