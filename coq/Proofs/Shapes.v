(** * Shapes: inversion of [expand_items] per input kind — what a successful expansion consists of *)
From Coq Require Import List String Ascii Bool Arith Lia.
From Entrait Require Import Tok Syn Opts Split FnParams Convert Codegen Expand Proj.
From Entrait.Proofs Require Import Base.
Import ListNotations.
Local Open Scope list_scope.

(** the signature of an entraited fn with the leading [unsafe] that [Input::parse] consumed put back *)
Definition merged_sig (h : head) (s : sig) : sig :=
  mkSig (s_const s) (s_async s) (s_unsafe s || h_unsafe h) (s_abi s) (s_name s) (s_gen s)
        (s_inputs s) (s_variadic s) (s_output s).

Definition sig_of (x : list attr * vis * sig * toks) : sig := let '(_, _, s, _) := x in s.

Lemma expand_fn_inv v attr h s body items :
  expand_items v attr (InFn h s body) = Ok items ->
  exists a tf tg mode ib,
    parse_fn_attr attr = Ok a /\
    analyze RSelfRef (apply_variant v (fa_opts a)) empty_tg (merged_sig h s) = Ok (tf, tg) /\
    detect_trait_dependency_mode MSingleFn [tf] = Ok mode /\
    gen_impl_block (apply_variant v (fa_opts a)) [TId (fa_trait a)] INone tg MSingleFn mode (h_attrs h) [tf] = Ok ib /\
    items = [IFn (h_attrs h) (h_vis h) (merged_sig h s) body;
             ITrait (gen_trait_def (apply_variant v (fa_opts a)) TPlain mode (h_attrs h) None (fa_vis a) (fa_trait a) tg
                                   false pempty [tf] MSingleFn);
             IImpl ib].
Proof.
  unfold expand_items. fold (merged_sig h s). intros H.
  inv_ok H. unfold entrait_for_single_fn in H0. simpl fa_opts in H0. simpl fa_vis in H0. simpl fa_trait in H0.
  inv_ok H0. destruct a0 as [tf tg]. inv_ok H1. inv_ok H0. injection H1 as <-.
  exists a, tf, tg, a0, a1. repeat split; assumption.
Qed.

Lemma expand_mod_inv v attr h name body sigs sf items :
  expand_items v attr (InMod h name body sigs sf) = Ok items ->
  h_unsafe h || h_auto h = false /\
  exists bitems fl a fns0 tg mode ib,
    split_body true sigs body = Ok (bitems, fl) /\
    parse_fn_attr attr = Ok a /\
    analyze_all RSelfRef (apply_variant v (fa_opts a)) empty_tg (map sig_of (body_fns bitems)) = Ok (fns0, tg) /\
    detect_trait_dependency_mode MModule (with_cfg_attrs fns0 (body_fns bitems)) = Ok mode /\
    gen_impl_block (apply_variant v (fa_opts a)) [TId (fa_trait a)] INone tg MModule mode (h_attrs h)
                   (with_cfg_attrs fns0 (body_fns bitems)) = Ok ib /\
    items = [IMod (h_attrs h) (h_vis h) name
                  (map item_of_body_item bitems ++
                   [ITrait (gen_trait_def (apply_variant v (fa_opts a)) TPlain mode (h_attrs h) None (fa_vis a) (fa_trait a) tg
                                          false pempty (with_cfg_attrs fns0 (body_fns bitems)) MModule);
                    IImpl ib]);
             IUse [] (fa_vis a) ([TId name] ++ path_sep ++ [TId (fa_trait a)])].
Proof.
  unfold expand_items. intros H.
  destruct (h_unsafe h || h_auto h) eqn:Hu; [discriminate|]. split; [reflexivity|].
  inv_ok H. destruct a as [bitems fl]. inv_ok H0.
  unfold entrait_for_mod in H1. simpl fa_opts in H1. simpl fa_vis in H1. simpl fa_trait in H1.
  inv_ok H1. destruct a0 as [fns0 tg]. inv_ok H0. inv_ok H1. injection H0 as <-.
  exists bitems, fl, a, fns0, tg, a0, a1.
  repeat split; try assumption.
Qed.

Lemma expand_impl_inv v attr h tp st body sigs sf items :
  expand_items v attr (InImpl h tp st body sigs sf) = Ok items ->
  h_auto h = false /\
  exists bitems fl a fns0 tg mode ib,
    split_body false sigs body = Ok (bitems, fl) /\
    parse_impl_attr attr = Ok a /\
    let o := apply_variant v (ia_opts a) in
    let k := match ia_kind a with KStatic => RStaticImpl | KDynRef => RDynamicImpl end in
    let ind := match ia_kind a with KStatic => IStatic st | KDynRef => IDynamic st end in
    analyze_all k o empty_tg (map sig_of (body_fns bitems)) = Ok (fns0, tg) /\
    detect_trait_dependency_mode MImplBlock (with_cfg_attrs fns0 (body_fns bitems)) = Ok mode /\
    gen_impl_block o tp ind tg MImplBlock mode (h_attrs h) (with_cfg_attrs fns0 (body_fns bitems)) = Ok ib /\
    items = [IImpl (mkImpl (filter (fun x => negb (is_async_trait x)) (h_attrs h)) (h_unsafe h) no_generics None st
                           (map iitem_of_body_item bitems));
             IImpl ib].
Proof.
  unfold expand_items. intros H.
  destruct (h_auto h) eqn:Hu; [discriminate|]. split; [reflexivity|].
  inv_ok H. destruct a as [bitems fl]. inv_ok H0.
  unfold output_for_impl in H1. destruct (path_has_arguments tp); [discriminate H1|]. simpl ia_opts in H1. simpl ia_kind in H1.
  inv_ok H1. destruct a0 as [fns0 tg]. inv_ok H0. inv_ok H1. injection H0 as <-.
  exists bitems, fl, a, fns0, tg, a0, a1.
  repeat split; try assumption.
Qed.

Definition eff_trait_attr (v : variant) (a : trait_attr) : trait_attr :=
  mkTraitAttr (ta_impl_trait a) (apply_variant v (ta_opts a)) (ta_delegate a).

Definition trait_tg (t : item_trait) : trait_generics :=
  mkTG (p_items (g_params (t_gen t))) (match g_where (t_gen t) with Some w => w | None => pempty end).

Lemma expand_trait_inv v attr h t items :
  expand_items v attr (InTrait h t) = Ok items ->
  exists a0 fns deleg methods,
    parse_trait_attr attr = Ok a0 /\
    let a := eff_trait_attr v a0 in
    let ca := trait_contains_async (t_items t) in
    let tg := trait_tg t in
    (ta_impl_trait a = None -> forall d, ta_delegate a <> Some (ByTrait d)) /\
    analyze_trait_items (t_items t) = Ok fns /\
    delegation_trait_defs a (h_vis h) tg fns (filter is_async_trait (h_attrs h)) = Ok deleg /\
    map_res (delegation_method a ca) fns = Ok methods /\
    items = [ITrait (gen_trait_def (ta_opts a) TTrait MGeneric (h_attrs h) (Some (h_attrs h)) (h_vis h) (t_name t) tg
                                   (t_colon t) (t_supers t) fns MRawTrait)] ++ deleg ++
            [IImpl (mkImpl (filter is_async_trait (h_attrs h)) false
                           (mkGen true (p_of_list (trait_impl_params (tg_params tg)))
                                  (where_of_list (mk_pred (impl_t_bounds a ca (t_name t) tg) :: p_items (tg_where tg))))
                           (Some ([TId (t_name t)] ++ print_arguments false (tg_params tg)))
                           impl_path_toks methods)].
Proof.
  unfold expand_items. intros H. inv_ok H. fold (eff_trait_attr v a) in H0.
  unfold output_for_trait in H0. fold (trait_tg t) in H0.
  exists a.
  assert (Hd : ta_impl_trait (eff_trait_attr v a) = None -> forall d, ta_delegate (eff_trait_attr v a) <> Some (ByTrait d)).
  { intros Hn d Hd. rewrite Hn, Hd in H0. discriminate. }
  assert (H1 :
    (let* fns := analyze_trait_items (t_items t) in
     let* deleg := delegation_trait_defs (eff_trait_attr v a) (h_vis h) (trait_tg t) fns (filter is_async_trait (h_attrs h)) in
     let* methods := map_res (delegation_method (eff_trait_attr v a) (trait_contains_async (t_items t))) fns in
     Ok ([ITrait (gen_trait_def (ta_opts (eff_trait_attr v a)) TTrait MGeneric (h_attrs h) (Some (h_attrs h)) (h_vis h) (t_name t) (trait_tg t)
                                   (t_colon t) (t_supers t) fns MRawTrait)] ++ deleg ++
            [IImpl (mkImpl (filter is_async_trait (h_attrs h)) false
                           (mkGen true (p_of_list (trait_impl_params (tg_params (trait_tg t))))
                                  (where_of_list (mk_pred (impl_t_bounds (eff_trait_attr v a) (trait_contains_async (t_items t)) (t_name t) (trait_tg t)) :: p_items (tg_where (trait_tg t)))))
                           (Some ([TId (t_name t)] ++ print_arguments false (tg_params (trait_tg t))))
                           impl_path_toks methods)])) = Ok items).
  { destruct (ta_impl_trait (eff_trait_attr v a)) eqn:E1; [exact H0|].
    destruct (ta_delegate (eff_trait_attr v a)) as [[| |d]|] eqn:E2; try exact H0. discriminate. }
  clear H0. inv_ok H1. inv_ok H0. inv_ok H1. injection H0 as <-.
  exists a0, a1, a2. repeat split; assumption.
Qed.

(** ** [parts] on the model's output *)
Lemma split_last2_app {A} : forall (l : list A) a b, split_last2 (l ++ [a; b]) = Some (l, a, b).
Proof.
  induction l as [|x xs IH]; intros a b; [reflexivity|].
  change ((x :: xs) ++ [a; b]) with (x :: (xs ++ [a; b])).
  simpl. rewrite IH. destruct (xs ++ [a; b]) as [|y [|z zs]] eqn:E.
  - destruct xs; discriminate.
  - destruct xs as [|? [|? ?]]; discriminate.
  - reflexivity.
Qed.

Lemma parts_fn h s body a v s' b' tr im :
  parts (InFn h s body) [IFn a v s' b'; ITrait tr; IImpl im] = Some (GFn (IFn a v s' b') tr im).
Proof. reflexivity. Qed.

Lemma parts_mod h name body sigs sf attrs v name' user tr im uv tree :
  parts (InMod h name body sigs sf) [IMod attrs v name' (user ++ [ITrait tr; IImpl im]); IUse [] uv tree]
  = Some (GMod attrs v name' user tr im uv tree).
Proof. unfold parts. rewrite split_last2_app. reflexivity. Qed.

Lemma parts_impl h tp st body sigs sf inh im :
  parts (InImpl h tp st body sigs sf) [IImpl inh; IImpl im] = Some (GImpl inh im).
Proof. reflexivity. Qed.

(** the delegation-target traits are [[]], [[target]] or [[target; selector]] *)
Lemma delegation_trait_defs_shape a v tg fns subs deleg :
  delegation_trait_defs a v tg fns subs = Ok deleg ->
  deleg = [] \/ (exists d, deleg = [ITrait d]) \/ (exists d s, deleg = [ITrait d; ITrait s]).
Proof.
  unfold delegation_trait_defs. destruct (ta_impl_trait a); [|intros H; injection H as <-; auto].
  destruct (ta_delegate a) as [[|r|d]|]; intros H; try discriminate; injection H as <-.
  - right; left. eexists; reflexivity.
  - right; right. eexists; eexists; reflexivity.
Qed.

Lemma parts_trait h t tr deleg im :
  (deleg = [] \/ (exists d, deleg = [ITrait d]) \/ (exists d s, deleg = [ITrait d; ITrait s])) ->
  exists ds, parts (InTrait h t) ([ITrait tr] ++ deleg ++ [IImpl im]) = Some (GTrait tr ds im) /\
             deleg = map ITrait ds.
Proof.
  intros [->|[[d ->]|[d [s ->]]]].
  - exists []. split; reflexivity.
  - exists [d]. split; reflexivity.
  - exists [d; s]. split; reflexivity.
Qed.

(** ** What [gen_trait_def] / [gen_impl_block] / [analyze] produce *)
Lemma flat_map_singleton {A B} (f : A -> B) (l : list A) : flat_map (fun x => [f x]) l = map f l.
Proof. induction l; simpl; congruence. Qed.

Lemma trait_sigs_gen_trait_def o ti mode subs lit v name tg colon supers fns im :
  trait_sigs (gen_trait_def o ti mode subs lit v name tg colon supers fns im)
  = map (fun tf => (tf_attrs tf, make_trait_fn_sig (tf_sig tf) subs o)) fns.
Proof.
  unfold trait_sigs, gen_trait_def. cbn [t_items].
  induction fns as [|tf fns IH]; [reflexivity|]. cbn [map flat_map app]. rewrite IH. reflexivity.
Qed.

Lemma only_trait_fns_gen_trait_def o ti mode subs lit v name tg colon supers fns im :
  only_trait_fns (gen_trait_def o ti mode subs lit v name tg colon supers fns im) = true.
Proof. unfold only_trait_fns, gen_trait_def. cbn [t_items]. induction fns; simpl; auto. Qed.

(** the body of a delegating method of [gen_impl_block] *)
Definition deleg_body (ind : impl_indirection) (im : input_mode) (tf : trait_fn) (args : list toks) : toks :=
  let s := tf_sig tf in
  let self_comma :=
    match tf_deps tf, p_items (s_inputs s), ind with
    | DNoDeps, _, _ => []
    | _, [], _ => []
    | _, _, (IStatic _ | IDynamic _) => []
    | _, _ :: _, INone => [TId "self"; comma]
    end in
  let scoping := match im with MImplBlock => [TId "Self"] ++ path_sep | _ => [] end in
  [TG Brace (scoping ++ [TId (s_name s); TG Paren (self_comma ++ join [comma] args)] ++
             (if tf_async tf then [pc "."; TId "await"] else []))].

Lemma delegating_fn_inv ind im tf it :
  delegating_fn ind im tf = Ok it ->
  exists args, call_args (p_items (s_inputs (tf_sig tf))) = Ok args /\
               it = IIFn (tf_attrs tf) [] (tf_sig tf) (deleg_body ind im tf args).
Proof. unfold delegating_fn. intros H. inv_ok H. injection H0 as <-. exists a. split; [exact E | reflexivity]. Qed.

Definition with_t_of (mode : trait_dep_mode) : bool := match mode with MGeneric => true | MConcrete _ => false end.

Lemma gen_impl_block_inv o tref ind tg im mode subs fns ib :
  gen_impl_block o tref ind tg im mode subs fns = Ok ib ->
  exists items,
    Forall2 (fun tf it => delegating_fn ind im tf = Ok it) fns items /\
    ib = mkImpl (filter is_async_trait subs) false
                (mkGen true (p_of_list (impl_params (with_t_of mode) (has_any_self_by_value fns) (tg_params tg)))
                       (where_of_list (impl_where mode ind fns tg)))
                (Some (tref ++ print_arguments (match ind with INone => false | _ => true end) (tg_params tg)))
                (self_ty mode ind o) items.
Proof.
  unfold gen_impl_block. intros H. inv_ok H. injection H0 as <-. exists a. split; [apply map_res_ok; exact E | reflexivity].
Qed.

Lemma impl_fns_of_items ind im : forall fns items,
  Forall2 (fun tf it => delegating_fn ind im tf = Ok it) fns items ->
  exists argss, Forall2 (fun tf args => call_args (p_items (s_inputs (tf_sig tf))) = Ok args) fns argss /\
    items = map (fun '(tf, args) => IIFn (tf_attrs tf) [] (tf_sig tf) (deleg_body ind im tf args)) (combine fns argss).
Proof.
  induction 1 as [|tf it fns items H _ IH].
  - exists []. split; [constructor | reflexivity].
  - destruct IH as (argss & F & ->). destruct (delegating_fn_inv _ _ _ _ H) as (args & Hc & ->).
    exists (args :: argss). split; [constructor; assumption | reflexivity].
Qed.

Lemma analyze_inv k o tg s tf tg' :
  analyze k o tg s = Ok (tf, tg') ->
  exists deps s', analyze_fn_deps tg s o = Ok (deps, tg') /\ convert_sig k deps s = Ok s' /\
                  tf = mkTF deps [] s' (s_async s).
Proof.
  unfold analyze. intros H. inv_ok H. destruct a as [deps tg1]. inv_ok H0. injection H1 as <- <-.
  exists deps, a. repeat split; assumption.
Qed.

Definition stripped_inputs (s : sig) : punct fnarg :=
  mkP (map strip_arg_attrs (p_items (s_inputs s))) (p_trail (s_inputs s)).

Lemma convert_sig_inv k deps s s' :
  convert_sig k deps s = Ok s' ->
  exists inputs1 args,
    generate_params k deps (stripped_inputs s) = Ok inputs1 /\
    fix_fn_param_idents (s_name s) (p_items inputs1) = Ok args /\
    s' = mkSig (s_const s) (s_async s) (s_unsafe s) (s_abi s) (s_name s) (convert_generics deps (s_gen s))
               (mkP args (p_trail inputs1)) (s_variadic s) (s_output s).
Proof.
  unfold convert_sig. fold (stripped_inputs s). intros H. inv_ok H. inv_ok H0. injection H1 as <-.
  exists a, a0. repeat split; assumption.
Qed.

(** [analyze_fn_deps]: [DNoDeps] iff [no_deps]; otherwise the first parameter is a typed one *)
Lemma extract_not_nodeps : forall ty tg g d tg', extract_deps_from_type tg g ty = Ok (d, tg') -> d <> DNoDeps.
Proof.
  induction ty as [l m e IH|e IH|tr bs|q lead n f ts|ts]; intros tg g d tg' H; simpl in H.
  - eapply IH; exact H.
  - eapply IH; exact H.
  - injection H as <- _. discriminate.
  - destruct q; [discriminate|]. destruct lead; [discriminate|].
    destruct (negb (n =? 1)); [injection H as <- _; discriminate|].
    destruct (find_deps_generic_bounds tg g f) as [[d0 tg0]|] eqn:E.
    + injection H as <- _. unfold find_deps_generic_bounds in E.
      destruct (find_type_param f (p_items (g_params g)) 0) as [[idx p]|]; [|discriminate].
      destruct (fold_left _ _ _). injection E as <- _. discriminate.
    + injection H as <- _. discriminate.
  - injection H as <- _. discriminate.
Qed.

Lemma analyze_fn_deps_cases tg s o deps tg' :
  analyze_fn_deps tg s o = Ok (deps, tg') ->
  (no_deps_value o = true /\ deps = DNoDeps) \/
  (no_deps_value o = false /\ deps <> DNoDeps /\
   exists attrs p ty rest, p_items (s_inputs s) = ArgTyped attrs p ty :: rest /\
                           extract_deps_from_type tg (s_gen s) ty = Ok (deps, tg')).
Proof.
  unfold analyze_fn_deps. destruct (no_deps_value o).
  - destruct (p_items (s_inputs s)) as [|[x r m c|x p ty] rest]; intros H; try discriminate H; injection H as <- _; left; auto.
  - destruct (p_items (s_inputs s)) as [|[x r m c|x p ty] rest]; try discriminate.
    intros H. right. split; [reflexivity|]. split; [eapply extract_not_nodeps; exact H|].
    do 4 eexists. split; [reflexivity | exact H].
Qed.

Lemma analyze_fn_deps_nodeps tg s o deps tg' :
  no_deps_value o = true -> analyze_fn_deps tg s o = Ok (deps, tg') ->
  deps = DNoDeps /\ tg' = deps_with_generics tg (s_gen s) /\
  match p_items (s_inputs s) with ArgRecv _ _ _ _ :: _ => False | _ => True end.
Proof.
  unfold analyze_fn_deps. intros ->.
  destruct (p_items (s_inputs s)) as [|[x r m c|x p ty] rest]; intros H; try discriminate H; injection H as <- <-; auto.
Qed.

(** ** [impl<..Param>] of an entraited trait: lifetimes first, then the application's parameter, then the rest
    without defaults *)
Definition nonlife (p : gparam) : bool := negb (is_life p).

Lemma strip_default_life p : is_life (strip_default p) = is_life p.
Proof. unfold strip_default. destruct (is_life p) eqn:E; [exact E|]. unfold is_life in *. cbn [gp_kind]. exact E. Qed.

Lemma filter_nonlife_life (l : list gparam) : filter nonlife (filter is_life l) = [].
Proof. induction l as [|p l IH]; [reflexivity|]. cbn [filter]. destruct (is_life p) eqn:E; [|exact IH]. cbn [filter]. unfold nonlife at 1. rewrite E. exact IH. Qed.

Lemma filter_nonlife_strip (l : list gparam) : filter nonlife (map strip_default (filter nonlife l)) = map strip_default (filter nonlife l).
Proof.
  induction l as [|p l IH]; [reflexivity|]. cbn [filter]. destruct (nonlife p) eqn:E; [|exact IH].
  cbn [map filter]. unfold nonlife at 1. rewrite strip_default_life. fold (nonlife p). rewrite E. f_equal. exact IH.
Qed.

Lemma filter_nonlife_trait_impl_params ps :
  filter nonlife (trait_impl_params ps) = impl_t_param false :: map strip_default (filter nonlife ps).
Proof.
  unfold trait_impl_params. rewrite !filter_app, filter_nonlife_life. fold nonlife. rewrite filter_nonlife_strip. reflexivity.
Qed.

(** the parameters handed to [fix_fn_param_idents]: the generated receiver(s), then the source
    parameters after the dependency *)
Definition gen_prefix (k : receiver_kind) (reference : option (option string)) : list fnarg :=
  match k with
  | RSelfRef => [self_receiver reference]
  | RStaticImpl => [impl_receiver_lt (ref_lifetime reference)]
  | RDynamicImpl => [self_receiver reference; impl_receiver_lt (ref_lifetime reference)]
  end.

Definition first_ref (l : list fnarg) : option (option string) :=
  match l with ArgTyped _ _ (TyRef lt _ _) :: _ => Some lt | _ => None end.

Lemma p_insert_0 {A} (x : A) (p : punct A) : p_items (p_insert 0 x p) = x :: p_items p.
Proof. unfold p_insert, p_len, p_push. destruct p as [[|y ys] tr]; reflexivity. Qed.

Lemma p_insert_1 {A} (x y : A) (l : list A) tr : p_items (p_insert 1 x (mkP (y :: l) tr)) = y :: x :: l.
Proof. unfold p_insert, p_len, p_push. destruct l; reflexivity. Qed.

Lemma generate_params_items k deps inputs inputs1 :
  generate_params k deps inputs = Ok inputs1 ->
  (deps = DNoDeps /\ p_items inputs1 = gen_prefix k (Some None) ++ p_items inputs) \/
  (deps <> DNoDeps /\ p_items inputs = [] /\ k <> RDynamicImpl /\ inputs1 = inputs) \/
  (deps <> DNoDeps /\ exists a p ty rest, p_items inputs = ArgTyped a p ty :: rest /\
                      p_items inputs1 = gen_prefix k (first_ref (p_items inputs)) ++ rest).
Proof.
  unfold generate_params. intros H. inv_ok H. destruct deps as [pn b|ty|].
  - right. destruct (p_items inputs) as [|[x r m c|x p ty] rest] eqn:Ei; [|discriminate|].
    + injection E as <-. left.
      destruct k; [| |exfalso; unfold p_len in H0; rewrite Ei in H0; discriminate];
        injection H0 as <-; repeat split; try discriminate; try assumption.
    + right. split; [discriminate|]. exists x, p, ty, rest. split; [reflexivity|].
      destruct ty; injection E as <-; destruct k; cbn [gen_first_receiver] in H0; try (injection H0 as <-; reflexivity);
      (unfold p_len in H0; cbn in H0; injection H0 as <-; rewrite p_insert_1; reflexivity).
  - right. destruct (p_items inputs) as [|[x r m c|x p ty0] rest] eqn:Ei; [|discriminate|].
    + injection E as <-. left.
      destruct k; [| |exfalso; unfold p_len in H0; rewrite Ei in H0; discriminate];
        injection H0 as <-; repeat split; try discriminate; try assumption.
    + right. split; [discriminate|]. exists x, p, ty0, rest. split; [reflexivity|].
      destruct ty0; injection E as <-; destruct k; cbn [gen_first_receiver] in H0; try (injection H0 as <-; reflexivity);
      (unfold p_len in H0; cbn in H0; injection H0 as <-; rewrite p_insert_1; reflexivity).
  - left. split; [reflexivity|]. injection E as <-.
    destruct k; cbn [gen_first_receiver] in H0.
    + injection H0 as <-. apply p_insert_0.
    + injection H0 as <-. apply p_insert_0.
    + destruct (p_len (p_insert 0 (self_receiver (Some None)) inputs) <? 1) eqn:El; [discriminate|].
      injection H0 as <-. destruct inputs as [its tr]. 
      replace (p_insert 0 (self_receiver (Some None)) (mkP its tr)) with (mkP (self_receiver (Some None) :: its) (match its with [] => false | _ => tr end)).
      * rewrite p_insert_1. reflexivity.
      * unfold p_insert, p_len, p_push. destruct its; reflexivity.
Qed.

Lemma combine_map_fst {A B} : forall (l : list A) (l' : list B), List.length l = List.length l' -> map fst (combine l l') = l.
Proof. induction l as [|a l IH]; intros [|b l'] H; simpl in *; try discriminate; [reflexivity|]. f_equal. apply IH. lia. Qed.

Lemma Forall2_length' {A B} (P : A -> B -> Prop) l l' : Forall2 P l l' -> List.length l = List.length l'.
Proof. induction 1; simpl; congruence. Qed.

(** the methods of the generated impl block, one per trait fn, in order *)
Lemma gen_impl_block_fns o tref ind tg im mode subs fns ib :
  gen_impl_block o tref ind tg im mode subs fns = Ok ib ->
  exists argss,
    Forall2 (fun tf args => call_args (p_items (s_inputs (tf_sig tf))) = Ok args) fns argss /\
    impl_fns ib = map (fun '(tf, args) => (tf_attrs tf, tf_sig tf, deleg_body ind im tf args)) (combine fns argss) /\
    only_impl_fns ib = true /\
    i_attrs ib = filter is_async_trait subs /\
    i_self ib = self_ty mode ind o /\
    i_gen ib = mkGen true (p_of_list (impl_params (with_t_of mode) (has_any_self_by_value fns) (tg_params tg)))
                     (where_of_list (impl_where mode ind fns tg)) /\
    i_trait ib = Some (tref ++ print_arguments (match ind with INone => false | _ => true end) (tg_params tg)).
Proof.
  intros H. destruct (gen_impl_block_inv _ _ _ _ _ _ _ _ _ H) as (items & F & ->).
  destruct (impl_fns_of_items _ _ _ _ F) as (argss & Fa & ->). exists argss. split; [exact Fa|].
  unfold impl_fns, only_impl_fns. cbn [i_items i_attrs i_self i_gen i_trait]. clear H F Fa.
  repeat split.
  - induction (combine fns argss) as [|[tf args] l IH]; [reflexivity|]. cbn [map flat_map app]. rewrite IH. reflexivity.
  - induction (combine fns argss) as [|[tf args] l IH]; [reflexivity|]. cbn [map forallb]. exact IH.
Qed.

Lemma impl_fns_sigs fns argss (f : trait_fn * list toks -> list attr * sig * toks) :
  List.length fns = List.length argss ->
  (forall tf args, let '(_, s, _) := f (tf, args) in s = tf_sig tf) ->
  map (fun '(_, s, _) => s) (map f (combine fns argss)) = map tf_sig fns.
Proof.
  intros Hl Hf. rewrite map_map. rewrite <- (combine_map_fst fns argss Hl) at 2. rewrite map_map.
  apply map_ext. intros [tf args]. specialize (Hf tf args). destruct (f (tf, args)) as [[a s] b]. simpl. exact Hf.
Qed.

Lemma with_cfg_attrs_sigs : forall fns src, map tf_sig (with_cfg_attrs fns src) = map tf_sig fns.
Proof.
  induction fns as [|tf fns IH]; intros [|[[[a v] s] b] src]; simpl; try reflexivity. rewrite IH. reflexivity.
Qed.

Lemma with_cfg_attrs_deps : forall fns src, map tf_deps (with_cfg_attrs fns src) = map tf_deps fns.
Proof.
  induction fns as [|tf fns IH]; intros [|[[[a v] s] b] src]; simpl; try reflexivity. rewrite IH. reflexivity.
Qed.

Lemma with_cfg_attrs_async : forall fns src, map tf_async (with_cfg_attrs fns src) = map tf_async fns.
Proof.
  induction fns as [|tf fns IH]; intros [|[[[a v] s] b] src]; simpl; try reflexivity. rewrite IH. reflexivity.
Qed.

Lemma analyze_all_length k o : forall sigs tg fns tg', analyze_all k o tg sigs = Ok (fns, tg') -> List.length fns = List.length sigs.
Proof.
  induction sigs as [|s sigs IH]; intros tg fns tg' H; simpl in H.
  - injection H as <- _. reflexivity.
  - inv_ok H. destruct a as [tf tg1]. inv_ok H0. destruct a as [tfs tg2]. injection H1 as <- _. simpl. f_equal. eapply IH; exact E0.
Qed.

(** what [analyze_fn_deps] + [generate_params] hand to the renaming *)
Lemma strip_desired a : desired_name (strip_arg_attrs a) = desired_name a.
Proof. destruct a; reflexivity. Qed.
Lemma strip_is_typed a : is_typed (strip_arg_attrs a) = is_typed a.
Proof. destruct a; reflexivity. Qed.

Lemma inputs1_shape k o tg s deps tg' inputs1 :
  analyze_fn_deps tg s o = Ok (deps, tg') ->
  generate_params k deps (stripped_inputs s) = Ok inputs1 ->
  exists reference,
    p_items inputs1 = gen_prefix k reference ++
                      map strip_arg_attrs (if no_deps_value o then p_items (s_inputs s) else tl (p_items (s_inputs s))) /\
    (deps = DNoDeps <-> no_deps_value o = true).
Proof.
  intros Ha Hg.
  destruct (analyze_fn_deps_cases _ _ _ _ _ Ha) as [[Hn ->]|(Hn & Hd & x & p & ty & rest & Hi & _)]; rewrite Hn.
  - destruct (generate_params_items _ _ _ _ Hg) as [[_ Hp]|[(Hd & _)|(Hd & _)]]; try congruence.
    exists (Some None). split; [exact Hp | tauto].
  - destruct (generate_params_items _ _ _ _ Hg) as [[Hd' _]|[(_ & He & _)|(_ & x' & p' & ty' & rest' & Hi' & Hp)]]; try congruence.
    + unfold stripped_inputs in He. cbn [p_items] in He. rewrite Hi in He. discriminate.
    + eexists. split; [rewrite Hp|split; [congruence | congruence]].
      unfold stripped_inputs in Hi'. cbn [p_items] in Hi'. rewrite Hi in Hi'. cbn [map] in Hi'. injection Hi' as _ _ _ <-.
      rewrite Hi. reflexivity.
Qed.

(** ** option parsers: invariants of the accumulating loops *)
Lemma opt_loop_inv {S} (P : S -> Prop) (set : S -> eopt -> result S) :
  (forall st e st', P st -> set st e = Ok st' -> P st') ->
  forall fuel ts st r, P st -> opt_loop set fuel ts st = Ok r -> P (fst r).
Proof.
  intros Hset. induction fuel as [|k IH]; intros ts st r HP H; simpl in H; [discriminate|].
  inv_ok H. destruct a as [e rest]. inv_ok H0.
  destruct rest as [|[s|c|s|d g] rest']; try (injection H1 as <-; simpl; eapply Hset; eassumption).
  destruct (Ascii.eqb c ","%char) eqn:Ec.
  - apply Ascii.eqb_eq in Ec. subst c. eapply IH; [|exact H1]. eapply Hset; eassumption.
  - assert (Hr : Ok (a, TP c :: rest') = Ok r).
    { revert H1. destruct c as [[] [] [] [] [] [] [] []]; try (intros H1; exact H1). discriminate Ec. }
    injection Hr as <-. simpl. eapply Hset; eassumption.
Qed.

Definition only_debug (o : opts) : Prop :=
  o_no_deps o = None /\ o_export o = None /\ o_future_send o = None /\ o_mock_api o = None /\
  o_unimock o = None /\ o_mockall o = None.

Lemma parse_impl_attr_only_debug ts a : parse_impl_attr ts = Ok a -> only_debug (ia_opts a).
Proof.
  unfold parse_impl_attr.
  match goal with |- context [let '(a, b) := ?X in _] => destruct X as [has_ref r1] end.
  match goal with |- context [let '(a, b) := ?X in _] => destruct X as [has_dyn r2] end.
  destruct r2 as [|t r2'].
    + intros H. injection H as <-. repeat split.
    + intros H. inv_ok H. destruct a0 as [o leftover]. destruct leftover; [|discriminate]. injection H0 as <-.
      assert (Hset : forall st e st', only_debug st -> set_impl_opt st e = Ok st' -> only_debug st').
      { intros st e st' HP Hs. destruct e; simpl in Hs; try discriminate. injection Hs as <-.
        destruct HP as (? & ? & ? & ? & ? & ?). repeat split; assumption. }
      assert (Hinit : only_debug no_opts) by (repeat split; reflexivity).
      exact (opt_loop_inv only_debug set_impl_opt Hset _ _ _ _ Hinit E).
Qed.

Lemma impl_no_deps v ts a : parse_impl_attr ts = Ok a -> no_deps_value (apply_variant v (ia_opts a)) = false.
Proof.
  intros H. destruct (parse_impl_attr_only_debug _ _ H) as (Hn & _). unfold no_deps_value.
  destruct v; cbn [apply_variant o_no_deps]; rewrite Hn; reflexivity.
Qed.

(** ** per-function facts for the fns of a module / impl block *)
Definition fn_ok (k : receiver_kind) (o : opts) (s : sig) (tf : trait_fn) : Prop :=
  exists tg1 tg2 tf0, analyze k o tg1 s = Ok (tf0, tg2) /\
    tf_deps tf = tf_deps tf0 /\ tf_sig tf = tf_sig tf0 /\ tf_async tf = tf_async tf0.

Lemma analyze_all_fn_ok k o : forall sigs tg fns tg',
  analyze_all k o tg sigs = Ok (fns, tg') -> Forall2 (fn_ok k o) sigs fns.
Proof.
  induction sigs as [|s sigs IH]; intros tg fns tg' H; simpl in H.
  - injection H as <- _. constructor.
  - inv_ok H. destruct a as [tf tg1]. inv_ok H0. destruct a as [tfs tg2]. injection H1 as <- _.
    constructor; [|eapply IH; exact E0]. exists tg, tg1, tf. auto.
Qed.

Lemma with_cfg_attrs_fn_ok k o : forall sigs fns src,
  Forall2 (fn_ok k o) sigs fns -> Forall2 (fn_ok k o) sigs (with_cfg_attrs fns src).
Proof.
  intros sigs fns src H. revert src. induction H as [|s tf sigs fns Hh Ht IH]; intros src; [destruct src; constructor|].
  destruct src as [|[[[a v] s0] b] src]; simpl; [constructor; assumption|].
  constructor; [|apply IH]. destruct Hh as (tg1 & tg2 & tf0 & Ha & H1 & H2 & H3).
  exists tg1, tg2, tf0. cbn [tf_deps tf_sig tf_async]. auto.
Qed.

Lemma fn_ok_single k o tg s tf tg' : analyze k o tg s = Ok (tf, tg') -> fn_ok k o s tf.
Proof. intros H. exists tg, tg', tf. auto. Qed.
