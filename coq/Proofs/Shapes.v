(** * Shapes: inversion of [expand_items] per input kind — what a successful expansion consists of *)
From Coq Require Import List String Ascii Bool Arith Lia.
From Entrait Require Import Tok Syn Opts Split FnParams Convert Codegen Expand Proj.
From Entrait.Proofs Require Import Base.
Import ListNotations.
Local Open Scope list_scope.

(** the signature of an entraited fn with the leading [unsafe] that [Input::parse] consumed put back *)
Definition merged_sig (h : head) (s : sig) : sig :=
  mkSig (s_const s) (s_async s) (s_unsafe s || h_unsafe h) (s_abi s) (s_name s) (s_gen s)
        (s_inputs s) (s_variadic s) (s_output s).

Definition sig_of (x : list attr * vis * sig * toks) : sig := let '(_, _, s, _) := x in s.

Lemma expand_fn_inv v attr h s body items :
  expand_items v attr (InFn h s body) = Ok items ->
  exists a tf tg mode ib,
    parse_fn_attr attr = Ok a /\
    analyze RSelfRef (apply_variant v (fa_opts a)) empty_tg (merged_sig h s) = Ok (tf, tg) /\
    detect_trait_dependency_mode MSingleFn [tf] = Ok mode /\
    gen_impl_block (apply_variant v (fa_opts a)) [TId (fa_trait a)] INone tg MSingleFn mode (h_attrs h) [tf] = Ok ib /\
    items = [IFn (h_attrs h) (h_vis h) (merged_sig h s) body;
             ITrait (gen_trait_def (apply_variant v (fa_opts a)) TPlain mode (h_attrs h) None (fa_vis a) (fa_trait a) tg
                                   false pempty [tf] MSingleFn);
             IImpl ib].
Proof.
  unfold expand_items. fold (merged_sig h s). intros H.
  inv_ok H. unfold entrait_for_single_fn in H0. simpl fa_opts in H0. simpl fa_vis in H0. simpl fa_trait in H0.
  inv_ok H0. destruct a0 as [tf tg]. inv_ok H1. inv_ok H0. injection H1 as <-.
  exists a, tf, tg, a0, a1. repeat split; assumption.
Qed.

Lemma expand_mod_inv v attr h name body sigs sf items :
  expand_items v attr (InMod h name body sigs sf) = Ok items ->
  h_unsafe h || h_auto h = false /\
  exists bitems fl a fns0 tg mode ib,
    split_body true sigs body = Ok (bitems, fl) /\
    parse_fn_attr attr = Ok a /\
    analyze_all RSelfRef (apply_variant v (fa_opts a)) empty_tg (map sig_of (body_fns bitems)) = Ok (fns0, tg) /\
    detect_trait_dependency_mode MModule (with_cfg_attrs fns0 (body_fns bitems)) = Ok mode /\
    gen_impl_block (apply_variant v (fa_opts a)) [TId (fa_trait a)] INone tg MModule mode (h_attrs h)
                   (with_cfg_attrs fns0 (body_fns bitems)) = Ok ib /\
    items = [IMod (h_attrs h) (h_vis h) name
                  (map item_of_body_item bitems ++
                   [ITrait (gen_trait_def (apply_variant v (fa_opts a)) TPlain mode (h_attrs h) None (fa_vis a) (fa_trait a) tg
                                          false pempty (with_cfg_attrs fns0 (body_fns bitems)) MModule);
                    IImpl ib]);
             IUse [] (fa_vis a) ([TId name] ++ path_sep ++ [TId (fa_trait a)])].
Proof.
  unfold expand_items. intros H.
  destruct (h_unsafe h || h_auto h) eqn:Hu; [discriminate|]. split; [reflexivity|].
  inv_ok H. destruct a as [bitems fl]. inv_ok H0.
  unfold entrait_for_mod in H1. simpl fa_opts in H1. simpl fa_vis in H1. simpl fa_trait in H1.
  inv_ok H1. destruct a0 as [fns0 tg]. inv_ok H0. inv_ok H1. injection H0 as <-.
  exists bitems, fl, a, fns0, tg, a0, a1.
  repeat split; try assumption.
Qed.

Lemma expand_impl_inv v attr h tp st body sigs sf items :
  expand_items v attr (InImpl h tp st body sigs sf) = Ok items ->
  h_auto h = false /\
  exists bitems fl a fns0 tg mode ib,
    split_body false sigs body = Ok (bitems, fl) /\
    parse_impl_attr attr = Ok a /\
    let o := apply_variant v (ia_opts a) in
    let k := match ia_kind a with KStatic => RStaticImpl | KDynRef => RDynamicImpl end in
    let ind := match ia_kind a with KStatic => IStatic st | KDynRef => IDynamic st end in
    analyze_all k o empty_tg (map sig_of (body_fns bitems)) = Ok (fns0, tg) /\
    detect_trait_dependency_mode MImplBlock (with_cfg_attrs fns0 (body_fns bitems)) = Ok mode /\
    gen_impl_block o tp ind tg MImplBlock mode (h_attrs h) (with_cfg_attrs fns0 (body_fns bitems)) = Ok ib /\
    items = [IImpl (mkImpl (filter (fun x => negb (is_async_trait x)) (h_attrs h)) (h_unsafe h) no_generics None st
                           (map iitem_of_body_item bitems));
             IImpl ib].
Proof.
  unfold expand_items. intros H.
  destruct (h_auto h) eqn:Hu; [discriminate|]. split; [reflexivity|].
  inv_ok H. destruct a as [bitems fl]. inv_ok H0.
  unfold output_for_impl in H1. simpl ia_opts in H1. simpl ia_kind in H1.
  inv_ok H1. destruct a0 as [fns0 tg]. inv_ok H0. inv_ok H1. injection H0 as <-.
  exists bitems, fl, a, fns0, tg, a0, a1.
  repeat split; try assumption.
Qed.

Definition eff_trait_attr (v : variant) (a : trait_attr) : trait_attr :=
  mkTraitAttr (ta_impl_trait a) (apply_variant v (ta_opts a)) (ta_delegate a).

Definition trait_tg (t : item_trait) : trait_generics :=
  mkTG (p_items (g_params (t_gen t))) (match g_where (t_gen t) with Some w => w | None => pempty end).

Lemma expand_trait_inv v attr h t items :
  expand_items v attr (InTrait h t) = Ok items ->
  exists a0 fns deleg methods,
    parse_trait_attr attr = Ok a0 /\
    let a := eff_trait_attr v a0 in
    let ca := trait_contains_async (t_items t) in
    let tg := trait_tg t in
    (ta_impl_trait a = None -> forall d, ta_delegate a <> Some (ByTrait d)) /\
    analyze_trait_items (t_items t) = Ok fns /\
    delegation_trait_defs a (h_vis h) tg fns (filter is_async_trait (h_attrs h)) = Ok deleg /\
    map_res (delegation_method a ca) fns = Ok methods /\
    items = [ITrait (gen_trait_def (ta_opts a) TTrait MGeneric (h_attrs h) (Some (h_attrs h)) (h_vis h) (t_name t) tg
                                   (t_colon t) (t_supers t) fns MRawTrait)] ++ deleg ++
            [IImpl (mkImpl (filter is_async_trait (h_attrs h)) false
                           (mkGen true (p_of_list (impl_params true false (tg_params tg)))
                                  (where_of_list (mk_pred (impl_t_bounds a ca (t_name t) tg) :: p_items (tg_where tg))))
                           (Some ([TId (t_name t)] ++ print_arguments false (tg_params tg)))
                           impl_path_toks methods)].
Proof.
  unfold expand_items. intros H. inv_ok H. fold (eff_trait_attr v a) in H0.
  unfold output_for_trait in H0. fold (trait_tg t) in H0.
  exists a.
  assert (Hd : ta_impl_trait (eff_trait_attr v a) = None -> forall d, ta_delegate (eff_trait_attr v a) <> Some (ByTrait d)).
  { intros Hn d Hd. rewrite Hn, Hd in H0. discriminate. }
  assert (H1 :
    (let* fns := analyze_trait_items (t_items t) in
     let* deleg := delegation_trait_defs (eff_trait_attr v a) (h_vis h) (trait_tg t) fns (filter is_async_trait (h_attrs h)) in
     let* methods := map_res (delegation_method (eff_trait_attr v a) (trait_contains_async (t_items t))) fns in
     Ok ([ITrait (gen_trait_def (ta_opts (eff_trait_attr v a)) TTrait MGeneric (h_attrs h) (Some (h_attrs h)) (h_vis h) (t_name t) (trait_tg t)
                                   (t_colon t) (t_supers t) fns MRawTrait)] ++ deleg ++
            [IImpl (mkImpl (filter is_async_trait (h_attrs h)) false
                           (mkGen true (p_of_list (impl_params true false (tg_params (trait_tg t))))
                                  (where_of_list (mk_pred (impl_t_bounds (eff_trait_attr v a) (trait_contains_async (t_items t)) (t_name t) (trait_tg t)) :: p_items (tg_where (trait_tg t)))))
                           (Some ([TId (t_name t)] ++ print_arguments false (tg_params (trait_tg t))))
                           impl_path_toks methods)])) = Ok items).
  { destruct (ta_impl_trait (eff_trait_attr v a)) eqn:E1; [exact H0|].
    destruct (ta_delegate (eff_trait_attr v a)) as [[| |d]|] eqn:E2; try exact H0. discriminate. }
  clear H0. inv_ok H1. inv_ok H0. inv_ok H1. injection H0 as <-.
  exists a0, a1, a2. repeat split; assumption.
Qed.

(** ** [parts] on the model's output *)
Lemma split_last2_app {A} : forall (l : list A) a b, split_last2 (l ++ [a; b]) = Some (l, a, b).
Proof.
  induction l as [|x xs IH]; intros a b; [reflexivity|].
  change ((x :: xs) ++ [a; b]) with (x :: (xs ++ [a; b])).
  simpl. rewrite IH. destruct (xs ++ [a; b]) as [|y [|z zs]] eqn:E.
  - destruct xs; discriminate.
  - destruct xs as [|? [|? ?]]; discriminate.
  - reflexivity.
Qed.

Lemma parts_fn h s body a v s' b' tr im :
  parts (InFn h s body) [IFn a v s' b'; ITrait tr; IImpl im] = Some (GFn (IFn a v s' b') tr im).
Proof. reflexivity. Qed.

Lemma parts_mod h name body sigs sf attrs v name' user tr im uv tree :
  parts (InMod h name body sigs sf) [IMod attrs v name' (user ++ [ITrait tr; IImpl im]); IUse [] uv tree]
  = Some (GMod attrs v name' user tr im uv tree).
Proof. unfold parts. rewrite split_last2_app. reflexivity. Qed.

Lemma parts_impl h tp st body sigs sf inh im :
  parts (InImpl h tp st body sigs sf) [IImpl inh; IImpl im] = Some (GImpl inh im).
Proof. reflexivity. Qed.

(** the delegation-target traits are [[]], [[target]] or [[target; selector]] *)
Lemma delegation_trait_defs_shape a v tg fns subs deleg :
  delegation_trait_defs a v tg fns subs = Ok deleg ->
  deleg = [] \/ (exists d, deleg = [ITrait d]) \/ (exists d s, deleg = [ITrait d; ITrait s]).
Proof.
  unfold delegation_trait_defs. destruct (ta_impl_trait a); [|intros H; injection H as <-; auto].
  destruct (ta_delegate a) as [[|r|d]|]; intros H; try discriminate; injection H as <-.
  - right; left. eexists; reflexivity.
  - right; right. eexists; eexists; reflexivity.
Qed.

Lemma parts_trait h t tr deleg im :
  (deleg = [] \/ (exists d, deleg = [ITrait d]) \/ (exists d s, deleg = [ITrait d; ITrait s])) ->
  exists ds, parts (InTrait h t) ([ITrait tr] ++ deleg ++ [IImpl im]) = Some (GTrait tr ds im) /\
             deleg = map ITrait ds.
Proof.
  intros [->|[[d ->]|[d [s ->]]]].
  - exists []. split; reflexivity.
  - exists [d]. split; reflexivity.
  - exists [d; s]. split; reflexivity.
Qed.
