(** * C12: async functions / methods *)
From Coq Require Import List String Ascii Bool Arith Lia.
From Entrait Require Import Tok Syn Opts Split FnParams Convert Codegen Expand Proj Proj2.
From Entrait.Proofs Require Import Base Shapes PFnParams PC16.
Import ListNotations.
Local Open Scope list_scope.

(** ** [make_trait_fn_sig] and [future_output], explicitly *)

(** an async fn without an [async_trait] sub-attribute: the trait method is a plain [fn] returning
    [impl ::core::future::Future<Output = R>] (everything else untouched) *)
Lemma make_trait_fn_sig_async s subs o :
  s_async s = true -> contains_async_trait subs = false ->
  make_trait_fn_sig s subs o =
  mkSig (s_const s) false (s_unsafe s) (s_abi s) (s_name s) (s_gen s) (s_inputs s) (s_variadic s)
        (Some (future_output o (s_output s))).
Proof. intros Ha Hs. unfold make_trait_fn_sig. rewrite Ha, Hs. reflexivity. Qed.

(** otherwise (not async, or [async_trait] present) the signature is left as it is *)
Lemma make_trait_fn_sig_same s subs o :
  s_async s = false \/ contains_async_trait subs = true -> make_trait_fn_sig s subs o = s.
Proof.
  intros [H|H]; unfold make_trait_fn_sig; rewrite H; [reflexivity|]. rewrite andb_false_r. reflexivity.
Qed.

(** the future type is the one the property describes, with [+ Send] according to [future_send] *)
Lemma future_output_wrapper o ret : future_output o ret = future_wrapper (future_send o) ret.
Proof. reflexivity. Qed.

Lemma future_output_shape o ret :
  future_output o ret =
  [TId "impl"] ++ abs_path ["core"; "future"; "Future"]%string ++ [pc "<"; TId "Output"; pc "="] ++
  (match ret with Some t => t | None => [TG Paren []] end) ++ [pc ">"] ++
  (if future_send o then [pc "+"] ++ abs_path ["core"; "marker"; "Send"]%string else []).
Proof. reflexivity. Qed.

(** [+ ::core::marker::Send] is the tail iff [future_send]; otherwise the type ends with the closing [>] *)
Lemma last_app_ne {A} (l l' : list A) d : l' <> [] -> last (l ++ l') d = last l' d.
Proof.
  intros Hn. induction l as [|x l IH]; [reflexivity|]. cbn [app]. 
  destruct (l ++ l') eqn:E; [destruct l; [contradiction | discriminate E]|]. exact IH.
Qed.

Lemma future_output_last o ret :
  last (future_output o ret) (TId "") = if future_send o then TId "Send" else pc ">".
Proof.
  rewrite future_output_shape. rewrite !app_assoc.
  destruct (future_send o).
  - rewrite last_app_ne; [reflexivity | discriminate].
  - rewrite app_nil_r. apply last_last.
Qed.

Lemma future_output_send_iff o ret :
  (exists pre, future_output o ret = pre ++ [pc "+"] ++ abs_path ["core"; "marker"; "Send"]%string) <-> future_send o = true.
Proof.
  split.
  - intros [pre E]. pose proof (future_output_last o ret) as L. rewrite E in L.
    rewrite last_app_ne in L by discriminate.
    destruct (future_send o); [reflexivity | discriminate L].
  - intros Hs. rewrite future_output_shape, Hs. eexists. rewrite !app_assoc. reflexivity.
Qed.

(** [?Send] is the only way to switch [+ Send] off *)
Lemma future_send_false_iff o : future_send o = false <-> o_future_send o = Some false.
Proof. unfold future_send, dflt. destruct (o_future_send o) as [[|]|]; split; congruence. Qed.

(** ** every analysed fn keeps asyncness and return type in the signature used by the impl *)
Definition c12_rel (src emitted : sig) : Prop :=
  s_async emitted = s_async src /\ s_output emitted = s_output src.

Lemma analyze_async_output k o tg s tf tg' :
  analyze k o tg s = Ok (tf, tg') -> c12_rel s (tf_sig tf) /\ tf_async tf = s_async s.
Proof.
  intros H. destruct (analyze_inv _ _ _ _ _ _ H) as (deps & s' & _ & Hc & ->). cbn [tf_sig tf_async].
  destruct (convert_sig_inv _ _ _ _ Hc) as (inputs1 & args & _ & _ & ->). repeat split.
Qed.

Lemma fn_ok_rel k o s tf : fn_ok k o s tf -> c12_rel s (tf_sig tf).
Proof.
  intros (tg1 & tg2 & tf0 & Ha & _ & E & _). rewrite E. apply (analyze_async_output _ _ _ _ _ _ Ha).
Qed.

(** the trait method made for an analysed fn *)
Lemma analyze_trait_method k o tg s tf tg' subs :
  analyze k o tg s = Ok (tf, tg') ->
  let t := make_trait_fn_sig (tf_sig tf) subs o in
  (s_async s = true -> contains_async_trait subs = false ->
     s_async t = false /\ s_output t = Some (future_output o (s_output s))) /\
  (s_async s = false \/ contains_async_trait subs = true -> t = tf_sig tf) /\
  s_async (tf_sig tf) = s_async s /\ s_output (tf_sig tf) = s_output s.
Proof.
  intros H t. destruct (analyze_async_output _ _ _ _ _ _ H) as [[R1 R2] _]. subst t. repeat split; try assumption.
  - rewrite make_trait_fn_sig_async; [reflexivity | congruence | assumption].
  - rewrite make_trait_fn_sig_async; [cbn [s_output]; congruence | congruence | assumption].
  - intros Hc. apply make_trait_fn_sig_same. rewrite R1. exact Hc.
Qed.

Lemma c12_one_ok subs o s i :
  c12_rel s i -> c12_one (contains_async_trait subs) (future_send o) s (make_trait_fn_sig i subs o) i = true.
Proof.
  intros [R1 R2]. unfold c12_one, make_trait_fn_sig. rewrite R1, R2.
  destruct (s_async s), (contains_async_trait subs); cbn [andb negb s_async s_output];
    rewrite ?R1, ?R2, ?opt_toks_eqb_refl; reflexivity.
Qed.

Lemma c12_one_impl s i : c12_rel s i -> c12_one true true s i i = true.
Proof.
  intros [R1 R2]. unfold c12_one. rewrite R1, R2. destruct (s_async s); cbn [andb negb]; rewrite ?opt_toks_eqb_refl; reflexivity.
Qed.

Lemma c12_all_rel subs o : forall sigs isigs,
  Forall2 c12_rel sigs isigs ->
  c12_all (contains_async_trait subs) (future_send o) sigs (map (fun s => make_trait_fn_sig s subs o) isigs) isigs = true.
Proof.
  induction 1 as [|s i sigs isigs R _ IH]; [reflexivity|]. cbn [map c12_all]. rewrite (c12_one_ok _ _ _ _ R), IH. reflexivity.
Qed.

Lemma c12_all_impl : forall sigs isigs, Forall2 c12_rel sigs isigs -> c12_all true true sigs isigs isigs = true.
Proof.
  induction 1 as [|s i sigs isigs R _ IH]; [reflexivity|]. cbn [c12_all]. rewrite (c12_one_impl _ _ R), IH. reflexivity.
Qed.

Lemma c12_trait_one_ok subs o s i :
  c12_rel s i -> c12_trait_one (contains_async_trait subs) (future_send o) s (make_trait_fn_sig i subs o) = true.
Proof.
  intros [R1 R2]. unfold c12_trait_one, make_trait_fn_sig. rewrite R1.
  destruct (s_async s), (contains_async_trait subs); cbn [andb negb s_async s_output];
    rewrite ?R1, ?R2, ?opt_toks_eqb_refl; reflexivity.
Qed.

Lemma c12_trait_all_rel subs o : forall sigs isigs,
  Forall2 c12_rel sigs isigs ->
  c12_trait_all (contains_async_trait subs) (future_send o) sigs (map (fun s => make_trait_fn_sig s subs o) isigs) = true.
Proof.
  induction 1 as [|s i sigs isigs R _ IH]; [reflexivity|]. cbn [map c12_trait_all]. rewrite (c12_trait_one_ok _ _ _ _ R), IH. reflexivity.
Qed.

(** the receiver rewrites of the delegation-target trait touch only the parameters *)
Lemma static_receiver_rel s : c12_rel s (static_impl_receiver s).
Proof. unfold static_impl_receiver. destruct (p_items (s_inputs s)) as [|[x r m c|x p ty] rest]; split; reflexivity. Qed.

Lemma dynamic_receiver_rel s : c12_rel s (dynamic_impl_receiver s).
Proof. unfold dynamic_impl_receiver. destruct (first_is_receiver s); split; reflexivity. Qed.

Lemma contains_async_filter' l : contains_async_trait (filter is_async_trait l) = contains_async_trait l.
Proof.
  unfold contains_async_trait. induction l as [|x l IH]; [reflexivity|]. cbn [filter existsb].
  destruct (is_async_trait x) eqn:E; cbn [existsb]; rewrite ?E, IH; reflexivity.
Qed.

Lemma fn_ok_rel_all k o : forall sigs fns, Forall2 (fn_ok k o) sigs fns -> Forall2 c12_rel sigs (map tf_sig fns).
Proof. induction 1 as [|s tf sigs fns R _ IH]; [constructor|]. cbn [map]. constructor; [eapply fn_ok_rel; exact R | exact IH]. Qed.

(** for any number of functions: trait methods and impl methods, positionally *)
Lemma c12_all_analyze k o subs sigs fns :
  Forall2 (fn_ok k o) sigs fns ->
  c12_all (contains_async_trait subs) (future_send o) sigs
          (map (fun tf => make_trait_fn_sig (tf_sig tf) subs o) fns) (map tf_sig fns) = true /\
  c12_all true true sigs (map tf_sig fns) (map tf_sig fns) = true.
Proof.
  intros F. pose proof (fn_ok_rel_all _ _ _ _ F) as R. split; [|apply c12_all_impl; exact R].
  rewrite <- (map_map tf_sig (fun s => make_trait_fn_sig s subs o)). apply c12_all_rel. exact R.
Qed.

(** ** the [async_trait] attribute is re-applied to the generated trait(s) and impl *)
Lemma async_is_sub a : is_async_trait a = true -> is_trait_sub a = true.
Proof. unfold is_async_trait, is_trait_sub. destruct (sub_kind_of a); congruence. Qed.

Lemma filter_async_sub : forall l, filter is_async_trait (filter is_trait_sub l) = filter is_async_trait l.
Proof.
  induction l as [|a l IH]; [reflexivity|]. cbn [filter].
  destruct (is_trait_sub a) eqn:E1; cbn [filter]; destruct (is_async_trait a) eqn:E2; rewrite ?IH; try reflexivity.
  apply async_is_sub in E2. congruence.
Qed.

Lemma filter_idem {A} (f : A -> bool) : forall l, filter f (filter f l) = filter f l.
Proof.
  induction l as [|a l IH]; [reflexivity|]. cbn [filter]. destruct (f a) eqn:E; cbn [filter]; rewrite ?E, IH; reflexivity.
Qed.

Lemma contains_async_false : forall l, contains_async_trait l = false -> filter is_async_trait l = [].
Proof.
  unfold contains_async_trait. induction l as [|a l IH]; [reflexivity|]. cbn [existsb filter]. intros H.
  apply orb_false_iff in H as [H1 H2]. rewrite H1. apply IH. exact H2.
Qed.

Lemma export_gated_not_async o p : is_async_trait p = false -> is_async_trait (export_gated o p) = false.
Proof. intros Hp. unfold export_gated. destruct (export_value o); [exact Hp | reflexivity]. Qed.

Lemma unimock_params_not_async api im fns : is_async_trait (unimock_params api im fns) = false.
Proof. reflexivity. Qed.

(** the macro's own attributes are never [async_trait]; what is left are the user's *)
Lemma gen_trait_def_async_attrs o ti mode subs lit v name tg colon supers fns im :
  filter is_async_trait (t_attrs (gen_trait_def o ti mode subs lit v name tg colon supers fns im))
  = filter is_async_trait (match lit with Some l => l | None => subs end).
Proof.
  unfold gen_trait_def. cbn [t_attrs]. rewrite !filter_app.
  assert (H1 : filter is_async_trait
                 (if unimock_value o && negb (unimock_params_empty ti (o_mock_api o))
                  then [export_gated o (unimock_params (o_mock_api o) im fns)] else []) = []).
  { destruct (unimock_value o && negb (unimock_params_empty ti (o_mock_api o))); [|reflexivity].
    cbn [filter]. rewrite export_gated_not_async; [reflexivity | apply unimock_params_not_async]. }
  assert (H2 : filter is_async_trait (match mode with MConcrete _ => [entrait_for_trait_attr] | MGeneric => [] end) = [])
    by (destruct mode; reflexivity).
  assert (H3 : filter is_async_trait (if mockall_value o then [export_gated o mockall_params] else []) = []).
  { destruct (mockall_value o); [|reflexivity]. cbn [filter]. rewrite export_gated_not_async; reflexivity. }
  rewrite H1, H2, H3. cbn [app]. destruct lit; [reflexivity | apply filter_async_sub].
Qed.

Lemma existsb_toks_In a l : In a l -> existsb (toks_eqb a) l = true.
Proof. intros H. apply existsb_exists. exists a. split; [exact H | apply toks_eqb_refl]. Qed.

Lemma sub_attrs_reapplied_ok attrs on_trait on_impl :
  filter is_async_trait on_trait = filter is_async_trait attrs ->
  filter is_async_trait on_impl = filter is_async_trait attrs ->
  sub_attrs_reapplied attrs on_trait on_impl = true.
Proof.
  intros Ht Hi. unfold sub_attrs_reapplied. rewrite filter_app, Ht, Hi. apply andb_true_iff. split.
  - apply forallb_forall. intros a Ha. apply andb_true_iff. split; apply existsb_toks_In.
    + rewrite <- Ht in Ha. apply filter_In in Ha. tauto.
    + rewrite <- Hi in Ha. apply filter_In in Ha. tauto.
  - apply forallb_forall. intros a Ha. apply existsb_toks_In. apply in_app_or in Ha. tauto.
Qed.

(** view-level helper *)
Lemma good_if b h alpha : (b = true -> h = true) -> good (if b then decided h alpha else na).
Proof. intros Hh. destruct b; unfold good; cbn; [intros _; split; [reflexivity | apply Hh; reflexivity] | discriminate]. Qed.

(** ** trait mode: the re-emitted trait, the delegation-target trait(s), the delegating impl *)
Lemma analyze_trait_items_spec : forall l fns,
  analyze_trait_items l = Ok fns ->
  map (fun tf => (tf_attrs tf, tf_sig tf)) fns
  = flat_map (fun x => match x with TFn a s _ _ => [(a, s)] | _ => [] end) l /\
  Forall (fun tf => tf_async tf = s_async (tf_sig tf) /\ tf_deps tf = DNoDeps) fns.
Proof.
  induction l as [|[a s d sm|ts|ts] l IH]; intros fns H; cbn [analyze_trait_items] in H.
  - injection H as <-. split; [reflexivity | constructor].
  - destruct (forallb is_pident (p_items (s_inputs s))); [|discriminate H].
    inv_ok H. injection H0 as <-. destruct (IH _ E) as [I1 I2]. split.
    + cbn [map flat_map app tf_attrs tf_sig]. rewrite I1. reflexivity.
    + constructor; [split; reflexivity | exact I2].
  - apply IH. exact H.
  - discriminate H.
Qed.

Lemma delegation_methods_spec a ca : forall fns methods,
  map_res (delegation_method a ca) fns = Ok methods ->
  map (fun '(x, s, _) => (x, s)) (flat_map (fun x => match x with IIFn x0 _ s b => [(x0, s, b)] | _ => [] end) methods)
  = map (fun tf => (tf_attrs tf, tf_sig tf)) fns.
Proof.
  induction fns as [|tf fns IH]; intros methods H; cbn [map_res] in H.
  - injection H as <-. reflexivity.
  - inv_ok H. inv_ok H0. injection H1 as <-. unfold delegation_method in E. inv_ok E. injection E2 as <-.
    cbn [flat_map app map]. rewrite (IH _ E0). reflexivity.
Qed.

(** the delegation-target traits: none without a target name; otherwise the target trait carries exactly
    the [async_trait] attributes, and (for [delegate_by = SomeTrait]) the selector trait carries none *)
Lemma trait_sigs_mk a v u au n g c sup subs o (fns : list trait_fn) :
  trait_sigs (mkTrait a v u au n g c sup
                      (map (fun tf => TFn (tf_attrs tf) (make_trait_fn_sig (tf_sig tf) subs o) None true) fns))
  = map (fun tf => (tf_attrs tf, make_trait_fn_sig (tf_sig tf) subs o)) fns.
Proof.
  unfold trait_sigs. cbn [t_items]. induction fns as [|tf fns IH]; [reflexivity|]. cbn [map flat_map app]. rewrite IH. reflexivity.
Qed.

Lemma delegation_ds a v tg fns subs ds :
  delegation_trait_defs a v tg fns subs = Ok (map ITrait ds) ->
  match ta_impl_trait a with
  | None => ds = []
  | Some n =>
      exists td recv, t_name td = n /\ t_attrs td = subs /\
        (recv = static_impl_receiver \/ recv = dynamic_impl_receiver) /\
        trait_sigs td = map (fun tf => (tf_attrs tf, make_trait_fn_sig (recv (tf_sig tf)) subs (no_mock_opts (ta_opts a)))) fns /\
        (ds = [td] \/ exists del sel, ta_delegate a = Some (ByTrait del) /\ ds = [td; sel] /\
                                      t_name sel = del /\ t_attrs sel = [])
  end.
Proof.
  unfold delegation_trait_defs. destruct (ta_impl_trait a) as [n|].
  - destruct (ta_delegate a) as [[|r|del]|]; intros H; try discriminate H; injection H as H.
    + destruct ds as [|td [|? ?]]; try discriminate H. injection H as H. exists td, dynamic_impl_receiver. subst td.
      split; [reflexivity|]. split; [cbn; apply app_nil_r|]. split; [right; reflexivity|]. split; [|left; reflexivity].
      rewrite trait_sigs_mk, map_map. reflexivity.
    + destruct ds as [|td [|sel [|? ?]]]; try discriminate H. injection H as H1 H2. exists td, static_impl_receiver. subst td sel.
      split; [reflexivity|]. split; [cbn; apply app_nil_r|]. split; [left; reflexivity|].
      split; [|right; exists del; eexists; repeat split].
      rewrite trait_sigs_mk, map_map. reflexivity.
  - intros H. injection H as H. destruct ds; [reflexivity | discriminate H].
Qed.

(** the methods of the delegation-target trait against the source methods: asyncness / return type exactly as
    for the re-emitted trait ([impl Future .. [+ Send]] unless [async_trait]) *)
Lemma target_trait_sigs_ok attrs o recv fns td :
  (recv = static_impl_receiver \/ recv = dynamic_impl_receiver) ->
  trait_sigs td = map (fun tf => (tf_attrs tf, make_trait_fn_sig (recv (tf_sig tf)) (filter is_async_trait attrs) (no_mock_opts o))) fns ->
  c12_trait_all (contains_async_trait attrs) (future_send o) (map tf_sig fns) (map snd (trait_sigs td)) = true.
Proof.
  intros Hr ->. rewrite map_map. cbn [snd].
  rewrite <- (map_map (fun tf => recv (tf_sig tf)) (fun s => make_trait_fn_sig s (filter is_async_trait attrs) (no_mock_opts o))).
  rewrite <- (contains_async_filter' attrs). change (future_send o) with (future_send (no_mock_opts o)).
  apply c12_trait_all_rel. induction fns as [|tf fns IH]; [constructor|]. cbn [map]. constructor; [|exact IH].
  destruct Hr as [->| ->]; [apply static_receiver_rel | apply dynamic_receiver_rel].
Qed.

Lemma map_sig3 {A B C} (l : list (A * B * C)) :
  map (fun '(_, s, _) => s) l = map snd (map (fun '(x, s, _) => (x, s)) l).
Proof. rewrite map_map. apply map_ext. intros [[x s] b]. reflexivity. Qed.

Lemma Forall2_c12_refl : forall l, Forall2 c12_rel l l.
Proof. induction l; constructor; [split; reflexivity | assumption]. Qed.

(** ** the view the checker evaluates *)

Lemma c12_view v attr i items :
  expand_items v attr i = Ok items -> good (view_C12 (mkCtx v attr i) items).
Proof.
  intros H. destruct i as [h s body|h|h t|h|h tp st body sigs sf|h|h name body sigs sf|h|]; try discriminate H.
  - destruct (expand_fn_inv _ _ _ _ _ _ H) as (a & tf & tg & mode & ib & Ha & Hz & _ & Hib & ->).
    destruct (gen_impl_block_fns _ _ _ _ _ _ _ _ _ Hib) as (argss & Fa & Hfns & _ & Hattrs & _).
    unfold view_C12, fn_opts. cbn [x_input x_attr x_variant source_fns]. rewrite parts_fn, Ha.
    apply good_if. intros _.
    rewrite trait_sigs_gen_trait_def, Hfns, Hattrs.
    inversion Fa as [|? args ? ? Hc Fa']; subst. inversion Fa'; subst. cbn [map combine snd].
    fold (merged_sig h s).
    destruct (c12_all_analyze RSelfRef (apply_variant v (fa_opts a)) (h_attrs h) [merged_sig h s] [tf]
                (Forall2_cons _ _ (fn_ok_single _ _ _ _ _ _ Hz) (Forall2_nil _))) as [I1 _].
    cbn [map] in I1. rewrite I1. cbn [andb].
    apply sub_attrs_reapplied_ok; [apply gen_trait_def_async_attrs | apply filter_idem].
  - destruct (expand_trait_inv _ _ _ _ _ H) as (a0 & fns & deleg & methods & Ha & _ & Hf & Hd & Hm & ->).
    match goal with |- context [[ITrait ?tr] ++ deleg ++ [IImpl ?im]] =>
      destruct (parts_trait h t tr deleg im (delegation_trait_defs_shape _ _ _ _ _ _ Hd)) as (ds & Hp & Hds) end.
    unfold view_C12, trait_attr_of. cbn [x_input x_attr x_variant source_fns]. rewrite Hp, Ha.
    fold (eff_trait_attr v a0).
    apply good_if. intros _. cbn [i_attrs].
    destruct (analyze_trait_items_spec _ _ Hf) as [Hsig _].
    pose proof (delegation_methods_spec _ _ _ _ Hm) as Hms.
    assert (Hsrc : map snd (trait_sigs t) = map tf_sig fns).
    { unfold trait_sigs. rewrite <- Hsig, map_map. reflexivity. }
    rewrite Hsrc, trait_sigs_gen_trait_def, map_map. cbn [snd]. unfold impl_fns. cbn [i_items].
    rewrite map_sig3, Hms, map_map. cbn [snd].
    rewrite <- (map_map tf_sig (fun s => make_trait_fn_sig s (h_attrs h) (ta_opts (eff_trait_attr v a0)))).
    rewrite (c12_all_rel _ _ _ _ (Forall2_c12_refl (map tf_sig fns))). cbn [andb].
    rewrite sub_attrs_reapplied_ok; [|apply gen_trait_def_async_attrs | apply filter_idem]. cbn [andb].
    rewrite Hds in Hd. pose proof (delegation_ds _ _ _ _ _ _ Hd) as Hdd.
    cbn [eff_trait_attr ta_impl_trait ta_delegate] in Hdd |- *.
    destruct (ta_impl_trait a0) as [n|] eqn:En; [|reflexivity].
    destruct Hdd as (td & recv & Hn & Hat & Hr & Hts & [->|(del & sel & Hdel & -> & Hsn & Hsa)]);
      rewrite Hat, sub_attrs_reapplied_ok by apply filter_idem;
      apply (target_trait_sigs_ok (h_attrs h) (apply_variant v (ta_opts a0)) recv fns td Hr Hts).
  - destruct (expand_impl_inv _ _ _ _ _ _ _ _ _ H) as (_ & bitems & fl & a & fns0 & tg & mode & ib & Hs & Ha & Hz & _ & Hib & ->).
    cbv zeta in Hz, Hib.
    destruct (gen_impl_block_fns _ _ _ _ _ _ _ _ _ Hib) as (argss & Fa & Hfns & _ & Hattrs & _).
    unfold view_C12. cbn [x_input x_attr x_variant source_fns]. rewrite Hs, parts_impl.
    apply good_if. intros _.
    rewrite Hfns, Hattrs, impl_fns_sigs; [|apply (Forall2_length' _ _ _ Fa)|intros tf args; reflexivity].
    rewrite map_sig_of_body_fns.
    destruct (c12_all_analyze _ _ [] _ _ (with_cfg_attrs_fn_ok _ _ _ _ (body_fns bitems) (analyze_all_fn_ok _ _ _ _ _ _ Hz))) as [_ I2].
    rewrite I2. cbn [andb]. apply forallb_forall. intros x Hx. apply existsb_toks_In. exact Hx.
  - destruct (expand_mod_inv _ _ _ _ _ _ _ _ H) as (_ & bitems & fl & a & fns0 & tg & mode & ib & Hs & Ha & Hz & _ & Hib & ->).
    destruct (gen_impl_block_fns _ _ _ _ _ _ _ _ _ Hib) as (argss & Fa & Hfns & _ & Hattrs & _).
    unfold view_C12, fn_opts. cbn [x_input x_attr x_variant source_fns]. rewrite Hs, parts_mod, Ha.
    apply good_if. intros _.
    rewrite trait_sigs_gen_trait_def, Hfns, Hattrs, impl_fns_sigs; [|apply (Forall2_length' _ _ _ Fa)|intros tf args; reflexivity].
    rewrite map_map. cbn [snd]. rewrite map_sig_of_body_fns.
    destruct (c12_all_analyze _ _ (h_attrs h) _ _ (with_cfg_attrs_fn_ok _ _ _ _ (body_fns bitems) (analyze_all_fn_ok _ _ _ _ _ _ Hz))) as [I1 _].
    rewrite I1. cbn [andb].
    apply sub_attrs_reapplied_ok; [apply gen_trait_def_async_attrs | apply filter_idem].
Qed.

(** ** explicit statements per input kind *)
Lemma c12_fn_explicit v attr h s body items :
  expand_items v attr (InFn h s body) = Ok items ->
  exists a f tr im tf,
    parse_fn_attr attr = Ok a /\ items = [f; ITrait tr; IImpl im] /\
    trait_sigs tr = [([], make_trait_fn_sig (tf_sig tf) (h_attrs h) (apply_variant v (fa_opts a)))] /\
    map (fun '(_, s, _) => s) (impl_fns im) = [tf_sig tf] /\
    c12_rel (merged_sig h s) (tf_sig tf) /\
    filter is_async_trait (t_attrs tr) = filter is_async_trait (h_attrs h) /\
    i_attrs im = filter is_async_trait (h_attrs h).
Proof.
  intros H. destruct (expand_fn_inv _ _ _ _ _ _ H) as (a & tf & tg & mode & ib & Ha & Hz & _ & Hib & ->).
  destruct (gen_impl_block_fns _ _ _ _ _ _ _ _ _ Hib) as (argss & Fa & Hfns & _ & Hattrs & _).
  exists a. do 3 eexists. exists tf. split; [exact Ha|]. split; [reflexivity|].
  destruct (analyze_inv _ _ _ _ _ _ Hz) as (deps & s' & _ & _ & Htf).
  split; [rewrite trait_sigs_gen_trait_def; subst tf; reflexivity|].
  split. { rewrite Hfns. inversion Fa as [|? args ? ? Hc Fa']; subst. inversion Fa'; subst. reflexivity. }
  split; [apply (analyze_async_output _ _ _ _ _ _ Hz)|].
  split; [apply gen_trait_def_async_attrs | exact Hattrs].
Qed.

Lemma c12_trait_explicit v attr h t items :
  expand_items v attr (InTrait h t) = Ok items ->
  exists a0 tr ds im,
    parse_trait_attr attr = Ok a0 /\ items = [ITrait tr] ++ map ITrait ds ++ [IImpl im] /\
    trait_sigs tr = map (fun '(x, s) => (x, make_trait_fn_sig s (h_attrs h) (apply_variant v (ta_opts a0)))) (trait_sigs t) /\
    map (fun '(x, s, _) => (x, s)) (impl_fns im) = trait_sigs t /\
    filter is_async_trait (t_attrs tr) = filter is_async_trait (h_attrs h) /\
    i_attrs im = filter is_async_trait (h_attrs h) /\
    match ta_impl_trait a0 with
    | None => ds = []
    | Some n => exists td, hd_error ds = Some td /\ t_name td = n /\ t_attrs td = filter is_async_trait (h_attrs h)
    end.
Proof.
  intros H. destruct (expand_trait_inv _ _ _ _ _ H) as (a0 & fns & deleg & methods & Ha & _ & Hf & Hd & Hm & ->).
  match goal with |- context [[ITrait ?tr] ++ deleg ++ [IImpl ?im]] =>
    destruct (parts_trait h t tr deleg im (delegation_trait_defs_shape _ _ _ _ _ _ Hd)) as (ds & _ & Hds) end.
  destruct (analyze_trait_items_spec _ _ Hf) as [Hsig _].
  pose proof (delegation_methods_spec _ _ _ _ Hm) as Hms.
  exists a0. eexists. exists ds. eexists. split; [exact Ha|]. split; [rewrite Hds; reflexivity|].
  split. { rewrite trait_sigs_gen_trait_def. unfold trait_sigs. rewrite <- Hsig, map_map. reflexivity. }
  split. { unfold impl_fns, trait_sigs. cbn [i_items]. rewrite Hms. exact Hsig. }
  split; [apply gen_trait_def_async_attrs|]. split; [reflexivity|].
  rewrite Hds in Hd. pose proof (delegation_ds _ _ _ _ _ _ Hd) as Hdd.
  cbn [eff_trait_attr ta_impl_trait ta_delegate] in Hdd.
  destruct (ta_impl_trait a0) as [n|]; [|exact Hdd].
  destruct Hdd as (td & recv & Hn & Hat & _ & _ & [->|(del & sel & _ & -> & _)]); exists td; repeat split; assumption.
Qed.

(** the delegation-target trait (first generated trait after the re-emitted one, when a target name is given):
    its methods are the source methods with the receiver rewritten, through [make_trait_fn_sig] with the
    [async_trait] attributes and the same [future_send] *)
Lemma c12_target_trait_explicit v attr h t items :
  expand_items v attr (InTrait h t) = Ok items ->
  exists a0 tr ds im,
    parse_trait_attr attr = Ok a0 /\ items = [ITrait tr] ++ map ITrait ds ++ [IImpl im] /\
    forall n, ta_impl_trait a0 = Some n ->
      exists td recv, hd_error ds = Some td /\ t_name td = n /\
        (recv = static_impl_receiver \/ recv = dynamic_impl_receiver) /\
        (forall s, s_async (recv s) = s_async s /\ s_output (recv s) = s_output s) /\
        trait_sigs td = map (fun '(x, s) => (x, make_trait_fn_sig (recv s) (filter is_async_trait (h_attrs h))
                                                                  (no_mock_opts (apply_variant v (ta_opts a0)))))
                            (trait_sigs t) /\
        future_send (no_mock_opts (apply_variant v (ta_opts a0))) = future_send (apply_variant v (ta_opts a0)) /\
        contains_async_trait (filter is_async_trait (h_attrs h)) = contains_async_trait (h_attrs h) /\
        c12_trait_all (contains_async_trait (h_attrs h)) (future_send (apply_variant v (ta_opts a0)))
                      (map snd (trait_sigs t)) (map snd (trait_sigs td)) = true.
Proof.
  intros H. destruct (expand_trait_inv _ _ _ _ _ H) as (a0 & fns & deleg & methods & Ha & _ & Hf & Hd & Hm & ->).
  match goal with |- context [[ITrait ?tr] ++ deleg ++ [IImpl ?im]] =>
    destruct (parts_trait h t tr deleg im (delegation_trait_defs_shape _ _ _ _ _ _ Hd)) as (ds & _ & Hds) end.
  destruct (analyze_trait_items_spec _ _ Hf) as [Hsig _].
  exists a0. eexists. exists ds. eexists. split; [exact Ha|]. split; [rewrite Hds; reflexivity|].
  intros n Hn. rewrite Hds in Hd. pose proof (delegation_ds _ _ _ _ _ _ Hd) as Hdd.
  cbn [eff_trait_attr ta_impl_trait ta_delegate ta_opts] in Hdd. rewrite Hn in Hdd.
  destruct Hdd as (td & recv & Hname & _ & Hr & Hts & Hshape). exists td, recv.
  assert (Hsrc : map snd (trait_sigs t) = map tf_sig fns).
  { unfold trait_sigs. rewrite <- Hsig, map_map. reflexivity. }
  split; [destruct Hshape as [->|(del & sel & _ & -> & _)]; reflexivity|]. split; [exact Hname|]. split; [exact Hr|].
  split; [intros s; destruct Hr as [->| ->]; [apply static_receiver_rel | apply dynamic_receiver_rel]|].
  split; [rewrite Hts; unfold trait_sigs at 1; rewrite <- Hsig, map_map; reflexivity|].
  split; [reflexivity|]. split; [apply contains_async_filter'|].
  rewrite Hsrc. exact (target_trait_sigs_ok (h_attrs h) (apply_variant v (ta_opts a0)) recv fns td Hr Hts).
Qed.
