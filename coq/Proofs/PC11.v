(** * C11: the arguments of the generated unimock attribute (prefix / api / unmock_with) *)
From Coq Require Import List String Ascii Bool Arith Lia.
From Entrait Require Import Tok Syn Opts Split FnParams Convert Codegen Expand Proj Proj2.
From Entrait.Proofs Require Import Base Shapes PFnParams PC16 PC10.
Import ListNotations.
Local Open Scope list_scope.

(** ** the dependency kind the analysis finds is the documented one *)
Definition same_kind (d d' : fn_deps) : Prop :=
  match d, d' with
  | DGeneric _ _, DGeneric _ _ | DConcrete _, DConcrete _ | DNoDeps, DNoDeps => True
  | _, _ => False
  end.

Lemma find_type_param_existsb name : forall l idx,
  match find_type_param name l idx with Some _ => true | None => false end
  = existsb (fun p => match gp_kind p with GType => String.eqb (gp_name p) name | _ => false end) l.
Proof.
  induction l as [|p l IH]; intros idx; [reflexivity|]. cbn [find_type_param existsb].
  destruct (gp_kind p); cbn [orb]; try apply IH.
  destruct (String.eqb (gp_name p) name); [reflexivity | apply IH].
Qed.

Lemma extract_kind tg g : forall ty d tg',
  extract_deps_from_type tg g ty = Ok (d, tg') -> same_kind d (deps_kind_of_type g ty).
Proof.
  induction ty as [l m e IH|e IH|tr bs|q lead n f ts|ts]; intros d tg' H; cbn [extract_deps_from_type] in H.
  - cbn [deps_kind_of_type]. eapply IH; exact H.
  - cbn [deps_kind_of_type]. eapply IH; exact H.
  - injection H as <- _. exact I.
  - destruct q; [discriminate|]. destruct lead; [discriminate|].
    destruct n as [|[|n']]; cbn [negb Nat.eqb] in H.
    + injection H as <- _. exact I.
    + cbn [deps_kind_of_type].
      pose proof (find_type_param_existsb f (p_items (g_params g)) 0) as Hx.
      unfold find_deps_generic_bounds in H.
      destruct (find_type_param f (p_items (g_params g)) 0) as [[idx p]|].
      * rewrite <- Hx. destruct (fold_left _ _ _) as [bounds tg2]. injection H as <- _. exact I.
      * rewrite <- Hx. injection H as <- _. exact I.
    + injection H as <- _. exact I.
  - injection H as <- _. exact I.
Qed.

Lemma analyze_deps_kind tg s o d tg' :
  analyze_fn_deps tg s o = Ok (d, tg') -> same_kind d (deps_kind (no_deps_value o) s).
Proof.
  unfold analyze_fn_deps, deps_kind. destruct (no_deps_value o).
  - destruct (p_items (s_inputs s)) as [|[x r m c|x p ty] rest]; intros H; try discriminate H; injection H as <- _; exact I.
  - destruct (p_items (s_inputs s)) as [|[x r m c|x p ty] rest]; try discriminate. apply extract_kind.
Qed.

(** ** one [unmock_with] entry *)
Lemma unmock_entry_ok k o s tf subs :
  fn_ok k o s tf ->
  unmock_entry tf = unmock_entry_spec (no_deps_value o) s (make_trait_fn_sig (tf_sig tf) subs o)
                                      (deps_kind (no_deps_value o) s).
Proof.
  intros (tg1 & tg2 & tf0 & Ha & E1 & E2 & _).
  destruct (analyze_inv _ _ _ _ _ _ Ha) as (deps & s' & Hd & Hc & ->). cbn [tf_deps tf_sig] in E1, E2.
  destruct (convert_sig_inv _ _ _ _ Hc) as (inputs1 & args & _ & _ & Hs').
  assert (Hn : s_name (tf_sig tf) = s_name s) by (rewrite E2, Hs'; reflexivity).
  pose proof (analyze_deps_kind _ _ _ _ _ Hd) as K.
  unfold unmock_entry, unmock_entry_spec. rewrite E1, Hn, make_trait_fn_sig_names.
  destruct deps, (deps_kind (no_deps_value o) s); try contradiction; reflexivity.
Qed.

Lemma zip_entries_ok k o subs : forall sigs fns,
  Forall2 (fn_ok k o) sigs fns ->
  zip_entries (no_deps_value o) sigs (map (fun tf => make_trait_fn_sig (tf_sig tf) subs o) fns) = map unmock_entry fns.
Proof.
  induction 1 as [|s tf sigs fns Hh _ IH]; [reflexivity|].
  cbn [map zip_entries]. rewrite IH, <- (unmock_entry_ok _ _ _ _ subs Hh). reflexivity.
Qed.

(** ** the attribute's arguments *)
Lemma unimock_params_fn o fns :
  unimock_params (o_mock_api o) MSingleFn fns = unimock_attr_spec o true false (map unmock_entry fns).
Proof. unfold unimock_params, unimock_attr_spec, unimock_path. destruct (o_mock_api o), fns; reflexivity. Qed.

Lemma unimock_params_mod o fns :
  unimock_params (o_mock_api o) MModule fns = unimock_attr_spec o false false (map unmock_entry fns).
Proof. unfold unimock_params, unimock_attr_spec, unimock_path. destruct (o_mock_api o), fns; reflexivity. Qed.

Lemma unimock_params_trait o fns :
  unimock_params (o_mock_api o) MRawTrait fns = unimock_attr_spec o false true [].
Proof. unfold unimock_params, unimock_attr_spec, unimock_path. destruct (o_mock_api o); reflexivity. Qed.

Lemma ungate_unimock o api im fns :
  snd (ungate (export_gated o (unimock_params api im fns))) = unimock_params api im fns.
Proof.
  destruct (unimock_params_shape api im fns) as (rest & ->).
  change (unimock_path ++ rest) with (TP ":"%char :: (tl unimock_path ++ rest)).
  rewrite ungate_export_gated. reflexivity.
Qed.

(** among the attributes the view attributes to the macro there is at most one unimock attribute, the generated one *)
Lemma unimock_slot o ti mode im fns R :
  (forall x, count_occ attr_eq_dec R x <= count_occ attr_eq_dec (gen_added o ti mode im fns) x) ->
  filter is_unimock_attr R = [] \/
  (unimock_value o && negb (unimock_params_empty ti (o_mock_api o)) = true /\
   filter is_unimock_attr R = [export_gated o (unimock_params (o_mock_api o) im fns)]).
Proof.
  intros Hle. pose proof (filter_unimock_added o ti mode im fns) as Hf. unfold gen_unimock in Hf.
  destruct (unimock_value o && negb (unimock_params_empty ti (o_mock_api o))).
  - destruct (filter_slot _ _ _ R Hle Hf) as [[_ H]|[_ H]]; [left; exact H | right; split; [reflexivity | exact H]].
  - left. apply (filter_slot_nil _ _ R Hle Hf).
Qed.

Lemma minus_le_fn added user x :
  count_occ attr_eq_dec (minus_attrs (added ++ filter is_trait_sub user) user) x <= count_occ attr_eq_dec added x.
Proof. rewrite count_added. lia. Qed.

Lemma minus_le_trait added user x :
  count_occ attr_eq_dec (minus_attrs (added ++ user) user) x <= count_occ attr_eq_dec added x.
Proof. rewrite count_added_all. lia. Qed.

(** ** explicit statements *)
(** the generated unimock attribute, when there is one, is the first attribute of the trait *)
Lemma gen_added_head o ti mode im fns :
  unimock_value o && negb (unimock_params_empty ti (o_mock_api o)) = true ->
  exists rest, gen_added o ti mode im fns = export_gated o (unimock_params (o_mock_api o) im fns) :: rest.
Proof. intros H. unfold gen_added, gen_unimock. rewrite H. eexists. reflexivity. Qed.

Lemma map_sig_of_src l : map (fun '(_, _, s, _) => s) l = map sig_of l.
Proof. apply map_ext. intros [[[a v] s] b]. reflexivity. Qed.

Lemma c11_fn_attr v attr h s body items :
  expand_items v attr (InFn h s body) = Ok items ->
  exists a f tr im,
    parse_fn_attr attr = Ok a /\ items = [f; ITrait tr; IImpl im] /\
    let o := apply_variant v (fa_opts a) in
    unimock_value o = true -> is_some (o_mock_api o) = true ->
    exists rest,
      t_attrs tr = export_gated o (unimock_attr_spec o true false
                                     (zip_entries (no_deps_value o) [merged_sig h s] (map snd (trait_sigs tr)))) :: rest.
Proof.
  intros H. destruct (expand_fn_inv _ _ _ _ _ _ H) as (a & tf & tg & mode & ib & Ha & Hz & _ & _ & ->).
  exists a. do 3 eexists. split; [exact Ha|]. split; [reflexivity|]. intros o Hu Hapi.
  set (o' := apply_variant v (fa_opts a)) in *. subst o.
  rewrite t_attrs_gen_trait_def, trait_sigs_gen_trait_def, map_map. cbn [snd].
  rewrite (zip_entries_ok RSelfRef o' (h_attrs h) [merged_sig h s] [tf])
    by (constructor; [exact (fn_ok_single _ _ _ _ _ _ Hz) | constructor]).
  rewrite <- unimock_params_fn.
  destruct (gen_added_head o' TPlain mode MSingleFn [tf]) as (rest & ->).
  { rewrite Hu. unfold unimock_params_empty. destruct (o_mock_api o'); [reflexivity | discriminate Hapi]. }
  eexists. reflexivity.
Qed.

Lemma c11_mod_attr v attr h name body sigs sf items :
  expand_items v attr (InMod h name body sigs sf) = Ok items ->
  exists a user tr im src,
    parse_fn_attr attr = Ok a /\
    items = [IMod (h_attrs h) (h_vis h) name (user ++ [ITrait tr; IImpl im]);
             IUse [] (fa_vis a) ([TId name] ++ path_sep ++ [TId (fa_trait a)])] /\
    source_fns (InMod h name body sigs sf) = Some src /\
    let o := apply_variant v (fa_opts a) in
    unimock_value o = true -> is_some (o_mock_api o) = true ->
    exists rest,
      t_attrs tr = export_gated o (unimock_attr_spec o false false
                                     (zip_entries (no_deps_value o) (map sig_of src) (map snd (trait_sigs tr)))) :: rest.
Proof.
  intros H. destruct (expand_mod_inv _ _ _ _ _ _ _ _ H) as (_ & bitems & fl & a & fns0 & tg & mode & ib & Hs & Ha & Hz & _ & _ & ->).
  exists a. do 4 eexists. split; [exact Ha|]. split; [reflexivity|].
  split; [cbn [source_fns]; rewrite Hs; reflexivity|]. intros o Hu Hapi.
  set (o' := apply_variant v (fa_opts a)) in *. subst o.
  rewrite t_attrs_gen_trait_def, trait_sigs_gen_trait_def, map_map. cbn [snd].
  rewrite (zip_entries_ok RSelfRef o' (h_attrs h) _ _ (with_cfg_attrs_fn_ok _ _ _ _ _ (analyze_all_fn_ok _ _ _ _ _ _ Hz))).
  rewrite <- unimock_params_mod.
  destruct (gen_added_head o' TPlain mode MModule (with_cfg_attrs fns0 (body_fns bitems))) as (rest & ->).
  { rewrite Hu. unfold unimock_params_empty. destruct (o_mock_api o'); [reflexivity | discriminate Hapi]. }
  eexists. reflexivity.
Qed.

(** an entraited trait: [prefix] and, when given, [api = Name]; no [unmock_with] *)
Lemma c11_trait_attr v attr h t items :
  expand_items v attr (InTrait h t) = Ok items ->
  exists a tr rest_items,
    parse_trait_attr attr = Ok a /\ items = ITrait tr :: rest_items /\
    let o := apply_variant v (ta_opts a) in
    unimock_value o = true ->
    exists rest, t_attrs tr = export_gated o (unimock_attr_spec o false true []) :: rest.
Proof.
  intros H. destruct (expand_trait_inv _ _ _ _ _ H) as (a0 & fns & deleg & methods & Ha & _ & _ & _ & _ & ->).
  exists a0. do 2 eexists. split; [exact Ha|]. split; [reflexivity|]. intros o Hu.
  cbn [eff_trait_attr ta_opts]. set (o' := apply_variant v (ta_opts a0)) in *. subst o.
  rewrite t_attrs_gen_trait_def. rewrite <- (unimock_params_trait o' fns).
  destruct (gen_added_head o' TTrait MGeneric MRawTrait fns) as (rest & ->).
  { rewrite Hu. reflexivity. }
  eexists. reflexivity.
Qed.

(** ** the view *)
Lemma c11_view v attr i items :
  expand_items v attr i = Ok items -> good (view_C11 (mkCtx v attr i) items).
Proof.
  intros H. destruct i as [h s body|h|h t|h|h tp st body sigs sf|h|h name body sigs sf|h|]; try discriminate H.
  - destruct (expand_fn_inv _ _ _ _ _ _ H) as (a & tf & tg & mode & ib & Ha & Hz & _ & _ & ->).
    unfold view_C11, good, fn_opts. cbn [x_input x_attr x_variant source_fns]. rewrite parts_fn, Ha.
    rewrite t_attrs_gen_trait_def.
    destruct (unimock_slot (apply_variant v (fa_opts a)) TPlain mode MSingleFn [tf] _
                (minus_le_fn _ (h_attrs h))) as [-> | [_ ->]].
    + cbn [na v_app]. discriminate.
    + cbn [decided v_app v_det v_holds]. intros _. split; [reflexivity|].
      rewrite ungate_unimock, trait_sigs_gen_trait_def, map_map. cbn [snd map]. fold (merged_sig h s).
      assert (Hze := zip_entries_ok RSelfRef _ (h_attrs h) [merged_sig h s] [tf]
                       (Forall2_cons _ _ (fn_ok_single _ _ _ _ _ _ Hz) (Forall2_nil _))).
      cbn [map] in Hze. rewrite Hze, (unimock_params_fn _ [tf]). apply toks_eqb_refl.
  - destruct (c10_trait_attrs _ _ _ _ _ H) as (a & tr & ds & im & added & Ha & -> & Hp & _ & _ & _).
    destruct (expand_trait_inv _ _ _ _ _ H) as (a0 & fns & deleg & methods & Ha0 & _ & _ & _ & _ & E).
    rewrite Ha in Ha0. injection Ha0 as <-.
    assert (Etr : t_attrs tr = gen_added (apply_variant v (ta_opts a)) TTrait MGeneric MRawTrait fns ++ h_attrs h).
    { injection E as -> _. apply t_attrs_gen_trait_def. }
    unfold view_C11, good, trait_attr_of. cbn [x_input x_attr x_variant source_fns]. rewrite Hp, Ha. cbn [ta_opts].
    rewrite Etr.
    destruct (unimock_slot (apply_variant v (ta_opts a)) TTrait MGeneric MRawTrait fns _
                (minus_le_trait _ (h_attrs h))) as [-> | [_ ->]].
    + cbn [na v_app]. discriminate.
    + cbn [decided v_app v_det v_holds]. intros _. split; [reflexivity|].
      rewrite ungate_unimock, <- (unimock_params_trait _ fns). apply toks_eqb_refl.
  - unfold view_C11, good. cbn. discriminate.
  - destruct (expand_mod_inv _ _ _ _ _ _ _ _ H) as (_ & bitems & fl & a & fns0 & tg & mode & ib & Hs & Ha & Hz & _ & _ & ->).
    unfold view_C11, good, fn_opts. cbn [x_input x_attr x_variant source_fns]. rewrite Hs, parts_mod, Ha.
    rewrite t_attrs_gen_trait_def.
    destruct (unimock_slot (apply_variant v (fa_opts a)) TPlain mode MModule (with_cfg_attrs fns0 (body_fns bitems)) _
                (minus_le_fn _ (h_attrs h))) as [-> | [_ ->]].
    + cbn [na v_app]. discriminate.
    + cbn [decided v_app v_det v_holds]. intros _. split; [reflexivity|].
      rewrite ungate_unimock, trait_sigs_gen_trait_def, map_map. cbn [snd]. rewrite map_sig_of_src.
      rewrite (zip_entries_ok RSelfRef _ (h_attrs h) _ _ (with_cfg_attrs_fn_ok _ _ _ _ _ (analyze_all_fn_ok _ _ _ _ _ _ Hz))).
      rewrite <- unimock_params_mod. apply toks_eqb_refl.
Qed.

(** one entry, spelled out: [f] for a generic dependency, [_] for a concrete one, [f(a, b, ..)] with the
    emitted parameter names for [no_deps] *)
Lemma c11_entry k o tg s tf tg' :
  analyze k o tg s = Ok (tf, tg') ->
  unmock_entry tf =
  match deps_kind (no_deps_value o) s with
  | DGeneric _ _ => [TId (s_name s)]
  | DConcrete _ => [TId "_"%string]
  | DNoDeps => [TId (s_name s); TG Paren (join [comma] (map (fun n => [TId n]) (typed_names (tf_sig tf))))]
  end.
Proof.
  intros H. rewrite (unmock_entry_ok k o s tf [] (fn_ok_single _ _ _ _ _ _ H)).
  unfold unmock_entry_spec. rewrite make_trait_fn_sig_names. destruct (deps_kind (no_deps_value o) s); reflexivity.
Qed.

Lemma deps_kind_no_deps s : deps_kind true s = DNoDeps.
Proof. reflexivity. Qed.

(** one entry per trait method, in order *)
Lemma c11_entries k o subs sigs fns tg tg' :
  analyze_all k o tg sigs = Ok (fns, tg') ->
  zip_entries (no_deps_value o) sigs (map (fun tf => make_trait_fn_sig (tf_sig tf) subs o) fns) = map unmock_entry fns.
Proof. intros H. apply (zip_entries_ok k). eapply analyze_all_fn_ok. exact H. Qed.
