(** * C15: the expansion never panics and never runs out of fuel; documented misuses get their message *)
From Coq Require Import List String Ascii Bool Arith Lia.
From Entrait Require Import Tok Syn Opts Split FnParams Convert Codegen Expand Proj Proj2 Proj3 Proj4.
From Entrait.Proofs Require Import Base Shapes PSplit PFnParams PC16 PC01 PC06 PC05.
Import ListNotations.
Local Open Scope list_scope.

Definition no_panic {A} (r : result A) : Prop :=
  match r with Ok _ | Err _ => True | Panic _ | OutOfDomain _ => False end.

Lemma no_panic_bind {A B} (x : result A) (f : A -> result B) :
  no_panic x -> (forall a, x = Ok a -> no_panic (f a)) -> no_panic (rbind x f).
Proof. destruct x; simpl; auto; contradiction. Qed.

(** ** option parsers *)
Lemma parse_ident_spec ts s rest : parse_ident ts = Ok (s, rest) -> ts = TId s :: rest.
Proof.
  unfold parse_ident. destruct ts as [|[x|c|x|d g] r]; try discriminate.
  destruct (accept_as_ident x); [|discriminate]. intros H. injection H as <- <-. reflexivity.
Qed.

Lemma parse_ident_no_panic ts : no_panic (parse_ident ts).
Proof. unfold parse_ident. destruct ts as [|[x|c|x|d g] r]; simpl; auto. destruct (accept_as_ident x); simpl; auto. Qed.

Lemma parse_eq_bool_spec ts b rest : parse_eq_bool ts = Ok (b, rest) -> List.length rest <= List.length ts.
Proof.
  unfold parse_eq_bool. destruct ts as [|[x|c|x|d g] r]; try (intros H; injection H as <- <-; simpl; lia).
  destruct (Ascii.eqb c "="%char); [|intros H; injection H as <- <-; simpl; lia].
  destruct r as [|[v|c2|v|d g] r2]; try discriminate.
  destruct (String.eqb v "true"); [intros H; injection H as <- <-; simpl; lia|].
  destruct (String.eqb v "false"); [intros H; injection H as <- <-; simpl; lia | discriminate].
Qed.

Lemma parse_eq_bool_no_panic ts : no_panic (parse_eq_bool ts).
Proof.
  unfold parse_eq_bool. destruct ts as [|[x|c|x|d g] r]; simpl; auto.
  destruct (Ascii.eqb c "="%char); simpl; auto.
  destruct r as [|[v|c2|v|d g] r2]; simpl; auto.
  destruct (String.eqb v "true"); simpl; auto. destruct (String.eqb v "false"); simpl; auto.
Qed.

Lemma parse_eq_delegate_by_spec ts d rest : parse_eq_delegate_by ts = Ok (d, rest) -> List.length rest <= List.length ts.
Proof.
  unfold parse_eq_delegate_by. destruct ts as [|[x|c|x|dd g] r]; try (intros H; injection H as <- <-; simpl; lia).
  destruct (Ascii.eqb c "="%char); [|intros H; injection H as <- <-; simpl; lia].
  destruct (match r with TId x :: _ => String.eqb x "ref" | _ => false end).
  - intros H. injection H as <- <-. destruct r; simpl; lia.
  - intros H. destruct (rbind_ok _ _ _ H) as [[name r'] [E H2]]. cbv beta in H2. apply parse_ident_spec in E. subst r.
    destruct (String.eqb name "Self"); [injection H2 as <- <-; simpl; lia|].
    destruct (String.eqb name "Borrow"); injection H2 as <- <-; simpl; lia.
Qed.

Lemma parse_eq_delegate_by_no_panic ts : no_panic (parse_eq_delegate_by ts).
Proof.
  unfold parse_eq_delegate_by. destruct ts as [|[x|c|x|dd g] r]; simpl; auto.
  destruct (Ascii.eqb c "="%char); simpl; auto.
  destruct (match r with TId x :: _ => String.eqb x "ref" | _ => false end); simpl; auto.
  apply no_panic_bind; [apply parse_ident_no_panic|]. intros [name r'] _.
  destruct (String.eqb name "Self"); simpl; auto. destruct (String.eqb name "Borrow"); simpl; auto.
Qed.

(** an option consumes at least one token *)
Lemma parse_opt_shorter ts e rest : parse_opt ts = Ok (e, rest) -> List.length rest < List.length ts.
Proof.
  unfold parse_opt. destruct (starts_with_punct "?" ts) eqn:Eq.
  - intros H. destruct (rbind_ok _ _ _ H) as [[name r'] [E H2]]. cbv beta in H2. apply parse_ident_spec in E.
    destruct ts as [|t ts1]; [discriminate Eq|]. cbn [tl] in E. subst ts1.
    destruct (String.eqb name "Send"); [injection H2 as <- <-; simpl; lia | discriminate].
  - intros H. destruct (rbind_ok _ _ _ H) as [[name r'] [E H2]]. cbv beta in H2. apply parse_ident_spec in E. subst ts.
    repeat match type of H2 with
           | (if ?c then _ else _) = _ => destruct c
           end;
      try (destruct (rbind_ok _ _ _ H2) as [[b r2] [E2 H3]]; cbv beta in H3; injection H3 as <- <-;
           first [apply parse_eq_bool_spec in E2 | apply parse_eq_delegate_by_spec in E2]; simpl; lia);
      try discriminate H2.
    destruct (rbind_ok _ _ _ H2) as [[n r2] [E2 H3]]. cbv beta in H3. injection H3 as <- <-.
    apply parse_ident_spec in E2. destruct r' as [|t r'']; [discriminate|]. cbn [tl] in E2. subst r''. simpl. lia.
Qed.

Lemma parse_opt_no_panic ts : no_panic (parse_opt ts).
Proof.
  unfold parse_opt. destruct (starts_with_punct "?" ts).
  - apply no_panic_bind; [apply parse_ident_no_panic|]. intros [name r'] _. destruct (String.eqb name "Send"); simpl; auto.
  - apply no_panic_bind; [apply parse_ident_no_panic|]. intros [name r'] _.
    repeat match goal with
           | |- no_panic (if ?c then _ else _) => destruct c
           end;
      try (apply no_panic_bind; [first [apply parse_eq_bool_no_panic | apply parse_eq_delegate_by_no_panic | apply parse_ident_no_panic]|];
           intros [b r2] _; simpl; auto);
      simpl; auto.
Qed.

Lemma set_fn_opt_no_panic o e : no_panic (set_fn_opt o e).
Proof. destruct e; simpl; auto. Qed.
Lemma set_trait_opt_no_panic od e : no_panic (set_trait_opt od e).
Proof. destruct od as [o d]. destruct e; simpl; auto. Qed.
Lemma set_impl_opt_no_panic o e : no_panic (set_impl_opt o e).
Proof. destruct e; simpl; auto. Qed.

Lemma starts_tl_length c ts : starts_with_punct c ts = true -> List.length ts = S (List.length (tl ts)).
Proof. destruct ts as [|[x|c2|x|d g] r]; simpl; try discriminate. reflexivity. Qed.

Lemma fn_attr_loop_no_panic : forall fuel ts o, List.length ts <= fuel -> no_panic (fn_attr_loop fuel ts o).
Proof.
  induction fuel as [|k IH]; intros ts o Hl.
  - destruct ts; [exact I | simpl in Hl; lia].
  - destruct ts as [|t ts1]; [exact I|]. cbn [fn_attr_loop].
    destruct (starts_with_punct "," (t :: ts1)) eqn:Es; [|exact I].
    apply no_panic_bind; [apply parse_opt_no_panic|]. intros [e rest'] E.
    apply no_panic_bind; [apply set_fn_opt_no_panic|]. intros o' _.
    apply IH. apply parse_opt_shorter in E. cbn [tl] in E. simpl in Hl. lia.
Qed.

Lemma parse_fn_attr_no_panic ts : no_panic (parse_fn_attr ts).
Proof.
  unfold parse_fn_attr. destruct (parse_vis ts) as [v rest].
  apply no_panic_bind; [apply parse_ident_no_panic|]. intros [name rest'] _.
  apply no_panic_bind; [apply fn_attr_loop_no_panic; lia|]. intros o _. exact I.
Qed.

Lemma opt_loop_no_panic {S} (set : S -> eopt -> result S) :
  (forall st e, no_panic (set st e)) ->
  forall fuel ts st, List.length ts < fuel -> no_panic (opt_loop set fuel ts st).
Proof.
  intros Hset. induction fuel as [|k IH]; intros ts st Hl; [lia|]. cbn [opt_loop].
  apply no_panic_bind; [apply parse_opt_no_panic|]. intros [e rest] E.
  apply no_panic_bind; [apply Hset|]. intros st' _.
  destruct (starts_with_punct "," rest) eqn:Es; [|exact I].
  apply IH. apply parse_opt_shorter in E. apply starts_tl_length in Es. lia.
Qed.

Lemma parse_trait_attr_no_panic ts : no_panic (parse_trait_attr ts).
Proof.
  unfold parse_trait_attr. apply no_panic_bind.
  - destruct ts as [|t ts1]; [exact I|]. destruct (is_ok (parse_opt (t :: ts1))); [exact I|].
    destruct (parse_vis (t :: ts1)) as [v r1]. apply no_panic_bind; [apply parse_ident_no_panic|].
    intros [name r2] _. destruct (starts_with_punct "," r2); exact I.
  - intros [impl_trait rest] _. destruct rest as [|t rest1]; [exact I|].
    apply no_panic_bind; [apply opt_loop_no_panic; [apply set_trait_opt_no_panic | lia]|].
    intros [[o d] leftover] _. destruct leftover; exact I.
Qed.

Lemma parse_impl_attr_no_panic ts : no_panic (parse_impl_attr ts).
Proof.
  unfold parse_impl_attr. destruct (skip_kw "ref" ts) as [has_ref r1]. destruct (skip_kw "dyn" r1) as [has_dyn r2].
  destruct r2 as [|t r2']; [exact I|].
  apply no_panic_bind; [apply opt_loop_no_panic; [apply set_impl_opt_no_panic | lia]|].
  intros [o leftover] _. destruct leftover; exact I.
Qed.

(** ** the body splitter *)
Lemma parse_outer_no_panic : forall ts, no_panic (parse_outer ts).
Proof.
  fix IH 1. intros ts. destruct ts as [|t ts1]; [exact I|]. destruct t as [s|c|s|d g]; try exact I.
  cbn [parse_outer]. destruct (Ascii.eqb c "#"%char); [|exact I].
  destruct ts1 as [|t2 ts2]; [exact I|]. destruct t2 as [s|c2|s|d g]; try exact I. destruct d; try exact I.
  apply no_panic_bind; [apply IH|]. intros [more rest'] _. exact I.
Qed.

Lemma matched_no_panic ts : no_panic (matched_braces_or_semi ts).
Proof. unfold matched_braces_or_semi. destruct (take_item ts) as [[a b]|]; [|exact I]. destruct (take_semis b); exact I. Qed.

Lemma take_item_nonempty : forall ts taken rest, take_item ts = Some (taken, rest) -> taken <> [].
Proof.
  destruct ts as [|t ts]; intros taken rest H; simpl in H; [discriminate|].
  destruct (is_brace t || is_semi t); [injection H as <- _; discriminate|].
  destruct (take_item ts) as [[tk rs]|]; [injection H as <- _; discriminate | discriminate].
Qed.

Lemma matched_consumes ts tokens rest : matched_braces_or_semi ts = Ok (tokens, rest) -> List.length rest < List.length ts.
Proof.
  intros H. pose proof (matched_spec _ _ _ H) as Hs. unfold matched_braces_or_semi in H.
  destruct (take_item ts) as [[taken r]|] eqn:E; [|discriminate]. apply take_item_nonempty in E.
  destruct (take_semis r) as [semis r']. injection H as <- <-. rewrite Hs, !app_length.
  destruct taken; [contradiction|]. simpl. lia.
Qed.

Lemma parse_body_item_no_panic in_mod sigs pos ts : no_panic (parse_body_item in_mod sigs pos ts).
Proof.
  unfold parse_body_item. apply no_panic_bind; [apply parse_outer_no_panic|]. intros [attrs r0] _.
  destruct (parse_vis r0) as [v r1].
  destruct ((if in_mod then match v with [] => false | _ => true end else true) && peek_fn r1).
  - destruct (find_sig _ sigs) as [sa|]; [|exact I].
    destruct (match skipn (sa_len sa) r1 with t :: _ => is_semi t | [] => false end); [exact I|].
    apply no_panic_bind; [apply matched_no_panic|]. intros [body r3] _. exact I.
  - apply no_panic_bind; [apply matched_no_panic|]. intros [tokens r2] _. exact I.
Qed.

Lemma app_length_lt {A} (a b c : list A) : a = b ++ c -> List.length c <= List.length a.
Proof. intros ->. rewrite app_length. lia. Qed.

Lemma parse_body_item_consumes in_mod sigs pos ts it f rest :
  parse_body_item in_mod sigs pos ts = Ok (it, f, rest) -> List.length rest < List.length ts.
Proof.
  unfold parse_body_item. intros H. destruct (rbind_ok _ _ _ H) as [[attrs r0] [E H0]]. cbv beta in H0. clear H.
  pose proof (app_length_lt _ _ _ (parse_outer_spec _ _ _ E)) as L0.
  pose proof (parse_vis_spec r0) as Hv. destruct (parse_vis r0) as [v r1].
  pose proof (app_length_lt _ _ _ Hv) as L1.
  destruct ((if in_mod then match v with [] => false | _ => true end else true) && peek_fn r1).
  - destruct (find_sig _ sigs) as [sa|]; [|discriminate].
    pose proof (app_length_lt _ _ _ (eq_sym (firstn_skipn (sa_len sa) r1))) as L2.
    destruct (skipn (sa_len sa) r1) as [|t r2] eqn:Es.
    + destruct (rbind_ok _ _ _ H0) as [[body r3] [E0 H2]]. cbv beta in H2. injection H2 as _ _ <-.
      apply matched_consumes in E0. simpl in E0. lia.
    + destruct (is_semi t).
      * cbn [tl] in H0. injection H0 as _ _ <-. simpl in L2. lia.
      * destruct (rbind_ok _ _ _ H0) as [[body r3] [E0 H2]]. cbv beta in H2. injection H2 as _ _ <-.
        apply matched_consumes in E0. lia.
  - destruct (rbind_ok _ _ _ H0) as [[tokens r2] [E0 H2]]. cbv beta in H2. injection H2 as _ _ <-.
    apply matched_consumes in E0. lia.
Qed.

Lemma parse_body_no_panic in_mod sigs : forall fuel pos ts, List.length ts < fuel -> no_panic (parse_body in_mod sigs fuel pos ts).
Proof.
  induction fuel as [|k IH]; intros pos ts Hl; [lia|].
  destruct ts as [|t ts1]; [exact I|]. cbn [parse_body].
  apply no_panic_bind; [apply parse_body_item_no_panic|]. intros [[it f] rest] E.
  pose proof (parse_body_item_consumes _ _ _ _ _ _ _ E) as Hc.
  destruct (List.length (t :: ts1) <=? List.length rest) eqn:El; [apply Nat.leb_le in El; lia|].
  apply no_panic_bind; [apply IH; lia|]. intros [more f2] _. exact I.
Qed.

Lemma split_body_no_panic in_mod sigs body : no_panic (split_body in_mod sigs body).
Proof. unfold split_body. apply parse_body_no_panic. lia. Qed.

(** ** analysis and code generation *)
Lemma extract_no_panic : forall ty tg g, no_panic (extract_deps_from_type tg g ty).
Proof.
  induction ty as [l m e IH|e IH|tr bs|q lead n f ts|ts]; intros tg g; cbn [extract_deps_from_type]; auto; try exact I.
  destruct q; [exact I|]. destruct lead; [exact I|]. destruct (negb (n =? 1)); [exact I|].
  destruct (find_deps_generic_bounds tg g f) as [[d t]|]; exact I.
Qed.

Lemma analyze_fn_deps_no_panic tg s o : no_panic (analyze_fn_deps tg s o).
Proof.
  unfold analyze_fn_deps. destruct (no_deps_value o).
  - destruct (p_items (s_inputs s)) as [|[x r m c|x p ty] rest]; exact I.
  - destruct (p_items (s_inputs s)) as [|[x r m c|x p ty] rest]; try exact I. apply extract_no_panic.
Qed.

Lemma generate_params_ok k o tg s deps tg' :
  analyze_fn_deps tg s o = Ok (deps, tg') -> exists inputs1, generate_params k deps (stripped_inputs s) = Ok inputs1.
Proof.
  intros H. unfold generate_params.
  destruct (analyze_fn_deps_cases _ _ _ _ _ H) as [[Hn ->]|(Hn & Hd & x & p & ty & rest & Hi & _)].
  - cbn [rbind]. destruct k; try (eexists; reflexivity).
    cbn [gen_first_receiver]. unfold p_len. rewrite p_insert_0. cbn [List.length Nat.ltb Nat.leb]. eexists; reflexivity.
  - unfold stripped_inputs. cbn [p_items p_trail]. rewrite Hi. cbn [map strip_arg_attrs].
    destruct deps as [pn b|cty|]; [| |contradiction];
      destruct ty; cbn [rbind]; destruct k; cbn [gen_first_receiver];
        try (eexists; reflexivity); unfold p_len; cbn [p_items List.length Nat.ltb Nat.leb]; eexists; reflexivity.
Qed.

Lemma analyze_no_panic k o tg s : no_panic (analyze k o tg s).
Proof.
  unfold analyze. apply no_panic_bind; [apply analyze_fn_deps_no_panic|]. intros [deps tg'] E.
  apply no_panic_bind; [|intros s' _; exact I].
  unfold convert_sig. fold (stripped_inputs s).
  destruct (generate_params_ok k _ _ _ _ _ E) as [inputs1 ->]. cbn [rbind].
  destruct (fix_total (s_name s) (p_items inputs1)) as [args ->]. exact I.
Qed.

Lemma analyze_all_no_panic k o : forall sigs tg, no_panic (analyze_all k o tg sigs).
Proof.
  induction sigs as [|s sigs IH]; intros tg; [exact I|]. cbn [analyze_all].
  apply no_panic_bind; [apply analyze_no_panic|]. intros [tf tg1] _.
  apply no_panic_bind; [apply IH|]. intros [tfs tg2] _. exact I.
Qed.

Lemma detect_no_panic im fns : im <> MRawTrait -> no_panic (detect_trait_dependency_mode im fns).
Proof. unfold detect_trait_dependency_mode. destruct (first_concrete fns); [|intros; exact I]. destruct im; intros H; try exact I. contradiction. Qed.

Lemma fn_ok_plain k o s tf : fn_ok k o s tf -> forallb is_plain_ident_arg (p_items (s_inputs (tf_sig tf))) = true.
Proof.
  intros (tg1 & tg2 & tf0 & Ha & _ & E2 & _). rewrite E2.
  destruct (analyze_facts _ _ _ _ _ _ Ha) as (_ & _ & _ & _ & F5). exact F5.
Qed.

Lemma gen_impl_block_no_panic o tref ind tg im mode subs k sigs fns :
  Forall2 (fn_ok k o) sigs fns -> no_panic (gen_impl_block o tref ind tg im mode subs fns).
Proof.
  intros H. unfold gen_impl_block. apply no_panic_bind; [|intros items _; exact I].
  induction H as [|s tf sigs fns Hh _ IH]; [exact I|]. cbn [map_res].
  apply no_panic_bind.
  - unfold delegating_fn. rewrite (call_args_plain _ (fn_ok_plain _ _ _ _ Hh)). exact I.
  - intros it _. apply no_panic_bind; [exact IH|]. intros its _. exact I.
Qed.

Lemma map_res_delegation_no_panic a ca : forall src,
  Forall pident_params src -> no_panic (map_res (delegation_method a ca) (map tf_of_method src)).
Proof.
  induction 1 as [|x src Hx _ IH]; [exact I|]. cbn [map map_res].
  apply no_panic_bind.
  - unfold delegation_method. cbn [tf_of_method tf_sig]. rewrite (trait_call_args_pident _ Hx). exact I.
  - intros it _. apply no_panic_bind; [exact IH|]. intros its _. exact I.
Qed.

Lemma analyze_trait_items_no_panic : forall l, no_panic (analyze_trait_items l).
Proof.
  induction l as [|x l IH]; [exact I|]. cbn [analyze_trait_items]. destruct x as [a s d sm|ts|ts]; try exact I; [|exact IH].
  destruct (forallb is_pident (p_items (s_inputs s))); [|exact I].
  apply no_panic_bind; [exact IH|]. intros r _. exact I.
Qed.

Lemma delegation_trait_defs_no_panic a v tg fns subs : no_panic (delegation_trait_defs a v tg fns subs).
Proof. unfold delegation_trait_defs. destruct (ta_impl_trait a); [|exact I]. destruct (ta_delegate a) as [[|r|d]|]; exact I. Qed.

(** *** the whole macro: for every attribute token list and every input, the expansion is a token stream or
    a [compile_error!] — never a panic, never fuel exhaustion *)
Theorem expand_items_no_panic v attr i : no_panic (expand_items v attr i).
Proof.
  destruct i as [h s body|h|h t|h|h tp st body sigs sf|h|h name body sigs sf|h|]; try exact I.
  - (* fn *)
    cbn [expand_items]. fold (merged_sig h s).
    apply no_panic_bind; [apply parse_fn_attr_no_panic|]. intros a _.
    unfold entrait_for_single_fn. cbn [fa_opts fa_vis fa_trait with_fn_opts].
    apply no_panic_bind; [apply analyze_no_panic|]. intros [tf tg] E.
    apply no_panic_bind; [apply detect_no_panic; discriminate|]. intros mode _.
    apply no_panic_bind; [|intros ib _; exact I].
    eapply (gen_impl_block_no_panic _ _ _ _ _ _ _ RSelfRef [merged_sig h s]).
    constructor; [eapply fn_ok_single; exact E | constructor].
  - (* trait *)
    cbn [expand_items]. apply no_panic_bind; [apply parse_trait_attr_no_panic|]. intros a _.
    unfold output_for_trait. set (a' := mkTraitAttr _ _ _).
    assert (Hmain : no_panic
      (let* fns := analyze_trait_items (t_items t) in
       let* deleg := delegation_trait_defs a' (h_vis h) (trait_tg t) fns (filter is_async_trait (h_attrs h)) in
       let* methods := map_res (delegation_method a' (trait_contains_async (t_items t))) fns in
       Ok ([ITrait (gen_trait_def (ta_opts a') TTrait MGeneric (h_attrs h) (Some (h_attrs h)) (h_vis h) (t_name t) (trait_tg t)
                                  (t_colon t) (t_supers t) fns MRawTrait)] ++ deleg ++
           [IImpl (mkImpl (filter is_async_trait (h_attrs h)) false
                          (mkGen true (p_of_list (trait_impl_params (tg_params (trait_tg t))))
                                 (where_of_list (mk_pred (impl_t_bounds a' (trait_contains_async (t_items t)) (t_name t) (trait_tg t)) :: p_items (tg_where (trait_tg t)))))
                          (Some ([TId (t_name t)] ++ print_arguments false (tg_params (trait_tg t))))
                          impl_path_toks methods)]))).
    { apply no_panic_bind; [apply analyze_trait_items_no_panic|]. intros fns E.
      destruct (analyze_trait_items_spec _ _ E) as (-> & Fp & _).
      apply no_panic_bind; [apply delegation_trait_defs_no_panic|]. intros deleg _.
      apply no_panic_bind; [apply map_res_delegation_no_panic; exact Fp|]. intros methods _. exact I. }
    fold (trait_tg t). destruct (ta_impl_trait a'); [exact Hmain|].
    destruct (ta_delegate a') as [[|r|d]|]; try exact Hmain. exact I.
  - (* impl *)
    cbn [expand_items]. destruct (h_auto h); [exact I|].
    apply no_panic_bind; [apply split_body_no_panic|]. intros [items fl] _.
    apply no_panic_bind; [apply parse_impl_attr_no_panic|]. intros a _.
    unfold output_for_impl. destruct (path_has_arguments tp); [exact I|]. cbn [ia_opts ia_kind].
    apply no_panic_bind; [apply analyze_all_no_panic|]. intros [fns0 tg] E.
    apply no_panic_bind; [apply detect_no_panic; discriminate|]. intros mode _.
    apply no_panic_bind; [|intros ib _; exact I].
    eapply gen_impl_block_no_panic. apply with_cfg_attrs_fn_ok.
    rewrite <- (map_ext sig_of (fun '(_, _, s, _) => s)) in E by (intros [[[? ?] ?] ?]; reflexivity).
    eapply analyze_all_fn_ok; exact E.
  - (* mod *)
    cbn [expand_items]. destruct (h_unsafe h || h_auto h); [exact I|].
    apply no_panic_bind; [apply split_body_no_panic|]. intros [items fl] _.
    apply no_panic_bind; [apply parse_fn_attr_no_panic|]. intros a _.
    unfold entrait_for_mod. cbn [fa_opts fa_vis fa_trait with_fn_opts].
    apply no_panic_bind; [apply analyze_all_no_panic|]. intros [fns0 tg] E.
    apply no_panic_bind; [apply detect_no_panic; discriminate|]. intros mode _.
    apply no_panic_bind; [|intros ib _; exact I].
    eapply gen_impl_block_no_panic. apply with_cfg_attrs_fn_ok.
    rewrite <- (map_ext sig_of (fun '(_, _, s, _) => s)) in E by (intros [[[? ?] ?] ?]; reflexivity).
    eapply analyze_all_fn_ok; exact E.
Qed.

Corollary expand_never_panics v attr i : match expand v attr i with OPanic _ | OOut _ => False | _ => True end.
Proof. unfold expand. pose proof (expand_items_no_panic v attr i) as H. destruct (expand_items v attr i); auto. Qed.

(** ** documented misuses get their specific message *)
Definition deps_type_ok (ty : fty) : bool :=
  match strip_refs ty with
  | TyPath true _ _ _ _ | TyPath _ true _ _ _ => false
  | _ => true
  end.

Lemma extract_ok : forall ty tg g, deps_type_ok ty = true -> exists r, extract_deps_from_type tg g ty = Ok r.
Proof.
  induction ty as [l m e IH|e IH|tr bs|q lead n f ts|ts]; intros tg g H; cbn [extract_deps_from_type].
  - apply IH. exact H.
  - apply IH. exact H.
  - eexists; reflexivity.
  - unfold deps_type_ok in H. cbn [strip_refs] in H. destruct q; [discriminate|]. destruct lead; [discriminate|].
    destruct (negb (n =? 1)); [eexists; reflexivity|]. destruct (find_deps_generic_bounds tg g f) as [r|]; eexists; reflexivity.
  - eexists; reflexivity.
Qed.

Definition fn_deps_ok (s : sig) : bool :=
  match p_items (s_inputs s) with
  | ArgTyped _ _ ty :: _ => deps_type_ok ty
  | _ => false
  end.

Lemma analyze_ok k o tg s :
  no_deps_value o = false -> fn_deps_ok s = true -> exists tf tg', analyze k o tg s = Ok (tf, tg').
Proof.
  intros Hn Hs. unfold analyze.
  assert (Hd : exists d tg', analyze_fn_deps tg s o = Ok (d, tg')).
  { unfold analyze_fn_deps, fn_deps_ok in *. rewrite Hn. destruct (p_items (s_inputs s)) as [|[x r m c|x p ty] rest]; try discriminate.
    destruct (extract_ok ty tg (s_gen s) Hs) as [[d tg'] ->]. eauto. }
  destruct Hd as (d & tg' & Hd). rewrite Hd. cbn [rbind].
  unfold convert_sig. fold (stripped_inputs s). destruct (generate_params_ok k _ _ _ _ _ Hd) as [inputs1 ->]. cbn [rbind].
  destruct (fix_total (s_name s) (p_items inputs1)) as [args ->]. cbn [rbind]. eauto.
Qed.

Lemma analyze_concrete k o tg s tf tg' :
  no_deps_value o = false -> analyze k o tg s = Ok (tf, tg') ->
  is_concrete (deps_kind false s) = true -> is_concrete (tf_deps tf) = true.
Proof.
  intros Hn Ha Hc. destruct (analyze_inv _ _ _ _ _ _ Ha) as (deps & s' & Hd & _ & ->). cbn [tf_deps].
  destruct (PC05.analyze_deps_kind _ _ _ _ _ Hd) as [[Hn' _]|(_ & _ & _ & Hk)]; [congruence|].
  rewrite Hn in Hk. unfold PC05.kind_agrees in Hk. destruct (deps_kind false s) as [[n|] b|t|]; try discriminate Hc.
  cbv beta iota in Hk. destruct Hk as (-> & _). reflexivity.
Qed.

Lemma analyze_all_ok_concrete k o : forall sigs tg,
  no_deps_value o = false -> forallb fn_deps_ok sigs = true ->
  exists fns tg', analyze_all k o tg sigs = Ok (fns, tg') /\
    (existsb (fun s => is_concrete (deps_kind false s)) sigs = true -> exists ty, first_concrete fns = Some ty).
Proof.
  induction sigs as [|s sigs IH]; intros tg Hn Hf.
  - exists [], tg. split; [reflexivity | discriminate].
  - cbn [forallb] in Hf. apply andb_true_iff in Hf as [Hf1 Hf2]. cbn [analyze_all].
    destruct (analyze_ok k o tg s Hn Hf1) as (tf & tg1 & Ha). rewrite Ha. cbn [rbind].
    destruct (IH tg1 Hn Hf2) as (fns & tg2 & Hall & Hc). rewrite Hall. cbn [rbind].
    exists (tf :: fns), tg2. split; [reflexivity|]. cbn [existsb first_concrete]. intros He.
    destruct (is_concrete (deps_kind false s)) eqn:Es.
    + pose proof (analyze_concrete _ _ _ _ _ _ Hn Ha Es) as Hx. destruct (tf_deps tf); try discriminate Hx. eauto.
    + cbn [orb] in He. destruct (tf_deps tf); eauto.
Qed.

Lemma first_concrete_cfg : forall fns src, first_concrete (with_cfg_attrs fns src) = first_concrete fns.
Proof.
  induction fns as [|tf fns IH]; intros [|[[[a v] s] b] src]; simpl; try reflexivity. rewrite IH. reflexivity.
Qed.

Theorem misuse_gets_its_message v attr i m :
  misuse_msg (mkCtx v attr i) = Some m -> expand_items v attr i = Err (EMsg m).
Proof.
  unfold misuse_msg. cbn [x_input x_attr x_variant].
  destruct i as [h s body|h|h t|h|h tp st body sigs sf|h|h name body sigs sf|h|]; try discriminate.
  - (* fn *)
    cbn [expand_items]. fold (merged_sig h s).
    destruct (parse_fn_attr attr) as [a|[msg|]|site|w] eqn:Ea; try discriminate.
    + cbn [rbind]. unfold entrait_for_single_fn, analyze, analyze_fn_deps. cbn [fa_opts with_fn_opts].
      change (p_items (s_inputs (merged_sig h s))) with (p_items (s_inputs s)).
      destruct (no_deps_value (apply_variant v (fa_opts a)));
        destruct (p_items (s_inputs s)) as [|[x r mm c|x p ty] rest]; try discriminate; intros H; injection H as <-; reflexivity.
    + intros H. injection H as <-. reflexivity.
  - (* trait *)
    cbn [expand_items]. destruct (parse_trait_attr attr) as [a|[msg|]|site|w] eqn:Ea; try discriminate.
    + cbn [rbind]. unfold output_for_trait. cbn [ta_impl_trait ta_delegate].
      destruct (ta_impl_trait a); [discriminate|]. destruct (ta_delegate a) as [[|r|d]|]; try discriminate.
      intros H. injection H as <-. reflexivity.
    + intros H. injection H as <-. reflexivity.
  - (* impl *)
    cbn [expand_items]. destruct (h_auto h); [discriminate|].
    destruct (split_body false sigs body) as [[items fl]|e|site|w]; try discriminate. cbn [rbind].
    destruct (parse_impl_attr attr) as [a|[msg|]|site|w]; try discriminate.
    intros H. injection H as <-. reflexivity.
  - (* mod *)
    cbn [expand_items]. destruct (h_unsafe h || h_auto h); [discriminate|].
    destruct (split_body true sigs body) as [[items fl]|e|site|w]; try discriminate. cbn [rbind].
    destruct (parse_fn_attr attr) as [a|[msg|]|site|w]; try discriminate.
    + cbn [rbind]. unfold entrait_for_mod. cbn [fa_opts with_fn_opts].
      set (o := apply_variant v (fa_opts a)).
      set (sigs' := map (fun '(_, _, s, _) => s) (body_fns items)).
      destruct (no_deps_value o) eqn:Hn; [discriminate|]. cbn [negb andb].
      match goal with |- (if ?c && ?d then _ else _) = _ -> _ => destruct c eqn:Hf; [|discriminate]; destruct d eqn:He; [|discriminate] end.
      intros H. injection H as <-.
      assert (Hf' : forallb fn_deps_ok sigs' = true).
      { rewrite forallb_forall in *. intros s Hs. specialize (Hf s Hs). unfold fn_deps_ok, deps_type_ok.
        destruct (p_items (s_inputs s)) as [|[x r mm c|x p ty] rest]; try discriminate Hf. exact Hf. }
      destruct (analyze_all_ok_concrete RSelfRef o sigs' empty_tg Hn Hf') as (fns & tg' & Hall & Hc).
      rewrite Hall. cbn [rbind]. destruct (Hc He) as [ty Hty].
      unfold detect_trait_dependency_mode. rewrite first_concrete_cfg, Hty. reflexivity.
    + intros H. injection H as <-. reflexivity.
Qed.

(** ** the view *)
Lemma c15_view v attr i :
  good (view_C15 (mkCtx v attr i)
                 (match expand_items v attr i with
                  | Ok _ => CTokens
                  | Err (EMsg m) => CError (Some (quote_lit m))
                  | Err ESyn => CError None
                  | Panic _ => CPanic
                  | OutOfDomain _ => CError None
                  end) true).
Proof.
  pose proof (expand_items_no_panic v attr i) as Hn.
  pose proof (misuse_gets_its_message v attr i) as Hm.
  unfold view_C15, good.
  destruct (expand_items v attr i) as [items|[msg|]|site|w]; try contradiction.
  - destruct (misuse_msg (mkCtx v attr i)) as [m|]; [specialize (Hm m eq_refl); discriminate|]. cbn. auto.
  - destruct (misuse_msg (mkCtx v attr i)) as [m|]; cbn; [|auto].
    specialize (Hm m eq_refl). injection Hm as ->. rewrite String.eqb_refl. auto.
  - destruct (misuse_msg (mkCtx v attr i)) as [m|]; [specialize (Hm m eq_refl); discriminate|]. cbn. auto.
Qed.
