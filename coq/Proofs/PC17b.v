(** * C17, trait and impl targets: attributes with spelled option lists *)
From Coq Require Import List String Ascii Bool Arith Lia Permutation.
From Entrait Require Import Tok Syn Opts Split FnParams Convert Codegen Expand.
From Entrait.Proofs Require Import Base PC17.
Import ListNotations.
Local Open Scope list_scope.

Lemma join_cons (sep : toks) (x : toks) (y : toks) (r : list toks) : join sep (x :: y :: r) = x ++ sep ++ join sep (y :: r).
Proof. reflexivity. Qed.

Lemma join_length_lt : forall tss, List.length (join [comma] tss) <= List.length (join [comma] tss).
Proof. intros; lia. Qed.

(** [opt (, opt)*] *)
Lemma opt_loop_spelled {S} (set : S -> eopt -> result S) : forall es tss fuel st,
  Forall2 spells es tss -> es <> [] -> List.length (join [comma] tss) < fuel ->
  opt_loop set fuel (join [comma] tss) st = (let* st' := fold_set set es st in Ok (st', [])).
Proof.
  intros es tss fuel st H. revert fuel st. induction H as [|e ts es tss Hs Hrest IH]; intros fuel st Hne Hl; [contradiction|].
  destruct fuel as [|k]; [lia|]. cbn [opt_loop fold_set].
  destruct tss as [|ts2 tss2].
  - inversion Hrest; subst. cbn [join].
    rewrite <- (app_nil_r ts) at 1. rewrite (parse_opt_spells _ _ _ Hs (or_introl eq_refl)). cbn [rbind].
    destruct (set st e) as [st'| | |]; cbn [rbind starts_with_punct fold_set]; reflexivity.
  - rewrite join_cons. rewrite (parse_opt_spells e ts ([comma] ++ join [comma] (ts2 :: tss2)) Hs (or_intror eq_refl)). cbn [rbind].
    destruct (set st e) as [st'| | |]; cbn [rbind]; try reflexivity.
    cbn [app starts_with_punct]. change (Ascii.eqb "," ",") with true. cbn iota. cbn [tl].
    inversion Hrest as [|e2 ? es2 ? Hs2 Hr2]; subst.
    apply IH; [discriminate|]. rewrite join_cons in Hl. rewrite !app_length in Hl. cbn [List.length] in Hl. lia.
Qed.

Definition option_keyword (s : string) : bool :=
  str_mem s ["no_deps"; "debug"; "delegate_by"; "export"; "mock_api"; "unimock"; "mockall"]%string.

Lemma spelled_first_ok e ts rest : spells e ts -> sep_ok rest -> is_ok (parse_opt (ts ++ rest)) = true.
Proof. intros Hs Hr. rewrite (parse_opt_spells _ _ _ Hs Hr). reflexivity. Qed.

Lemma join_sep_ok ts2 tss2 : sep_ok ([comma] ++ join [comma] (ts2 :: tss2)).
Proof. right. reflexivity. Qed.

(** a trait attribute that consists of options only *)
Theorem parse_trait_attr_options es tss :
  Forall2 spells es tss -> es <> [] ->
  parse_trait_attr (join [comma] tss) =
  (let* od := fold_set set_trait_opt es (no_opts, None) in Ok (mkTraitAttr None (fst od) (snd od))).
Proof.
  intros H Hne. unfold parse_trait_attr.
  destruct H as [|e ts es tss Hs Hrest]; [contradiction|].
  assert (Hfirst : is_ok (parse_opt (join [comma] (ts :: tss))) = true).
  { destruct tss as [|ts2 tss2]; [cbn [join]; rewrite <- (app_nil_r ts); apply (spelled_first_ok _ _ _ Hs); left; reflexivity|].
    rewrite join_cons. apply (spelled_first_ok _ _ _ Hs). apply join_sep_ok. }
  assert (Hnn : join [comma] (ts :: tss) <> []).
  { destruct tss as [|ts2 tss2]; cbn [join]; [inversion Hs; discriminate|]. inversion Hs; discriminate. }
  destruct (join [comma] (ts :: tss)) as [|t0 r0] eqn:Ej; [contradiction|].
  rewrite Hfirst. cbn [rbind]. rewrite <- Ej.
  rewrite (opt_loop_spelled set_trait_opt (e :: es) (ts :: tss) _ _ (Forall2_cons _ _ Hs Hrest) Hne (Nat.lt_succ_diag_r _)).
  destruct (fold_set set_trait_opt (e :: es) (no_opts, None)) as [[o d]| | |]; cbn [rbind]; reflexivity.
Qed.

(** order independence and bare = [= true] for trait attributes: a permutation of an option list with
    distinct keys, in any spelling, parses identically *)
Lemma set_trait_opt_swap od e1 e2 :
  key e1 <> key e2 ->
  (let* o1 := set_trait_opt od e1 in set_trait_opt o1 e2) = (let* o2 := set_trait_opt od e2 in set_trait_opt o2 e1).
Proof. destruct od as [o d]. destruct e1, e2; cbn; intros H; try reflexivity; try (exfalso; apply H; reflexivity). Qed.

Theorem trait_options_order_independent es es' tss tss' :
  Forall2 spells es tss -> Forall2 spells es' tss' -> es <> [] ->
  Permutation es es' -> NoDup (map key es) ->
  parse_trait_attr (join [comma] tss) = parse_trait_attr (join [comma] tss').
Proof.
  intros H1 H2 Hne Hp Hnd.
  assert (Hne' : es' <> []) by (intros ->; apply Permutation_sym, Permutation_nil in Hp; contradiction).
  rewrite (parse_trait_attr_options _ _ H1 Hne), (parse_trait_attr_options _ _ H2 Hne').
  rewrite (fold_set_perm set_trait_opt set_trait_opt_swap _ _ Hp Hnd). reflexivity.
Qed.

(** with a delegation-target trait name in front: [vis Name, opt, opt ...] *)
Theorem parse_trait_attr_named v name es tss :
  vis_toks_ok v -> accept_as_ident name = true -> option_keyword name = false ->
  Forall2 spells es tss -> es <> [] ->
  parse_trait_attr (v ++ TId name :: comma :: join [comma] tss) =
  (let* od := fold_set set_trait_opt es (no_opts, None) in Ok (mkTraitAttr (Some name) (fst od) (snd od))).
Proof.
  intros Hv Hn Hk H Hne. unfold parse_trait_attr.
  assert (Hp : name <> "pub"%string) by (intros ->; discriminate Hn).
  assert (Hnot : is_ok (parse_opt (v ++ TId name :: comma :: join [comma] tss)) = false).
  { destruct Hv as [->|[->|(inner & -> & Hr)]]; cbn [app].
    - unfold parse_opt. cbn [starts_with_punct parse_ident]. rewrite Hn. cbn [rbind].
      unfold option_keyword in Hk. cbn [str_mem] in Hk. repeat (apply orb_false_iff in Hk as [? Hk]).
      repeat match goal with E : String.eqb name ?k = false |- _ => rewrite E; clear E end. reflexivity.
    - reflexivity.
    - reflexivity. }
  destruct (v ++ TId name :: comma :: join [comma] tss) as [|t0 r0] eqn:Ej.
  - destruct v; discriminate Ej.
  - rewrite Hnot. rewrite <- Ej. rewrite (parse_vis_app _ _ _ Hv Hp). cbn [parse_ident]. rewrite Hn. cbn [rbind].
    change (starts_with_punct "," (comma :: join [comma] tss)) with true. cbn iota. cbn [tl rbind].
    assert (Hnn : join [comma] tss <> []).
    { destruct H as [|e ts es tss Hs Hrest]; [contradiction|]. destruct tss; cbn [join]; inversion Hs; discriminate. }
    pose proof (opt_loop_spelled set_trait_opt es tss _ (no_opts, None) H Hne (Nat.lt_succ_diag_r _)) as Hl.
    destruct (join [comma] tss) as [|t1 r1] eqn:Ej2; [contradiction|].
    rewrite Hl.
    destruct (fold_set set_trait_opt es (no_opts, None)) as [[o d]| | |]; cbn [rbind]; reflexivity.
Qed.

(** impl blocks: [ref? dyn?] then options (only [debug] is accepted) *)
Lemma set_impl_opt_swap o e1 e2 :
  key e1 <> key e2 ->
  (let* o1 := set_impl_opt o e1 in set_impl_opt o1 e2) = (let* o2 := set_impl_opt o e2 in set_impl_opt o2 e1).
Proof. destruct e1, e2; cbn; intros H; try reflexivity; try (exfalso; apply H; reflexivity). Qed.
