(** * Base: reflection lemmas for the boolean equalities of Tok/Proj, inversion of the result monad *)
From Coq Require Import List String Ascii Bool Arith Lia.
From Entrait Require Import Tok Syn Opts Proj Proj2.
Import ListNotations.
Local Open Scope list_scope.

Lemma delim_eqb_refl d : delim_eqb d d = true.
Proof. destruct d; reflexivity. Qed.

Lemma delim_eqb_eq a b : delim_eqb a b = true -> a = b.
Proof. destruct a, b; simpl; congruence. Qed.

Lemma tt_eqb_refl : forall t, tt_eqb t t = true.
Proof.
  induction t as [s|c|s|d ts IH] using tt_ind'; simpl.
  - apply String.eqb_refl.
  - apply Ascii.eqb_refl.
  - apply String.eqb_refl.
  - rewrite delim_eqb_refl. simpl.
    induction ts as [|x xs IHxs]; [reflexivity|].
    inversion IH as [|? ? Hx Hxs]; subst. rewrite Hx. simpl. apply IHxs. exact Hxs.
Qed.

Lemma tt_eqb_eq : forall a b, tt_eqb a b = true -> a = b.
Proof.
  induction a as [s|c|s|d ts IH] using tt_ind'; intros b H; destruct b as [s'|c'|s'|d' ts']; simpl in H; try discriminate.
  - apply String.eqb_eq in H. congruence.
  - apply Ascii.eqb_eq in H. congruence.
  - apply String.eqb_eq in H. congruence.
  - apply andb_true_iff in H as [Hd Hl]. apply delim_eqb_eq in Hd. subst d'. f_equal.
    revert ts' Hl. induction ts as [|x xs IHxs]; intros [|y ys] Hl; try discriminate; [reflexivity|].
    inversion IH as [|? ? Hx Hxs]; subst.
    apply andb_true_iff in Hl as [H1 H2]. f_equal; [apply Hx; exact H1 | apply IHxs; assumption].
Qed.

Lemma toks_eqb_refl : forall l, toks_eqb l l = true.
Proof. induction l as [|x xs IH]; simpl; [reflexivity|]. rewrite tt_eqb_refl. exact IH. Qed.

Lemma toks_eqb_eq : forall a b, toks_eqb a b = true -> a = b.
Proof.
  induction a as [|x xs IH]; intros [|y ys] H; simpl in H; try discriminate; [reflexivity|].
  apply andb_true_iff in H as [H1 H2]. f_equal; [apply tt_eqb_eq; exact H1 | apply IH; exact H2].
Qed.

Lemma toks_eqb_iff a b : toks_eqb a b = true <-> a = b.
Proof. split; [apply toks_eqb_eq | intros ->; apply toks_eqb_refl]. Qed.

Lemma toks_list_eqb_refl : forall l, toks_list_eqb l l = true.
Proof. induction l as [|x xs IH]; simpl; [reflexivity|]. rewrite toks_eqb_refl. exact IH. Qed.

Lemma toks_list_eqb_eq : forall a b, toks_list_eqb a b = true -> a = b.
Proof.
  induction a as [|x xs IH]; intros [|y ys] H; simpl in H; try discriminate; [reflexivity|].
  apply andb_true_iff in H as [H1 H2]. f_equal; [apply toks_eqb_eq; exact H1 | apply IH; exact H2].
Qed.

Lemma str_list_eqb_refl : forall l, str_list_eqb l l = true.
Proof. induction l as [|x xs IH]; simpl; [reflexivity|]. rewrite String.eqb_refl. exact IH. Qed.

Lemma str_list_eqb_eq : forall a b, str_list_eqb a b = true -> a = b.
Proof.
  induction a as [|x xs IH]; intros [|y ys] H; simpl in H; try discriminate; [reflexivity|].
  apply andb_true_iff in H as [H1 H2]. apply String.eqb_eq in H1. f_equal; [exact H1 | apply IH; exact H2].
Qed.

Lemma opt_toks_eqb_refl o : opt_toks_eqb o o = true.
Proof. destruct o; simpl; [apply toks_eqb_refl | reflexivity]. Qed.

Lemma is_prefix_app : forall l r, is_prefix l (l ++ r) = true.
Proof. induction l as [|x xs IH]; intros r; simpl; [reflexivity|]. rewrite tt_eqb_refl. apply IH. Qed.

Lemma is_prefix_refl l : is_prefix l l = true.
Proof. rewrite <- (app_nil_r l) at 2. apply is_prefix_app. Qed.

Lemma is_prefix_spec : forall p l, is_prefix p l = true -> exists r, l = p ++ r.
Proof.
  induction p as [|x xs IH]; intros l H; simpl in H.
  - exists l. reflexivity.
  - destruct l as [|y ys]; [discriminate|]. apply andb_true_iff in H as [H1 H2].
    apply tt_eqb_eq in H1. subst y. destruct (IH _ H2) as [r ->]. exists r. reflexivity.
Qed.

Lemma strip_prefix_app : forall p r, strip_prefix p (p ++ r) = Some r.
Proof. induction p as [|x xs IH]; intros r; simpl; [reflexivity|]. rewrite tt_eqb_refl. apply IH. Qed.

Lemma str_mem_In s l : str_mem s l = true <-> In s l.
Proof.
  induction l as [|x xs IH]; simpl; [split; [discriminate | tauto]|].
  rewrite orb_true_iff, IH, String.eqb_eq. split; intros [H|H]; auto.
Qed.

Lemma str_mem_false_In s l : str_mem s l = false <-> ~ In s l.
Proof. rewrite <- str_mem_In. destruct (str_mem s l); split; congruence. Qed.

Lemma nodup_str_NoDup l : nodup_str l = true <-> NoDup l.
Proof.
  induction l as [|x xs IH]; simpl.
  - split; [constructor | reflexivity].
  - rewrite andb_true_iff, negb_true_iff, str_mem_false_In, IH. split.
    + intros [H1 H2]. constructor; assumption.
    + intros H. inversion H; subst. split; assumption.
Qed.

(** what the checker evaluates on the implementation's expansion, as a proposition about a view:
    wherever the property speaks about the case, the predicate understood the output and it holds *)
Definition good (vw : view) : Prop := v_app vw = true -> v_det vw = true /\ v_holds vw = true.

(** ** the result monad *)
Lemma rbind_ok {A B} (x : result A) (f : A -> result B) b :
  rbind x f = Ok b -> exists a, x = Ok a /\ f a = Ok b.
Proof. destruct x; simpl; intros H; try discriminate. eexists; split; [reflexivity | exact H]. Qed.

Ltac inv_ok H :=
  match type of H with
  | rbind ?x ?f = Ok ?b =>
      let a := fresh "a" in let H1 := fresh "E" in let H2 := fresh H in
      destruct (rbind_ok x f b H) as [a [H1 H2]]; clear H; cbv beta in H2
  | Ok _ = Ok _ => injection H as H
  end.

Lemma map_res_ok {A B} (f : A -> result B) : forall l r,
  FnParams.map_res f l = Ok r -> Forall2 (fun x y => f x = Ok y) l r.
Proof.
  induction l as [|x xs IH]; intros r H; simpl in H.
  - injection H as <-. constructor.
  - destruct (f x) eqn:E; simpl in H; try discriminate.
    destruct (FnParams.map_res f xs) eqn:E2; simpl in H; try discriminate.
    injection H as <-. constructor; [exact E | apply IH; reflexivity].
Qed.
