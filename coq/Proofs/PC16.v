(** * C16: generated parameter names are usable for every parameter pattern list *)
From Coq Require Import List String Ascii Bool Arith Lia.
From Entrait Require Import Tok Syn Opts Split FnParams Convert Codegen Expand Proj.
From Entrait.Proofs Require Import Base Shapes PFnParams.
Import ListNotations.
Local Open Scope list_scope.

Lemma make_trait_fn_sig_names s subs o : typed_names (make_trait_fn_sig s subs o) = typed_names s.
Proof. unfold make_trait_fn_sig. destruct (s_async s && negb (contains_async_trait subs)); reflexivity. Qed.
Lemma make_trait_fn_sig_inputs s subs o : s_inputs (make_trait_fn_sig s subs o) = s_inputs s.
Proof. unfold make_trait_fn_sig. destruct (s_async s && negb (contains_async_trait subs)); reflexivity. Qed.
Lemma make_trait_fn_sig_name s subs o : s_name (make_trait_fn_sig s subs o) = s_name s.
Proof. unfold make_trait_fn_sig. destruct (s_async s && negb (contains_async_trait subs)); reflexivity. Qed.

Lemma names_usable_trait s subs o : names_usable (make_trait_fn_sig s subs o) = names_usable s.
Proof. unfold names_usable. rewrite make_trait_fn_sig_names, make_trait_fn_sig_inputs, make_trait_fn_sig_name. reflexivity. Qed.

Lemma out_names_trait k s subs o : out_names k (make_trait_fn_sig s subs o) = out_names k s.
Proof. unfold out_names. rewrite make_trait_fn_sig_names. reflexivity. Qed.

Lemma c16_rules_trait k nd src s subs o : c16_rules k nd src (make_trait_fn_sig s subs o) = c16_rules k nd src s.
Proof. unfold c16_rules. rewrite out_names_trait. reflexivity. Qed.

Lemma prefix_desired k reference l :
  map desired_name (filter is_typed (gen_prefix k reference ++ map strip_arg_attrs l))
  = (match k with RSelfRef => [] | _ => [Some "__impl"%string] end) ++ map desired_name (filter is_typed l).
Proof.
  assert (H : map desired_name (filter is_typed (map strip_arg_attrs l)) = map desired_name (filter is_typed l))
    by (apply desired_map; [apply strip_desired | apply strip_is_typed]).
  destruct k; cbn [gen_prefix app filter is_typed self_receiver impl_receiver impl_receiver_lt map desired_name]; rewrite H; reflexivity.
Qed.

(** one function: the converted signature has usable names that follow the rules *)
Lemma c16_sig k o tg s tf tg' :
  analyze k o tg s = Ok (tf, tg') ->
  names_usable (tf_sig tf) = true /\ c16_rules k (no_deps_value o) s (tf_sig tf) = true.
Proof.
  intros H. destruct (analyze_inv _ _ _ _ _ _ H) as (deps & s' & Ha & Hc & ->). cbn [tf_sig].
  destruct (convert_sig_inv _ _ _ _ Hc) as (inputs1 & args & Hg & Hf & ->).
  destruct (inputs1_shape _ _ _ _ _ _ _ Ha Hg) as (reference & Hp & _).
  destruct (fix_usable _ _ _ Hf) as (U1 & U2 & U3 & U4).
  split.
  - unfold names_usable, typed_names. cbn [s_inputs s_name p_items]. rewrite U2.
    apply nodup_str_NoDup in U3. rewrite U3. apply str_mem_false_In in U4. rewrite U4. reflexivity.
  - unfold c16_rules, out_names, typed_names, forwarded_src_args. cbn [s_inputs s_name p_items].
    set (R0 := if no_deps_value o then p_items (s_inputs s) else tl (p_items (s_inputs s))) in *.
    set (desired := map desired_name (filter is_typed R0)).
    pose proof (fix_rules _ _ _ Hf) as Hr. cbv zeta in Hr. rewrite Hp, prefix_desired in Hr. fold desired in Hr.
    pose proof (fix_length _ _ _ Hf) as Hl. rewrite Hp in Hl.
    assert (Hl' : List.length (plain_names args) = List.length ((match k with RSelfRef => [] | _ => [Some "__impl"%string] end) ++ desired)).
    { rewrite Hl, <- (map_length desired_name), prefix_desired. reflexivity. }
    destruct (nodup_str (map unraw (somes desired)) && negb (str_mem (unraw (s_name s)) (map unraw (somes desired))) &&
              negb match k with RSelfRef => false | _ => str_mem "__impl" (map unraw (s_name s :: somes desired)) end) eqn:G.
    + apply andb_true_iff in G as [G G3]. apply andb_true_iff in G as [G1 G2].
      apply nodup_str_NoDup in G1. apply negb_true_iff, str_mem_false_In in G2. apply negb_true_iff in G3.
      destruct k.
      * apply Hr; assumption.
      * apply str_mem_false_In in G3.
        assert (Hx : rules_ok (Some "__impl"%string :: desired) (plain_names args) = true).
        { apply Hr; cbn [app somes map]; change (unraw "__impl") with "__impl"%string.
          - constructor; [intros Hin; apply G3; right; exact Hin | exact G1].
          - intros [He|Hin]; [apply G3; left; symmetry; exact He | contradiction]. }
        destruct (plain_names args) as [|n0 ns]; [discriminate Hx|]. cbn [rules_ok] in Hx.
        apply andb_true_iff in Hx as [_ Hx]. exact Hx.
      * apply str_mem_false_In in G3.
        assert (Hx : rules_ok (Some "__impl"%string :: desired) (plain_names args) = true).
        { apply Hr; cbn [app somes map]; change (unraw "__impl") with "__impl"%string.
          - constructor; [intros Hin; apply G3; right; exact Hin | exact G1].
          - intros [He|Hin]; [apply G3; left; symmetry; exact He | contradiction]. }
        destruct (plain_names args) as [|n0 ns]; [discriminate Hx|]. cbn [rules_ok] in Hx.
        apply andb_true_iff in Hx as [_ Hx]. exact Hx.
    + apply Nat.eqb_eq. destruct k; cbn [app] in Hl'.
      * symmetry. exact Hl'.
      * destruct (plain_names args); simpl in *; lia.
      * destruct (plain_names args); simpl in *; lia.
Qed.

Lemma c16_all_analyze k o subs : forall sigs tg fns tg',
  analyze_all k o tg sigs = Ok (fns, tg') ->
  c16_all k (no_deps_value o) sigs (map (fun tf => make_trait_fn_sig (tf_sig tf) subs o) fns) (map tf_sig fns) = true /\
  c16_all k (no_deps_value o) sigs (map tf_sig fns) (map tf_sig fns) = true.
Proof.
  induction sigs as [|s sigs IH]; intros tg fns tg' H; simpl in H.
  - injection H as <- _. split; reflexivity.
  - inv_ok H. destruct a as [tf tg1]. inv_ok H0. destruct a as [tfs tg2]. injection H1 as <- _.
    destruct (c16_sig _ _ _ _ _ _ E) as [N R]. destruct (IH _ _ _ E0) as [I1 I2].
    cbn [map c16_all]. rewrite names_usable_trait, c16_rules_trait, make_trait_fn_sig_names, N, R, str_list_eqb_refl, I1, I2.
    split; reflexivity.
Qed.

(** the view the checker evaluates *)
Lemma map_sig_of_body_fns l : map (fun '(_, _, s, _) => s) l = map sig_of l.
Proof. apply map_ext. intros [[[a v] s] b]. reflexivity. Qed.

Lemma c16_view v attr i items :
  expand_items v attr i = Ok items -> good (view_C16 (mkCtx v attr i) items).
Proof.
  intros H. destruct i as [h s body|h|h t|h|h tp st body sigs sf|h|h name body sigs sf|h|]; try discriminate H.
  - destruct (expand_fn_inv _ _ _ _ _ _ H) as (a & tf & tg & mode & ib & Ha & Hz & _ & Hib & ->).
    destruct (gen_impl_block_fns _ _ _ _ _ _ _ _ _ Hib) as (argss & Fa & Hfns & _).
    unfold view_C16, good, fn_opts. cbn [x_input x_attr x_variant source_fns]. rewrite parts_fn, Ha. cbn [decided v_app v_det v_holds].
    intros _. split; [reflexivity|].
    rewrite trait_sigs_gen_trait_def, Hfns.
    inversion Fa as [|? args ? ? Hc Fa']; subst. inversion Fa'; subst. cbn [map combine snd].
    fold (merged_sig h s).
    assert (Hall : analyze_all RSelfRef (apply_variant v (fa_opts a)) empty_tg [merged_sig h s] = Ok ([tf], tg))
      by (simpl; rewrite Hz; reflexivity).
    destruct (c16_all_analyze _ _ (h_attrs h) _ _ _ _ Hall) as [I1 _]. exact I1.
  - unfold view_C16, good. cbn. discriminate.
  - destruct (expand_impl_inv _ _ _ _ _ _ _ _ _ H) as (_ & bitems & fl & a & fns0 & tg & mode & ib & Hs & Ha & Hz & _ & Hib & ->).
    cbv zeta in Hz, Hib.
    destruct (gen_impl_block_fns _ _ _ _ _ _ _ _ _ Hib) as (argss & Fa & Hfns & _).
    unfold view_C16, good, impl_attr_of. cbn [x_input x_attr x_variant source_fns]. rewrite Hs, parts_impl, Ha. cbn [decided v_app v_det v_holds].
    intros _. split; [reflexivity|].
    rewrite Hfns, impl_fns_sigs; [|apply (Forall2_length' _ _ _ Fa)|intros tf args; reflexivity].
    rewrite with_cfg_attrs_sigs, map_sig_of_body_fns.
    destruct (c16_all_analyze _ _ [] _ _ _ _ Hz) as [_ I2].
    rewrite (impl_no_deps v _ _ Ha) in I2. exact I2.
  - destruct (expand_mod_inv _ _ _ _ _ _ _ _ H) as (_ & bitems & fl & a & fns0 & tg & mode & ib & Hs & Ha & Hz & _ & Hib & ->).
    destruct (gen_impl_block_fns _ _ _ _ _ _ _ _ _ Hib) as (argss & Fa & Hfns & _).
    unfold view_C16, good, fn_opts. cbn [x_input x_attr x_variant source_fns]. rewrite Hs, parts_mod, Ha. cbn [decided v_app v_det v_holds].
    intros _. split; [reflexivity|].
    rewrite trait_sigs_gen_trait_def, Hfns, impl_fns_sigs; [|apply (Forall2_length' _ _ _ Fa)|intros tf args; reflexivity].
    rewrite map_map. cbn [snd].
    rewrite <- (map_map tf_sig (fun s => make_trait_fn_sig s (h_attrs h) (apply_variant v (fa_opts a)))).
    rewrite with_cfg_attrs_sigs, map_map, map_sig_of_body_fns.
    destruct (c16_all_analyze _ _ (h_attrs h) _ _ _ _ Hz) as [I1 _]. exact I1.
Qed.

(** forwarding: the delegating call passes exactly the emitted parameter identifiers, positionally *)
Lemma call_args_plain : forall l, forallb is_plain_ident_arg l = true ->
  call_args l = Ok (map (fun n => [TId n]) (plain_names l)).
Proof.
  induction l as [|a l IH]; intros H; [reflexivity|]. simpl in H. apply andb_true_iff in H as [H1 H2].
  destruct a as [x r m c|x [r m n sub|ts b] t]; simpl in *; try discriminate; rewrite (IH H2); reflexivity.
Qed.

Lemma analyze_call_args k o tg s tf tg' :
  analyze k o tg s = Ok (tf, tg') ->
  call_args (p_items (s_inputs (tf_sig tf))) = Ok (map (fun n => [TId n]) (typed_names (tf_sig tf))).
Proof.
  intros H. destruct (c16_sig _ _ _ _ _ _ H) as [N _]. unfold names_usable in N.
  apply andb_true_iff in N as [N _]. apply andb_true_iff in N as [N _]. apply call_args_plain. exact N.
Qed.
