(** * C17: options mean what the table says; macro variants are option shorthands *)
From Coq Require Import List String Ascii Bool Arith Lia Permutation.
From Entrait Require Import Tok Syn Opts Split FnParams Convert Codegen Expand.
From Entrait.Proofs Require Import Base.
Import ListNotations.
Local Open Scope list_scope.

(** ** How an option can be written *)
Definition bool_lit (b : bool) : string := if b then "true"%string else "false"%string.

Inductive spells : eopt -> toks -> Prop :=
| SpNoDepsBare : spells (ONoDeps true) [TId "no_deps"]
| SpNoDeps b : spells (ONoDeps b) [TId "no_deps"; pc "="; TId (bool_lit b)]
| SpDebugBare : spells (ODebug true) [TId "debug"]
| SpDebug b : spells (ODebug b) [TId "debug"; pc "="; TId (bool_lit b)]
| SpExportBare : spells (OExport true) [TId "export"]
| SpExport b : spells (OExport b) [TId "export"; pc "="; TId (bool_lit b)]
| SpUnimockBare : spells (OUnimock true) [TId "unimock"]
| SpUnimock b : spells (OUnimock b) [TId "unimock"; pc "="; TId (bool_lit b)]
| SpMockallBare : spells (OMockall true) [TId "mockall"]
| SpMockall b : spells (OMockall b) [TId "mockall"; pc "="; TId (bool_lit b)]
| SpMaybeSend : spells (OMaybeSend false) [pc "?"; TId "Send"]
| SpMockApi n : accept_as_ident n = true -> spells (OMockApi n) [TId "mock_api"; pc "="; TId n]
| SpDelegateBare : spells (ODelegateBy BySelf) [TId "delegate_by"]
| SpDelegateRef : spells (ODelegateBy (ByRef RAsRef)) [TId "delegate_by"; pc "="; TId "ref"]
| SpDelegateBorrow : spells (ODelegateBy (ByRef RBorrow)) [TId "delegate_by"; pc "="; TId "Borrow"]
| SpDelegateTrait n : accept_as_ident n = true -> n <> "Self"%string -> n <> "Borrow"%string ->
                      spells (ODelegateBy (ByTrait n)) [TId "delegate_by"; pc "="; TId n].

(** what may follow an option: nothing, or a comma *)
Definition sep_ok (rest : toks) : Prop := rest = [] \/ starts_with_punct "," rest = true.

Lemma sep_ok_not_eq rest : sep_ok rest -> starts_with_punct "=" rest = false.
Proof.
  intros [->|H]; [reflexivity|]. destruct rest as [|[x|c|x|d g] r]; try discriminate; try reflexivity.
  cbn in *. apply Ascii.eqb_eq in H. subst c. reflexivity.
Qed.

Lemma parse_eq_bool_none rest : sep_ok rest -> parse_eq_bool rest = Ok (true, rest).
Proof.
  intros H. pose proof (sep_ok_not_eq _ H) as E. unfold parse_eq_bool.
  destruct rest as [|[x|c|x|d g] r]; try reflexivity. cbn in E. rewrite E. reflexivity.
Qed.

Lemma parse_eq_bool_lit b rest : parse_eq_bool (pc "=" :: TId (bool_lit b) :: rest) = Ok (b, rest).
Proof. destruct b; reflexivity. Qed.

Lemma parse_opt_spells e ts rest : spells e ts -> sep_ok rest -> parse_opt (ts ++ rest) = Ok (e, rest).
Proof.
  intros Hs Hr. destruct Hs; cbn [app];
    try (unfold parse_opt; cbn; rewrite ?(parse_eq_bool_none _ Hr); reflexivity);
    try (unfold parse_opt; cbn; match goal with b : bool |- _ => destruct b; reflexivity end).
  - (* mock_api *) unfold parse_opt. cbn.
    match goal with Ha : accept_as_ident _ = true |- _ => rewrite Ha end. reflexivity.
  - (* delegate_by bare *)
    unfold parse_opt. cbn. unfold parse_eq_delegate_by. pose proof (sep_ok_not_eq _ Hr) as E.
    destruct rest as [|[x|c|x|d g] r]; try reflexivity. cbn in E. rewrite E. reflexivity.
  - (* delegate_by = T *)
    unfold parse_opt. cbn. unfold parse_eq_delegate_by. cbn.
    match goal with Ha : accept_as_ident ?n = true, H1 : ?n <> "Self"%string, H2 : ?n <> "Borrow"%string |- _ =>
      assert (E1 : String.eqb n "ref"%string = false)
        by (destruct (String.eqb n "ref"%string) eqn:E; [apply String.eqb_eq in E; subst n; discriminate Ha | reflexivity]);
      rewrite E1, Ha; cbn; apply String.eqb_neq in H1; apply String.eqb_neq in H2; rewrite H1, H2; reflexivity
    end.
Qed.

(** ** the accumulating loops on a spelled option list *)
Fixpoint fold_set {S} (set : S -> eopt -> result S) (es : list eopt) (st : S) : result S :=
  match es with
  | [] => Ok st
  | e :: r => let* st' := set st e in fold_set set r st'
  end.

Definition flat (tss : list toks) : toks := flat_map (fun ts => comma :: ts) tss.

Lemma flat_sep_ok tss : sep_ok (flat tss).
Proof. destruct tss; [left; reflexivity | right; reflexivity]. Qed.

Lemma flat_length_cons ts tss : List.length (flat (ts :: tss)) = S (List.length ts + List.length (flat tss)).
Proof. unfold flat. cbn [flat_map]. cbn. rewrite app_length. reflexivity. Qed.

Lemma fn_attr_loop_spelled : forall es tss fuel o,
  Forall2 spells es tss -> List.length (flat tss) <= fuel ->
  fn_attr_loop fuel (flat tss) o = fold_set set_fn_opt es o.
Proof.
  intros es tss fuel o H. revert fuel o. induction H as [|e ts es tss Hs _ IH]; intros fuel o Hl.
  - destruct fuel; reflexivity.
  - rewrite flat_length_cons in Hl. destruct fuel as [|k]; [lia|].
    change (flat (ts :: tss)) with (comma :: ts ++ flat tss). cbn [fn_attr_loop starts_with_punct tl].
    change (Ascii.eqb "," ",") with true. cbn iota.
    rewrite (parse_opt_spells _ _ _ Hs (flat_sep_ok tss)). cbn [rbind fold_set].
    destruct (set_fn_opt o e) as [o'| | |]; cbn [rbind]; try reflexivity. apply IH. lia.
Qed.

(** visibility written before the trait name *)
Definition vis_toks_ok (v : vis) : Prop :=
  v = [] \/ v = [TId "pub"] \/ exists inner, v = [TId "pub"; TG Paren inner] /\ restricted_head inner = true.

Lemma parse_vis_app v name rest : vis_toks_ok v -> name <> "pub"%string -> parse_vis (v ++ TId name :: rest) = (v, TId name :: rest).
Proof.
  intros [->|[->|(inner & -> & Hr)]] Hn; cbn.
  - apply String.eqb_neq in Hn. rewrite Hn. reflexivity.
  - reflexivity.
  - rewrite Hr. reflexivity.
Qed.

Theorem parse_fn_attr_spelled v name es tss :
  vis_toks_ok v -> accept_as_ident name = true ->
  Forall2 spells es tss ->
  parse_fn_attr (v ++ TId name :: flat tss) =
  (let* o := fold_set set_fn_opt es no_opts in Ok (mkFnAttr v name o)).
Proof.
  intros Hv Hn Hs. unfold parse_fn_attr.
  assert (Hp : name <> "pub"%string) by (intros ->; discriminate Hn).
  rewrite (parse_vis_app _ _ _ Hv Hp). cbn [parse_ident]. rewrite Hn. cbn [rbind].
  rewrite (fn_attr_loop_spelled _ _ _ _ Hs (le_n _)). reflexivity.
Qed.

(** *** bare = [= true]; any two spellings of the same option list parse alike *)
Corollary spellings_agree v name es tss tss' :
  vis_toks_ok v -> accept_as_ident name = true ->
  Forall2 spells es tss -> Forall2 spells es tss' ->
  parse_fn_attr (v ++ TId name :: flat tss) = parse_fn_attr (v ++ TId name :: flat tss').
Proof. intros Hv Hn H1 H2. rewrite (parse_fn_attr_spelled _ _ _ _ Hv Hn H1), (parse_fn_attr_spelled _ _ _ _ Hv Hn H2). reflexivity. Qed.

(** ** order independence *)
Definition key (e : eopt) : nat :=
  match e with
  | ONoDeps _ => 0 | ODebug _ => 1 | ODelegateBy _ => 2 | OExport _ => 3
  | OMaybeSend _ => 4 | OMockApi _ => 5 | OUnimock _ => 6 | OMockall _ => 7
  end.

Lemma set_fn_opt_swap o e1 e2 :
  key e1 <> key e2 ->
  (let* o1 := set_fn_opt o e1 in set_fn_opt o1 e2) = (let* o2 := set_fn_opt o e2 in set_fn_opt o2 e1).
Proof. destruct e1, e2; cbn; intros H; try reflexivity; try (exfalso; apply H; reflexivity). Qed.

Lemma rbind_assoc {A B C} (x : result A) (f : A -> result B) (g : B -> result C) :
  rbind (rbind x f) g = rbind x (fun a => rbind (f a) g).
Proof. destruct x; reflexivity. Qed.

Lemma fold_set_swap {S} (set : S -> eopt -> result S) :
  (forall st e1 e2, key e1 <> key e2 ->
     (let* s1 := set st e1 in set s1 e2) = (let* s2 := set st e2 in set s2 e1)) ->
  forall e1 e2 l st, key e1 <> key e2 -> fold_set set (e1 :: e2 :: l) st = fold_set set (e2 :: e1 :: l) st.
Proof.
  intros Hsw e1 e2 l st Hk. cbn [fold_set].
  rewrite <- !rbind_assoc. 
  change (rbind (rbind (set st e1) (fun st' => set st' e2)) (fun st'0 => fold_set set l st'0) =
          rbind (rbind (set st e2) (fun st' => set st' e1)) (fun st'0 => fold_set set l st'0)).
  rewrite (Hsw st e1 e2 Hk). reflexivity.
Qed.

Lemma fold_set_perm {S} (set : S -> eopt -> result S) :
  (forall st e1 e2, key e1 <> key e2 ->
     (let* s1 := set st e1 in set s1 e2) = (let* s2 := set st e2 in set s2 e1)) ->
  forall es es', Permutation es es' -> NoDup (map key es) -> forall st, fold_set set es st = fold_set set es' st.
Proof.
  intros Hsw es es' Hp. induction Hp as [|x l l' Hp IH|x y l|l l' l'' Hp1 IH1 Hp2 IH2]; intros Hnd st.
  - reflexivity.
  - cbn [fold_set]. inversion Hnd; subst. destruct (set st x); cbn [rbind]; auto.
  - apply (fold_set_swap set Hsw). cbn [map] in Hnd. inversion Hnd as [|? ? Hni _]; subst. intros E. apply Hni. left. symmetry. exact E.
  - rewrite IH1 by exact Hnd. apply IH2. eapply Permutation_NoDup; [apply Permutation_map; exact Hp1 | exact Hnd].
Qed.

Theorem fn_options_order_independent v name es es' tss tss' :
  vis_toks_ok v -> accept_as_ident name = true ->
  Forall2 spells es tss -> Forall2 spells es' tss' ->
  Permutation es es' -> NoDup (map key es) ->
  parse_fn_attr (v ++ TId name :: flat tss) = parse_fn_attr (v ++ TId name :: flat tss').
Proof.
  intros Hv Hn H1 H2 Hp Hnd.
  rewrite (parse_fn_attr_spelled _ _ _ _ Hv Hn H1), (parse_fn_attr_spelled _ _ _ _ Hv Hn H2).
  rewrite (fold_set_perm set_fn_opt set_fn_opt_swap _ _ Hp Hnd). reflexivity.
Qed.

(** ** per-target accepted option sets *)
Lemma fn_target_accepts o e : (exists o', set_fn_opt o e = Ok o') <-> key e <> 2.
Proof. destruct e; cbn; split; intros H; try (eexists; reflexivity); try discriminate; try (destruct H; discriminate); try (exfalso; apply H; reflexivity). Qed.

Lemma trait_target_accepts od e : (exists od', set_trait_opt od e = Ok od') <-> (key e <> 0 /\ key e <> 3).
Proof.
  destruct od as [o d]. destruct e; cbn; split; intros H; try (eexists; reflexivity); try (split; discriminate);
    try (destruct H as [? H]; discriminate); try (destruct H as [H1 H2]; exfalso; first [apply H1; reflexivity | apply H2; reflexivity]).
Qed.

Lemma impl_target_accepts o e : (exists o', set_impl_opt o e = Ok o') <-> key e = 1.
Proof. destruct e; cbn; split; intros H; try (eexists; reflexivity); try discriminate; try (destruct H; discriminate); reflexivity. Qed.

Lemma rejected_is_unsupported_fn o e : key e = 2 -> set_fn_opt o e = Err unsupported.
Proof. destruct e; cbn; intros H; try discriminate; reflexivity. Qed.
Lemma rejected_is_unsupported_trait od e : key e = 0 \/ key e = 3 -> set_trait_opt od e = Err unsupported.
Proof. destruct od. destruct e; cbn; intros [H|H]; try discriminate; reflexivity. Qed.
Lemma rejected_is_unsupported_impl o e : key e <> 1 -> set_impl_opt o e = Err unsupported.
Proof. destruct e; cbn; intros H; try reflexivity. exfalso. apply H. reflexivity. Qed.

(** ** variants are option shorthands (fn / mod targets) *)
Lemma fold_set_app {S} (set : S -> eopt -> result S) : forall es es' st,
  fold_set set (es ++ es') st = (let* st' := fold_set set es st in fold_set set es' st').
Proof.
  induction es as [|e es IH]; intros es' st; [reflexivity|]. cbn [app fold_set].
  destruct (set st e); cbn [rbind]; auto.
Qed.

Lemma flat_app a b : flat (a ++ b) = flat a ++ flat b.
Proof. unfold flat. apply flat_map_app. Qed.

Definition set_export (o : opts) (b : option bool) : opts :=
  mkOpts (o_no_deps o) (o_debug o) b (o_future_send o) (o_mock_api o) (o_unimock o) (o_mockall o).
Definition set_unimock (o : opts) (b : option bool) : opts :=
  mkOpts (o_no_deps o) (o_debug o) (o_export o) (o_future_send o) (o_mock_api o) b (o_mockall o).

Lemma fold_set_fn_export_none : forall es o o',
  fold_set set_fn_opt es o = Ok o' -> ~ In 3 (map key es) -> o_export o' = o_export o.
Proof.
  induction es as [|e es IH]; intros o o' H Hk; cbn [fold_set] in H.
  - injection H as <-. reflexivity.
  - destruct (set_fn_opt o e) as [o1| | |] eqn:E; try discriminate. cbn [rbind] in H.
    rewrite (IH _ _ H) by (intros Hin; apply Hk; right; exact Hin).
    destruct e; cbn in E; try (injection E as <-; reflexivity); try discriminate.
    exfalso. apply Hk. left. reflexivity.
Qed.

Lemma fold_set_fn_unimock_none : forall es o o',
  fold_set set_fn_opt es o = Ok o' -> ~ In 6 (map key es) -> o_unimock o' = o_unimock o.
Proof.
  induction es as [|e es IH]; intros o o' H Hk; cbn [fold_set] in H.
  - injection H as <-. reflexivity.
  - destruct (set_fn_opt o e) as [o1| | |] eqn:E; try discriminate. cbn [rbind] in H.
    rewrite (IH _ _ H) by (intros Hin; apply Hk; right; exact Hin).
    destruct e; cbn in E; try (injection E as <-; reflexivity); try discriminate.
    exfalso. apply Hk. left. reflexivity.
Qed.

(** [entrait_export(args)] parses and defaults to exactly what [entrait(args, export)] parses to, unless
    [args] sets [export] *)
Theorem export_variant_is_shorthand v name es tss a :
  vis_toks_ok v -> accept_as_ident name = true -> Forall2 spells es tss ->
  ~ In 3 (map key es) ->
  parse_fn_attr (v ++ TId name :: flat tss) = Ok a ->
  exists a', parse_fn_attr ((v ++ TId name :: flat tss) ++ [comma; TId "export"]) = Ok a' /\
             fa_vis a' = fa_vis a /\ fa_trait a' = fa_trait a /\
             apply_variant VEntrait (fa_opts a') = apply_variant VExport (fa_opts a).
Proof.
  intros Hv Hn Hs Hk Hp. rewrite (parse_fn_attr_spelled _ _ _ _ Hv Hn Hs) in Hp.
  destruct (fold_set set_fn_opt es no_opts) as [o| | |] eqn:Ef; try discriminate. cbn [rbind] in Hp. injection Hp as <-.
  assert (Hs' : Forall2 spells (es ++ [OExport true]) (tss ++ [[TId "export"]])).
  { apply Forall2_app; [exact Hs | constructor; [constructor | constructor]]. }
  replace ((v ++ TId name :: flat tss) ++ [comma; TId "export"]) with (v ++ TId name :: flat (tss ++ [[TId "export"]]))
    by (rewrite flat_app, <- app_assoc; reflexivity).
  rewrite (parse_fn_attr_spelled _ _ _ _ Hv Hn Hs'), fold_set_app, Ef. cbn [rbind fold_set set_fn_opt].
  eexists. split; [reflexivity|]. cbn [fa_vis fa_trait fa_opts apply_variant]. repeat split.
  rewrite (fold_set_fn_export_none _ _ _ Ef Hk). reflexivity.
Qed.

(** ... and when [args] does set [export], the variant changes nothing *)
Theorem export_variant_explicit_wins o b : o_export o = Some b -> apply_variant VExport o = o.
Proof. intros H. destruct o. cbn in *. subst. reflexivity. Qed.

Theorem unimock_feature_is_shorthand v name es tss a :
  vis_toks_ok v -> accept_as_ident name = true -> Forall2 spells es tss ->
  ~ In 6 (map key es) ->
  parse_fn_attr (v ++ TId name :: flat tss) = Ok a ->
  exists a', parse_fn_attr ((v ++ TId name :: flat tss) ++ [comma; TId "unimock"]) = Ok a' /\
             fa_vis a' = fa_vis a /\ fa_trait a' = fa_trait a /\
             apply_variant VEntrait (fa_opts a') = apply_variant VUnimock (fa_opts a).
Proof.
  intros Hv Hn Hs Hk Hp. rewrite (parse_fn_attr_spelled _ _ _ _ Hv Hn Hs) in Hp.
  destruct (fold_set set_fn_opt es no_opts) as [o| | |] eqn:Ef; try discriminate. cbn [rbind] in Hp. injection Hp as <-.
  assert (Hs' : Forall2 spells (es ++ [OUnimock true]) (tss ++ [[TId "unimock"]])).
  { apply Forall2_app; [exact Hs | constructor; [constructor | constructor]]. }
  replace ((v ++ TId name :: flat tss) ++ [comma; TId "unimock"]) with (v ++ TId name :: flat (tss ++ [[TId "unimock"]]))
    by (rewrite flat_app, <- app_assoc; reflexivity).
  rewrite (parse_fn_attr_spelled _ _ _ _ Hv Hn Hs'), fold_set_app, Ef. cbn [rbind fold_set set_fn_opt].
  eexists. split; [reflexivity|]. cbn [fa_vis fa_trait fa_opts apply_variant]. repeat split.
  rewrite (fold_set_fn_unimock_none _ _ _ Ef Hk). reflexivity.
Qed.

Theorem unimock_feature_explicit_wins o b : o_unimock o = Some b -> apply_variant VUnimock o = o.
Proof. intros H. destruct o. cbn in *. subst. reflexivity. Qed.

(** the expansion of a fn / mod depends on the attribute only through (visibility, name, defaulted options) *)
Theorem expansion_depends_on_parsed_attr v v' attr attr' a a' h s body :
  parse_fn_attr attr = Ok a -> parse_fn_attr attr' = Ok a' ->
  fa_vis a = fa_vis a' -> fa_trait a = fa_trait a' ->
  apply_variant v (fa_opts a) = apply_variant v' (fa_opts a') ->
  expand_items v attr (InFn h s body) = expand_items v' attr' (InFn h s body).
Proof.
  intros H1 H2 Hv Ht Ho. cbn [expand_items]. rewrite H1, H2. cbn [rbind]. unfold with_fn_opts. rewrite Hv, Ht, Ho. reflexivity.
Qed.

Theorem expansion_depends_on_parsed_attr_mod v v' attr attr' a a' h name body sigs sf :
  parse_fn_attr attr = Ok a -> parse_fn_attr attr' = Ok a' ->
  fa_vis a = fa_vis a' -> fa_trait a = fa_trait a' ->
  apply_variant v (fa_opts a) = apply_variant v' (fa_opts a') ->
  expand_items v attr (InMod h name body sigs sf) = expand_items v' attr' (InMod h name body sigs sf).
Proof.
  intros H1 H2 Hv Ht Ho. cbn [expand_items]. destruct (h_unsafe h || h_auto h); [reflexivity|].
  destruct (split_body true sigs body) as [[items fl]| | |]; cbn [rbind]; try reflexivity.
  rewrite H1, H2. cbn [rbind]. unfold with_fn_opts. rewrite Hv, Ht, Ho. reflexivity.
Qed.

(** ** [option = false] is the same as omitting it (before variant defaults): the pipelines look at the
    options only through their defaulted values *)
Definition opts_equiv (o o' : opts) : Prop :=
  no_deps_value o = no_deps_value o' /\ export_value o = export_value o' /\ future_send o = future_send o' /\
  o_mock_api o = o_mock_api o' /\ unimock_value o = unimock_value o' /\ mockall_value o = mockall_value o'.

Lemma analyze_equiv k o o' tg s : opts_equiv o o' -> analyze k o tg s = analyze k o' tg s.
Proof. intros (H1 & _). unfold analyze, analyze_fn_deps. rewrite H1. reflexivity. Qed.

Lemma analyze_all_equiv k o o' : opts_equiv o o' -> forall sigs tg, analyze_all k o tg sigs = analyze_all k o' tg sigs.
Proof.
  intros He. induction sigs as [|s sigs IH]; intros tg; [reflexivity|]. cbn [analyze_all].
  rewrite (analyze_equiv k o o' tg s He). destruct (analyze k o' tg s) as [[tf tg1]| | |]; cbn [rbind]; try reflexivity.
  rewrite IH. reflexivity.
Qed.

Lemma gen_trait_def_equiv o o' ti mode subs lit v name tg colon supers fns im :
  opts_equiv o o' ->
  gen_trait_def o ti mode subs lit v name tg colon supers fns im = gen_trait_def o' ti mode subs lit v name tg colon supers fns im.
Proof.
  intros (H1 & H2 & H3 & H4 & H5 & H6). unfold gen_trait_def, export_gated, make_trait_fn_sig, future_output.
  rewrite H2, H3, H4, H5, H6. reflexivity.
Qed.

Lemma gen_impl_block_equiv o o' tref ind tg im mode subs fns :
  opts_equiv o o' -> gen_impl_block o tref ind tg im mode subs fns = gen_impl_block o' tref ind tg im mode subs fns.
Proof.
  intros (H1 & H2 & H3 & H4 & H5 & H6). unfold gen_impl_block, self_ty, mockable. rewrite H4, H5, H6. reflexivity.
Qed.

Theorem single_fn_respects_equiv v n o o' attrs vis s body :
  opts_equiv o o' ->
  entrait_for_single_fn (mkFnAttr v n o) attrs vis s body = entrait_for_single_fn (mkFnAttr v n o') attrs vis s body.
Proof.
  intros He. unfold entrait_for_single_fn. cbn [fa_opts fa_vis fa_trait].
  rewrite (analyze_equiv _ o o' _ _ He). destruct (analyze RSelfRef o' empty_tg s) as [[tf tg]| | |]; cbn [rbind]; try reflexivity.
  destruct (detect_trait_dependency_mode MSingleFn [tf]) as [mode| | |]; cbn [rbind]; try reflexivity.
  rewrite (gen_impl_block_equiv o o' _ _ _ _ _ _ _ He), (gen_trait_def_equiv o o' _ _ _ _ _ _ _ _ _ _ _ He). reflexivity.
Qed.

Theorem mod_respects_equiv v n o o' attrs vis name items :
  opts_equiv o o' ->
  entrait_for_mod (mkFnAttr v n o) attrs vis name items = entrait_for_mod (mkFnAttr v n o') attrs vis name items.
Proof.
  intros He. unfold entrait_for_mod. cbn [fa_opts fa_vis fa_trait].
  rewrite (analyze_all_equiv _ o o' He). 
  destruct (analyze_all RSelfRef o' empty_tg _) as [[fns0 tg]| | |]; cbn [rbind]; try reflexivity.
  destruct (detect_trait_dependency_mode MModule _) as [mode| | |]; cbn [rbind]; try reflexivity.
  rewrite (gen_impl_block_equiv o o' _ _ _ _ _ _ _ He), (gen_trait_def_equiv o o' _ _ _ _ _ _ _ _ _ _ _ He). reflexivity.
Qed.

(** writing [no_deps = false] / [export = false] leaves the defaulted values where omission leaves them *)
Lemma no_deps_false_equiv o : o_no_deps o = None ->
  opts_equiv (mkOpts (Some false) (o_debug o) (o_export o) (o_future_send o) (o_mock_api o) (o_unimock o) (o_mockall o)) o.
Proof. intros H. unfold opts_equiv, no_deps_value, dflt. cbn. rewrite H. repeat split; reflexivity. Qed.

Lemma export_false_equiv o : o_export o = None ->
  opts_equiv (mkOpts (o_no_deps o) (o_debug o) (Some false) (o_future_send o) (o_mock_api o) (o_unimock o) (o_mockall o)) o.
Proof. intros H. unfold opts_equiv, export_value, dflt. cbn. rewrite H. repeat split; reflexivity. Qed.

Lemma debug_irrelevant o b :
  opts_equiv (mkOpts (o_no_deps o) b (o_export o) (o_future_send o) (o_mock_api o) (o_unimock o) (o_mockall o)) o.
Proof. unfold opts_equiv. cbn. repeat split; reflexivity. Qed.

(** the expansion of a fn / mod is the same for attributes that parse to equivalent options (under the
    plain [entrait] variant, where no default is injected) *)
Theorem fn_expansion_respects_equiv attr attr' a a' h s body :
  parse_fn_attr attr = Ok a -> parse_fn_attr attr' = Ok a' ->
  fa_vis a = fa_vis a' -> fa_trait a = fa_trait a' -> opts_equiv (fa_opts a) (fa_opts a') ->
  expand_items VEntrait attr (InFn h s body) = expand_items VEntrait attr' (InFn h s body).
Proof.
  intros H1 H2 Hv Ht He. cbn [expand_items]. rewrite H1, H2. cbn [rbind apply_variant]. unfold with_fn_opts. rewrite Hv, Ht.
  apply single_fn_respects_equiv. exact He.
Qed.

Theorem mod_expansion_respects_equiv attr attr' a a' h name body sigs sf :
  parse_fn_attr attr = Ok a -> parse_fn_attr attr' = Ok a' ->
  fa_vis a = fa_vis a' -> fa_trait a = fa_trait a' -> opts_equiv (fa_opts a) (fa_opts a') ->
  expand_items VEntrait attr (InMod h name body sigs sf) = expand_items VEntrait attr' (InMod h name body sigs sf).
Proof.
  intros H1 H2 Hv Ht He. cbn [expand_items]. destruct (h_unsafe h || h_auto h); [reflexivity|].
  destruct (split_body true sigs body) as [[items fl]| | |]; cbn [rbind]; try reflexivity.
  rewrite H1, H2. cbn [rbind apply_variant]. unfold with_fn_opts. rewrite Hv, Ht.
  apply mod_respects_equiv. exact He.
Qed.
