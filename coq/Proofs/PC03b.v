(** * C03, higher-ranked where predicates on the dependency: the [for<..>] binder is kept (F23) *)
From Coq Require Import List String Ascii Bool Arith Lia.
From Entrait Require Import Tok Syn Opts Split FnParams Convert Codegen Expand Proj Proj2 Proj3 ProjSide.
From Entrait.Proofs Require Import Base PC04.
Import ListNotations.
Local Open Scope list_scope.

Lemma with_binder_nil b : with_binder [] b = b.
Proof.
  unfold with_binder. destruct b as [|t r]; [reflexivity|].
  destruct t as [n|c|l|d ts]; try (destruct (takes_binder _); reflexivity).
  destruct d; try (destruct (takes_binder _); reflexivity).
  destruct r; destruct (takes_binder _); reflexivity.
Qed.

Lemma pred_bounds_no_binder lts w : wp_binder w = [] -> pred_bounds lts w = trait_bounds lts (wp_bounds w).
Proof.
  intros E. unfold pred_bounds. rewrite E. induction (trait_bounds lts (wp_bounds w)) as [|b l IH]; [reflexivity|].
  cbn [map]. rewrite with_binder_nil, IH. reflexivity.
Qed.

(** a bound that starts with a path gets the binder in front *)
Lemma with_binder_path binder b : takes_binder b = true -> with_binder binder b = binder ++ b.
Proof.
  intros H. unfold with_binder. destruct b as [|t r]; [discriminate H|].
  destruct t as [n|c|l|d ts]; try (rewrite H; reflexivity); discriminate H.
Qed.

(** a parenthesised bound gets it inside the parentheses *)
Lemma with_binder_paren binder inner : takes_binder inner = true ->
  with_binder binder [TG Paren inner] = [TG Paren (binder ++ inner)].
Proof. intros H. unfold with_binder. rewrite H. reflexivity. Qed.

(** lifetime bounds, bounds with a binder of their own and [use<..>] captures are copied unchanged *)
Lemma with_binder_other binder b : takes_binder b = false -> (forall inner, b <> [TG Paren inner]) -> with_binder binder b = b.
Proof.
  intros H Hp. unfold with_binder. destruct b as [|t r]; [reflexivity|].
  destruct t as [n|c|l|d ts]; try (rewrite H; reflexivity).
  destruct d; try (rewrite H; reflexivity).
  destruct r; [exfalso; eapply Hp; reflexivity | rewrite H; reflexivity].
Qed.

(** every trait bound of a higher-ranked predicate on the dependency reaches the dependency's bounds with the binder *)
Theorem hrtb_binder_kept tg g name d tg' w b :
  find_deps_generic_bounds tg g name = Some (d, tg') -> nodup_str (tparam_names g) = true ->
  In w (where_items g) -> wp_is_type w = true -> wp_bounded w = BPath false false 1 name ->
  In b (trait_bounds (life_names g) (wp_bounds w)) -> takes_binder b = true ->
  In (wp_binder w ++ b) (deps_bounds_of d).
Proof.
  intros H Hn Hw Ht Hb Hin Htb. rewrite (find_deps_bounds _ _ _ _ _ H Hn). cbn [deps_bounds_of].
  apply in_or_app. right. apply in_flat_map. exists w. split; [exact Hw|].
  unfold contrib. rewrite Ht, Hb, String.eqb_refl. unfold pred_bounds.
  apply in_map_iff. exists b. split; [apply with_binder_path; exact Htb | exact Hin].
Qed.

(** ... and nothing else is added: the dependency's bounds are its inline bounds and, predicate by predicate, the
    bounds of the predicates on it, each with that predicate's binder *)
Theorem deps_bounds_exact tg g name d tg' :
  find_deps_generic_bounds tg g name = Some (d, tg') -> nodup_str (tparam_names g) = true ->
  deps_bounds_of d = flat_map (pcontrib (life_names g) name) (p_items (g_params g)) ++ flat_map (contrib (life_names g) name) (where_items g).
Proof. intros H Hn. rewrite (find_deps_bounds _ _ _ _ _ H Hn). reflexivity. Qed.

(** ** which bounds of the dependency are carried to [Self: ..] (F16, F25) *)
Theorem trait_bounds_spec lts l b :
  In b (trait_bounds lts l) <-> In b l /\ is_relaxed b = false /\ is_fn_lifetime lts b = false.
Proof.
  unfold trait_bounds. rewrite filter_In. split.
  - intros [Hin H]. apply andb_true_iff in H as [H1 H2]. apply negb_true_iff in H1, H2. auto.
  - intros (Hin & H1 & H2). split; [exact Hin|]. rewrite H1, H2. reflexivity.
Qed.

(** the order of the carried bounds is the source order *)
Lemma trait_bounds_app lts l1 l2 : trait_bounds lts (l1 ++ l2) = trait_bounds lts l1 ++ trait_bounds lts l2.
Proof. unfold trait_bounds. apply filter_app. Qed.

(** a bound that is a lifetime parameter of the function is the two tokens ['a]; ['static] and other lifetimes stay *)
Lemma is_fn_lifetime_spec lts b : is_fn_lifetime lts b = true <-> exists n, b = [pc "'"; TId n] /\ In n lts.
Proof.
  split.
  - unfold is_fn_lifetime. destruct b as [|q [|u [|v r]]]; try discriminate; destruct u as [n| | |]; try discriminate.
    intros H. apply andb_true_iff in H as [H1 H2]. unfold is_p in H1. apply tt_eqb_eq in H1. subst q.
    exists n. split; [reflexivity | apply str_mem_In; exact H2].
  - intros (n & -> & Hin). unfold is_fn_lifetime, is_p. rewrite tt_eqb_refl. apply str_mem_In. exact Hin.
Qed.
