(** * C03, higher-ranked where predicates on the dependency: the [for<..>] binder is kept (F23) *)
From Coq Require Import List String Ascii Bool Arith Lia.
From Entrait Require Import Tok Syn Opts Split FnParams Convert Codegen Expand Proj Proj2 Proj3 ProjSide.
From Entrait.Proofs Require Import Base PC04.
Import ListNotations.
Local Open Scope list_scope.

Lemma with_binder_nil b : with_binder [] b = b.
Proof.
  unfold with_binder. destruct b as [|t r]; [reflexivity|].
  destruct t as [n|c|l|d ts]; try (destruct (takes_binder _); reflexivity).
  destruct d; try (destruct (takes_binder _); reflexivity).
  destruct r; destruct (takes_binder _); reflexivity.
Qed.

Lemma pred_bounds_no_binder w : wp_binder w = [] -> pred_bounds w = trait_bounds (wp_bounds w).
Proof.
  intros E. unfold pred_bounds. rewrite E. induction (trait_bounds (wp_bounds w)) as [|b l IH]; [reflexivity|].
  cbn [map]. rewrite with_binder_nil, IH. reflexivity.
Qed.

(** a bound that starts with a path gets the binder in front *)
Lemma with_binder_path binder b : takes_binder b = true -> with_binder binder b = binder ++ b.
Proof.
  intros H. unfold with_binder. destruct b as [|t r]; [discriminate H|].
  destruct t as [n|c|l|d ts]; try (rewrite H; reflexivity); discriminate H.
Qed.

(** a parenthesised bound gets it inside the parentheses *)
Lemma with_binder_paren binder inner : takes_binder inner = true ->
  with_binder binder [TG Paren inner] = [TG Paren (binder ++ inner)].
Proof. intros H. unfold with_binder. rewrite H. reflexivity. Qed.

(** lifetime bounds, bounds with a binder of their own and [use<..>] captures are copied unchanged *)
Lemma with_binder_other binder b : takes_binder b = false -> (forall inner, b <> [TG Paren inner]) -> with_binder binder b = b.
Proof.
  intros H Hp. unfold with_binder. destruct b as [|t r]; [reflexivity|].
  destruct t as [n|c|l|d ts]; try (rewrite H; reflexivity).
  destruct d; try (rewrite H; reflexivity).
  destruct r; [exfalso; eapply Hp; reflexivity | rewrite H; reflexivity].
Qed.

(** every trait bound of a higher-ranked predicate on the dependency reaches the dependency's bounds with the binder *)
Theorem hrtb_binder_kept tg g name d tg' w b :
  find_deps_generic_bounds tg g name = Some (d, tg') -> nodup_str (tparam_names g) = true ->
  In w (where_items g) -> wp_is_type w = true -> wp_bounded w = BPath false false 1 name ->
  In b (trait_bounds (wp_bounds w)) -> takes_binder b = true ->
  In (wp_binder w ++ b) (deps_bounds_of d).
Proof.
  intros H Hn Hw Ht Hb Hin Htb. rewrite (find_deps_bounds _ _ _ _ _ H Hn). cbn [deps_bounds_of].
  apply in_or_app. right. apply in_flat_map. exists w. split; [exact Hw|].
  unfold contrib. rewrite Ht, Hb, String.eqb_refl. unfold pred_bounds.
  apply in_map_iff. exists b. split; [apply with_binder_path; exact Htb | exact Hin].
Qed.

(** ... and nothing else is added: the dependency's bounds are its inline bounds and, predicate by predicate, the
    bounds of the predicates on it, each with that predicate's binder *)
Theorem deps_bounds_exact tg g name d tg' :
  find_deps_generic_bounds tg g name = Some (d, tg') -> nodup_str (tparam_names g) = true ->
  deps_bounds_of d = flat_map (pcontrib name) (p_items (g_params g)) ++ flat_map (contrib name) (where_items g).
Proof. intros H Hn. rewrite (find_deps_bounds _ _ _ _ _ H Hn). reflexivity. Qed.
