(** * NonVac: non-vacuity checks against invocations recorded from the real macro (Examples.v) *)
From Coq Require Import List String Ascii Bool.
From Entrait Require Import Tok Syn Decode Opts Expand Proj Examples.
Import ListNotations.

(** the model expands the recorded invocation to exactly the tokens the real macro emitted, and the
    property's view speaks about it *)
Definition nonvacuous (view : ctx -> list item -> view) (c : option case) : bool :=
  match c with
  | Some c =>
      match model_items c, real_tokens c with
      | Ok items, Some real =>
          toks_eqb (print_items items) real && v_app (view (mkCtx (case_variant c) (c_attr c) (c_input c)) items)
      | _, _ => false
      end
  | None => false
  end.
