(** * C20: what determinism of the expansion rests on *)
From Coq Require Import List String Ascii Bool Arith Lia.
From Entrait Require Import Tok Syn Opts Split FnParams Convert Codegen Expand.
From Entrait.Proofs Require Import Base PFnParams.
Import ListNotations.
Local Open Scope list_scope.

Definition same_set (a b : list string) : Prop := forall x, In x a <-> In x b.

Lemma str_mem_same_set a b x : same_set a b -> str_mem x a = str_mem x b.
Proof.
  intros H. destruct (str_mem x a) eqn:Ea, (str_mem x b) eqn:Eb; try reflexivity.
  - apply str_mem_In in Ea. apply H in Ea. apply str_mem_In in Ea. congruence.
  - apply str_mem_In in Eb. apply H in Eb. apply str_mem_In in Eb. congruence.
Qed.

(** The generated name is the first candidate that is not a member of the taken set: it depends on the
    set only (not on the order, multiplicity or hashing of its elements), given enough fuel on both sides. *)
Lemma generate_ident_same_set : forall fuel fuel' index att a b c c',
  same_set a b ->
  generate_ident fuel index att a = Some c -> generate_ident fuel' index att b = Some c' -> c = c'.
Proof.
  induction fuel as [|k IH]; intros fuel' index att a b c c' Hs H1 H2; [discriminate|].
  destruct fuel' as [|k']; [discriminate|]. simpl in H1, H2.
  rewrite (str_mem_same_set a b _ Hs) in H1.
  destruct (str_mem (candidate index att) b).
  - eapply IH; eassumption.
  - congruence.
Qed.

Theorem generate_ident_set_only index a b :
  same_set a b ->
  generate_ident (S (List.length a)) index 0 a = generate_ident (S (List.length b)) index 0 b.
Proof.
  intros Hs. destruct (generate_ident_total index a) as [c Hc]. destruct (generate_ident_total index b) as [c' Hc'].
  rewrite Hc, Hc'. f_equal. eapply generate_ident_same_set; eassumption.
Qed.

Lemma uniq_name_same_set : forall fuel fuel' name a b c c',
  same_set a b ->
  uniq_name fuel name a = Some c -> uniq_name fuel' name b = Some c' -> c = c'.
Proof.
  induction fuel as [|k IH]; intros fuel' name a b c c' Hs H1 H2.
  - cbn [uniq_name] in H1. destruct (str_mem (unraw name) a) eqn:E; [discriminate|]. injection H1 as <-.
    rewrite (str_mem_same_set a b _ Hs) in E. destruct fuel'; cbn [uniq_name] in H2; rewrite E in H2; congruence.
  - cbn [uniq_name] in H1. destruct (str_mem (unraw name) a) eqn:E.
    + rewrite (str_mem_same_set a b _ Hs) in E. destruct fuel' as [|k']; cbn [uniq_name] in H2; rewrite E in H2; [discriminate|].
      eapply IH; eassumption.
    + injection H1 as <-. rewrite (str_mem_same_set a b _ Hs) in E. destruct fuel'; cbn [uniq_name] in H2; rewrite E in H2; congruence.
Qed.

Theorem uniq_name_set_only name a b :
  same_set a b ->
  uniq_name (S (List.length a)) name a = uniq_name (S (List.length b)) name b.
Proof.
  intros Hs. destruct (uniq_name_total name a) as [c Hc]. destruct (uniq_name_total name b) as [c' Hc'].
  rewrite Hc, Hc'. f_equal. eapply uniq_name_same_set; eassumption.
Qed.

(** ** the model keeps no state between invocations: a sequence of invocations expands pointwise *)
Definition invocation := (variant * toks * input)%type.
Definition expand_one (x : invocation) : outcome := let '(v, a, i) := x in expand v a i.

Fixpoint expand_seq (l : list invocation) : list outcome :=
  match l with [] => [] | x :: r => expand_one x :: expand_seq r end.

Theorem expand_seq_pointwise l : expand_seq l = map expand_one l.
Proof. induction l; simpl; congruence. Qed.

Theorem expand_order_independent l l' x :
  In x l -> In x l' -> forall k k', nth_error l k = Some x -> nth_error l' k' = Some x ->
  nth_error (expand_seq l) k = nth_error (expand_seq l') k'.
Proof.
  intros _ _ k k' Hk Hk'. rewrite (expand_seq_pointwise l), (expand_seq_pointwise l'). rewrite (map_nth_error expand_one k l Hk). rewrite (map_nth_error expand_one k' l' Hk'). reflexivity.
Qed.
