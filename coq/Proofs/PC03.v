(** * C03: the emitted method is the source function seen as (receiver, arguments...) *)
From Coq Require Import List String Ascii Bool Arith Lia.
From Entrait Require Import Tok Syn Opts Split FnParams Convert Codegen Expand Proj Proj2 Proj3 Known.
From Entrait.Proofs Require Import Base Shapes PFnParams PC16 PC01 PC05.
Import ListNotations.
Local Open Scope list_scope.

(** ** the converted signature, field by field *)
Lemma same_shape_arg_types : forall l l', Forall2 same_shape l l' ->
  arg_types l = arg_types l'.
Proof.
  induction 1 as [|a b l l' Hab _ IH]; [reflexivity|].
  destruct a as [x r m c|x p t], b as [x' r' m' c'|x' p' t']; simpl in Hab; try contradiction; cbn [arg_types flat_map app].
  - exact IH.
  - destruct Hab as [_ ->]. unfold arg_types in IH. rewrite IH. reflexivity.
Qed.

Lemma arg_types_filter_typed l : arg_types (filter is_typed l) = arg_types l.
Proof. induction l as [|a l IH]; [reflexivity|]. destruct a; cbn; [exact IH | unfold arg_types in *; cbn; rewrite IH; reflexivity]. Qed.

Lemma arg_types_strip l : arg_types (map strip_arg_attrs l) = arg_types l.
Proof. induction l as [|a l IH]; [reflexivity|]. destruct a; cbn; [exact IH | unfold arg_types in *; cbn; rewrite IH; reflexivity]. Qed.

Lemma typed_args_filter s : typed_args s = filter is_typed (p_items (s_inputs s)).
Proof. unfold typed_args. apply filter_ext. intros [|]; reflexivity. Qed.

Lemma filter_life_idem l : filter is_life (filter is_life l) = filter is_life l.
Proof. induction l as [|p l IH]; [reflexivity|]. cbn. destruct (is_life p) eqn:E; cbn; rewrite ?E, IH; reflexivity. Qed.

Lemma convert_generics_params deps g :
  p_items (g_params (convert_generics deps g)) = filter is_life (p_items (g_params g)).
Proof. unfold convert_generics. destruct (filter is_life (p_items (g_params g))); reflexivity. Qed.

Definition keeps (deps : fn_deps) (w : wpred) : bool :=
  match deps with
  | DGeneric (Some name) _ => if wp_is_type w then negb (bounded_is_ident (wp_bounded w) name) else true
  | _ => true
  end.

Lemma convert_generics_where deps g :
  where_items (convert_generics deps g) = filter (keeps deps) (where_items g).
Proof.
  unfold convert_generics, where_items. fold (keeps deps).
  assert (H : forall w : option (punct wpred), (match w with Some p => p_items p | None => [] end) =
              match w with Some p => p_items p | None => [] end) by reflexivity.
  destruct (g_where g) as [p|]; destruct (filter is_life (p_items (g_params g))); cbn [g_where];
    try reflexivity; destruct (filter (keeps deps) (p_items p)); reflexivity.
Qed.

(** the dependency kind the documentation speaks of vs the model's classification *)
Lemma deps_kind_model tg s o d tg' :
  analyze_fn_deps tg s o = Ok (d, tg') ->
  match deps_kind (no_deps_value o) s with
  | DGeneric (Some n) _ => exists b, d = DGeneric (Some n) b
  | DGeneric None b => d = DGeneric None b
  | DConcrete _ => exists t, d = DConcrete t
  | DNoDeps => d = DNoDeps
  end.
Proof.
  intros H. destruct (analyze_deps_kind _ _ _ _ _ H) as [(_ & -> & ->)|(_ & _ & _ & Hk)]; [reflexivity|].
  unfold kind_agrees in Hk. destruct (deps_kind (no_deps_value o) s) as [[n|] b|t|].
  - destruct Hk as [_ Hk]. exact Hk.
  - destruct Hk as [-> _]. reflexivity.
  - destruct Hk as [-> _]. eexists; reflexivity.
  - contradiction.
Qed.

Lemma keeps_is_deps_pred tg s o d tg' w :
  analyze_fn_deps tg s o = Ok (d, tg') -> keeps d w = negb (is_deps_pred (no_deps_value o) s w).
Proof.
  intros H. pose proof (deps_kind_model _ _ _ _ _ H) as Hk. unfold keeps, is_deps_pred.
  destruct (deps_kind (no_deps_value o) s) as [[n|] b|t|].
  - destruct Hk as [b' ->]. destruct (wp_is_type w); reflexivity.
  - subst d. reflexivity.
  - destruct Hk as [t' ->]. reflexivity.
  - subst d. reflexivity.
Qed.

(** *** one function *)
Lemma c03_converted k o tg s tf tg' tparams :
  k = RSelfRef ->
  analyze k o tg s = Ok (tf, tg') ->
  c03_one (no_deps_value o) tparams s (tf_sig tf) = true /\
  (forall w, In w (where_items (s_gen s)) ->
     is_deps_pred (no_deps_value o) s w = true \/ In w (where_items (s_gen (tf_sig tf)))).
Proof.
  intros -> H. destruct (analyze_inv _ _ _ _ _ _ H) as (deps & s' & Ha & Hc & ->). cbn [tf_sig].
  destruct (convert_sig_inv _ _ _ _ Hc) as (inputs1 & args & Hg & Hf & ->).
  destruct (inputs1_shape _ _ _ _ _ _ _ Ha Hg) as (reference & Hp & Hd).
  destruct (fix_usable _ _ _ Hf) as (U1 & _).
  rewrite Hp in U1. cbn [gen_prefix app] in U1. inversion U1 as [|r0 a0 l0 args' Hr Hrest]; subst.
  destruct a0 as [x r m c|x p t]; cbn [same_shape self_receiver] in Hr; [|contradiction]. destruct Hr as (<- & <- & <- & <-).
  split.
  - unfold c03_one. cbn [s_inputs s_name s_gen s_unsafe s_const s_abi p_items].
    rewrite typed_args_filter. cbn [s_inputs p_items filter is_typed].
    unfold forwarded_src_args. rewrite !arg_types_filter_typed.
    rewrite <- (same_shape_arg_types _ _ Hrest), arg_types_strip, toks_list_eqb_refl.
    rewrite convert_generics_params, filter_life_idem, toks_list_eqb_refl, !Bool.eqb_reflx, opt_toks_eqb_refl, String.eqb_refl.
    cbn [andb].
    assert (Hrecv : match expected_receiver (no_deps_value o) s with
                    | Some r => toks_eqb (print_fnarg r) (print_fnarg (ArgRecv [] reference false None))
                    | None => false
                    end = true).
    { unfold expected_receiver.
      destruct (analyze_fn_deps_cases _ _ _ _ _ Ha) as [[Hn ->]|(Hn & Hdn & x & p & ty & rest & Hi & _)]; rewrite Hn.
      - destruct (generate_params_items _ _ _ _ Hg) as [[_ Hp']|[(Hx & _)|(Hx & _)]]; try congruence.
        rewrite Hp' in Hp. cbn [gen_prefix app] in Hp. injection Hp as <- _. apply toks_eqb_refl.
      - destruct (generate_params_items _ _ _ _ Hg) as [[Hx _]|[(_ & He & _)|(_ & x' & p' & ty' & rest' & Hi' & Hp')]]; try congruence.
        + unfold stripped_inputs in He. cbn [p_items] in He. rewrite Hi in He. discriminate.
        + rewrite Hp' in Hp. cbn [gen_prefix app] in Hp. injection Hp as <- _.
          unfold stripped_inputs. cbn [p_items]. rewrite Hi. cbn [map strip_arg_attrs first_ref].
          destruct ty; apply toks_eqb_refl. }
    destruct (expected_receiver (no_deps_value o) s); [|discriminate]. rewrite Hrecv. cbn [andb].
    apply forallb_forall. intros p Hin. apply filter_In in Hin as [_ Hl]. rewrite Hl. apply orb_true_r.
  - intros w Hw. cbn [s_gen]. rewrite convert_generics_where.
    destruct (is_deps_pred (no_deps_value o) s w) eqn:E; [left; reflexivity|right].
    apply filter_In. split; [exact Hw|]. rewrite (keeps_is_deps_pred _ _ _ _ _ w Ha), E. reflexivity.
Qed.

(** ** what a function adds to the trait's generic parameters *)
Definition nonlife (p : gparam) : bool := negb (is_life p).

Fixpoint remove_first_tparam (name : string) (l : list gparam) : list gparam :=
  match l with
  | [] => []
  | p :: r =>
      match gp_kind p with
      | GType => if String.eqb (gp_name p) name then filter nonlife r else p :: remove_first_tparam name r
      | GLife => remove_first_tparam name r
      | GConst => p :: remove_first_tparam name r
      end
  end.

Definition lifted_of (nd : bool) (s : sig) : list gparam :=
  match deps_kind nd s with
  | DGeneric (Some n) _ => remove_first_tparam n (p_items (g_params (s_gen s)))
  | _ => filter nonlife (p_items (g_params (s_gen s)))
  end.

Lemma push_others_past : forall l i0 skip tg, skip < i0 ->
  tg_params (push_others l i0 skip tg) = tg_params tg ++ filter nonlife l.
Proof.
  induction l as [|p l IH]; intros i0 skip tg H; cbn [push_others filter]; [rewrite app_nil_r; reflexivity|].
  assert (E : (i0 =? skip) = false) by (apply Nat.eqb_neq; lia). rewrite E. cbn [orb]. unfold nonlife at 1.
  destruct (is_life p); cbn [negb]; rewrite IH by lia; [reflexivity|].
  unfold tg_push_param. cbn [tg_params]. rewrite <- app_assoc. reflexivity.
Qed.

Lemma find_type_param_ge name : forall l i j q, find_type_param name l i = Some (j, q) -> i <= j.
Proof.
  induction l as [|x l IHl]; intros i j q Hf; cbn in Hf; [discriminate|].
  destruct (gp_kind x); [apply IHl in Hf; lia | destruct (String.eqb (gp_name x) name); [injection Hf as <- _; lia | apply IHl in Hf; lia] | apply IHl in Hf; lia].
Qed.

Lemma push_others_found name : forall l i0 skip p0 tg,
  find_type_param name l i0 = Some (skip, p0) ->
  tg_params (push_others l i0 skip tg) = tg_params tg ++ remove_first_tparam name l.
Proof.
  induction l as [|p l IH]; intros i0 skip p0 tg H; cbn [find_type_param] in H; [discriminate|].
  cbn [push_others remove_first_tparam].
  destruct (gp_kind p) eqn:Ek.
  - (* lifetime *) assert (Hl : is_life p = true) by (unfold is_life; rewrite Ek; reflexivity). rewrite Hl, orb_true_r.
    apply (IH _ _ _ _ H).
  - (* type *) assert (Hl : is_life p = false) by (unfold is_life; rewrite Ek; reflexivity). rewrite Hl, orb_false_r.
    destruct (String.eqb (gp_name p) name).
    + injection H as <- <-. rewrite Nat.eqb_refl. apply push_others_past. lia.
    + assert (Hne : (i0 =? skip) = false).
      { apply Nat.eqb_neq. intros ->. apply find_type_param_ge in H. lia. }
      rewrite Hne. rewrite (IH _ _ _ _ H). unfold tg_push_param. cbn [tg_params]. rewrite <- app_assoc. reflexivity.
  - (* const *) assert (Hl : is_life p = false) by (unfold is_life; rewrite Ek; reflexivity). rewrite Hl, orb_false_r.
    assert (Hne : (i0 =? skip) = false).
    { apply Nat.eqb_neq. intros ->. apply find_type_param_ge in H. lia. }
    rewrite Hne. rewrite (IH _ _ _ _ H). unfold tg_push_param. cbn [tg_params]. rewrite <- app_assoc. reflexivity.
Qed.

Lemma lift_where_params lts tg w : tg_params (lift_where lts tg w) = tg_params tg.
Proof. unfold lift_where. destruct (mentions_lifetime lts (wp_toks w)); reflexivity. Qed.

Lemma deps_where_step_params lts name : forall ws b tg,
  tg_params (snd (fold_left (deps_where_step lts name) ws (b, tg))) = tg_params tg.
Proof.
  induction ws as [|w ws IH]; intros b tg; cbn [fold_left]; [reflexivity|].
  destruct (deps_where_step lts name (b, tg) w) as [b' tg1] eqn:E. rewrite IH.
  unfold deps_where_step in E. destruct (wp_is_type w); [|injection E as _ <-; apply lift_where_params].
  destruct (wp_bounded w) as [q lead n f|]; [|injection E as _ <-; apply lift_where_params].
  destruct (q || lead); [injection E as _ <-; apply lift_where_params|].
  destruct (negb (n =? 1)); [injection E as _ <-; apply lift_where_params|].
  destruct (String.eqb f name); injection E as _ <-; reflexivity.
Qed.

Lemma deps_with_generics_params' tg g : tg_params (deps_with_generics tg g) = tg_params tg ++ filter nonlife (p_items (g_params g)).
Proof. rewrite PC05.deps_with_generics_params. reflexivity. Qed.

Lemma analyze_params tg s o d tg' :
  analyze_fn_deps tg s o = Ok (d, tg') ->
  tg_params tg' = tg_params tg ++ lifted_of (no_deps_value o) s.
Proof.
  intros H. unfold lifted_of. destruct (analyze_deps_kind _ _ _ _ _ H) as [(Hn & -> & Hk)|(_ & _ & _ & Hk)].
  - rewrite Hk. destruct (analyze_fn_deps_nodeps _ _ _ _ _ Hn H) as (_ & -> & _). apply deps_with_generics_params'.
  - unfold kind_agrees in Hk. destruct (deps_kind (no_deps_value o) s) as [[n|] b|t|].
    + destruct Hk as [Hf _]. unfold find_deps_generic_bounds in Hf.
      destruct (find_type_param n (p_items (g_params (s_gen s))) 0) as [[idx p]|] eqn:F; [|discriminate].
      destruct (fold_left (deps_where_step (life_names (s_gen s)) n) (where_items (s_gen s)) (trait_bounds (life_names (s_gen s)) (gp_bounds p), push_others (p_items (g_params (s_gen s))) 0 idx tg)) as [bounds tg2] eqn:E.
      injection Hf as _ <-.
      pose proof (deps_where_step_params (life_names (s_gen s)) n (where_items (s_gen s)) (trait_bounds (life_names (s_gen s)) (gp_bounds p)) (push_others (p_items (g_params (s_gen s))) 0 idx tg)) as Hp.
      rewrite E in Hp. cbn [snd] in Hp. rewrite Hp. apply (push_others_found n _ _ _ _ _ F).
    + destruct Hk as [_ ->]. apply deps_with_generics_params'.
    + destruct Hk as (_ & _ & ->). apply deps_with_generics_params'.
    + contradiction.
Qed.

(** every type / const parameter of the source other than the dependency generic is lifted *)
Lemma lifted_covers nd s p :
  In p (p_items (g_params (s_gen s))) -> is_life p = false ->
  is_deps_param nd s p = true \/ In (gp_name p) (map gp_name (lifted_of nd s)).
Proof.
  intros Hin Hl. unfold lifted_of, is_deps_param. destruct (deps_kind nd s) as [[n|] b|t|];
    try (right; apply in_map; apply filter_In; split; [exact Hin | unfold nonlife; rewrite Hl; reflexivity]).
  revert Hin. generalize (p_items (g_params (s_gen s))) as l. induction l as [|q l IH]; intros Hin; [destruct Hin|].
  cbn [remove_first_tparam]. destruct Hin as [->|Hin].
  - destruct (gp_kind p) eqn:Ek.
    + unfold is_life in Hl. rewrite Ek in Hl. discriminate.
    + destruct (String.eqb (gp_name p) n); [left; reflexivity | right; left; reflexivity].
    + right. left. reflexivity.
  - destruct (gp_kind q) eqn:Ek.
    + apply IH. exact Hin.
    + destruct (String.eqb (gp_name q) n).
      * right. apply in_map. apply filter_In. split; [exact Hin | unfold nonlife; rewrite Hl; reflexivity].
      * destruct (IH Hin) as [?|?]; [left; assumption | right; right; assumption].
    + destruct (IH Hin) as [?|?]; [left; assumption | right; right; assumption].
Qed.

(** the lifted parameters are the non-lifetime parameters minus at most one *)
Lemma nonlife_kind p : nonlife p = match gp_kind p with GLife => false | _ => true end.
Proof. unfold nonlife, is_life. destruct (gp_kind p); reflexivity. Qed.

Lemma remove_first_tparam_split name : forall l,
  remove_first_tparam name l = filter nonlife l \/
  exists pre p0 post, filter nonlife l = pre ++ p0 :: post /\ remove_first_tparam name l = pre ++ post /\ gp_name p0 = name.
Proof.
  induction l as [|p l IH]; [left; reflexivity|]. cbn [remove_first_tparam filter]. rewrite nonlife_kind.
  destruct (gp_kind p) eqn:Ek.
  - exact IH.
  - destruct (String.eqb (gp_name p) name) eqn:En.
    + right. exists [], p, (filter nonlife l). apply String.eqb_eq in En. auto.
    + destruct IH as [->|(pre & p0 & post & E1 & E2 & E3)]; [left; reflexivity|].
      right. exists (p :: pre), p0, post. rewrite E1, E2. auto.
  - destruct IH as [->|(pre & p0 & post & E1 & E2 & E3)]; [left; reflexivity|].
    right. exists (p :: pre), p0, post. rewrite E1, E2. auto.
Qed.

Lemma lifted_nodup nd s : src_generics_nodup s = true -> NoDup (map gp_name (lifted_of nd s)).
Proof.
  unfold src_generics_nodup. intros H. apply nodup_str_NoDup in H. fold nonlife in H. unfold lifted_of.
  destruct (deps_kind nd s) as [[n|] b|t|]; try exact H.
  destruct (remove_first_tparam_split n (p_items (g_params (s_gen s)))) as [->|(pre & p0 & post & E1 & -> & _)]; [exact H|].
  rewrite E1, map_app in H. cbn [map] in H. rewrite map_app. eapply NoDup_remove_1. exact H.
Qed.

Lemma filter_neq_notin n : forall l, ~ In n l -> filter (fun x => negb (String.eqb n x)) l = l.
Proof.
  induction l as [|x l IH]; intros H; [reflexivity|]. cbn. destruct (String.eqb n x) eqn:E.
  - apply String.eqb_eq in E. subst. exfalso. apply H. left. reflexivity.
  - cbn. rewrite IH; [reflexivity | intros Hin; apply H; right; exact Hin].
Qed.


(** ** under distinct names, what is lifted is what [Known.lifted_names] computes *)
Lemma deps_kind_of_type_some g : forall ty n b,
  deps_kind_of_type g ty = DGeneric (Some n) b ->
  existsb (fun p => match gp_kind p with GType => String.eqb (gp_name p) n | _ => false end) (p_items (g_params g)) = true.
Proof.
  induction ty as [l m e IH|e IH|tr bs|q lead k f ts|ts]; intros n b H; cbn [deps_kind_of_type] in H; try discriminate; eauto.
  destruct q; try discriminate. destruct lead; try discriminate.
  destruct k as [|[|k]]; try discriminate.
  destruct (existsb _ _) eqn:E in H; [|discriminate]. injection H as <- _. exact E.
Qed.

Lemma deps_kind_some nd s n b : deps_kind nd s = DGeneric (Some n) b ->
  existsb (fun p => match gp_kind p with GType => String.eqb (gp_name p) n | _ => false end) (p_items (g_params (s_gen s))) = true.
Proof.
  unfold deps_kind. destruct nd; [discriminate|]. destruct (p_items (s_inputs s)) as [|[x r m c|x p ty] rest]; try discriminate.
  apply deps_kind_of_type_some.
Qed.

Lemma remove_first_tparam_found name : forall l,
  existsb (fun p => match gp_kind p with GType => String.eqb (gp_name p) name | _ => false end) l = true ->
  exists pre p0 post, filter nonlife l = pre ++ p0 :: post /\ remove_first_tparam name l = pre ++ post /\ gp_name p0 = name.
Proof.
  induction l as [|p l IH]; intros H; [discriminate|]. cbn [existsb remove_first_tparam filter] in *. rewrite nonlife_kind.
  destruct (gp_kind p) eqn:Ek.
  - cbn [orb] in H. exact (IH H).
  - destruct (String.eqb (gp_name p) name) eqn:En.
    + exists [], p, (filter nonlife l). apply String.eqb_eq in En. auto.
    + cbn [orb] in H. destruct (IH H) as (pre & p0 & post & E1 & E2 & E3). exists (p :: pre), p0, post. rewrite E1, E2. auto.
  - cbn [orb] in H. destruct (IH H) as (pre & p0 & post & E1 & E2 & E3). exists (p :: pre), p0, post. rewrite E1, E2. auto.
Qed.

Lemma flat_names_nl l : flat_map (fun p => if is_life p then [] else [gp_name p]) l = map gp_name (filter nonlife l).
Proof.
  induction l as [|p l IH]; [reflexivity|]. cbn [flat_map filter]. unfold nonlife at 1.
  destruct (is_life p); cbn [negb]; [exact IH | cbn [map app]; f_equal; exact IH].
Qed.

Lemma lifted_names_eq nd s : src_generics_nodup s = true -> lifted_names nd s = map gp_name (lifted_of nd s).
Proof.
  unfold src_generics_nodup. intros H. apply nodup_str_NoDup in H. fold nonlife in H. unfold lifted_names, lifted_of.
  destruct (deps_kind nd s) as [[n|] b|t|] eqn:Ek.
  - assert (Hgen : forall l, flat_map (fun p => if is_life p then [] else if String.eqb n (gp_name p) then [] else [gp_name p]) l
                             = filter (fun x => negb (String.eqb n x)) (map gp_name (filter nonlife l))).
    { induction l as [|p l IH]; [reflexivity|]. cbn [flat_map filter]. unfold nonlife at 1. destruct (is_life p); cbn [negb]; [exact IH|].
      cbn [map filter]. destruct (String.eqb n (gp_name p)); cbn [negb app]; rewrite IH; reflexivity. }
    rewrite Hgen.
    destruct (remove_first_tparam_found n _ (deps_kind_some _ _ _ _ Ek)) as (pre & p0 & post & E1 & E2 & E3).
    rewrite E1, E2 in *. rewrite !map_app in *. cbn [map] in *. rewrite E3 in *.
    rewrite filter_app. cbn [filter]. rewrite String.eqb_refl. cbn [negb].
    apply NoDup_remove_2 in H.
    rewrite !filter_neq_notin; [reflexivity| |]; intros Hin; apply H; apply in_or_app; [right|left]; exact Hin.
  - apply flat_names_nl.
  - apply flat_names_nl.
  - apply flat_names_nl.
Qed.

(** ** no lifted where predicate names a lifetime parameter of its function *)
Section NoLifetime.
  Variable lts : list string.
  Definition okw (w : wpred) : Prop := mentions_lifetime lts (wp_toks w) = false.
  Definition winv_lt (tg : trait_generics) : Prop := Forall okw (p_items (tg_where tg)).

  Lemma lift_ok tg w : winv_lt tg -> winv_lt (lift_where lts tg w).
  Proof.
    unfold winv_lt, lift_where. intros H. destruct (mentions_lifetime lts (wp_toks w)) eqn:E; [exact H|].
    unfold tg_push_where, p_push. cbn [tg_where p_items]. apply Forall_app. split; [exact H | constructor; [exact E | constructor]].
  Qed.

  Lemma fold_lift_ok : forall ws tg, winv_lt tg -> winv_lt (fold_left (lift_where lts) ws tg).
  Proof. induction ws as [|w ws IH]; intros tg H; cbn [fold_left]; [exact H|]. apply IH. apply lift_ok. exact H. Qed.

  Lemma fold_params_ok : forall ps tg, winv_lt tg ->
    winv_lt (fold_left (fun acc p => if is_life p then acc else tg_push_param acc p) ps tg).
  Proof. induction ps as [|p ps IH]; intros tg H; cbn [fold_left]; [exact H|]. apply IH. destruct (is_life p); exact H. Qed.

  Lemma push_others_ok : forall l idx skip tg, winv_lt tg -> winv_lt (push_others l idx skip tg).
  Proof.
    induction l as [|p l IH]; intros idx skip tg H; cbn [push_others]; [exact H|]. apply IH.
    destruct (Nat.eqb idx skip || is_life p); exact H.
  Qed.

  Lemma where_step_ok name b tg w : winv_lt tg -> winv_lt (snd (deps_where_step lts name (b, tg) w)).
  Proof.
    intros H. unfold deps_where_step. destruct (wp_is_type w); [|apply lift_ok; exact H].
    destruct (wp_bounded w) as [q l ns f|]; [|apply lift_ok; exact H].
    destruct (q || l); [apply lift_ok; exact H|]. destruct (negb (Nat.eqb ns 1)); [apply lift_ok; exact H|].
    destruct (String.eqb f name); exact H.
  Qed.

  Lemma fold_step_ok name : forall ws b tg, winv_lt tg -> winv_lt (snd (fold_left (deps_where_step lts name) ws (b, tg))).
  Proof.
    induction ws as [|w ws IH]; intros b tg H; cbn [fold_left]; [exact H|].
    pose proof (where_step_ok name b tg w H) as Hs. destruct (deps_where_step lts name (b, tg) w) as [b' tg']. apply IH. exact Hs.
  Qed.
End NoLifetime.

Lemma deps_with_generics_ok tg g : winv_lt (life_names g) tg -> winv_lt (life_names g) (deps_with_generics tg g).
Proof. intros H. unfold deps_with_generics. apply fold_lift_ok. apply fold_params_ok. exact H. Qed.

Lemma extract_ok_lt g : forall ty tg d tg',
  extract_deps_from_type tg g ty = Ok (d, tg') -> winv_lt (life_names g) tg -> winv_lt (life_names g) tg'.
Proof.
  induction ty as [l m e IH|e IH|tr bs|q lead n f ts|ts]; intros tg d tg' H Hi; cbn [extract_deps_from_type] in H.
  - eapply IH; eassumption.
  - eapply IH; eassumption.
  - injection H as _ <-. apply deps_with_generics_ok. exact Hi.
  - destruct q; [discriminate|]. destruct lead; [discriminate|].
    destruct (negb (Nat.eqb n 1)); [injection H as _ <-; apply deps_with_generics_ok; exact Hi|].
    destruct (find_deps_generic_bounds tg g f) as [[d0 tg0]|] eqn:E.
    + injection H as _ <-. unfold find_deps_generic_bounds in E.
      destruct (find_type_param f (p_items (g_params g)) 0) as [[idx p]|]; [|discriminate].
      pose proof (fold_step_ok (life_names g) f (where_items g) (trait_bounds (life_names g) (gp_bounds p)) _ (push_others_ok (life_names g) (p_items (g_params g)) 0 idx tg Hi)) as Hs.
      destruct (fold_left _ _ _) as [b t2]. injection E as _ <-. exact Hs.
    + injection H as _ <-. apply deps_with_generics_ok. exact Hi.
  - injection H as _ <-. apply deps_with_generics_ok. exact Hi.
Qed.

Lemma analyze_fn_deps_ok_lt tg s o d tg' :
  analyze_fn_deps tg s o = Ok (d, tg') -> winv_lt (life_names (s_gen s)) tg -> winv_lt (life_names (s_gen s)) tg'.
Proof.
  unfold analyze_fn_deps. intros H Hi. destruct (no_deps_value o).
  - destruct (p_items (s_inputs s)) as [|[x r m c|x p ty] rest]; try discriminate H; injection H as _ <-; apply deps_with_generics_ok; exact Hi.
  - destruct (p_items (s_inputs s)) as [|[x r m c|x p ty] rest]; try discriminate H. eapply extract_ok_lt; eassumption.
Qed.

(** ** lists of functions *)
Lemma analyze_all_params k o : forall sigs tg fns tg',
  analyze_all k o tg sigs = Ok (fns, tg') ->
  tg_params tg' = tg_params tg ++ flat_map (lifted_of (no_deps_value o)) sigs.
Proof.
  induction sigs as [|s sigs IH]; intros tg fns tg' H; cbn [analyze_all] in H.
  - injection H as _ <-. rewrite app_nil_r. reflexivity.
  - destruct (rbind_ok _ _ _ H) as [[tf tg1] [E H1]]. cbv beta in H1.
    destruct (rbind_ok _ _ _ H1) as [[tfs tg2] [E2 H2]]. cbv beta in H2. injection H2 as _ <-.
    destruct (analyze_inv _ _ _ _ _ _ E) as (deps & s' & Ha & _ & _).
    rewrite (IH _ _ _ E2), (analyze_params _ _ _ _ _ Ha). cbn [flat_map]. rewrite <- app_assoc. reflexivity.
Qed.

Lemma c03_one_trait nd tp s x subs o : c03_one nd tp s (make_trait_fn_sig x subs o) = c03_one nd tp s x.
Proof. unfold make_trait_fn_sig. destruct (s_async x && negb (contains_async_trait subs)); reflexivity. Qed.

Lemma make_trait_fn_sig_gen x subs o : s_gen (make_trait_fn_sig x subs o) = s_gen x.
Proof. unfold make_trait_fn_sig. destruct (s_async x && negb (contains_async_trait subs)); reflexivity. Qed.

Lemma existsb_toks_in (t : toks) l : In t l -> existsb (toks_eqb t) l = true.
Proof. intros H. apply existsb_exists. exists t. split; [exact H | apply toks_eqb_refl]. Qed.

Lemma c03_carried_fn o tg s tf tg' tparams twhere out :
  analyze RSelfRef o tg s = Ok (tf, tg') ->
  s_gen out = s_gen (tf_sig tf) ->
  incl (map gp_name (lifted_of (no_deps_value o) s)) (gparam_names tparams) ->
  c03_carried (no_deps_value o) tparams twhere s out = true.
Proof.
  intros H Hg Hincl. destruct (c03_converted _ _ _ _ _ _ [] eq_refl H) as [_ Hw].
  unfold c03_carried. apply andb_true_iff. split; apply forallb_forall.
  - intros w Hin. destruct (Hw w Hin) as [->|Hin']; [reflexivity|]. apply orb_true_iff. right.
    apply existsb_toks_in. rewrite map_app. apply in_or_app. right. rewrite Hg. apply in_map. exact Hin'.
  - intros p Hin. destruct (is_life p) eqn:El; [reflexivity|]. cbn [orb].
    destruct (lifted_covers (no_deps_value o) s p Hin El) as [->|Hn]; [reflexivity|].
    apply orb_true_iff. right. apply str_mem_In. apply Hincl. exact Hn.
Qed.

Lemma c03_lists o subs : forall sigs tg fns tg' tparams tparams' twhere twhere',
  analyze_all RSelfRef o tg sigs = Ok (fns, tg') ->
  (forall s, In s sigs -> incl (map gp_name (lifted_of (no_deps_value o) s)) (gparam_names tparams)) ->
  (forall s, In s sigs -> incl (map gp_name (lifted_of (no_deps_value o) s)) (gparam_names tparams')) ->
  c03_all (no_deps_value o) tparams sigs (map (fun tf => make_trait_fn_sig (tf_sig tf) subs o) fns) = true /\
  c03_all (no_deps_value o) tparams sigs (map tf_sig fns) = true /\
  c03_carried_all (no_deps_value o) tparams twhere sigs (map (fun tf => make_trait_fn_sig (tf_sig tf) subs o) fns) = true /\
  c03_carried_all (no_deps_value o) tparams' twhere' sigs (map tf_sig fns) = true.
Proof.
  induction sigs as [|s sigs IH]; intros tg fns tg' tparams tparams' twhere twhere' H Hi Hi'; cbn [analyze_all] in H.
  - injection H as <- _. repeat split; reflexivity.
  - destruct (rbind_ok _ _ _ H) as [[tf tg1] [E H1]]. cbv beta in H1.
    destruct (rbind_ok _ _ _ H1) as [[tfs tg2] [E2 H2]]. cbv beta in H2. injection H2 as <- _.
    destruct (IH _ _ _ tparams tparams' twhere twhere' E2 (fun x Hx => Hi x (or_intror Hx)) (fun x Hx => Hi' x (or_intror Hx))) as (I1 & I2 & I3 & I4).
    destruct (c03_converted _ _ _ _ _ _ tparams eq_refl E) as [C1 _].
    cbn [map c03_all c03_carried_all]. rewrite c03_one_trait, C1, I1, I2, I3, I4.
    rewrite (c03_carried_fn _ _ _ _ _ tparams twhere _ E (make_trait_fn_sig_gen _ _ _) (Hi s (or_introl eq_refl))).
    rewrite (c03_carried_fn _ _ _ _ _ tparams' twhere' _ E eq_refl (Hi' s (or_introl eq_refl))).
    repeat split; reflexivity.
Qed.

Lemma incl_flat_map {A B} (f : A -> list B) l x : In x l -> incl (f x) (flat_map f l).
Proof. intros H y Hy. apply in_flat_map. exists x. auto. Qed.

Lemma gparam_names_app a b : gparam_names (a ++ b) = gparam_names a ++ gparam_names b.
Proof. unfold gparam_names. apply map_app. Qed.

Lemma gparam_names_flat (f : sig -> list gparam) l : gparam_names (flat_map f l) = flat_map (fun s => map gp_name (f s)) l.
Proof. unfold gparam_names. induction l as [|x l IH]; [reflexivity|]. cbn [flat_map]. rewrite map_app, IH. reflexivity. Qed.

Lemma t_gen_params o ti mode subs lit v name tg colon supers fns im :
  p_items (g_params (t_gen (gen_trait_def o ti mode subs lit v name tg colon supers fns im))) = tg_params tg.
Proof. reflexivity. Qed.

Lemma lifted_names_flat nd : forall sigs, forallb src_generics_nodup sigs = true ->
  flat_map (lifted_names nd) sigs = flat_map (fun s => map gp_name (lifted_of nd s)) sigs.
Proof.
  induction sigs as [|s sigs IH]; intros H; [reflexivity|]. cbn [forallb] in H. apply andb_true_iff in H as [H1 H2].
  cbn [flat_map]. rewrite (lifted_names_eq nd s H1), (IH H2). reflexivity.
Qed.

(** ** the view *)
Lemma c03_view v attr i items :
  expand_items v attr i = Ok items -> known_C03 (mkCtx v attr i) = false -> good (view_C03 (mkCtx v attr i) items).
Proof.
  intros H Hk. destruct i as [h s body|h|h t|h|h tp st body sigs sf|h|h name body sigs sf|h|]; try discriminate H.
  - (* fn *)
    destruct (expand_fn_inv _ _ _ _ _ _ H) as (a & tf & tg & mode & ib & Ha & Hz & _ & Hib & ->).
    destruct (gen_impl_block_fns _ _ _ _ _ _ _ _ _ Hib) as (argss & Fa & Hfns & _ & _ & _ & Hgen & _).
    unfold view_C03, good, fn_opts. cbn [x_input x_attr x_variant source_fns]. rewrite parts_fn, Ha.
    fold (merged_sig h s). cbn [map forallb].
    destruct (src_generics_nodup (merged_sig h s)) eqn:Hnd; cbn [negb andb]; [|cbn; discriminate].
    cbn [decided v_app v_det v_holds]. intros _. split; [reflexivity|].
    rewrite trait_sigs_gen_trait_def, Hfns, t_gen_params, Hgen.
    inversion Fa as [|? args ? ? Hc Fa']; subst. inversion Fa'; subst. cbn [map combine snd].
    set (o := apply_variant v (fa_opts a)) in *.
    assert (Hall : analyze_all RSelfRef o empty_tg [merged_sig h s] = Ok ([tf], tg)) by (cbn; rewrite Hz; reflexivity).
    pose proof (analyze_all_params _ _ _ _ _ _ Hall) as Hp. cbn [empty_tg tg_params app flat_map] in Hp. rewrite app_nil_r in Hp.
    assert (Hi : forall s0, In s0 [merged_sig h s] -> incl (map gp_name (lifted_of (no_deps_value o) s0)) (gparam_names (tg_params tg))).
    { intros s0 [<-|[]]. rewrite Hp. apply incl_refl. }
    assert (Hi' : forall s0, In s0 [merged_sig h s] -> incl (map gp_name (lifted_of (no_deps_value o) s0))
                    (gparam_names (p_items (p_of_list (impl_params (with_t_of mode) (has_any_self_by_value [tf]) (tg_params tg)))))).
    { intros s0 Hs0. cbn [p_of_list p_items]. unfold impl_params. rewrite gparam_names_app. apply incl_appr. exact (Hi s0 Hs0). }
    destruct (c03_lists o (h_attrs h) _ _ _ _ (tg_params tg) _ (where_items (t_gen (gen_trait_def o TPlain mode (h_attrs h) None (fa_vis a) (fa_trait a) tg false pempty [tf] MSingleFn)))
                (where_items (mkGen true (p_of_list (impl_params (with_t_of mode) (has_any_self_by_value [tf]) (tg_params tg))) (where_of_list (impl_where mode INone [tf] tg))))
                Hall Hi Hi') as (I1 & I2 & I3 & I4).
    cbn [map] in I1, I2, I3, I4. cbn [g_params]. rewrite I1, I2, I3, I4. cbn [andb].
    assert (Hlt : forallb (fun w => negb (mentions_lifetime (life_names (s_gen s)) (wp_toks w)))
                    (where_items (t_gen (gen_trait_def o TPlain mode (h_attrs h) None (fa_vis a) (fa_trait a) tg false pempty [tf] MSingleFn))) = true).
    { destruct (analyze_inv _ _ _ _ _ _ Hz) as (deps & s' & Hd & _ & _).
      pose proof (analyze_fn_deps_ok_lt _ _ _ _ _ Hd (Forall_nil _)) as Hw. change (s_gen (merged_sig h s)) with (s_gen s) in Hw.
      unfold gen_trait_def, where_items. cbn [t_gen g_where]. unfold winv_lt in Hw.
      destruct (p_items (tg_where tg)) eqn:Ew; [reflexivity|]. rewrite Ew.
      apply forallb_forall. intros w0 Hin. rewrite Forall_forall in Hw. unfold okw in Hw. rewrite (Hw w0 Hin). reflexivity. }
    rewrite Hlt. cbn [andb].
    rewrite Hp. apply nodup_str_NoDup. apply lifted_nodup. exact Hnd.
  - unfold view_C03, good. cbn. discriminate.
  - unfold view_C03, good. cbn. discriminate.
  - (* mod *)
    destruct (expand_mod_inv _ _ _ _ _ _ _ _ H) as (_ & bitems & fl & a & fns0 & tg & mode & ib & Hs & Ha & Hz & _ & Hib & ->).
    destruct (gen_impl_block_fns _ _ _ _ _ _ _ _ _ Hib) as (argss & Fa & Hfns & _ & _ & _ & Hgen & _).
    unfold known_C03, fn_opts in Hk. cbn [x_input x_attr x_variant source_fns] in Hk. rewrite Hs, Ha in Hk.
    unfold view_C03, good, fn_opts. cbn [x_input x_attr x_variant source_fns]. rewrite Hs, parts_mod, Ha.
    set (o := apply_variant v (fa_opts a)) in *.
    rewrite map_sig_of_body_fns.
    destruct (forallb src_generics_nodup (map sig_of (body_fns bitems))) eqn:Hnd; cbn [negb]; [|cbn; discriminate].
    cbn [decided v_app v_det v_holds]. intros _. split; [reflexivity|].
    rewrite trait_sigs_gen_trait_def, Hfns, t_gen_params, Hgen.
    rewrite impl_fns_sigs; [|apply (Forall2_length' _ _ _ Fa)|intros tf args; reflexivity].
    rewrite map_map. cbn [snd].
    rewrite <- (map_map tf_sig (fun s => make_trait_fn_sig s (h_attrs h) o)).
    rewrite with_cfg_attrs_sigs, map_map.
    pose proof (analyze_all_params _ _ _ _ _ _ Hz) as Hp. cbn [empty_tg tg_params app] in Hp.
    assert (Hi : forall s0, In s0 (map sig_of (body_fns bitems)) -> incl (map gp_name (lifted_of (no_deps_value o) s0)) (gparam_names (tg_params tg))).
    { intros s0 Hs0. rewrite Hp, gparam_names_flat. exact (incl_flat_map (fun s => map gp_name (lifted_of (no_deps_value o) s)) _ _ Hs0). }
    assert (Hi' : forall s0, In s0 (map sig_of (body_fns bitems)) -> incl (map gp_name (lifted_of (no_deps_value o) s0))
                    (gparam_names (p_items (p_of_list (impl_params (with_t_of mode) (has_any_self_by_value (with_cfg_attrs fns0 (body_fns bitems))) (tg_params tg)))))).
    { intros s0 Hs0. cbn [p_of_list p_items]. unfold impl_params. rewrite gparam_names_app. apply incl_appr. exact (Hi s0 Hs0). }
    match goal with |- context [c03_carried_all _ (tg_params tg) (where_items ?g1) _ _] =>
      match goal with |- context [c03_carried_all _ (p_items _) (where_items ?g2) _ _] =>
        destruct (c03_lists o (h_attrs h) _ _ _ _ (tg_params tg) _ (where_items g1) (where_items g2) Hz Hi Hi') as (I1 & I2 & I3 & I4)
      end
    end.
    cbn [g_params]. rewrite I1, I2, I3, I4. cbn [andb].
    rewrite Hp, gparam_names_flat.
    apply negb_false_iff in Hk.
    rewrite <- (lifted_names_flat _ _ Hnd).
    rewrite <- Hk. f_equal. clear. induction (body_fns bitems) as [|[[[x y] z] w] l IH]; [reflexivity|]. cbn [flat_map map sig_of]. rewrite IH. reflexivity.
Qed.
