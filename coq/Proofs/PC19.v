(** * C19: every bound the macro adds on its own is a lifetime, an absolute path, or a user-supplied trait name *)
From Coq Require Import List String Ascii Bool Arith Lia.
From Entrait Require Import Tok Syn Opts Split FnParams Convert Codegen Expand Proj Proj2 Proj3 ProjSide.
From Entrait.Proofs Require Import Base Shapes PC05 PC07.
From Entrait.Proofs Require PC10.
Import ListNotations.
Local Open Scope string_scope.
Local Open Scope list_scope.

(** ** [split_plus], [inner_dyn_bounds] on token lists with variable parts *)
Lemma split_plus_TP c rest cur d :
  split_plus (TP c :: rest) cur d =
  if Ascii.eqb c "+" then (if Nat.eqb d 0 then rev cur :: split_plus rest [] 0 else split_plus rest (pc "+" :: cur) d)
  else if Ascii.eqb c "<" then split_plus rest (pc "<" :: cur) (S d)
  else if Ascii.eqb c ">" then split_plus rest (pc ">" :: cur) (Nat.pred d)
  else split_plus rest (TP c :: cur) d.
Proof. destruct c as [[] [] [] [] [] [] [] []]; reflexivity. Qed.

Lemma split_plus_other t rest cur d :
  match t with TP _ => False | _ => True end -> split_plus (t :: rest) cur d = split_plus rest (t :: cur) d.
Proof. destruct t; intros H; try reflexivity. destruct H. Qed.

(** depth bookkeeping of [split_plus] over a segment that contains no top-level [+] *)
Fixpoint scan (l : toks) (d : nat) : option nat :=
  match l with
  | [] => Some d
  | TP c :: r =>
      if Ascii.eqb c "+" then (if Nat.eqb d 0 then None else scan r d)
      else if Ascii.eqb c "<" then scan r (S d)
      else if Ascii.eqb c ">" then scan r (Nat.pred d)
      else scan r d
  | _ :: r => scan r d
  end.

Lemma split_plus_scan : forall l d d' rest cur,
  scan l d = Some d' -> split_plus (l ++ rest) cur d = split_plus rest (rev l ++ cur) d'.
Proof.
  induction l as [|t l IH]; intros d d' rest cur H; cbn [app rev].
  - injection H as <-. reflexivity.
  - destruct t as [s|c|s|dl g];
      try (cbn [scan] in H; rewrite split_plus_other by exact I; rewrite (IH _ _ _ _ H), <- app_assoc; reflexivity).
    cbn [scan] in H. rewrite split_plus_TP.
    destruct (Ascii.eqb c "+") eqn:E1.
    { apply Ascii.eqb_eq in E1. subst c. destruct (Nat.eqb d 0); [discriminate|].
      rewrite (IH _ _ _ _ H), <- app_assoc. reflexivity. }
    destruct (Ascii.eqb c "<") eqn:E2.
    { apply Ascii.eqb_eq in E2. subst c. rewrite (IH _ _ _ _ H), <- app_assoc. reflexivity. }
    destruct (Ascii.eqb c ">") eqn:E3.
    { apply Ascii.eqb_eq in E3. subst c. rewrite (IH _ _ _ _ H), <- app_assoc. reflexivity. }
    rewrite (IH _ _ _ _ H), <- app_assoc. reflexivity.
Qed.

Lemma scan_app : forall l1 l2 d,
  scan (l1 ++ l2) d = match scan l1 d with Some d1 => scan l2 d1 | None => None end.
Proof.
  induction l1 as [|t l1 IH]; intros l2 d; [reflexivity|]. cbn [app scan].
  destruct t as [s|c|s|dl g]; try apply IH.
  destruct (Ascii.eqb c "+"); [destruct (Nat.eqb d 0); [reflexivity | apply IH]|].
  destruct (Ascii.eqb c "<"); [apply IH|]. destruct (Ascii.eqb c ">"); apply IH.
Qed.

(** the first bound up to the next top-level [+] *)
Lemma split_plus_first B1 T :
  scan B1 0 = Some 0 -> split_plus (B1 ++ pc "+" :: T) [] 0 = B1 :: split_plus T [] 0.
Proof.
  intros H. rewrite (split_plus_scan _ _ _ _ _ H), app_nil_r.
  change (split_plus (pc "+" :: T) (rev B1) 0) with (rev (rev B1) :: split_plus T [] 0).
  rewrite rev_involutive. reflexivity.
Qed.

(** tokens that [split_plus] and [inner_dyn_bounds] treat as ordinary *)
Definition plain (t : tt) : bool :=
  match t with TP c => negb (Ascii.eqb c "+" || Ascii.eqb c "<" || Ascii.eqb c ">") | _ => true end.
Definition noplus (l : toks) : bool :=
  forallb (fun t => match t with TP c => negb (Ascii.eqb c "+") | _ => true end) l.

Lemma scan_plain : forall l d, forallb plain l = true -> scan l d = Some d.
Proof.
  induction l as [|t l IH]; intros d H; [reflexivity|]. cbn [forallb] in H. apply andb_true_iff in H as [H1 H2].
  cbn [scan]. destruct t as [s|c|s|dl g]; try (apply IH; exact H2).
  cbn [plain] in H1. apply negb_true_iff in H1. apply orb_false_iff in H1 as [H1 H3]. apply orb_false_iff in H1 as [H1 H4].
  rewrite H1, H4, H3. apply IH. exact H2.
Qed.

Lemma noplus_plain : forall l, forallb plain l = true -> noplus l = true.
Proof.
  induction l as [|t l IH]; intros H; [reflexivity|]. cbn [forallb] in H. apply andb_true_iff in H as [H1 H2].
  unfold noplus. cbn [forallb]. fold (noplus l). rewrite (IH H2), andb_true_r.
  destruct t as [s|c|s|dl g]; try reflexivity.
  cbn [plain] in H1. apply negb_true_iff in H1. apply orb_false_iff in H1 as [H1 _]. apply orb_false_iff in H1 as [H1 _].
  rewrite H1. reflexivity.
Qed.

Lemma noplus_app l1 l2 : noplus (l1 ++ l2) = noplus l1 && noplus l2.
Proof. unfold noplus. apply forallb_app. Qed.

Lemma plain_join sep : forallb plain sep = true -> forall L : list toks,
  Forall (fun x => forallb plain x = true) L -> forallb plain (join sep L) = true.
Proof.
  intros Hs. induction L as [|x L IH]; intros H; [reflexivity|].
  inversion H as [|? ? Hx HL]; subst. destruct L as [|y L']; [exact Hx|].
  change (join sep (x :: y :: L')) with (x ++ sep ++ join sep (y :: L')).
  rewrite !forallb_app, Hx, Hs, (IH HL). reflexivity.
Qed.

Lemma plain_print_arguments (b : bool) ps : forallb plain (join [comma] ((if b then [[TId "EntraitT"]] else []) ++ map arg_of_param ps)) = true.
Proof.
  apply plain_join; [reflexivity|]. apply Forall_app. split.
  - destruct b; repeat constructor.
  - induction ps as [|p ps IH]; cbn [map]; constructor; [|exact IH].
    unfold arg_of_param. destruct (gp_kind p); reflexivity.
Qed.

Lemma scan_print_arguments b ps d : scan (print_arguments b ps) d = Some d.
Proof.
  unfold print_arguments. pose proof (plain_print_arguments b ps) as H.
  destruct ((if b then [[TId "EntraitT"]] else []) ++ map arg_of_param ps) as [|x L]; [reflexivity|].
  change ([pc "<"] ++ join [comma] (x :: L) ++ [pc ">"]) with (pc "<" :: (join [comma] (x :: L) ++ [pc ">"])).
  change (scan (pc "<" :: (join [comma] (x :: L) ++ [pc ">"])) d) with (scan (join [comma] (x :: L) ++ [pc ">"]) (S d)).
  rewrite scan_app, (scan_plain _ _ H). reflexivity.
Qed.

Lemma noplus_print_arguments b ps : noplus (print_arguments b ps) = true.
Proof.
  unfold print_arguments. pose proof (plain_print_arguments b ps) as H.
  destruct ((if b then [[TId "EntraitT"]] else []) ++ map arg_of_param ps) as [|x L]; [reflexivity|].
  rewrite !noplus_app, (noplus_plain _ H). reflexivity.
Qed.

(** [inner_dyn_bounds] with its local functions named *)
Fixpoint cut (l : toks) (depth : nat) : toks :=
  match l with
  | [] => []
  | TP "<"%char :: r => pc "<" :: cut r (S depth)
  | TP ">"%char :: r => match depth with O => [] | S d => pc ">" :: cut r d end
  | t :: r => t :: cut r depth
  end.

Fixpoint idb_go (l : toks) : list toks :=
  match l with
  | [] => []
  | TId "dyn" :: rest => tl (split_plus (cut rest 0) [] 0)
  | _ :: rest => idb_go rest
  end.

Lemma inner_dyn_bounds_go b : inner_dyn_bounds b = idb_go b.
Proof. reflexivity. Qed.

Lemma cut_TP c r d :
  cut (TP c :: r) d =
  if Ascii.eqb c "<" then pc "<" :: cut r (S d)
  else if Ascii.eqb c ">" then match d with O => [] | S d' => pc ">" :: cut r d' end
  else TP c :: cut r d.
Proof. destruct c as [[] [] [] [] [] [] [] []]; reflexivity. Qed.

Lemma idb_go_TId s rest :
  idb_go (TId s :: rest) = if String.eqb s "dyn" then tl (split_plus (cut rest 0) [] 0) else idb_go rest.
Proof.
  destruct s as [|a s]; [reflexivity|].
  destruct a as [[] [] [] [] [] [] [] []]; try reflexivity.
  destruct s as [|a s]; [reflexivity|].
  destruct a as [[] [] [] [] [] [] [] []]; try reflexivity.
  destruct s as [|a s]; [reflexivity|].
  destruct a as [[] [] [] [] [] [] [] []]; try reflexivity.
  destruct s; reflexivity.
Qed.

Lemma noplus_cut : forall l d, noplus l = true -> noplus (cut l d) = true.
Proof.
  induction l as [|t l IH]; intros d H; [reflexivity|].
  unfold noplus in H. cbn [forallb] in H. fold (noplus l) in H. apply andb_true_iff in H as [H1 H2].
  destruct t as [s|c|s|dl g];
    try (change (noplus (cut l d) = true -> True) || (unfold noplus; cbn [cut forallb]; fold (noplus (cut l d)); apply IH; exact H2)).
  rewrite cut_TP. destruct (Ascii.eqb c "<").
  - unfold noplus. cbn [forallb]. fold (noplus (cut l (S d))). apply IH. exact H2.
  - destruct (Ascii.eqb c ">").
    + destruct d as [|d']; [reflexivity|]. unfold noplus. cbn [forallb]. fold (noplus (cut l d')). apply IH. exact H2.
    + unfold noplus. cbn [forallb]. fold (noplus (cut l d)). rewrite H1. apply IH. exact H2.
Qed.

Lemma split_plus_noplus : forall l cur d, noplus l = true -> split_plus l cur d = [rev cur ++ l].
Proof.
  induction l as [|t l IH]; intros cur d H; [cbn; rewrite app_nil_r; reflexivity|].
  unfold noplus in H. cbn [forallb] in H. fold (noplus l) in H. apply andb_true_iff in H as [H1 H2].
  destruct t as [s|c|s|dl g];
    try (rewrite split_plus_other by exact I; rewrite (IH _ _ H2); cbn [rev]; rewrite <- app_assoc; reflexivity).
  rewrite split_plus_TP. apply negb_true_iff in H1. rewrite H1.
  destruct (Ascii.eqb c "<") eqn:E2.
  { apply Ascii.eqb_eq in E2. subst c. rewrite (IH _ _ H2). cbn [rev]. rewrite <- app_assoc. reflexivity. }
  destruct (Ascii.eqb c ">") eqn:E3.
  { apply Ascii.eqb_eq in E3. subst c. rewrite (IH _ _ H2). cbn [rev]. rewrite <- app_assoc. reflexivity. }
  rewrite (IH _ _ H2). cbn [rev]. rewrite <- app_assoc. reflexivity.
Qed.

(** a bound without any [+] has no nested [dyn .. + X] bounds *)
Lemma idb_noplus : forall l, noplus l = true -> inner_dyn_bounds l = [].
Proof.
  intros l. rewrite inner_dyn_bounds_go. induction l as [|t l IH]; intros H; [reflexivity|].
  unfold noplus in H. cbn [forallb] in H. fold (noplus l) in H. apply andb_true_iff in H as [H1 H2].
  destruct t as [s|c|s|dl g]; try (apply IH; exact H2).
  rewrite idb_go_TId. destruct (String.eqb s "dyn"); [|apply IH; exact H2].
  rewrite split_plus_noplus by (apply noplus_cut; exact H2). reflexivity.
Qed.

(** the shape all the macro's [EntraitT: B1 + tail] predicates have *)
Lemma c19_shape users B1 T :
  scan B1 0 = Some 0 -> bound_ok users B1 = true -> noplus B1 = true ->
  forallb (bound_ok users) (split_plus T [] 0) = true ->
  forallb (bound_ok users) (flat_map inner_dyn_bounds (split_plus T [] 0)) = true ->
  c19_bounds_ok users ([TId "EntraitT"; pc ":"] ++ B1 ++ pc "+" :: T) = true.
Proof.
  intros Hs Hb Hn H1 H2. unfold c19_bounds_ok.
  change (after_colon ([TId "EntraitT"; pc ":"] ++ B1 ++ pc "+" :: T)) with (B1 ++ pc "+" :: T).
  rewrite (split_plus_first _ _ Hs). cbn [forallb flat_map]. rewrite Hb, H1, (idb_noplus _ Hn). cbn [app andb]. exact H2.
Qed.

(** ** the macro's own [EntraitT] parameter *)
Lemma c19_impl_t bv :
  is_prefix [TId "EntraitT"] (print_gparam (impl_t_param bv)) = true /\
  c19_bounds_ok [] (print_gparam (impl_t_param bv)) && c19_fixed_bounds (print_gparam (impl_t_param bv)) = true.
Proof. destruct bv; vm_compute; auto. Qed.

Definition abs_or_life (b : toks) : Prop :=
  (exists r, b = pc "'" :: r) \/ (exists r, b = pc ":" :: pc ":" :: r).

(** explicit: the parameter is [EntraitT: b1 + .. + bn] and every [bi] is a lifetime or starts with [::] *)
Lemma impl_t_param_bounds bv :
  print_gparam (impl_t_param bv) = [TId "EntraitT"; pc ":"] ++ join [pc "+"] (gp_bounds (impl_t_param bv)) /\
  Forall abs_or_life (gp_bounds (impl_t_param bv)).
Proof.
  split; [reflexivity|]. destruct bv; cbn; repeat first [apply Forall_nil | apply Forall_cons];
    first [left; eexists; reflexivity | right; eexists; reflexivity].
Qed.

(** ** trait mode: the [EntraitT: ...] predicate *)
Definition c19_users (a : trait_attr) (name : string) : list string :=
  [name] ++ (match ta_impl_trait a with Some n => [n] | None => [] end) ++
  (match ta_delegate a with Some (ByTrait d) => [d] | _ => [] end).

Definition core_ref (r : ref_delegate) : toks :=
  match r with RAsRef => abs_path ["core"; "convert"; "AsRef"] | RBorrow => abs_path ["core"; "borrow"; "Borrow"] end.

(** the bounds of the predicate, one by one *)
Definition trait_bound_list (a : trait_attr) (ca : bool) (name : string) (tg : trait_generics) : list toks :=
  let twa := [TId name] ++ print_arguments false (tg_params tg) in
  match ta_impl_trait a, ta_delegate a with
  | Some _, Some (ByTrait del) => [[TId del; pc "<"; TId "EntraitT"; pc ">"]; core_marker "Sync"; [pc "'"; TId "static"]]
  | Some it, Some (ByRef r) =>
      [core_ref r ++ [pc "<"; TId "dyn"; TId it; pc "<"; TId "EntraitT"; pc ">"] ++
       (if ca then [pc "+"] ++ core_marker "Sync" else []) ++ [pc ">"]] ++
      (if ca then [core_marker "Send"; core_marker "Sync"] else []) ++ [[pc "'"; TId "static"]]
  | None, Some (ByRef r) =>
      [core_ref r ++ [pc "<"; TId "dyn"] ++ twa ++ [pc ">"]] ++
      (if ca then [core_marker "Send"; core_marker "Sync"] else []) ++ [[pc "'"; TId "static"]]
  | _, _ => [twa; core_marker "Sync"] ++ (if ca then [[pc "'"; TId "static"]] else [])
  end.

Definition bound_ok_prop (users : list string) (b : toks) : Prop :=
  abs_or_life b \/ exists n r, b = TId n :: r /\ In n users.

Lemma bop_abs l r : bound_ok_prop l (pc ":" :: pc ":" :: r).
Proof. left; right; eexists; reflexivity. Qed.
Lemma bop_lt l r : bound_ok_prop l (pc "'" :: r).
Proof. left; left; eexists; reflexivity. Qed.
Lemma bop_name name l r : bound_ok_prop (name :: l) (TId name :: r).
Proof. right; do 2 eexists; split; [reflexivity | left; reflexivity]. Qed.
Ltac fok := repeat first [apply Forall_nil | apply Forall_cons]; try first [apply bop_abs | apply bop_lt | apply bop_name].

Ltac eqtac :=
  unfold plus_send, plus_sync, plus_static, core_marker, core_ref, abs_path, path_sep; cbn [flat_map app join];
  rewrite <- ?app_assoc; cbn [app]; reflexivity.

Lemma impl_t_bounds_list a ca name tg :
  impl_t_bounds a ca name tg = [TId "EntraitT"; pc ":"] ++ join [pc "+"] (trait_bound_list a ca name tg) /\
  Forall (bound_ok_prop (c19_users a name)) (trait_bound_list a ca name tg).
Proof.
  unfold impl_t_bounds, trait_bound_list, c19_users. destruct a as [it o dl]. cbn [ta_impl_trait ta_delegate].
  destruct it as [it|], dl as [[|r|del]|]; cbn [app].
  - split; [destruct ca; eqtac|].
    destruct ca; fok.
  - split.
    + destruct r, ca; eqtac.
    + destruct r, ca; fok.
  - split; [reflexivity|]. fok.
    right. do 2 eexists. split; [reflexivity|]. right. right. left. reflexivity.
  - split; [destruct ca; eqtac|].
    destruct ca; fok.
  - split; [destruct ca; eqtac|].
    destruct ca; fok.
  - split.
    + destruct r, ca; eqtac.
    + destruct r, ca; fok.
  - split; [destruct ca; eqtac|].
    destruct ca; fok.
  - split; [destruct ca; eqtac|].
    destruct ca; fok.
Qed.

Lemma scan_twa name ps d : scan ([TId name] ++ print_arguments false ps) d = Some d.
Proof. cbn [app scan]. apply scan_print_arguments. Qed.

Lemma noplus_twa name ps : noplus ([TId name] ++ print_arguments false ps) = true.
Proof. rewrite noplus_app, noplus_print_arguments. reflexivity. Qed.

Lemma c19_trait_ok a ca name tg :
  c19_bounds_ok (c19_users a name) (impl_t_bounds a ca name tg) = true.
Proof.
  destruct (impl_t_bounds_list a ca name tg) as [-> _].
  unfold trait_bound_list, c19_users. destruct a as [it o dl]. cbn [ta_impl_trait ta_delegate].
  set (twa := [TId name] ++ print_arguments false (tg_params tg)).
  assert (Hd : forall l T,
             forallb (bound_ok (name :: l)) (split_plus T [] 0) = true ->
             forallb (bound_ok (name :: l)) (flat_map inner_dyn_bounds (split_plus T [] 0)) = true ->
             c19_bounds_ok (name :: l) ([TId "EntraitT"; pc ":"] ++ twa ++ pc "+" :: T) = true).
  { intros l T H1 H2. apply c19_shape; [apply scan_twa | | apply noplus_twa | exact H1 | exact H2].
    unfold twa. cbn [app bound_ok str_mem]. rewrite String.eqb_refl. reflexivity. }
  destruct it as [it|], dl as [[|r|del]|]; cbn [app].
  - destruct ca; apply (Hd [it]); reflexivity.
  - destruct r, ca; vm_compute; reflexivity.
  - apply (c19_shape [name; it; del] [TId del; pc "<"; TId "EntraitT"; pc ">"]); try reflexivity.
    cbn [bound_ok str_mem]. rewrite String.eqb_refl, !orb_true_r. reflexivity.
  - destruct ca; apply (Hd [it]); reflexivity.
  - destruct ca; apply (Hd []); reflexivity.
  - assert (Hs : forall r0, scan (core_ref r0 ++ pc "<" :: TId "dyn" :: twa ++ [pc ">"]) 0 = Some 0).
    { intros r0. rewrite scan_app. replace (scan (core_ref r0) 0) with (Some 0) by (destruct r0; reflexivity).
      change (scan (pc "<" :: TId "dyn" :: twa ++ [pc ">"]) 0) with (scan (twa ++ [pc ">"]) 1).
      rewrite scan_app. unfold twa. rewrite scan_twa. reflexivity. }
    assert (Hn : forall r0, noplus (core_ref r0 ++ pc "<" :: TId "dyn" :: twa ++ [pc ">"]) = true).
    { intros r0. rewrite noplus_app. replace (noplus (core_ref r0)) with true by (destruct r0; reflexivity).
      change (noplus (pc "<" :: TId "dyn" :: twa ++ [pc ">"])) with (noplus (twa ++ [pc ">"])).
      rewrite noplus_app. unfold twa. rewrite noplus_twa. reflexivity. }
    destruct r, ca; cbn [app join];
      (apply (c19_shape [name] (core_ref _ ++ pc "<" :: TId "dyn" :: twa ++ [pc ">"])); [apply Hs | reflexivity | apply Hn | reflexivity | reflexivity]).
  - destruct ca; apply (Hd [del]); reflexivity.
  - destruct ca; apply (Hd []); reflexivity.
Qed.

(** ** fn / mod / impl block: the generic parameters of the generated impl block *)
Lemma detect_generic im fns mode :
  detect_trait_dependency_mode im fns = Ok mode -> im <> MSingleFn -> mode = MGeneric.
Proof.
  unfold detect_trait_dependency_mode. destruct (first_concrete fns).
  - destruct im; intros H Hn; try discriminate H. contradiction.
  - intros H _. injection H as <-. reflexivity.
Qed.

Lemma fn_concrete_tg k o s tf tg ty :
  analyze k o empty_tg s = Ok (tf, tg) -> tf_deps tf = DConcrete ty -> tg_params tg = lifted_params (s_gen s).
Proof.
  intros Hz Hd. destruct (analyze_inv _ _ _ _ _ _ Hz) as (deps & s' & Ha & _ & ->). cbn [tf_deps] in Hd. subst deps.
  destruct (analyze_deps_kind _ _ _ _ _ Ha) as [(_ & E & _)|(_ & _ & _ & Hag)]; [discriminate E|].
  destruct (deps_kind (no_deps_value o) s) as [[n|] b|t|].
  - destruct Hag as (_ & b' & E). discriminate E.
  - destruct Hag as (E & _). discriminate E.
  - destruct Hag as (_ & _ & ->). rewrite deps_with_generics_params. reflexivity.
  - destruct Hag.
Qed.

(** single fn: the impl block's parameters are [EntraitT: ..] followed by the lifted ones, or (concrete
    dependency) exactly the function's own non-lifetime parameters *)
Lemma c19_fn_params v attr h s body items :
  expand_items v attr (InFn h s body) = Ok items ->
  exists f tr im, items = [f; ITrait tr; IImpl im] /\
    ((exists bv rest, p_items (g_params (i_gen im)) = impl_t_param bv :: rest) \/
     p_items (g_params (i_gen im)) = lifted_params (s_gen s)).
Proof.
  intros H. destruct (expand_fn_inv _ _ _ _ _ _ H) as (a & tf & tg & mode & ib & Ha & Hz & Hm & Hib & ->).
  destruct (gen_impl_block_fns _ _ _ _ _ _ _ _ _ Hib) as (argss & _ & _ & _ & _ & _ & Hgen & _).
  do 3 eexists. split; [reflexivity|]. rewrite Hgen. cbn [g_params p_items p_of_list]. destruct mode as [|ty].
  - left. do 2 eexists. reflexivity.
  - right. cbn [with_t_of impl_params app].
    unfold detect_trait_dependency_mode in Hm. cbn [first_concrete] in Hm.
    destruct (tf_deps tf) eqn:Ed; try discriminate Hm.
    exact (fn_concrete_tg _ _ _ _ _ _ Hz Ed).
Qed.

Lemma c19_mod_params v attr h name body sigs sf items :
  expand_items v attr (InMod h name body sigs sf) = Ok items ->
  exists attrs vs user tr im uv tree bv rest,
    items = [IMod attrs vs name (user ++ [ITrait tr; IImpl im]); IUse [] uv tree] /\
    p_items (g_params (i_gen im)) = impl_t_param bv :: rest.
Proof.
  intros H. destruct (expand_mod_inv _ _ _ _ _ _ _ _ H) as (_ & bitems & fl & a & fns0 & tg & mode & ib & _ & _ & _ & Hm & Hib & ->).
  destruct (gen_impl_block_fns _ _ _ _ _ _ _ _ _ Hib) as (argss & _ & _ & _ & _ & _ & Hgen & _).
  rewrite (detect_generic _ _ _ Hm) in Hgen by discriminate.
  do 9 eexists. split; [reflexivity|]. rewrite Hgen. reflexivity.
Qed.

Lemma c19_impl_params v attr h tp st body sigs sf items :
  expand_items v attr (InImpl h tp st body sigs sf) = Ok items ->
  exists inh im bv rest, items = [IImpl inh; IImpl im] /\
    p_items (g_params (i_gen im)) = impl_t_param bv :: rest.
Proof.
  intros H. destruct (expand_impl_inv _ _ _ _ _ _ _ _ _ H) as (_ & bitems & fl & a & fns0 & tg & mode & ib & _ & _ & _ & Hm & Hib & ->).
  cbv zeta in Hm, Hib.
  destruct (gen_impl_block_fns _ _ _ _ _ _ _ _ _ Hib) as (argss & _ & _ & _ & _ & _ & Hgen & _).
  rewrite (detect_generic _ _ _ Hm) in Hgen by discriminate.
  do 4 eexists. split; [reflexivity|]. rewrite Hgen. reflexivity.
Qed.

(** trait: the impl block is [impl<'lifetimes.., EntraitT: .., params> .. where EntraitT: b1 + .. + bn, ..]: the first
    generic parameter that is not a lifetime is the application's *)
Lemma c19_trait_params v attr h t items :
  expand_items v attr (InTrait h t) = Ok items ->
  exists a0 tr ds im rest wrest,
    parse_trait_attr attr = Ok a0 /\
    parts (InTrait h t) items = Some (GTrait tr ds im) /\
    filter nonlife (p_items (g_params (i_gen im))) = impl_t_param false :: rest /\
    g_where (i_gen im) =
      Some (p_of_list (mk_pred (impl_t_bounds (eff_trait_attr v a0) (trait_contains_async (t_items t)) (t_name t) (trait_tg t)) :: wrest)).
Proof.
  intros H. destruct (expand_trait_inv _ _ _ _ _ H) as (a0 & fns & deleg & methods & Ha & _ & _ & Hd & _ & ->).
  match goal with |- context [[ITrait ?tr] ++ deleg ++ [IImpl ?im]] =>
    destruct (parts_trait h t tr deleg im (delegation_trait_defs_shape _ _ _ _ _ _ Hd)) as (ds & Hp & _)
  end.
  do 6 eexists. split; [exact Ha|]. split; [exact Hp|]. split; [|reflexivity].
  cbn [i_gen g_params p_items p_of_list]. apply filter_nonlife_trait_impl_params.
Qed.

(** ** the view *)
(** the one case the predicate misjudges: concrete dependencies, and the function's own first non-lifetime
    generic parameter is called [EntraitT] and has a bound that is not an absolute path *)
Lemma c05_clash_c19 i : c05_clash i = false -> c19_clash i = false.
Proof.
  destruct i; try reflexivity. cbn [c05_clash c19_clash]. destruct (lifted_params (s_gen s)); [reflexivity|].
  intros ->. reflexivity.
Qed.

Lemma c19_view_partial v attr i items :
  expand_items v attr i = Ok items -> c19_clash i = false -> good (view_C19 (mkCtx v attr i) items).
Proof.
  intros H Hc. destruct i as [h s body|h|h t|h|h tp st body sigs sf|h|h name body sigs sf|h|]; try discriminate H.
  - destruct (c19_fn_params _ _ _ _ _ _ H) as (f & tr & im & -> & Hp).
    destruct (expand_fn_inv _ _ _ _ _ _ H) as (a & tf & tg & mode & ib & _ & _ & _ & _ & E). injection E as -> _ _.
    unfold view_C19, good. cbn [x_input]. rewrite parts_fn. unfold first_param_toks.
    destruct Hp as [(bv & rest & ->)| ->].
    + destruct (c19_impl_t bv) as [P1 P2]. rewrite P1. cbn [decided v_app v_det v_holds]. auto.
    + cbn [c19_clash] in Hc. destruct (lifted_params (s_gen s)) as [|p l]; [cbn; discriminate|].
      destruct (is_prefix [TId "EntraitT"] (print_gparam p)); [|cbn; discriminate].
      cbn [andb] in Hc. apply negb_false_iff in Hc. cbn [decided v_app v_det v_holds]. auto.
  - destruct (c19_trait_params _ _ _ _ _ H) as (a0 & tr & ds & im & rest & wrest & Ha & Hp & Hg & Hw).
    unfold view_C19, good, trait_attr_of. cbn [x_input x_attr x_variant]. rewrite Hp, Ha.
    fold (eff_trait_attr v a0). unfold app_param_toks, first_where_toks. fold nonlife. rewrite Hg, Hw.
    cbn [p_items p_of_list wp_toks mk_pred decided v_app v_det v_holds]. intros _. split; [reflexivity|].
    destruct (c19_impl_t false) as [_ P2]. rewrite P2. cbn [andb].
    exact (c19_trait_ok (eff_trait_attr v a0) _ (t_name t) (trait_tg t)).
  - destruct (c19_impl_params _ _ _ _ _ _ _ _ _ H) as (inh & im & bv & rest & -> & Hp).
    destruct (c07_impl_expansion _ _ _ _ _ _ _ _ _ H) as (bi & fl0 & inh' & im' & r & _ & E & _ & _ & _ & _ & Ht & _).
    injection E as <- <-.
    unfold view_C19, good. cbn [x_input]. rewrite parts_impl. unfold first_param_toks. rewrite Hp.
    destruct (c19_impl_t bv) as [P1 P2]. rewrite P1. cbn [decided v_app v_det v_holds]. rewrite P2, Ht, <- app_assoc, is_prefix_app. auto.
  - destruct (c19_mod_params _ _ _ _ _ _ _ _ H) as (attrs & vs & user & tr & im & uv & tree & bv & rest & -> & Hp).
    unfold view_C19, good. cbn [x_input]. rewrite parts_mod. unfold first_param_toks. rewrite Hp.
    destruct (c19_impl_t bv) as [P1 P2]. rewrite P1. cbn [decided v_app v_det v_holds]. auto.
Qed.

(** the unrestricted statement is false: [#[entrait(Foo)] fn foo<EntraitT: Bar>(deps: &App, x: EntraitT) {}] *)
Definition c19_cex_input : input :=
  InFn (mkHead [] [] false false)
       (mkSig false false false None "foo"
              (mkGen true (mkP [mkGP GType [] "EntraitT" [pc ":"; TId "Bar"] [[TId "Bar"]]] false) None)
              (mkP [ArgTyped [] (PIdent false false "deps" []) (TyRef None false (TyPath false false 1 "App" [TId "App"]));
                    ArgTyped [] (PIdent false false "x" []) (TyPath false false 1 "EntraitT" [TId "EntraitT"])] false)
              None None)
       [TG Brace []].

Lemma c19_view_refuted :
  exists v attr i items, expand_items v attr i = Ok items /\ ~ good (view_C19 (mkCtx v attr i) items).
Proof.
  exists VEntrait, [TId "Foo"], c19_cex_input.
  destruct (expand_items VEntrait [TId "Foo"] c19_cex_input) as [items| | |] eqn:E; try (vm_compute in E; discriminate E).
  exists items. split; [reflexivity|]. vm_compute in E. injection E as <-.
  intros G. destruct (G eq_refl) as [_ G2]. vm_compute in G2. discriminate G2.
Qed.

Lemma no_entrait_t_no_clash19 h s body :
  forallb (fun p => negb (is_tparam "EntraitT" p)) (p_items (g_params (s_gen s))) = true ->
  c19_clash (InFn h s body) = false.
Proof. intros H. apply c05_clash_c19. exact (no_entrait_t_no_clash h s body H). Qed.

(** the guarded view the checker runs *)
(** *** the attributes the macro adds use absolute paths *)
Lemma good_view_and a b : good a -> good b -> good (view_and a b).
Proof.
  unfold good, view_and. intros Ha Hb. destruct (v_app a) eqn:Ea; [|exact Hb]. destruct (v_app b) eqn:Eb; [|rewrite Ea; exact Ha].
  cbn. intros _. destruct (Ha eq_refl) as [-> ->]. destruct (Hb eq_refl) as [-> ->]. auto.
Qed.

Lemma In_minus_added added user x : In x (minus_attrs (added ++ user) user) -> In x added.
Proof.
  intros H. apply (PC10.cnt_le_In (minus_attrs (added ++ user) user) added); [|exact H].
  intros y. rewrite PC10.count_added_all. apply le_n.
Qed.

Lemma export_gated_abs o r : attr_abs (export_gated o (TP ":"%char :: TP ":"%char :: r)) = true.
Proof. unfold attr_abs. rewrite PC10.ungate_export_gated. reflexivity. Qed.

Lemma gen_added_abs o ti mode im fns a : In a (PC10.gen_added o ti mode im fns) -> attr_abs a = true.
Proof.
  unfold PC10.gen_added, PC10.gen_unimock, PC10.gen_entrait, PC10.gen_mockall. intros H.
  apply in_app_or in H as [H|H]; [|apply in_app_or in H as [H|H]].
  - destruct (unimock_value o && negb (unimock_params_empty ti (o_mock_api o))); [|destruct H].
    destruct H as [<-|[]]. unfold unimock_params. cbn [abs_path flat_map app path_sep pc]. apply export_gated_abs.
  - destruct mode; [destruct H | destruct H as [<-|[]]; reflexivity].
  - destruct (mockall_value o); [|destruct H]. destruct H as [<-|[]]. unfold mockall_params. cbn [abs_path flat_map app path_sep pc]. apply export_gated_abs.
Qed.

Lemma forallb_abs_minus o ti mode im fns user :
  forallb attr_abs (minus_attrs (PC10.gen_added o ti mode im fns ++ user) user) = true.
Proof. apply forallb_forall. intros x Hx. eapply gen_added_abs. eapply In_minus_added. exact Hx. Qed.

Lemma c19_attrs_good v attr i items :
  expand_items v attr i = Ok items -> good (c19_attrs_view (mkCtx v attr i) items).
Proof.
  intros H. destruct i as [h s body|h|h t|h|h tp st body sigs sf|h|h name body sigs sf|h|]; try discriminate H.
  - destruct (expand_fn_inv _ _ _ _ _ _ H) as (a & tf & tg & mode & ib & Ha & _ & _ & _ & ->).
    unfold c19_attrs_view, good. cbn [x_input]. rewrite parts_fn. cbn [decided v_app v_det v_holds]. intros _. split; [reflexivity|].
    rewrite PC10.t_attrs_gen_trait_def. apply forallb_abs_minus.
  - destruct (expand_trait_inv _ _ _ _ _ H) as (a0 & fns & deleg & methods & Ha & _ & _ & Hd & _ & ->).
    match goal with |- context [[ITrait ?tr] ++ deleg ++ [IImpl ?im]] =>
      destruct (parts_trait h t tr deleg im (delegation_trait_defs_shape _ _ _ _ _ _ Hd)) as (ds & Hp & Hds)
    end.
    unfold c19_attrs_view, good. cbn [x_input]. rewrite Hp. cbn [decided v_app v_det v_holds]. intros _. split; [reflexivity|].
    rewrite forallb_app. apply andb_true_iff. split.
    + rewrite PC10.t_attrs_gen_trait_def. apply forallb_abs_minus.
    + apply forallb_forall. intros x Hx. apply in_flat_map in Hx as (d & Hd1 & Hd2).
      assert (Hdel : In (ITrait d) deleg) by (rewrite Hds; apply in_map; exact Hd1).
      exfalso. revert Hd2.
      destruct (PC10.delegation_attrs _ _ _ _ _ _ d Hd Hdel) as [E|E]; rewrite E; [rewrite PC10.minus_filter_nil | rewrite PC10.minus_nil]; intros [].
  - unfold c19_attrs_view, good. cbn. discriminate.
  - destruct (expand_mod_inv _ _ _ _ _ _ _ _ H) as (_ & bitems & fl & a & fns0 & tg & mode & ib & _ & Ha & _ & _ & _ & ->).
    unfold c19_attrs_view, good. cbn [x_input]. rewrite parts_mod. cbn [decided v_app v_det v_holds]. intros _. split; [reflexivity|].
    rewrite PC10.t_attrs_gen_trait_def. apply forallb_abs_minus.
Qed.

Lemma c19_view v attr i items :
  expand_items v attr i = Ok items -> good (view_C19g (mkCtx v attr i) items).
Proof.
  intros H. unfold view_C19g. cbn [x_input]. destruct (c19_clash i) eqn:E; [exact good_na|].
  apply good_view_and; [exact (c19_view_partial _ _ _ _ H E) | exact (c19_attrs_good _ _ _ _ H)].
Qed.
