(** * C05: concrete dependencies — nested [::entrait::entrait(unimock = false, mockall = false)] exactly once,
      the implementation is for the concrete type, without an [EntraitT] parameter *)
From Coq Require Import List String Ascii Bool Arith Lia.
From Entrait Require Import Tok Syn Opts Split FnParams Convert Codegen Expand Proj Proj2 Proj3 ProjSide.
From Entrait.Proofs Require Import Base Shapes.
Import ListNotations.
Local Open Scope string_scope.
Local Open Scope list_scope.

(** ** the dependency kind computed from the source signature agrees with the analysis *)
Definition is_tparam (name : string) (p : gparam) : bool :=
  match gp_kind p with GType => String.eqb (gp_name p) name | _ => false end.

Lemma find_type_param_none name : forall l idx,
  find_type_param name l idx = None <-> existsb (is_tparam name) l = false.
Proof.
  induction l as [|p l IH]; intros idx; cbn [find_type_param existsb]; [tauto|].
  unfold is_tparam at 1. destruct (gp_kind p); cbn [orb]; try apply IH.
  destruct (String.eqb (gp_name p) name); cbn [orb]; [split; discriminate | apply IH].
Qed.

Lemma find_type_param_some name : forall l idx i p,
  find_type_param name l idx = Some (i, p) -> existsb (is_tparam name) l = true.
Proof.
  intros l idx i p H. destruct (existsb (is_tparam name) l) eqn:E; [reflexivity|].
  apply (find_type_param_none name l idx) in E. congruence.
Qed.

Lemma deps_kind_of_type_path g q lead n f ts :
  deps_kind_of_type g (TyPath q lead n f ts) =
  if q || lead || negb (Nat.eqb n 1) then DConcrete (TyPath q lead n f ts)
  else if existsb (is_tparam f) (p_items (g_params g)) then DGeneric (Some f) [] else DConcrete (TyPath q lead n f ts).
Proof.
  destruct q, lead; try reflexivity. destruct n as [|[|n]]; reflexivity.
Qed.

(** what [extract_deps_from_type] returns, in terms of [deps_kind_of_type] *)
Definition kind_agrees (tg : trait_generics) (g : generics) (ty : fty) (kind d : fn_deps) (tg' : trait_generics) : Prop :=
  match kind with
  | DConcrete t => d = DConcrete t /\ t = strip_refs ty /\ tg' = deps_with_generics tg g
  | DGeneric None b => d = DGeneric None b /\ tg' = deps_with_generics tg g
  | DGeneric (Some n) _ => find_deps_generic_bounds tg g n = Some (d, tg') /\ exists b, d = DGeneric (Some n) b
  | DNoDeps => False
  end.

Lemma extract_kind tg g : forall ty d tg',
  extract_deps_from_type tg g ty = Ok (d, tg') -> kind_agrees tg g ty (deps_kind_of_type g ty) d tg'.
Proof.
  induction ty as [l m e IH|e IH|tr bs|q lead n f ts|ts]; intros d tg' H.
  - cbn [extract_deps_from_type] in H. specialize (IH _ _ H).
    change (deps_kind_of_type g (TyRef l m e)) with (deps_kind_of_type g e).
    unfold kind_agrees in *. change (strip_refs (TyRef l m e)) with (strip_refs e). exact IH.
  - cbn [extract_deps_from_type] in H. specialize (IH _ _ H).
    change (deps_kind_of_type g (TyParen e)) with (deps_kind_of_type g e).
    unfold kind_agrees in *. change (strip_refs (TyParen e)) with (strip_refs e). exact IH.
  - cbn in H. injection H as <- <-. cbn. auto.
  - rewrite deps_kind_of_type_path. cbn [extract_deps_from_type] in H.
    destruct q; [discriminate|]. destruct lead; [discriminate|]. cbn [orb].
    destruct (negb (Nat.eqb n 1)).
    + injection H as <- <-. cbn. auto.
    + destruct (find_deps_generic_bounds tg g f) as [[d0 tg0]|] eqn:E.
      * injection H as <- <-. pose proof E as E'. unfold find_deps_generic_bounds in E'.
        destruct (find_type_param f (p_items (g_params g)) 0) as [[idx p]|] eqn:F; [|discriminate].
        rewrite (find_type_param_some _ _ _ _ _ F). cbn. split; [exact E|].
        destruct (fold_left _ _ _) as [b t2]. injection E' as <- _. eexists; reflexivity.
      * injection H as <- <-. unfold find_deps_generic_bounds in E.
        destruct (find_type_param f (p_items (g_params g)) 0) as [[idx p]|] eqn:F.
        -- destruct (fold_left _ _ _). discriminate.
        -- apply find_type_param_none in F. rewrite F. cbn. auto.
  - cbn in H. injection H as <- <-. cbn. auto.
Qed.

(** [analyze_fn_deps] against [deps_kind] *)
Lemma analyze_deps_kind tg s o d tg' :
  analyze_fn_deps tg s o = Ok (d, tg') ->
  (no_deps_value o = true /\ d = DNoDeps /\ deps_kind (no_deps_value o) s = DNoDeps) \/
  (no_deps_value o = false /\
   (exists x p rest, p_items (s_inputs s) = ArgTyped x p (first_ty s) :: rest) /\
   deps_kind (no_deps_value o) s = deps_kind_of_type (s_gen s) (first_ty s) /\
   kind_agrees tg (s_gen s) (first_ty s) (deps_kind (no_deps_value o) s) d tg').
Proof.
  intros H. destruct (analyze_fn_deps_cases _ _ _ _ _ H) as [[Hn ->]|(Hn & Hd & x & p & ty & rest & Hi & He)].
  - left. unfold deps_kind. rewrite Hn. auto.
  - right. unfold deps_kind, first_ty. rewrite Hn, Hi. repeat split; [do 3 eexists; reflexivity|].
    apply extract_kind. exact He.
Qed.

Lemma deps_kind_merged nd h s : deps_kind nd (merged_sig h s) = deps_kind nd s.
Proof. reflexivity. Qed.

(** ** trait generics of a function with concrete / [impl] / no dependencies: every non-lifetime parameter *)
Lemma fold_push_where_params lts : forall ws tg, tg_params (fold_left (lift_where lts) ws tg) = tg_params tg.
Proof.
  induction ws as [|w ws IH]; intros tg; cbn [fold_left]; [reflexivity|]. rewrite IH.
  unfold lift_where. destruct (mentions_lifetime lts (wp_toks w)); reflexivity.
Qed.

Lemma fold_push_params : forall ps tg,
  tg_params (fold_left (fun acc p => if is_life p then acc else tg_push_param acc p) ps tg)
  = tg_params tg ++ filter (fun p => negb (is_life p)) ps.
Proof.
  induction ps as [|p ps IH]; intros tg; cbn [fold_left filter]; [rewrite app_nil_r; reflexivity|].
  rewrite IH. destruct (is_life p); cbn [negb]; [reflexivity|].
  unfold tg_push_param. cbn [tg_params]. rewrite <- app_assoc. reflexivity.
Qed.

Lemma deps_with_generics_params tg g : tg_params (deps_with_generics tg g) = tg_params tg ++ lifted_params g.
Proof. unfold deps_with_generics. rewrite fold_push_where_params, fold_push_params. reflexivity. Qed.

(** ** the attributes of the generated trait *)
Lemma eft_not_unimock o api im fns :
  toks_eqb entrait_for_trait_attr (export_gated o (unimock_params api im fns)) = false.
Proof. unfold export_gated. destruct (export_value o); reflexivity. Qed.

Lemma eft_not_mockall o : toks_eqb entrait_for_trait_attr (export_gated o mockall_params) = false.
Proof. unfold export_gated. destruct (export_value o); reflexivity. Qed.

Lemma eft_not_sub a : is_trait_sub a = true -> toks_eqb entrait_for_trait_attr a = false.
Proof.
  intros H. destruct (toks_eqb entrait_for_trait_attr a) eqn:E; [|reflexivity].
  apply toks_eqb_eq in E. subst a. vm_compute in H. discriminate H.
Qed.

Lemma filter_none {A} (f : A -> bool) l : (forall a, In a l -> f a = false) -> filter f l = [].
Proof.
  induction l as [|x l IH]; intros H; [reflexivity|]. cbn [filter]. rewrite (H x (or_introl eq_refl)).
  apply IH. intros a Ha. apply H. right. exact Ha.
Qed.

Lemma filter_subs_eft subs : filter (toks_eqb entrait_for_trait_attr) (filter is_trait_sub subs) = [].
Proof. apply filter_none. intros a Ha. apply filter_In in Ha as [_ Ha]. apply eft_not_sub. exact Ha. Qed.

Lemma gen_trait_def_attrs o ti mode subs v name tg colon supers fns im :
  t_attrs (gen_trait_def o ti mode subs None v name tg colon supers fns im) =
  (if unimock_value o && negb (unimock_params_empty ti (o_mock_api o))
   then [export_gated o (unimock_params (o_mock_api o) im fns)] else []) ++
  (match mode with MConcrete _ => [entrait_for_trait_attr] | MGeneric => [] end) ++
  (if mockall_value o then [export_gated o mockall_params] else []) ++ filter is_trait_sub subs.
Proof. reflexivity. Qed.

(** the nested attribute occurs exactly once with concrete dependencies, never otherwise *)
Lemma eft_count o ti mode subs v name tg colon supers fns im :
  filter (toks_eqb entrait_for_trait_attr) (t_attrs (gen_trait_def o ti mode subs None v name tg colon supers fns im))
  = match mode with MConcrete _ => [entrait_for_trait_attr] | MGeneric => [] end.
Proof.
  rewrite gen_trait_def_attrs, !filter_app, filter_subs_eft, app_nil_r.
  match goal with |- ?a ++ ?b ++ ?c = _ => assert (H1 : a = []); [|assert (H2 : c = [])] end.
  { destruct (unimock_value o && negb (unimock_params_empty ti (o_mock_api o))); [|reflexivity].
    cbn [filter]. rewrite eft_not_unimock. reflexivity. }
  { destruct (mockall_value o); [|reflexivity]. cbn [filter]. rewrite eft_not_mockall. reflexivity. }
  rewrite H1, H2, app_nil_r. cbn [app].
  destruct mode; [reflexivity|]. cbn [filter]. rewrite toks_eqb_refl. reflexivity.
Qed.

Lemma existsb_filter_nil {A} (f : A -> bool) l : filter f l = [] -> existsb f l = false.
Proof.
  induction l as [|x l IH]; [reflexivity|]. cbn [filter existsb]. destruct (f x); [discriminate|]. exact IH.
Qed.

(** ** explicit statements *)
Definition is_concrete_kind (d : fn_deps) : Prop := exists t, d = DConcrete t.

(** single fn, concrete dependency [ty] (the first parameter's type with references and parentheses
    stripped): the generated trait carries the nested entrait attribute exactly once; the impl block is
    [impl<lifted params> Trait<args> for ty], its generic parameters are exactly the function's own
    non-lifetime parameters (no [EntraitT] is added) *)
Lemma c05_concrete v attr h s body items a ty :
  expand_items v attr (InFn h s body) = Ok items ->
  parse_fn_attr attr = Ok a ->
  deps_kind (no_deps_value (apply_variant v (fa_opts a))) s = DConcrete ty ->
  ty = strip_refs (first_ty s) /\
  exists f tr im, items = [f; ITrait tr; IImpl im] /\
    filter (toks_eqb entrait_for_trait_attr) (t_attrs tr) = [entrait_for_trait_attr] /\
    t_name tr = fa_trait a /\
    i_self im = print_fty ty /\
    p_items (g_params (i_gen im)) = lifted_params (s_gen s) /\
    i_trait im = Some ([TId (fa_trait a)] ++ print_arguments false (lifted_params (s_gen s))).
Proof.
  intros H Ha Hk. destruct (expand_fn_inv _ _ _ _ _ _ H) as (a' & tf & tg & mode & ib & Ha' & Hz & Hm & Hib & ->).
  rewrite Ha in Ha'. injection Ha' as <-.
  destruct (analyze_inv _ _ _ _ _ _ Hz) as (deps & s' & Hd & _ & ->).
  destruct (analyze_deps_kind _ _ _ _ _ Hd) as [(_ & _ & Hk')|(_ & _ & _ & Hag)]; rewrite deps_kind_merged in *; [congruence|].
  rewrite Hk in Hag. destruct Hag as (-> & -> & ->).
  unfold detect_trait_dependency_mode in Hm. cbn in Hm. injection Hm as <-.
  destruct (gen_impl_block_fns _ _ _ _ _ _ _ _ _ Hib) as (argss & _ & _ & _ & _ & Hself & Hgen & Htr).
  split; [reflexivity|]. do 3 eexists. split; [reflexivity|].
  rewrite eft_count, Hself, Hgen, Htr. cbn [t_name gen_trait_def g_params p_items p_of_list self_ty with_t_of impl_params app].
  rewrite deps_with_generics_params. cbn [tg_params empty_tg app]. repeat split; reflexivity.
Qed.

(** single fn, any other dependency kind: no nested entrait attribute, and the impl's first generic
    parameter is the macro's [EntraitT] *)
Lemma c05_not_concrete v attr h s body items a :
  expand_items v attr (InFn h s body) = Ok items ->
  parse_fn_attr attr = Ok a ->
  (forall ty, deps_kind (no_deps_value (apply_variant v (fa_opts a))) s <> DConcrete ty) ->
  exists f tr im bv rest, items = [f; ITrait tr; IImpl im] /\
    filter (toks_eqb entrait_for_trait_attr) (t_attrs tr) = [] /\
    p_items (g_params (i_gen im)) = impl_t_param bv :: rest.
Proof.
  intros H Ha Hk. destruct (expand_fn_inv _ _ _ _ _ _ H) as (a' & tf & tg & mode & ib & Ha' & Hz & Hm & Hib & ->).
  rewrite Ha in Ha'. injection Ha' as <-.
  destruct (analyze_inv _ _ _ _ _ _ Hz) as (deps & s' & Hd & _ & ->).
  assert (Hmode : mode = MGeneric).
  { destruct (analyze_deps_kind _ _ _ _ _ Hd) as [(_ & -> & _)|(_ & _ & _ & Hag)]; rewrite ?deps_kind_merged in *.
    - cbn in Hm. congruence.
    - destruct (deps_kind (no_deps_value (apply_variant v (fa_opts a))) s) as [[n|] b|t|] eqn:E.
      + destruct Hag as (_ & b' & ->). cbn in Hm. congruence.
      + destruct Hag as (-> & _). cbn in Hm. congruence.
      + exfalso. exact (Hk t eq_refl).
      + destruct Hag. }
  subst mode.
  destruct (gen_impl_block_fns _ _ _ _ _ _ _ _ _ Hib) as (argss & _ & _ & _ & _ & _ & Hgen & _).
  do 5 eexists. split; [reflexivity|]. rewrite eft_count, Hgen. split; reflexivity.
Qed.

(** ** the view *)
(** the one case the predicate misjudges: the function's own first non-lifetime generic parameter prints
    with a leading [EntraitT] (a type parameter of that name without attributes) *)
(** [ProjSide.c05_clash] *)
(** a readable sufficient condition *)
Lemma no_entrait_t_no_clash h s body :
  forallb (fun p => negb (is_tparam "EntraitT" p)) (p_items (g_params (s_gen s))) = true ->
  c05_clash (InFn h s body) = false.
Proof.
  unfold c05_clash, lifted_params. induction (p_items (g_params (s_gen s))) as [|p l IH]; intros H; [reflexivity|].
  cbn [forallb] in H. apply andb_true_iff in H as [H1 H2]. cbn [filter].
  destruct (is_life p) eqn:L; cbn [negb]; [apply IH; exact H2|].
  unfold print_gparam, print_attrs. unfold is_tparam in H1. unfold is_life in L.
  destruct (gp_attrs p) as [|x xs]; [|reflexivity]. cbn [flat_map app].
  destruct (gp_kind p); try discriminate L.
  - cbn [app is_prefix tt_eqb]. apply negb_true_iff in H1. rewrite String.eqb_sym, H1. reflexivity.
  - reflexivity.
Qed.

Lemma c05_view_partial v attr i items :
  expand_items v attr i = Ok items -> c05_clash i = false -> good (view_C05 (mkCtx v attr i) items).
Proof.
  intros H Hc. destruct i as [h s body|h|h t|h|h tp st body sigs sf|h|h name body sigs sf|h|]; try discriminate H;
    try (unfold view_C05, good; cbn; discriminate).
  destruct (expand_fn_inv _ _ _ _ _ _ H) as (a & tf & tg & mode & ib & Ha & _ & _ & _ & E).
  unfold view_C05, good, fn_opts. cbn [x_input x_attr x_variant]. rewrite Ha.
  destruct (deps_kind (no_deps_value (apply_variant v (fa_opts a))) s) as [n b|ty|] eqn:Ek.
  - destruct (c05_not_concrete _ _ _ _ _ _ _ H Ha) as (f & tr & im & bv & rest & -> & Hf & _); [rewrite Ek; discriminate|].
    injection E as -> _ _. rewrite parts_fn. cbn [decided v_app v_det v_holds]. intros _. split; [reflexivity|].
    rewrite (existsb_filter_nil _ _ Hf). reflexivity.
  - destruct (c05_concrete _ _ _ _ _ _ _ _ H Ha Ek) as (Hty & f & tr & im & -> & Hf & Hn & Hs & Hp & Ht).
    injection E as -> _ _. rewrite parts_fn. cbn [decided v_app v_det v_holds]. intros _. split; [reflexivity|].
    rewrite Hf, Hs, Ht, Hn. unfold first_param_toks. rewrite Hp.
    assert (Hty' : match p_items (s_inputs s) with ArgTyped _ _ t :: _ => strip_refs t | _ => TyOther [] end = ty).
    { rewrite Hty. unfold first_ty. destruct (p_items (s_inputs s)) as [|[|] ?]; reflexivity. }
    rewrite Hty', toks_eqb_refl. cbn [List.length Nat.eqb andb app firstn].
    cbn [c05_clash] in Hc.
    assert (Hc' : is_prefix [TId "EntraitT"] match lifted_params (s_gen s) with [] => [] | p :: _ => print_gparam p end = false).
    { destruct (lifted_params (s_gen s)); [reflexivity | exact Hc]. }
    rewrite Hc'. cbn [negb andb toks_eqb tt_eqb]. rewrite String.eqb_refl. reflexivity.
  - destruct (c05_not_concrete _ _ _ _ _ _ _ H Ha) as (f & tr & im & bv & rest & -> & Hf & _); [rewrite Ek; discriminate|].
    injection E as -> _ _. rewrite parts_fn. cbn [decided v_app v_det v_holds]. intros _. split; [reflexivity|].
    rewrite (existsb_filter_nil _ _ Hf). reflexivity.
Qed.

(** the unrestricted statement is false: [#[entrait(Foo)] fn foo<EntraitT>(deps: &App, x: EntraitT) {}] *)
Definition c05_cex_input : input :=
  InFn (mkHead [] [] false false)
       (mkSig false false false None "foo"
              (mkGen true (mkP [mkGP GType [] "EntraitT" [] []] false) None)
              (mkP [ArgTyped [] (PIdent false false "deps" []) (TyRef None false (TyPath false false 1 "App" [TId "App"]));
                    ArgTyped [] (PIdent false false "x" []) (TyPath false false 1 "EntraitT" [TId "EntraitT"])] false)
              None None)
       [TG Brace []].

Lemma c05_view_refuted :
  exists v attr i items, expand_items v attr i = Ok items /\ ~ good (view_C05 (mkCtx v attr i) items).
Proof.
  exists VEntrait, [TId "Foo"], c05_cex_input.
  destruct (expand_items VEntrait [TId "Foo"] c05_cex_input) as [items| | |] eqn:E; try (vm_compute in E; discriminate E).
  exists items. split; [reflexivity|]. vm_compute in E. injection E as <-.
  intros G. destruct (G eq_refl) as [_ G2]. vm_compute in G2. discriminate G2.
Qed.

(** the guarded view the checker runs *)
Lemma good_na : good na.
Proof. unfold good. cbn. discriminate. Qed.

Lemma c05_view v attr i items :
  expand_items v attr i = Ok items -> good (view_C05g (mkCtx v attr i) items).
Proof.
  intros H. unfold view_C05g. cbn [x_input]. destruct (c05_clash i) eqn:E; [exact good_na | exact (c05_view_partial _ _ _ _ H E)].
Qed.
