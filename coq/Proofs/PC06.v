(** * C06 / C07 (trait side): the forwarding [impl Trait for ::entrait::Impl<EntraitT>] of an entraited trait *)
From Coq Require Import List String Ascii Bool Arith Lia.
From Entrait Require Import Tok Syn Opts Split FnParams Convert Codegen Expand Proj Proj2 Proj3.
From Entrait.Proofs Require Import Base Shapes.
Import ListNotations.
Local Open Scope list_scope.

(** ** the methods of the entraited trait, as the macro analyses them *)
Definition items_sigs (l : list titem) : list (list attr * sig) :=
  flat_map (fun x => match x with TFn a s _ _ => [(a, s)] | _ => [] end) l.

Lemma trait_sigs_items t : trait_sigs t = items_sigs (t_items t).
Proof. reflexivity. Qed.

Definition tf_of_method (x : list attr * sig) : trait_fn := mkTF DNoDeps (fst x) (snd x) (s_async (snd x)).

Definition pident_params (x : list attr * sig) : Prop := forallb is_pident (p_items (s_inputs (snd x))) = true.

(** [analyze_trait_items] succeeds only if there is no item of an unsupported kind and every parameter of
    every method is a receiver or an identifier pattern; it yields one [NoDeps] trait fn per method, in
    order, with the method's own signature, attributes and asyncness (associated types are skipped) *)
Lemma analyze_trait_items_spec : forall l fns,
  analyze_trait_items l = Ok fns ->
  fns = map tf_of_method (items_sigs l) /\
  Forall pident_params (items_sigs l) /\
  Forall (fun x => match x with TOther _ => False | _ => True end) l.
Proof.
  induction l as [|x l IH]; intros fns H; simpl in H.
  - injection H as <-. repeat split; constructor.
  - destruct x as [a s d semi|ts|ts]; [| |discriminate].
    + destruct (forallb is_pident (p_items (s_inputs s))) eqn:Ep; [|discriminate].
      inv_ok H. injection H0 as <-. destruct (IH _ E) as (-> & F1 & F2).
      repeat split; [constructor; [exact Ep | exact F1] | constructor; [exact I | exact F2]].
    + destruct (IH _ H) as (-> & F1 & F2). repeat split; [exact F1 | constructor; [exact I | exact F2]].
Qed.

Lemma trait_contains_async_has_async l : trait_contains_async l = has_async (map snd (items_sigs l)).
Proof.
  unfold trait_contains_async, has_async. induction l as [|x l IH]; [reflexivity|].
  destruct x as [a s d semi|ts|ts]; simpl; rewrite IH; reflexivity.
Qed.

(** ** the call arguments: the method's own parameter identifiers, in order *)
Lemma trait_call_args_pident : forall l, forallb is_pident l = true ->
  trait_call_args l = Ok (map (fun n => [TId n]) (plain_names l)).
Proof.
  induction l as [|a l IH]; intros H; [reflexivity|]. simpl in H. apply andb_true_iff in H as [H1 H2].
  destruct a as [x r m c|x [r m n sub|ts b] t]; simpl in *; try discriminate; rewrite (IH H2); reflexivity.
Qed.

(** ** the delegating call and the [EntraitT] bound are the ones the property describes *)
Lemma delegation_call_c06 a ca s :
  delegation_call a ca (plain_self_by_value s) (s_name s) (map (fun n => [TId n]) (typed_names s)) = c06_call a ca s.
Proof.
  unfold delegation_call, c06_call.
  destruct (ta_impl_trait a) as [it|], (ta_delegate a) as [[|[|]|del]|], ca; reflexivity.
Qed.

Lemma impl_t_bounds_c06 a ca name g w :
  impl_t_bounds a ca name (mkTG (p_items (g_params g)) w) = c06_bound a ca name g.
Proof.
  unfold impl_t_bounds, c06_bound, trait_args, plus_static, plus_send, plus_sync. cbn [tg_params].
  destruct (ta_impl_trait a) as [it|], (ta_delegate a) as [[|[|]|del]|], ca; cbn [app]; rewrite <- ?app_assoc; reflexivity.
Qed.

(** the method of the forwarding impl for one trait method *)
Definition c06_method_item (a : trait_attr) (ca : bool) (x : list attr * sig) : iitem :=
  IIFn (fst x) [] (snd x)
       [TG Brace (c06_call a ca (snd x) ++ (if s_async (snd x) then [pc "."; TId "await"] else []))].

Lemma delegation_method_spec a ca x :
  pident_params x -> delegation_method a ca (tf_of_method x) = Ok (c06_method_item a ca x).
Proof.
  intros Hp. unfold delegation_method, tf_of_method, c06_method_item. cbn [tf_sig tf_attrs tf_async].
  rewrite (trait_call_args_pident _ Hp). cbn [rbind].
  change (plain_names (p_items (s_inputs (snd x)))) with (typed_names (snd x)).
  rewrite delegation_call_c06. reflexivity.
Qed.

(** every method of the forwarding impl, for any number of methods and parameters *)
Lemma delegation_methods_spec a ca : forall src methods,
  Forall pident_params src ->
  map_res (delegation_method a ca) (map tf_of_method src) = Ok methods ->
  methods = map (c06_method_item a ca) src.
Proof.
  induction src as [|x src IH]; intros methods F H; simpl in H.
  - injection H as <-. reflexivity.
  - inversion F as [|? ? Hx Hs]; subst. rewrite (delegation_method_spec a ca x Hx) in H. cbn [rbind] in H.
    inv_ok H. injection H0 as <-. simpl. f_equal. apply IH; assumption.
Qed.

Lemma impl_fns_c06_items a ca attrs u g tr st : forall src,
  impl_fns (mkImpl attrs u g tr st (map (c06_method_item a ca) src))
  = map (fun x => (fst x, snd x, [TG Brace (c06_call a ca (snd x) ++ (if s_async (snd x) then [pc "."; TId "await"] else []))])) src.
Proof.
  unfold impl_fns. cbn [i_items]. induction src as [|x src IH]; [reflexivity|]. cbn [map flat_map c06_method_item app]. rewrite IH. reflexivity.
Qed.

Lemma only_impl_fns_c06_items a ca attrs u g tr st src :
  only_impl_fns (mkImpl attrs u g tr st (map (c06_method_item a ca) src)) = true.
Proof. unfold only_impl_fns. cbn [i_items]. induction src as [|x src IH]; [reflexivity|]. exact IH. Qed.

Lemma c06_methods_ok a ca : forall src,
  Forall pident_params src ->
  c06_methods a ca src
    (map (fun x => (fst x, snd x, [TG Brace (c06_call a ca (snd x) ++ (if s_async (snd x) then [pc "."; TId "await"] else []))])) src) = true.
Proof.
  induction src as [|[at_ s] src IH]; intros F; [reflexivity|]. inversion F as [|? ? Hx Hs]; subst.
  cbn [map c06_methods fst snd]. unfold pident_params in Hx. cbn [snd] in Hx.
  rewrite !toks_eqb_refl, Hx. cbn [andb]. apply IH. exact Hs.
Qed.

(** ** the expansion of an entraited trait, explicitly *)
Definition c06_impl (a : trait_attr) (h : head) (t : item_trait) : item_impl :=
  let ca := has_async (map snd (trait_sigs t)) in
  mkImpl (filter is_async_trait (h_attrs h)) false
         (mkGen true (p_of_list (trait_impl_params (p_items (g_params (t_gen t)))))
                (Some (p_of_list (mk_pred (c06_bound a ca (t_name t) (t_gen t)) :: where_items (t_gen t)))))
         (Some ([TId (t_name t)] ++ trait_args (t_gen t)))
         impl_path_toks
         (map (c06_method_item a ca) (trait_sigs t)).

Lemma where_items_trait_tg t : p_items (tg_where (trait_tg t)) = where_items (t_gen t).
Proof. unfold trait_tg, where_items. cbn [tg_where]. destruct (g_where (t_gen t)); reflexivity. Qed.

Lemma impl_t_bounds_trait_tg a ca t : impl_t_bounds a ca (t_name t) (trait_tg t) = c06_bound a ca (t_name t) (t_gen t).
Proof. unfold trait_tg. apply impl_t_bounds_c06. Qed.

(** a successful trait-mode expansion is: the re-emitted trait, the delegation-target traits (none, the
    target, or target and selector), and
    [impl<EntraitT: ::core::marker::Sync + 'static, P..> Trait<P..> for ::entrait::Impl<EntraitT> where EntraitT: <bound>, W.. { methods }]
    where every parameter of every method is a receiver or an identifier *)
Definition c06_trait (a : trait_attr) (h : head) (t : item_trait) : item_trait :=
  gen_trait_def (ta_opts a) TTrait MGeneric (h_attrs h) (Some (h_attrs h)) (h_vis h) (t_name t) (trait_tg t)
                (t_colon t) (t_supers t) (map tf_of_method (trait_sigs t)) MRawTrait.

Lemma c06_expansion_full v attr h t items :
  expand_items v attr (InTrait h t) = Ok items ->
  exists a0 ds,
    parse_trait_attr attr = Ok a0 /\
    (ta_impl_trait a0 = None -> forall d, ta_delegate a0 <> Some (ByTrait d)) /\
    delegation_trait_defs (eff_trait_attr v a0) (h_vis h) (trait_tg t) (map tf_of_method (trait_sigs t))
                          (filter is_async_trait (h_attrs h)) = Ok (map ITrait ds) /\
    items = [ITrait (c06_trait (eff_trait_attr v a0) h t)] ++ map ITrait ds ++ [IImpl (c06_impl (eff_trait_attr v a0) h t)] /\
    parts (InTrait h t) items = Some (GTrait (c06_trait (eff_trait_attr v a0) h t) ds (c06_impl (eff_trait_attr v a0) h t)) /\
    Forall pident_params (trait_sigs t) /\
    Forall (fun x => match x with TOther _ => False | _ => True end) (t_items t).
Proof.
  intros H. destruct (expand_trait_inv _ _ _ _ _ H) as (a0 & fns & deleg & methods & Ha & Hnd & Hfns & Hd & Hm & ->).
  cbv zeta in *. destruct (analyze_trait_items_spec _ _ Hfns) as (-> & Fp & Fo).
  rewrite (delegation_methods_spec _ _ _ _ Fp Hm).
  rewrite trait_contains_async_has_async. fold (trait_sigs t) in *.
  rewrite impl_t_bounds_trait_tg, where_items_trait_tg.
  pose proof (delegation_trait_defs_shape _ _ _ _ _ _ Hd) as Hshape.
  match goal with |- context [[ITrait ?tr] ++ deleg ++ [IImpl ?im]] =>
    destruct (parts_trait h t tr deleg im Hshape) as (ds & Hp & Hds); exists a0, ds end.
  split; [exact Ha|]. split; [exact Hnd|]. split; [rewrite <- Hds; exact Hd|].
  split; [rewrite Hds; reflexivity|]. split; [exact Hp|]. split; [exact Fp | exact Fo].
Qed.

Lemma c06_expansion v attr h t items :
  expand_items v attr (InTrait h t) = Ok items ->
  exists a0 tr ds,
    parse_trait_attr attr = Ok a0 /\
    items = [ITrait tr] ++ map ITrait ds ++ [IImpl (c06_impl (eff_trait_attr v a0) h t)] /\
    parts (InTrait h t) items = Some (GTrait tr ds (c06_impl (eff_trait_attr v a0) h t)) /\
    Forall pident_params (trait_sigs t).
Proof.
  intros H. destruct (c06_expansion_full _ _ _ _ _ H) as (a0 & ds & Ha & _ & _ & Hi & Hp & Fp & _).
  exists a0, (c06_trait (eff_trait_attr v a0) h t), ds. auto.
Qed.

Lemma c06_impl_only a h t : only_impl_fns (c06_impl a h t) = true.
Proof. apply only_impl_fns_c06_items. Qed.

Lemma c06_impl_fns a h t :
  impl_fns (c06_impl a h t)
  = map (fun x => (fst x, snd x, [TG Brace (c06_call a (has_async (map snd (trait_sigs t))) (snd x) ++
                                           (if s_async (snd x) then [pc "."; TId "await"] else []))])) (trait_sigs t).
Proof. apply impl_fns_c06_items. Qed.

Lemma c06_impl_header a h t :
  i_self (c06_impl a h t) = impl_path_toks /\
  app_param_toks (i_gen (c06_impl a h t)) = expected_impl_t false /\
  first_where_toks (i_gen (c06_impl a h t)) = c06_bound a (has_async (map snd (trait_sigs t))) (t_name t) (t_gen t) /\
  i_trait (c06_impl a h t) = Some ([TId (t_name t)] ++ trait_args (t_gen t)) /\
  p_items (g_params (i_gen (c06_impl a h t))) = trait_impl_params (p_items (g_params (t_gen t))) /\
  tl (where_items (i_gen (c06_impl a h t))) = where_items (t_gen t).
Proof.
  repeat split. unfold app_param_toks, c06_impl. cbn [i_gen g_params p_items p_of_list].
  fold nonlife. rewrite filter_nonlife_trait_impl_params. reflexivity.
Qed.

(** ** the view the checker evaluates (shared by C06 and the trait side of C07) *)
Lemma c06_gen_holds w v attr h t items a0 :
  expand_items v attr (InTrait h t) = Ok items ->
  parse_trait_attr attr = Ok a0 ->
  is_some (ta_impl_trait a0) = w ->
  v_app (view_C06_gen w (mkCtx v attr (InTrait h t)) items) = true /\
  v_det (view_C06_gen w (mkCtx v attr (InTrait h t)) items) = true /\
  v_holds (view_C06_gen w (mkCtx v attr (InTrait h t)) items) = true.
Proof.
  intros H Ha Hw. destruct (c06_expansion _ _ _ _ _ H) as (a0' & tr & ds & Ha' & _ & Hp & Fp).
  rewrite Ha in Ha'. injection Ha' as <-.
  unfold view_C06_gen, trait_attr_of. cbn [x_input x_attr x_variant]. rewrite Hp, Ha. cbn [ta_impl_trait].
  rewrite Hw, eqb_reflx. cbn [decided v_app v_det v_holds]. split; [reflexivity|]. split; [reflexivity|].
  fold (eff_trait_attr v a0).
  destruct (c06_impl_header (eff_trait_attr v a0) h t) as (E1 & E2 & E3 & E4 & E5 & E6).
  rewrite E1, E2, E3, E4, E5, E6, c06_impl_only, c06_impl_fns, (c06_methods_ok _ _ _ Fp), !toks_eqb_refl, !toks_list_eqb_refl. reflexivity.
Qed.

Lemma c06_gen_view w v attr i items :
  expand_items v attr i = Ok items -> good (view_C06_gen w (mkCtx v attr i) items).
Proof.
  intros H. destruct i as [h s body|h|h t|h|h tp st body sigs sf|h|h name body sigs sf|h|]; try discriminate H;
    try (unfold view_C06_gen, good; cbn; discriminate).
  destruct (c06_expansion _ _ _ _ _ H) as (a0 & tr & ds & Ha & _ & Hp & _).
  destruct (Bool.eqb (is_some (ta_impl_trait a0)) w) eqn:Ew.
  - apply eqb_prop in Ew. destruct (c06_gen_holds w _ _ _ _ _ _ H Ha Ew) as (_ & Hd & Hh). intros _. split; assumption.
  - unfold view_C06_gen, good, trait_attr_of. cbn [x_input x_attr x_variant]. rewrite Hp, Ha. cbn [ta_impl_trait].
    rewrite Ew. cbn. discriminate.
Qed.

Lemma c06_view v attr i items :
  expand_items v attr i = Ok items -> good (view_C06 (mkCtx v attr i) items).
Proof. apply c06_gen_view. Qed.
