(** * C10: mock attributes on the generated / entraited trait *)
From Coq Require Import List String Ascii Bool Arith Lia.
From Entrait Require Import Tok Syn Opts Split FnParams Convert Codegen Expand Proj.
From Entrait.Proofs Require Import Base Shapes.
Import ListNotations.
Local Open Scope list_scope.

(** ** the options: variant fallbacks never override an explicit value *)
Definition variant_unimock (v : variant) : bool := match v with VUnimock | VExportUnimock => true | _ => false end.
Definition variant_export (v : variant) : bool := match v with VExport | VExportUnimock => true | _ => false end.

Lemma apply_variant_unimock_explicit v o b : o_unimock o = Some b -> o_unimock (apply_variant v o) = Some b.
Proof. intros H. destruct v; cbn [apply_variant o_unimock]; rewrite ?H; reflexivity. Qed.

Lemma apply_variant_export_explicit v o b : o_export o = Some b -> o_export (apply_variant v o) = Some b.
Proof. intros H. destruct v; cbn [apply_variant o_export]; rewrite ?H; reflexivity. Qed.

Lemma apply_variant_mockall v o : o_mockall (apply_variant v o) = o_mockall o.
Proof. destruct v; reflexivity. Qed.

Lemma apply_variant_mock_api v o : o_mock_api (apply_variant v o) = o_mock_api o.
Proof. destruct v; reflexivity. Qed.

(** the effective switches: the written value when there is one, else the macro variant's default
    ([entrait_unimock*] = the [unimock] feature, [entrait_export*]); mockall has no default *)
Lemma unimock_value_variant v o :
  unimock_value (apply_variant v o) = match o_unimock o with Some b => b | None => variant_unimock v end.
Proof. unfold unimock_value. destruct v; cbn [apply_variant o_unimock variant_unimock]; destruct (o_unimock o); reflexivity. Qed.

Lemma export_value_variant v o :
  export_value (apply_variant v o) = match o_export o with Some b => b | None => variant_export v end.
Proof. unfold export_value. destruct v; cbn [apply_variant o_export variant_export]; destruct (o_export o); reflexivity. Qed.

Lemma mockall_value_variant v o :
  mockall_value (apply_variant v o) = match o_mockall o with Some b => b | None => false end.
Proof. unfold mockall_value. rewrite apply_variant_mockall. reflexivity. Qed.

(** ** the attributes [gen_trait_def] puts in front of the user's *)
Definition gen_unimock (o : opts) (ti : trait_indirection) (im : input_mode) (fns : list trait_fn) : list attr :=
  if unimock_value o && negb (unimock_params_empty ti (o_mock_api o))
  then [export_gated o (unimock_params (o_mock_api o) im fns)] else [].
Definition gen_entrait (mode : trait_dep_mode) : list attr :=
  match mode with MConcrete _ => [entrait_for_trait_attr] | MGeneric => [] end.
Definition gen_mockall (o : opts) : list attr := if mockall_value o then [export_gated o mockall_params] else [].
Definition gen_added (o : opts) (ti : trait_indirection) (mode : trait_dep_mode) (im : input_mode) (fns : list trait_fn) :=
  gen_unimock o ti im fns ++ gen_entrait mode ++ gen_mockall o.

Lemma t_attrs_gen_trait_def o ti mode subs lit v name tg colon supers fns im :
  t_attrs (gen_trait_def o ti mode subs lit v name tg colon supers fns im)
  = gen_added o ti mode im fns ++ match lit with Some l => l | None => filter is_trait_sub subs end.
Proof. unfold gen_trait_def, gen_added, gen_unimock, gen_entrait, gen_mockall. cbn [t_attrs]. rewrite <- !app_assoc. reflexivity. Qed.

(** classification of the three generated attributes *)
Lemma ungate_export_gated o rest :
  ungate (export_gated o (TP ":"%char :: rest)) = (negb (export_value o), TP ":"%char :: rest).
Proof. unfold export_gated. destruct (export_value o); reflexivity. Qed.

Lemma unimock_params_shape api im fns : exists rest, unimock_params api im fns = unimock_path ++ rest.
Proof. unfold unimock_params, unimock_path. eexists. reflexivity. Qed.

Lemma unimock_path_head : exists rest, unimock_path = TP ":"%char :: rest.
Proof. eexists. reflexivity. Qed.

Lemma gen_unimock_class o ti im fns a :
  In a (gen_unimock o ti im fns) ->
  is_unimock_attr a = true /\ is_mockall_attr a = false /\ fst (ungate a) = negb (export_value o).
Proof.
  unfold gen_unimock. destruct (unimock_value o && negb (unimock_params_empty ti (o_mock_api o))); [|intros []].
  intros [<-|[]]. destruct (unimock_params_shape (o_mock_api o) im fns) as (rest & ->).
  unfold is_unimock_attr, is_mockall_attr.
  change (unimock_path ++ rest) with (TP ":"%char :: (tl unimock_path ++ rest)).
  rewrite ungate_export_gated. cbn [fst snd].
  change (TP ":"%char :: (tl unimock_path ++ rest)) with (unimock_path ++ rest).
  rewrite is_prefix_app. repeat split.
Qed.

Lemma gen_entrait_class mode a :
  In a (gen_entrait mode) -> is_unimock_attr a = false /\ is_mockall_attr a = false.
Proof. unfold gen_entrait. destruct mode; [intros []|]. intros [<-|[]]. split; reflexivity. Qed.

Lemma gen_mockall_class o a :
  In a (gen_mockall o) ->
  is_unimock_attr a = false /\ is_mockall_attr a = true /\ fst (ungate a) = negb (export_value o).
Proof.
  unfold gen_mockall. destruct (mockall_value o); [|intros []]. intros [<-|[]].
  unfold export_gated. destruct (export_value o); repeat split.
Qed.

Lemma filter_none {A} (p : A -> bool) l : (forall x, In x l -> p x = false) -> filter p l = [].
Proof.
  induction l as [|x l IH]; intros H; [reflexivity|]. simpl. rewrite (H x (or_introl eq_refl)). apply IH.
  intros y Hy. apply H. right. exact Hy.
Qed.

Lemma filter_all {A} (p : A -> bool) l : (forall x, In x l -> p x = true) -> filter p l = l.
Proof.
  induction l as [|x l IH]; intros H; [reflexivity|]. simpl. rewrite (H x (or_introl eq_refl)). f_equal. apply IH.
  intros y Hy. apply H. right. exact Hy.
Qed.

Lemma filter_unimock_added o ti mode im fns :
  filter is_unimock_attr (gen_added o ti mode im fns) = gen_unimock o ti im fns.
Proof.
  unfold gen_added. rewrite !filter_app.
  rewrite (filter_all _ (gen_unimock o ti im fns)) by (intros x Hx; apply (gen_unimock_class _ _ _ _ _ Hx)).
  rewrite (filter_none _ (gen_entrait mode)) by (intros x Hx; apply (gen_entrait_class _ _ Hx)).
  rewrite (filter_none _ (gen_mockall o)) by (intros x Hx; apply (gen_mockall_class _ _ Hx)).
  rewrite !app_nil_r. reflexivity.
Qed.

Lemma filter_mockall_added o ti mode im fns :
  filter is_mockall_attr (gen_added o ti mode im fns) = gen_mockall o.
Proof.
  unfold gen_added. rewrite !filter_app.
  rewrite (filter_none _ (gen_unimock o ti im fns)) by (intros x Hx; apply (gen_unimock_class _ _ _ _ _ Hx)).
  rewrite (filter_none _ (gen_entrait mode)) by (intros x Hx; apply (gen_entrait_class _ _ Hx)).
  rewrite (filter_all _ (gen_mockall o)) by (intros x Hx; apply (gen_mockall_class _ _ Hx)).
  reflexivity.
Qed.

(** every generated mock attribute is [cfg_attr(test, ..)]-wrapped iff the invocation is not exporting *)
Lemma added_gated o ti mode im fns a :
  In a (gen_added o ti mode im fns) -> is_mock_attr a = true -> fst (ungate a) = negb (export_value o).
Proof.
  unfold gen_added. rewrite !in_app_iff. intros [H|[H|H]] Hm.
  - apply (gen_unimock_class _ _ _ _ _ H).
  - destruct (gen_entrait_class _ _ H) as [H1 H2]. unfold is_mock_attr in Hm. rewrite H1, H2 in Hm. discriminate.
  - apply (gen_mockall_class _ _ H).
Qed.

Lemma c10_ok_added o ti mode im fns :
  c10_ok o (match ti with TPlain => true | _ => false end) (gen_added o ti mode im fns) = true.
Proof.
  unfold c10_ok. rewrite filter_unimock_added, filter_mockall_added.
  assert (Hu : unimock_value o && negb (unimock_params_empty ti (o_mock_api o))
               = unimock_value o && (negb (match ti with TPlain => true | _ => false end) || is_some (o_mock_api o))).
  { unfold unimock_params_empty. destruct ti, (o_mock_api o); reflexivity. }
  apply andb_true_iff; split; [apply andb_true_iff; split|].
  - unfold gen_unimock. rewrite Hu.
    destruct (unimock_value o && (negb (match ti with TPlain => true | _ => false end) || is_some (o_mock_api o))); reflexivity.
  - unfold gen_mockall. destruct (mockall_value o); reflexivity.
  - apply forallb_forall. intros a Ha. apply filter_In in Ha as [Ha Hm].
    rewrite (added_gated _ _ _ _ _ _ Ha Hm). apply eqb_reflx.
Qed.

(** ** [minus_attrs] as multiset difference *)
Lemma attr_eq_dec (a b : attr) : {a = b} + {a <> b}.
Proof.
  destruct (toks_eqb a b) eqn:E; [left; apply toks_eqb_eq; exact E|].
  right. intros ->. rewrite toks_eqb_refl in E. discriminate.
Qed.

Notation cnt := (count_occ attr_eq_dec).

Lemma remove_one_some u : forall l l', remove_one u l = Some l' -> exists l1 l2, l = l1 ++ u :: l2 /\ l' = l1 ++ l2.
Proof.
  induction l as [|x l IH]; intros l' H; simpl in H; [discriminate|].
  destruct (toks_eqb u x) eqn:E.
  - injection H as <-. apply toks_eqb_eq in E. subst x. exists [], l. split; reflexivity.
  - destruct (remove_one u l) as [r|] eqn:Er; [|discriminate]. injection H as <-.
    destruct (IH r eq_refl) as (l1 & l2 & -> & ->). exists (x :: l1), l2. split; reflexivity.
Qed.

Lemma remove_one_none u : forall l, remove_one u l = None -> ~ In u l.
Proof.
  induction l as [|x l IH]; intros H; simpl in H; [intros []|].
  destruct (toks_eqb u x) eqn:E; [discriminate|].
  destruct (remove_one u l) as [r|] eqn:Er; [discriminate|].
  intros [->|Hin]; [rewrite toks_eqb_refl in E; discriminate | exact (IH eq_refl Hin)].
Qed.

(** occurrences after the user's attributes are taken away: truncated subtraction, attribute by attribute *)
Lemma count_minus x : forall user l, cnt (minus_attrs l user) x = cnt l x - cnt user x.
Proof.
  induction user as [|u rest IH]; intros l; cbn [minus_attrs].
  - simpl. lia.
  - destruct (remove_one u l) as [l'|] eqn:E.
    + destruct (remove_one_some _ _ _ E) as (l1 & l2 & -> & ->). rewrite IH.
      destruct (attr_eq_dec u x) as [->|N].
      * rewrite (count_occ_elt_eq attr_eq_dec l1 l2 eq_refl), (count_occ_cons_eq attr_eq_dec rest eq_refl). lia.
      * rewrite (count_occ_elt_neq attr_eq_dec l1 l2 N), (count_occ_cons_neq attr_eq_dec rest N). reflexivity.
    + apply remove_one_none in E. rewrite IH.
      destruct (attr_eq_dec u x) as [->|N].
      * apply (count_occ_not_In attr_eq_dec) in E. rewrite (count_occ_cons_eq attr_eq_dec rest eq_refl). lia.
      * rewrite (count_occ_cons_neq attr_eq_dec rest N). reflexivity.
Qed.

Lemma count_filter (p : attr -> bool) x : forall l, cnt (filter p l) x = if p x then cnt l x else 0.
Proof.
  induction l as [|y l IH]; [destruct (p x); reflexivity|]. simpl filter.
  destruct (attr_eq_dec y x) as [->|N].
  - destruct (p x) eqn:Px.
    + rewrite !(count_occ_cons_eq attr_eq_dec _ eq_refl), IH. reflexivity.
    + exact IH.
  - rewrite (count_occ_cons_neq attr_eq_dec l N). destruct (p y); [rewrite (count_occ_cons_neq attr_eq_dec _ N)|]; exact IH.
Qed.

(** what the view calls [added] when the trait carries [added ++ (the user's attributes satisfying sub)]:
    the generated ones, minus those the user wrote identically among the attributes NOT re-applied *)
Lemma count_added (sub : attr -> bool) added user x :
  cnt (minus_attrs (added ++ filter sub user) user) x = cnt added x - (if sub x then 0 else cnt user x).
Proof. rewrite count_minus, count_occ_app, count_filter. destruct (sub x); lia. Qed.

Lemma count_added_all added user x : cnt (minus_attrs (added ++ user) user) x = cnt added x.
Proof. rewrite count_minus, count_occ_app. lia. Qed.

(** a predicate satisfied by at most one of the generated attributes *)
Lemma filter_slot_nil (p : attr -> bool) added R :
  (forall x, cnt R x <= cnt added x) -> filter p added = [] -> filter p R = [].
Proof.
  intros Hle Hn. destruct (filter p R) as [|y r] eqn:E; [reflexivity|]. exfalso.
  assert (Hy : In y (filter p R)) by (rewrite E; left; reflexivity).
  apply filter_In in Hy as [Hy Py]. apply (count_occ_In attr_eq_dec) in Hy.
  assert (Ha : In y added) by (apply (count_occ_In attr_eq_dec); specialize (Hle y); lia).
  assert (Hf : In y (filter p added)) by (apply filter_In; split; assumption).
  rewrite Hn in Hf. exact Hf.
Qed.

Lemma filter_slot (p : attr -> bool) a added R :
  (forall x, cnt R x <= cnt added x) -> filter p added = [a] ->
  (cnt R a = 0 /\ filter p R = []) \/ (cnt R a = 1 /\ filter p R = [a]).
Proof.
  intros Hle Ha.
  assert (Pa : p a = true) by (assert (H : In a (filter p added)) by (rewrite Ha; left; reflexivity); apply filter_In in H; apply H).
  assert (Hall : forall y, In y (filter p R) -> y = a).
  { intros y Hy. apply filter_In in Hy as [Hy Py]. apply (count_occ_In attr_eq_dec) in Hy.
    assert (Hin : In y added) by (apply (count_occ_In attr_eq_dec); specialize (Hle y); lia).
    assert (Hf : In y (filter p added)) by (apply filter_In; split; assumption).
    rewrite Ha in Hf. destruct Hf as [<-|[]]. reflexivity. }
  assert (Hc : cnt (filter p R) a = cnt R a) by (rewrite count_filter, Pa; reflexivity).
  assert (H1 : cnt added a = 1).
  { pose proof (count_filter p a added) as Hf. rewrite Pa, Ha in Hf. rewrite <- Hf.
    rewrite (count_occ_cons_eq attr_eq_dec [] eq_refl). reflexivity. }
  pose proof (Hle a) as Hle1. rewrite H1 in Hle1.
  destruct (filter p R) as [|y [|z r]] eqn:E.
  - left. split; [rewrite <- Hc; reflexivity | reflexivity].
  - right. rewrite (Hall y (or_introl eq_refl)) in *. split; [|reflexivity].
    rewrite <- Hc. rewrite (count_occ_cons_eq attr_eq_dec [] eq_refl). reflexivity.
  - exfalso. rewrite (Hall y (or_introl eq_refl)), (Hall z (or_intror (or_introl eq_refl))) in Hc.
    rewrite !(count_occ_cons_eq attr_eq_dec _ eq_refl) in Hc. lia.
Qed.

Lemma filter_slot_same (p : attr -> bool) added R :
  (forall x, cnt R x <= cnt added x) ->
  (forall x, In x added -> p x = true -> cnt R x = cnt added x) ->
  List.length (filter p added) <= 1 ->
  filter p R = filter p added.
Proof.
  intros Hle Hsame Hlen. destruct (filter p added) as [|a [|b r]] eqn:E.
  - apply (filter_slot_nil p added R Hle E).
  - assert (Hin : In a (filter p added)) by (rewrite E; left; reflexivity). apply filter_In in Hin as [Hin Pa].
    destruct (filter_slot p a added R Hle E) as [[H0 _]|[_ H1]]; [|exact H1]. exfalso.
    rewrite (Hsame a Hin Pa) in H0. apply (count_occ_not_In attr_eq_dec) in H0. exact (H0 Hin).
  - simpl in Hlen. lia.
Qed.

Lemma cnt_le_In R added : (forall x, cnt R x <= cnt added x) -> forall x, In x R -> In x added.
Proof. intros Hle x H. apply (count_occ_In attr_eq_dec) in H. apply (count_occ_In attr_eq_dec). specialize (Hle x). lia. Qed.

Lemma c10_ok_transfer o na added R :
  (forall x, cnt R x <= cnt added x) ->
  filter is_unimock_attr R = filter is_unimock_attr added ->
  filter is_mockall_attr R = filter is_mockall_attr added ->
  c10_ok o na added = true -> c10_ok o na R = true.
Proof.
  intros Hle Hu Hm. unfold c10_ok. rewrite Hu, Hm. intros H.
  apply andb_true_iff in H as [H H3]. rewrite H. cbn [andb].
  apply forallb_forall. intros a Ha. apply filter_In in Ha as [Ha Pa].
  rewrite forallb_forall in H3. apply H3. apply filter_In. split; [exact (cnt_le_In _ _ Hle a Ha) | exact Pa].
Qed.

Lemma gen_unimock_len o ti im fns : List.length (gen_unimock o ti im fns) <= 1.
Proof. unfold gen_unimock. destruct (unimock_value o && negb (unimock_params_empty ti (o_mock_api o))); simpl; lia. Qed.
Lemma gen_mockall_len o : List.length (gen_mockall o) <= 1.
Proof. unfold gen_mockall. destruct (mockall_value o); simpl; lia. Qed.

(** whatever list [R] has, attribute by attribute, at most the generated occurrences and exactly the
    generated occurrences of the generated mock attributes, passes the check *)
Lemma c10_core o ti mode im fns R :
  let added := gen_added o ti mode im fns in
  (forall x, cnt R x <= cnt added x) ->
  (forall x, In x added -> is_mock_attr x = true -> cnt R x = cnt added x) ->
  c10_ok o (match ti with TPlain => true | _ => false end) R = true.
Proof.
  intros added Hle Hsame. apply (c10_ok_transfer o _ added R Hle).
  - apply filter_slot_same; [exact Hle| |].
    + intros x Hx Px. apply Hsame; [exact Hx|]. unfold is_mock_attr. rewrite Px. reflexivity.
    + unfold added. rewrite filter_unimock_added. apply gen_unimock_len.
  - apply filter_slot_same; [exact Hle| |].
    + intros x Hx Px. apply Hsame; [exact Hx|]. unfold is_mock_attr. rewrite Px. apply orb_true_r.
    + unfold added. rewrite filter_mockall_added. apply gen_mockall_len.
  - apply c10_ok_added.
Qed.

(** the attributes that follow the generated ones on the trait (trait: all of the user's; fn / mod: the user's
    re-applied sub-attributes) are exactly the ones the view subtracts *)
Lemma c10_core_trait o ti mode im fns user :
  c10_ok o (match ti with TPlain => true | _ => false end) (minus_attrs (gen_added o ti mode im fns ++ user) user) = true.
Proof. apply (c10_core o ti mode im fns); intros x; intros; rewrite count_added_all; lia. Qed.

Lemma minus_filter_nil (sub : attr -> bool) user : minus_attrs (filter sub user) user = [].
Proof.
  apply (count_occ_inv_nil attr_eq_dec). intros x.
  change (filter sub user) with ([] ++ filter sub user). rewrite count_added. reflexivity.
Qed.

Lemma minus_nil user : minus_attrs [] user = [].
Proof. induction user as [|u r IH]; [reflexivity|]. exact IH. Qed.

(** the delegation-target traits carry the re-applied [async_trait] attributes and nothing else *)
Lemma delegation_attrs a v tg fns subs deleg d :
  delegation_trait_defs a v tg fns subs = Ok deleg -> In (ITrait d) deleg -> t_attrs d = subs \/ t_attrs d = [].
Proof.
  unfold delegation_trait_defs. destruct (ta_impl_trait a); [|intros H; injection H as <-; intros []].
  destruct (ta_delegate a) as [[|r|x]|]; intros H; try discriminate; injection H as <-.
  - intros [E|[]]. injection E as <-. left. cbn [t_attrs]. apply app_nil_r.
  - intros [E|[E|[]]]; injection E as <-; [left|right; reflexivity].
    cbn [t_attrs]. apply app_nil_r.
Qed.

(** ** explicit statements *)
(** what the property says about the attributes the macro puts on the trait, over the option record *)
Definition mock_spec (o : opts) (needs_api : bool) (added : list attr) : Prop :=
  existsb is_unimock_attr added = unimock_value o && (negb needs_api || is_some (o_mock_api o)) /\
  existsb is_mockall_attr added = mockall_value o /\
  List.length (filter is_unimock_attr added) <= 1 /\
  List.length (filter is_mockall_attr added) <= 1 /\
  (forall a, In a added -> is_mock_attr a = true -> fst (ungate a) = negb (export_value o)).

Lemma mock_spec_unfold o needs_api added :
  mock_spec o needs_api added <->
  (existsb is_unimock_attr added = unimock_value o && (negb needs_api || is_some (o_mock_api o)) /\
   existsb is_mockall_attr added = mockall_value o /\
   List.length (filter is_unimock_attr added) <= 1 /\
   List.length (filter is_mockall_attr added) <= 1 /\
   (forall a, In a added -> is_mock_attr a = true -> fst (ungate a) = negb (export_value o))).
Proof. reflexivity. Qed.

Lemma existsb_filter {A} (p : A -> bool) l : existsb p l = match filter p l with [] => false | _ => true end.
Proof. induction l as [|x l IH]; [reflexivity|]. simpl. destruct (p x); [reflexivity | exact IH]. Qed.

Lemma gen_added_spec o ti mode im fns :
  mock_spec o (match ti with TPlain => true | _ => false end) (gen_added o ti mode im fns).
Proof.
  unfold mock_spec. rewrite !existsb_filter, filter_unimock_added, filter_mockall_added.
  repeat split.
  - unfold gen_unimock, unimock_params_empty. destruct (unimock_value o), ti, (o_mock_api o); reflexivity.
  - unfold gen_mockall. destruct (mockall_value o); reflexivity.
  - apply gen_unimock_len.
  - apply gen_mockall_len.
  - apply added_gated.
Qed.

Lemma c10_fn_attrs v attr h s body items :
  expand_items v attr (InFn h s body) = Ok items ->
  exists a f tr im added,
    parse_fn_attr attr = Ok a /\ items = [f; ITrait tr; IImpl im] /\
    t_attrs tr = added ++ filter is_trait_sub (h_attrs h) /\
    mock_spec (apply_variant v (fa_opts a)) true added.
Proof.
  intros H. destruct (expand_fn_inv _ _ _ _ _ _ H) as (a & tf & tg & mode & ib & Ha & _ & _ & _ & ->).
  exists a. do 4 eexists. split; [exact Ha|]. split; [reflexivity|]. split; [apply t_attrs_gen_trait_def|].
  apply (gen_added_spec _ TPlain).
Qed.

Lemma c10_mod_attrs v attr h name body sigs sf items :
  expand_items v attr (InMod h name body sigs sf) = Ok items ->
  exists a user tr im added,
    parse_fn_attr attr = Ok a /\
    items = [IMod (h_attrs h) (h_vis h) name (user ++ [ITrait tr; IImpl im]);
             IUse [] (fa_vis a) ([TId name] ++ path_sep ++ [TId (fa_trait a)])] /\
    t_attrs tr = added ++ filter is_trait_sub (h_attrs h) /\
    mock_spec (apply_variant v (fa_opts a)) true added.
Proof.
  intros H. destruct (expand_mod_inv _ _ _ _ _ _ _ _ H) as (_ & bitems & fl & a & fns0 & tg & mode & ib & _ & Ha & _ & _ & _ & ->).
  exists a. do 4 eexists. split; [exact Ha|]. split; [reflexivity|]. split; [apply t_attrs_gen_trait_def|].
  apply (gen_added_spec _ TPlain).
Qed.

Lemma c10_trait_attrs v attr h t items :
  expand_items v attr (InTrait h t) = Ok items ->
  exists a tr ds im added,
    parse_trait_attr attr = Ok a /\
    items = [ITrait tr] ++ map ITrait ds ++ [IImpl im] /\
    parts (InTrait h t) items = Some (GTrait tr ds im) /\
    t_attrs tr = added ++ h_attrs h /\
    mock_spec (apply_variant v (ta_opts a)) false added /\
    (forall d, In d ds -> t_attrs d = filter is_async_trait (h_attrs h) \/ t_attrs d = []).
Proof.
  intros H. destruct (expand_trait_inv _ _ _ _ _ H) as (a0 & fns & deleg & methods & Ha & _ & _ & Hd & _ & ->).
  match goal with |- context [[ITrait ?tr] ++ deleg ++ [IImpl ?im]] =>
    destruct (parts_trait h t tr deleg im (delegation_trait_defs_shape _ _ _ _ _ _ Hd)) as (ds & Hp & Hds) end.
  exists a0. do 4 eexists. split; [exact Ha|]. split; [rewrite Hds; reflexivity|]. split; [exact Hp|].
  split; [apply t_attrs_gen_trait_def|]. split; [apply (gen_added_spec _ TTrait)|].
  intros d Hin. apply (delegation_attrs _ _ _ _ _ _ d Hd). rewrite Hds. apply in_map. exact Hin.
Qed.

(** ** the view *)
Lemma c10_view_trait v attr h t items :
  expand_items v attr (InTrait h t) = Ok items -> good (view_C10 (mkCtx v attr (InTrait h t)) items).
Proof.
  intros H. destruct (c10_trait_attrs _ _ _ _ _ H) as (a & tr & ds & im & added & Ha & -> & Hp & Ht & _ & Hds).
  destruct (expand_trait_inv _ _ _ _ _ H) as (a0 & fns & deleg & methods & Ha0 & _ & _ & _ & _ & E).
  rewrite Ha in Ha0. injection Ha0 as <-.
  assert (Etr : t_attrs tr = gen_added (apply_variant v (ta_opts a)) TTrait MGeneric MRawTrait fns ++ h_attrs h).
  { injection E as -> _. apply t_attrs_gen_trait_def. }
  unfold view_C10, good, trait_attr_of. cbn [x_input x_attr x_variant]. rewrite Hp, Ha. cbn [decided v_app v_det v_holds ta_opts].
  intros _. split; [reflexivity|]. apply andb_true_iff. split.
  - rewrite Etr. apply (c10_core_trait _ TTrait).
  - apply forallb_forall. intros d Hd. destruct (Hds d Hd) as [-> | ->].
    + rewrite minus_filter_nil. reflexivity.
    + rewrite minus_nil. reflexivity.
Qed.

(** fn / mod: the trait carries the generated attributes followed by the user's re-applied sub-attributes,
    and the view subtracts exactly those; trait: followed by all of the user's attributes, all subtracted.
    In both cases the difference has, attribute by attribute, exactly the generated occurrences. *)
Lemma c10_view v attr i items :
  expand_items v attr i = Ok items -> good (view_C10 (mkCtx v attr i) items).
Proof.
  intros H. destruct i as [h s body|h|h t|h|h tp st body sigs sf|h|h name body sigs sf|h|]; try discriminate H.
  - destruct (expand_fn_inv _ _ _ _ _ _ H) as (a & tf & tg & mode & ib & Ha & _ & _ & _ & ->).
    unfold view_C10, good, fn_opts. cbn [x_input x_attr x_variant]. rewrite parts_fn, Ha. cbn [decided v_app v_det v_holds].
    intros _. split; [reflexivity|]. rewrite t_attrs_gen_trait_def. apply (c10_core_trait _ TPlain).
  - apply c10_view_trait. exact H.
  - unfold view_C10, good. cbn. discriminate.
  - destruct (expand_mod_inv _ _ _ _ _ _ _ _ H) as (_ & bitems & fl & a & fns0 & tg & mode & ib & _ & Ha & _ & _ & _ & ->).
    unfold view_C10, good, fn_opts. cbn [x_input x_attr x_variant]. rewrite parts_mod, Ha. cbn [decided v_app v_det v_holds].
    intros _. split; [reflexivity|]. rewrite t_attrs_gen_trait_def. apply (c10_core_trait _ TPlain).
Qed.
