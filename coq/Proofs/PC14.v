(** * C14: no [dyn] / [Box] in what the macro adds unless dynamic dispatch was requested *)
From Coq Require Import List String Ascii Bool Arith Lia.
From Entrait Require Import Tok Syn Opts Split FnParams Convert Codegen Expand Proj Proj2 Proj3 ProjSide.
From Entrait.Proofs Require Import Base Shapes PFnParams PC16 PC01 PC05 PC19.
Import ListNotations.
Local Open Scope string_scope.
Local Open Scope list_scope.

(** a token list that does not mention [dyn] / [Box]; an identifier that is neither *)
Definition cl (ts : toks) : Prop := mentions NB ts = false.

(** ** [mentions] *)
Lemma mentions_tt_TG d inner : mentions_tt NB (TG d inner) = mentions NB inner.
Proof.
  unfold mentions. induction inner as [|x r IH]; [reflexivity|].
  change (mentions_tt NB (TG d (x :: r))) with (mentions_tt NB x || mentions_tt NB (TG d r)).
  rewrite IH. reflexivity.
Qed.

Lemma cl_nil : cl [].
Proof. reflexivity. Qed.

Lemma cl_app a b : cl a -> cl b -> cl (a ++ b).
Proof. unfold cl, mentions. intros Ha Hb. rewrite existsb_app, Ha, Hb. reflexivity. Qed.

Lemma cl_app_inv a b : cl (a ++ b) -> cl a /\ cl b.
Proof. unfold cl, mentions. rewrite existsb_app. intros H. apply orb_false_iff in H. exact H. Qed.

Lemma cl_cons t l : mentions_tt NB t = false -> cl l -> cl (t :: l).
Proof. unfold cl, mentions. cbn [existsb]. intros -> ->. reflexivity. Qed.

Lemma cl_TId s l : name_ok s = true -> cl l -> cl (TId s :: l).
Proof. intros H. apply cl_cons. unfold name_ok in H. apply negb_true_iff in H. exact H. Qed.

Lemma cl_TP c l : cl l -> cl (TP c :: l).
Proof. apply cl_cons. reflexivity. Qed.

Lemma cl_TG d inner l : cl inner -> cl l -> cl (TG d inner :: l).
Proof. intros H. apply cl_cons. rewrite mentions_tt_TG. exact H. Qed.

Lemma cl_join sep L : cl sep -> Forall cl L -> cl (join sep L).
Proof.
  intros Hs H. induction H as [|x L Hx HL IH]; [reflexivity|].
  destruct L as [|y L']; [exact Hx|].
  change (join sep (x :: y :: L')) with (x ++ sep ++ join sep (y :: L')).
  apply cl_app; [exact Hx|]. apply cl_app; [exact Hs | exact IH].
Qed.

Lemma cl_firstn n : forall l, cl l -> cl (firstn n l).
Proof.
  induction n as [|n IH]; intros l H; [reflexivity|]. destruct l as [|t l]; [reflexivity|].
  cbn [firstn]. unfold cl, mentions in *. cbn [existsb] in *. apply orb_false_iff in H as [H1 H2].
  rewrite H1. apply IH. exact H2.
Qed.

Lemma existsb_cl L : Forall cl L -> existsb (mentions NB) L = false.
Proof. induction 1 as [|x L Hx _ IH]; [reflexivity|]. cbn [existsb]. rewrite Hx, IH. reflexivity. Qed.

Lemma cl_names l : Forall (fun n => name_ok n = true) l -> Forall cl (map (fun n => [TId n]) l).
Proof. induction 1 as [|n l Hn _ IH]; cbn [map]; constructor; [apply cl_TId; [exact Hn | exact cl_nil] | exact IH]. Qed.

Ltac clt :=
  repeat first
    [ assumption
    | exact cl_nil
    | solve [unfold cl; reflexivity]
    | apply cl_app
    | apply cl_TP
    | apply cl_TG
    | apply cl_TId
    | apply cl_join ].

(** ** names that the renaming produces *)
Lemma append_us_ok m : name_ok (m +++ "_") = true.
Proof.
  unfold name_ok, NB. cbn [str_mem]. rewrite orb_false_r.
  assert (H1 : String.eqb (m +++ "_") "dyn" = false).
  { destruct m as [|a [|b [|c [|d m]]]]; cbn [String.append String.eqb];
      repeat match goal with |- context [Ascii.eqb ?x ?y] => is_var x; destruct (Ascii.eqb x y) end; reflexivity. }
  assert (H2 : String.eqb (m +++ "_") "Box" = false).
  { destruct m as [|a [|b [|c [|d m]]]]; cbn [String.append String.eqb];
      repeat match goal with |- context [Ascii.eqb ?x ?y] => is_var x; destruct (Ascii.eqb x y) end; reflexivity. }
  rewrite H1, H2. reflexivity.
Qed.

Lemma candidate_ok i k : name_ok (candidate i k) = true.
Proof. unfold candidate. destruct k; reflexivity. Qed.

Lemma uniq_name_ok : forall fuel n taken n', uniq_name fuel n taken = Some n' -> name_ok n = true -> name_ok n' = true.
Proof.
  induction fuel as [|k IH]; intros n taken n' H Hn; cbn [uniq_name] in H.
  - destruct (str_mem (unraw n) taken); [discriminate|]. injection H as <-. exact Hn.
  - destruct (str_mem (unraw n) taken); [|injection H as <-; exact Hn].
    eapply IH; [exact H|]. unfold suffix. apply append_us_ok.
Qed.

Lemma generate_ident_ok : forall fuel i k taken c, generate_ident fuel i k taken = Some c -> name_ok c = true.
Proof.
  induction fuel as [|f IH]; intros i k taken c H; cbn [generate_ident] in H; [discriminate|].
  destruct (str_mem (candidate i k) taken); [eapply IH; exact H|]. injection H as <-. apply candidate_ok.
Qed.

Definition all_ok_names (l : list fnarg) : Prop := Forall (fun n => name_ok n = true) (plain_names l).

Lemma autogen_ok : forall l i taken l', autogen l i taken = Ok l' -> all_ok_names l -> all_ok_names l'.
Proof.
  unfold all_ok_names. induction l as [|a l IH]; intros i taken l' H Hn; cbn [autogen] in H.
  - injection H as <-. constructor.
  - destruct a as [x r m c|x [r m n sub|ts b] t].
    + inv_ok H. injection H0 as <-. cbn [plain_names flat_map app] in *. eapply IH; eassumption.
    + inv_ok H. injection H0 as <-. change (Forall (fun n => name_ok n = true) (n :: plain_names l)) in Hn.
      change (Forall (fun n => name_ok n = true) (n :: plain_names a)). inversion Hn; subst.
      constructor; [assumption|]. eapply IH; eassumption.
    + destruct (generate_ident (S (List.length taken)) i 0 taken) as [g|] eqn:G; [|discriminate].
      inv_ok H. injection H0 as <-. change (Forall (fun n => name_ok n = true) (plain_names l)) in Hn.
      change (Forall (fun n => name_ok n = true) (g :: plain_names a)).
      constructor; [eapply generate_ident_ok; exact G|]. eapply IH; eassumption.
Qed.

Lemma make_unique_ok : forall l taken l', make_unique l taken = Ok l' -> all_ok_names l -> all_ok_names l'.
Proof.
  unfold all_ok_names. induction l as [|a l IH]; intros taken l' H Hn; cbn [make_unique] in H.
  - injection H as <-. constructor.
  - destruct a as [x r m c|x [r m n sub|ts b] t].
    + inv_ok H. injection H0 as <-. cbn [plain_names flat_map app] in *. eapply IH; eassumption.
    + destruct (uniq_name (S (List.length taken)) n taken) as [n'|] eqn:U; [|discriminate].
      inv_ok H. injection H0 as <-. change (Forall (fun n => name_ok n = true) (n :: plain_names l)) in Hn.
      change (Forall (fun n => name_ok n = true) (n' :: plain_names a)). inversion Hn; subst.
      constructor; [eapply uniq_name_ok; eassumption|]. eapply IH; eassumption.
    + inv_ok H. injection H0 as <-. cbn [plain_names flat_map app] in *. eapply IH; eassumption.
Qed.

Definition desired_names (l : list fnarg) : list string := somes (map desired_name (filter is_typed l)).

Lemma plain_in_desired : forall l n, In n (plain_names l) -> In n (desired_names l).
Proof.
  unfold desired_names. induction l as [|a l IH]; intros n Hn; [destruct Hn|].
  destruct a as [x r m c|x [r m k sub|ts b] t]; cbn in *.
  - apply IH, Hn.
  - destruct Hn as [<-|Hn]; [left; reflexivity | right; apply IH, Hn].
  - destruct (filter lower_initial b) as [|y [|z w]]; cbn; auto.
Qed.

Lemma desired_names_map (f : fnarg -> fnarg) :
  (forall a, desired_name (f a) = desired_name a) -> (forall a, is_typed (f a) = is_typed a) ->
  forall l, desired_names (map f l) = desired_names l.
Proof. intros H1 H2 l. unfold desired_names. rewrite (desired_map f H1 H2). reflexivity. Qed.

(** the names [fix_fn_param_idents] emits are clean when the names the source asks for are *)
Lemma fix_names_ok fn_name l l' :
  fix_fn_param_idents fn_name l = Ok l' ->
  Forall (fun n => name_ok n = true) (desired_names l) -> all_ok_names l'.
Proof.
  rewrite fix_unfold. intros H Hd. inv_ok H. apply (make_unique_ok _ _ _ H0). clear H0 l'.
  assert (H1 : desired_names (map simplify l) = desired_names l)
    by (apply desired_names_map; [apply desired_simplify | apply is_typed_simplify]).
  assert (H2 : desired_names (map lift (map simplify l)) = desired_names l)
    by (rewrite desired_names_map; [exact H1 | apply desired_lift | apply is_typed_lift]).
  assert (Hin : forall l0, desired_names l0 = desired_names l -> all_ok_names l0).
  { intros l0 E0. unfold all_ok_names. apply Forall_forall. intros n Hn.
    apply plain_in_desired in Hn. rewrite E0 in Hn. rewrite Forall_forall in Hd. apply Hd. exact Hn. }
  unfold stage3 in E. destruct (all_ok (map simplify l)).
  - injection E as <-. apply Hin. exact H1.
  - destruct (all_ok (map lift (map simplify l))).
    + injection E as <-. apply Hin. exact H2.
    + eapply autogen_ok; [exact E|]. apply Hin. exact H2.
Qed.

(** ** one analysed function: emitted names, output, asyncness *)
Lemma somes_app {A} (l1 l2 : list (option A)) : somes (l1 ++ l2) = somes l1 ++ somes l2.
Proof. induction l1 as [|[x|] l1 IH]; cbn [app somes]; rewrite ?IH; reflexivity. Qed.

Lemma forallb_Forall {A} (f : A -> bool) l : forallb f l = true -> Forall (fun x => f x = true) l.
Proof. intros H. apply Forall_forall. rewrite forallb_forall in H. exact H. Qed.

Lemma fn_names_ok k o s tf :
  fn_ok k o s tf -> names_ok_sig (no_deps_value o) s = true ->
  name_ok (s_name (tf_sig tf)) = true /\
  Forall (fun n => name_ok n = true) (typed_names (tf_sig tf)) /\
  s_output (tf_sig tf) = s_output s /\ s_async (tf_sig tf) = s_async s.
Proof.
  intros (tg1 & tg2 & tf0 & Ha & _ & E2 & _) Hn. rewrite E2. clear E2 tf.
  unfold names_ok_sig in Hn. apply andb_true_iff in Hn as [Hn1 Hn2].
  destruct (analyze_inv _ _ _ _ _ _ Ha) as (deps & s' & Hd & Hc & ->). cbn [tf_sig].
  destruct (convert_sig_inv _ _ _ _ Hc) as (inputs1 & args & Hg & Hf & ->).
  destruct (inputs1_shape _ _ _ _ _ _ _ Hd Hg) as (reference & Hp & _).
  unfold typed_names. cbn [s_name s_inputs s_output s_async p_items]. repeat split; try assumption.
  apply (fix_names_ok _ _ _ Hf). unfold desired_names. rewrite Hp, prefix_desired, somes_app. apply Forall_app. split.
  - destruct k; repeat constructor.
  - apply forallb_Forall. exact Hn2.
Qed.

Lemma expected_body_cl sc ws s aw :
  name_ok (s_name s) = true -> Forall (fun n => name_ok n = true) (typed_names s) -> cl (expected_body sc ws s aw).
Proof.
  intros H1 H2. unfold expected_body. apply cl_TG; [|exact cl_nil].
  apply cl_app; [destruct sc; clt|]. apply cl_app; [|destruct aw; clt].
  apply cl_TId; [exact H1|]. apply cl_TG; [|exact cl_nil].
  apply cl_app; [destruct ws; clt|]. apply cl_join; [clt|]. apply cl_names. exact H2.
Qed.

Lemma unmock_entry_cl tf :
  name_ok (s_name (tf_sig tf)) = true -> Forall (fun n => name_ok n = true) (typed_names (tf_sig tf)) -> cl (unmock_entry tf).
Proof.
  intros H1 H2. unfold unmock_entry. destruct (tf_deps tf); [clt | clt |].
  apply cl_TId; [exact H1|]. apply cl_TG; [|exact cl_nil]. apply cl_join; [clt|]. apply cl_names. exact H2.
Qed.

(** the functions of a module / impl block, or the single function *)
Lemma fns_cl ind im k o : forall sigs fns argss,
  Forall2 (fn_ok k o) sigs fns -> forallb (names_ok_sig (no_deps_value o)) sigs = true ->
  Forall2 (fun tf args => call_args (p_items (s_inputs (tf_sig tf))) = Ok args) fns argss ->
  Forall cl (map (fun '(_, _, b) => b)
                 (map (fun '(tf, args) => (tf_attrs tf, tf_sig tf, deleg_body ind im tf args)) (combine fns argss))) /\
  Forall (fun tf => cl (unmock_entry tf)) fns /\
  Forall2 (fun s tf => s_output (tf_sig tf) = s_output s) sigs fns.
Proof.
  intros sigs fns argss H. revert argss. induction H as [|s tf sigs fns Hh _ IH]; intros argss Hn Hc.
  - inversion Hc; subst. repeat split; constructor.
  - inversion Hc as [|? args ? argss' Hc1 Hc2]; subst. cbn [forallb] in Hn. apply andb_true_iff in Hn as [Hn1 Hn2].
    destruct (IH _ Hn2 Hc2) as (I1 & I2 & I3). destruct (fn_names_ok _ _ _ _ Hh Hn1) as (N1 & N2 & N3 & N4).
    destruct (deleg_body_expected ind im _ _ _ _ _ Hh Hc1) as (B1 & _ & _).
    cbn [map combine]. repeat split; constructor; try assumption.
    + rewrite B1. apply expected_body_cl; assumption.
    + apply unmock_entry_cl; assumption.
Qed.

(** ** the attributes of the generated trait *)
Lemma export_gated_cl o p : cl p -> cl (export_gated o p).
Proof. intros H. unfold export_gated. destruct (export_value o); [exact H|]. clt. Qed.

Lemma unimock_params_cl' api im fns :
  api_ok api = true -> (im = MRawTrait \/ Forall (fun tf => cl (unmock_entry tf)) fns) -> cl (unimock_params api im fns).
Proof.
  intros Ha Hf. unfold unimock_params. apply cl_app; [clt|]. apply cl_TG; [|exact cl_nil]. apply cl_join; [clt|].
  apply Forall_app. split; [repeat constructor|]. apply Forall_app. split.
  - destruct api as [a|]; [|constructor]. constructor; [|constructor]. cbn [api_ok] in Ha.
    apply cl_app; [clt|]. destruct im; clt.
  - assert (Hu : Forall (fun tf => cl (unmock_entry tf)) fns ->
                 Forall cl match fns with
                           | [] => []
                           | _ :: _ => [[TId "unmock_with"; pc "="; TG Bracket (join [comma] (map unmock_entry fns))]]
                           end).
    { intros Hf'. destruct fns as [|tf fns']; [constructor|]. constructor; [|constructor].
      apply cl_TId; [reflexivity|]. apply cl_TP. apply cl_TG; [|exact cl_nil]. apply cl_join; [clt|].
      apply Forall_map. exact Hf'. }
    destruct im; try constructor; (destruct Hf as [E|Hf]; [discriminate E | exact (Hu Hf)]).
Qed.

Lemma unimock_params_cl api im fns :
  api_ok api = true -> Forall (fun tf => cl (unmock_entry tf)) fns -> cl (unimock_params api im fns).
Proof. intros Ha Hf. apply unimock_params_cl'; auto. Qed.

Lemma trait_attrs_cl o mode subs v name tg colon supers fns im :
  (negb (unimock_value o) || api_ok (o_mock_api o)) = true ->
  Forall (fun tf => cl (unmock_entry tf)) fns ->
  Forall cl (filter is_trait_sub subs) ->
  Forall cl (t_attrs (gen_trait_def o TPlain mode subs None v name tg colon supers fns im)).
Proof.
  intros Ha Hf Hs. rewrite gen_trait_def_attrs. apply Forall_app. split; [|apply Forall_app; split; [|apply Forall_app; split]].
  - destruct (unimock_value o); [|constructor]. cbn [negb orb andb] in *.
    destruct (negb (unimock_params_empty TPlain (o_mock_api o))); [|constructor].
    constructor; [|constructor]. apply export_gated_cl, unimock_params_cl; assumption.
  - destruct mode; repeat constructor.
  - destruct (mockall_value o); [|constructor]. constructor; [|constructor]. apply export_gated_cl. clt.
  - exact Hs.
Qed.

(** ** rewritten return types: only the wrapper's head is looked at *)
Definition future_head : toks := [TId "impl"] ++ abs_path ["core"; "future"; "Future"] ++ [pc "<"; TId "Output"; pc "="].

Lemma rewritten_one_cl s s' subs o :
  s_output s' = s_output s ->
  Forall cl ((fun '(s, o) => if opt_toks_eqb (s_output s) (s_output o) then []
                             else match s_output o, s_output s with
                                  | Some w, Some r =>
                                      [firstn (List.length w - List.length r - 1 -
                                               (if is_prefix (rev (abs_path ["core"; "marker"; "Send"])) (rev w) then 10 else 0)) w]
                                  | Some w, None => [w]
                                  | None, _ => []
                                  end) (s, make_trait_fn_sig s' subs o)).
Proof.
  intros Ho. cbv beta iota. unfold make_trait_fn_sig.
  destruct (s_async s' && negb (contains_async_trait subs)); [|rewrite Ho, opt_toks_eqb_refl; constructor].
  cbn [s_output]. rewrite Ho. match goal with |- context [if ?c then _ else _] => destruct c end; [constructor|].
  destruct (s_output s) as [r|].
  - constructor; [|constructor]. unfold future_output.
    change ([TId "impl"] ++ abs_path ["core"; "future"; "Future"] ++ [pc "<"; TId "Output"; pc "="] ++ r ++ [pc ">"] ++
            (if future_send o then [pc "+"] ++ abs_path ["core"; "marker"; "Send"] else []))
      with (future_head ++ r ++ [pc ">"] ++ (if future_send o then [pc "+"] ++ abs_path ["core"; "marker"; "Send"] else [])).
    destruct (future_send o).
    + assert (Hp : is_prefix (rev (abs_path ["core"; "marker"; "Send"]))
                     (rev (future_head ++ r ++ [pc ">"] ++ [pc "+"] ++ abs_path ["core"; "marker"; "Send"])) = true).
      { rewrite !app_assoc, rev_app_distr. apply is_prefix_app. }
      rewrite Hp. rewrite !app_length.
      change (List.length future_head) with 13. change (List.length (abs_path ["core"; "marker"; "Send"])) with 9.
      cbn [List.length].
      replace (13 + (List.length r + (1 + (1 + 9))) - List.length r - 1 - 10) with (List.length future_head + 0)
        by (change (List.length future_head) with 13; lia).
      rewrite firstn_app_2. cbn [firstn]. rewrite app_nil_r. unfold cl. reflexivity.
    + rewrite !app_length. cbn [List.length app].
      match goal with |- context [if ?c then 10 else 0] => generalize (if c then 10 else 0) end. intros k0.
      change (List.length future_head) with 13.
      assert (Hn : 13 + (List.length r + (1 + 0)) - List.length r - 1 - k0 <= List.length future_head)
        by (change (List.length future_head) with 13; lia).
      revert Hn. generalize (13 + (List.length r + (1 + 0)) - List.length r - 1 - k0).
      intros n Hn. rewrite firstn_app. replace (n - List.length future_head) with 0 by lia.
      cbn [firstn]. rewrite app_nil_r. apply cl_firstn. unfold cl. reflexivity.
  - constructor; [|constructor]. unfold future_output. destruct (future_send o); unfold cl; reflexivity.
Qed.

Lemma rewritten_cl subs o : forall sigs sigs',
  Forall2 (fun s s' => s_output s' = s_output s) sigs sigs' ->
  Forall cl (rewritten_outputs sigs (map (fun s' => make_trait_fn_sig s' subs o) sigs')).
Proof.
  unfold rewritten_outputs. induction 1 as [|s s' sigs sigs' Hh _ IH]; [constructor|].
  cbn [map combine flat_map]. apply Forall_app. split; [|exact IH].
  exact (rewritten_one_cl s s' subs o Hh).
Qed.

Lemma combine_nil_r {A B} (l : list A) : combine l (@nil B) = [].
Proof. destruct l; reflexivity. Qed.

Lemma existsb_false_cl L : existsb (mentions NB) L = false -> Forall cl L.
Proof.
  induction L as [|x L IH]; intros H; [constructor|]. cbn [existsb] in H. apply orb_false_iff in H as [H1 H2].
  constructor; [exact H1 | apply IH; exact H2].
Qed.

(** ** side conditions: the user's own identifiers and tokens that end up in the scanned regions *)
(** [ProjSide.c14_side] and its parts *)

(** ** fn / mod: the regions *)
Lemma impl_t_param_cl bv : cl (print_gparam (impl_t_param bv)).
Proof. destruct bv; unfold cl; reflexivity. Qed.

Lemma self_ty_generic_cl o : cl (self_ty MGeneric INone o).
Proof. unfold self_ty. destruct (mockable o); unfold cl; reflexivity. Qed.

Lemma trait_sigs_outs o ti mode subs lit v name tg colon supers fns im :
  map snd (trait_sigs (gen_trait_def o ti mode subs lit v name tg colon supers fns im))
  = map (fun s' => make_trait_fn_sig s' subs o) (map tf_sig fns).
Proof. rewrite trait_sigs_gen_trait_def, !map_map. reflexivity. Qed.

Lemma Forall2_map_r {A B C} (R : A -> C -> Prop) (f : B -> C) : forall l l',
  Forall2 (fun a b => R a (f b)) l l' -> Forall2 R l (map f l').
Proof. induction 1; cbn [map]; constructor; assumption. Qed.

Lemma fnmod_common o h sigs fns tref tg im mode v name ib :
  Forall2 (fn_ok RSelfRef o) sigs fns -> c14_fn_side o h sigs = true ->
  gen_impl_block o tref INone tg im mode (h_attrs h) fns = Ok ib ->
  Forall cl (map (fun '(_, _, b) => b) (impl_fns ib) ++
             t_attrs (gen_trait_def o TPlain mode (h_attrs h) None v name tg false pempty fns im)) /\
  Forall cl (rewritten_outputs sigs
               (map snd (trait_sigs (gen_trait_def o TPlain mode (h_attrs h) None v name tg false pempty fns im)))).
Proof.
  intros Hok Hside Hib. unfold c14_fn_side in Hside.
  apply andb_true_iff in Hside as [Hside S3]. apply andb_true_iff in Hside as [S1 S2].
  apply negb_true_iff, existsb_false_cl in S3.
  destruct (gen_impl_block_fns _ _ _ _ _ _ _ _ _ Hib) as (argss & Fa & Hfns & _).
  destruct (fns_cl INone im _ _ _ _ _ Hok S1 Fa) as (C1 & C2 & C3).
  split.
  - apply Forall_app. split; [rewrite Hfns; exact C1|]. apply trait_attrs_cl; assumption.
  - rewrite trait_sigs_outs. apply rewritten_cl. apply Forall2_map_r. exact C3.
Qed.

Lemma good_decided_cl regions : Forall cl regions -> good (decided (negb (existsb (mentions ["dyn"; "Box"]) regions)) regions).
Proof.
  intros H. unfold good. cbn [decided v_app v_det v_holds]. intros _. split; [reflexivity|].
  apply negb_true_iff. exact (existsb_cl _ H).
Qed.

Lemma c14_fn_case v attr h s body items :
  expand_items v attr (InFn h s body) = Ok items -> c14_side (mkCtx v attr (InFn h s body)) = true ->
  good (view_C14 (mkCtx v attr (InFn h s body)) items).
Proof.
  intros H Hside. destruct (expand_fn_inv _ _ _ _ _ _ H) as (a & tf & tg & mode & ib & Ha & Hz & Hm & Hib & ->).
  unfold c14_side, fn_opts in Hside. cbn [x_input x_attr x_variant] in Hside. rewrite Ha in Hside.
  apply andb_true_iff in Hside as [S1 S2]. set (o := apply_variant v (fa_opts a)) in *.
  unfold view_C14. cbn [x_input]. rewrite parts_fn. cbn [dynamic_requested x_input].
  destruct (contains_async_trait (h_attrs h)); [exact good_na|].
  cbn [source_fns map generated_regions]. fold (merged_sig h s).
  apply good_decided_cl.
  assert (Hok : Forall2 (fn_ok RSelfRef o) [merged_sig h s] [tf])
    by (constructor; [exact (fn_ok_single _ _ _ _ _ _ Hz) | constructor]).
  destruct (fnmod_common o h [merged_sig h s] [tf] _ _ _ _ (fa_vis a) (fa_trait a) _ Hok S1 Hib) as [C1 C2].
  apply Forall_app. split; [|exact C2]. apply Forall_app. split; [|exact C1].
  destruct (gen_impl_block_fns _ _ _ _ _ _ _ _ _ Hib) as (argss & _ & _ & _ & _ & Hself & Hgen & _).
  rewrite Hself. unfold first_param_toks. rewrite Hgen. cbn [g_params p_items p_of_list].
  destruct mode as [|ty].
  - constructor; [apply impl_t_param_cl|]. constructor; [apply self_ty_generic_cl | constructor].
  - cbn [with_t_of impl_params app self_ty].
    unfold detect_trait_dependency_mode in Hm. cbn [first_concrete] in Hm.
    destruct (tf_deps tf) eqn:Ed; try discriminate Hm. injection Hm as ->.
    rewrite (fn_concrete_tg _ _ _ _ _ _ Hz Ed). change (s_gen (merged_sig h s)) with (s_gen s).
    (* the concrete type is the stripped first parameter type *)
    destruct (analyze_inv _ _ _ _ _ _ Hz) as (deps & s' & Hd & _ & Etf). subst tf. cbn [tf_deps] in Ed. subst deps.
    destruct (analyze_deps_kind _ _ _ _ _ Hd) as [(_ & E & _)|(_ & _ & _ & Hag)]; [discriminate E|].
    rewrite deps_kind_merged in Hag. unfold c14_concrete_side in S2. fold o in Hag.
    destruct (deps_kind (no_deps_value o) s) as [[n|] b|t|].
    + destruct Hag as (_ & b' & E). discriminate E.
    + destruct Hag as (E & _). discriminate E.
    + destruct Hag as (E & Et & _). injection E as E. rewrite E, Et. cbn [is_concrete negb orb] in S2.
      apply andb_true_iff in S2 as [S21 S22]. apply negb_true_iff in S21, S22.
      constructor; [exact S21|]. constructor; [exact S22 | constructor].
    + destruct Hag.
Qed.

Lemma map_sig_of l : map (fun '(_, _, s, _) => s) l = map sig_of l.
Proof. apply map_ext. intros [[[a v] s] b]. reflexivity. Qed.

Lemma c14_mod_case v attr h name body sigs sf items :
  expand_items v attr (InMod h name body sigs sf) = Ok items -> c14_side (mkCtx v attr (InMod h name body sigs sf)) = true ->
  good (view_C14 (mkCtx v attr (InMod h name body sigs sf)) items).
Proof.
  intros H Hside.
  destruct (expand_mod_inv _ _ _ _ _ _ _ _ H) as (_ & bitems & fl & a & fns0 & tg & mode & ib & Hs & Ha & Hz & Hm & Hib & ->).
  unfold c14_side, fn_opts in Hside. cbn [x_input x_attr x_variant source_fns] in Hside. rewrite Ha, Hs in Hside.
  set (o := apply_variant v (fa_opts a)) in *.
  unfold view_C14. cbn [x_input]. rewrite parts_mod. cbn [dynamic_requested x_input].
  destruct (contains_async_trait (h_attrs h)); [exact good_na|].
  cbn [source_fns generated_regions]. rewrite Hs, map_sig_of.
  apply good_decided_cl.
  pose proof (with_cfg_attrs_fn_ok _ _ _ _ (body_fns bitems) (analyze_all_fn_ok _ _ _ _ _ _ Hz)) as Hok.
  destruct (fnmod_common o h _ _ _ _ _ _ (fa_vis a) (fa_trait a) _ Hok Hside Hib) as [C1 C2].
  apply Forall_app. split; [|exact C2]. apply Forall_app. split; [|exact C1].
  destruct (gen_impl_block_fns _ _ _ _ _ _ _ _ _ Hib) as (argss & _ & _ & _ & _ & Hself & Hgen & _).
  rewrite Hself. unfold first_param_toks. rewrite Hgen. rewrite (detect_generic _ _ _ Hm) by discriminate.
  constructor; [apply impl_t_param_cl|]. constructor; [apply self_ty_generic_cl | constructor].
Qed.

Lemma c14_impl_case v attr h tp st body sigs sf items :
  expand_items v attr (InImpl h tp st body sigs sf) = Ok items ->
  c14_side (mkCtx v attr (InImpl h tp st body sigs sf)) = true ->
  good (view_C14 (mkCtx v attr (InImpl h tp st body sigs sf)) items).
Proof.
  intros H Hside.
  destruct (expand_impl_inv _ _ _ _ _ _ _ _ _ H) as (_ & bitems & fl & a & fns0 & tg & mode & ib & Hs & Ha & Hz & Hm & Hib & ->).
  cbv zeta in Hz, Hm, Hib.
  unfold c14_side in Hside. cbn [x_input source_fns] in Hside. rewrite Hs in Hside.
  unfold view_C14. cbn [x_input]. rewrite parts_impl.
  destruct (dynamic_requested _); [exact good_na|].
  cbn [source_fns generated_regions]. rewrite Hs, map_sig_of. unfold rewritten_outputs. rewrite combine_nil_r. cbn [flat_map].
  rewrite app_nil_r. apply good_decided_cl.
  pose proof (with_cfg_attrs_fn_ok _ _ _ _ (body_fns bitems) (analyze_all_fn_ok _ _ _ _ _ _ Hz)) as Hok.
  destruct (gen_impl_block_fns _ _ _ _ _ _ _ _ _ Hib) as (argss & Fa & Hfns & _ & _ & _ & Hgen & _).
  rewrite <- (impl_no_deps v _ _ Ha) in Hside.
  destruct (fns_cl (match ia_kind a with KStatic => IStatic st | KDynRef => IDynamic st end) MImplBlock _ _ _ _ _ Hok Hside Fa) as (C1 & _ & _).
  apply Forall_app. split; [|rewrite Hfns; exact C1].
  unfold first_param_toks. rewrite Hgen. rewrite (detect_generic _ _ _ Hm) by discriminate.
  constructor; [apply impl_t_param_cl | constructor].
Qed.

(** ** trait mode *)
Lemma print_arguments_cl b ps :
  Forall (fun n => name_ok n = true) (map gp_name ps) -> cl (print_arguments b ps).
Proof.
  intros H. unfold print_arguments.
  assert (HL : Forall cl ((if b then [[TId "EntraitT"]] else []) ++ map arg_of_param ps)).
  { apply Forall_app. split; [destruct b; repeat constructor|].
    induction ps as [|p ps IH]; cbn [map] in *; [constructor|]. inversion H; subst.
    constructor; [|apply IH; assumption]. unfold arg_of_param. destruct (gp_kind p); clt. }
  destruct ((if b then [[TId "EntraitT"]] else []) ++ map arg_of_param ps) as [|x L]; [exact cl_nil|].
  apply cl_app; [clt|]. apply cl_app; [|clt]. apply cl_join; [clt | exact HL].
Qed.

Definition not_by_ref (a : trait_attr) : Prop := forall r, ta_delegate a <> Some (ByRef r).

Lemma impl_t_bounds_cl a ca name tg :
  not_by_ref a -> name_ok name = true -> Forall (fun n => name_ok n = true) (map gp_name (tg_params tg)) ->
  (match ta_delegate a with Some (ByTrait d) => name_ok d | _ => true end) = true ->
  cl (impl_t_bounds a ca name tg).
Proof.
  intros Hr Hn Hp Hd. unfold impl_t_bounds. apply cl_app; [clt|].
  assert (Hdef : cl (([TId name] ++ print_arguments false (tg_params tg)) ++ plus_sync ++ (if ca then plus_static else []))).
  { apply cl_app; [apply cl_TId; [exact Hn | apply print_arguments_cl; exact Hp]|]. destruct ca; clt. }
  destruct (ta_impl_trait a) as [it|], (ta_delegate a) as [[|r|del]|] eqn:Ed; try exact Hdef; try (exfalso; exact (Hr r Ed)).
  apply cl_TId; [exact Hd|]. clt.
Qed.

Lemma delegation_call_cl a ca bv name args :
  not_by_ref a -> (match ta_impl_trait a with Some it => name_ok it | None => true end) = true ->
  name_ok name = true -> Forall cl args -> cl (delegation_call a ca bv name args).
Proof.
  intros Hr Hit Hn Ha. unfold delegation_call.
  assert (Hj : cl (join [comma] args)) by (apply cl_join; [clt | exact Ha]).
  assert (Hdef : cl [TId "self"; pc "."; TId (if bv then "into_inner" else "as_ref"); TG Paren []; pc "."; TId name; TG Paren (join [comma] args)]).
  { apply cl_TId; [reflexivity|]. apply cl_TP. apply cl_TId; [destruct bv; reflexivity|]. apply cl_TG; [exact cl_nil|]. apply cl_TP.
    apply cl_TId; [exact Hn|]. apply cl_TG; [exact Hj | exact cl_nil]. }
  destruct (ta_impl_trait a) as [it|], (ta_delegate a) as [[|r|del]|] eqn:Ed; try exact Hdef; try (exfalso; exact (Hr r Ed)).
  apply cl_app; [clt|]. apply cl_app; [clt|]. apply cl_app; [|apply cl_app; [clt|]].
  - apply cl_TId; [reflexivity|]. apply cl_TId; [reflexivity|]. apply cl_TId; [exact Hit|]. clt.
  - apply cl_TId; [exact Hn|]. apply cl_TG; [|exact cl_nil]. apply cl_app; [clt | exact Hj].
Qed.

Lemma trait_call_args_names : forall l args,
  trait_call_args l = Ok args -> args = map (fun n => [TId n]) (plain_names l).
Proof.
  induction l as [|a l IH]; intros args H; cbn [trait_call_args] in H.
  - injection H as <-. reflexivity.
  - destruct a as [x r m c|x [r m n sub|ts b] t]; [apply IH; exact H | | discriminate].
    inv_ok H. injection H0 as <-. rewrite (IH _ E). reflexivity.
Qed.

Definition sig_names_ok (s : sig) : bool := name_ok (s_name s) && forallb name_ok (plain_names (p_items (s_inputs s))).

(** the trait fns are the source trait's methods *)
Lemma analyze_trait_items_sigs : forall l fns,
  analyze_trait_items l = Ok fns ->
  map (fun tf => (tf_attrs tf, tf_sig tf)) fns = flat_map (fun x => match x with TFn a s _ _ => [(a, s)] | _ => [] end) l.
Proof.
  induction l as [|x l IH]; intros fns H; cbn [analyze_trait_items] in H.
  - injection H as <-. reflexivity.
  - destruct x as [a s d semi|ts|ts]; [|apply IH; exact H | discriminate].
    destruct (forallb is_pident (p_items (s_inputs s))); [|discriminate].
    inv_ok H. injection H0 as <-. cbn [map flat_map app tf_attrs tf_sig]. rewrite (IH _ E). reflexivity.
Qed.

Lemma methods_cl a ca : forall fns methods,
  not_by_ref a -> (match ta_impl_trait a with Some it => name_ok it | None => true end) = true ->
  Forall2 (fun tf it => delegation_method a ca tf = Ok it) fns methods ->
  forallb sig_names_ok (map tf_sig fns) = true ->
  Forall cl (map (fun '(_, _, b) => b)
                 (flat_map (fun x => match x with IIFn a _ s b => [(a, s, b)] | _ => [] end) methods)).
Proof.
  intros fns methods Hr Hit H. induction H as [|tf it fns methods Hh _ IH]; intros Hn; [constructor|].
  cbn [map forallb] in Hn. apply andb_true_iff in Hn as [Hn1 Hn2].
  unfold delegation_method in Hh. inv_ok Hh. injection Hh0 as <-. cbn [flat_map app map].
  constructor; [|apply IH; exact Hn2].
  unfold sig_names_ok in Hn1. apply andb_true_iff in Hn1 as [N1 N2].
  apply cl_TG; [|exact cl_nil]. apply cl_app; [|destruct (tf_async tf); clt].
  apply delegation_call_cl; try assumption. rewrite (trait_call_args_names _ _ E). apply cl_names, forallb_Forall. exact N2.
Qed.

Lemma Forall_filter {A} (P : A -> Prop) f l : Forall P l -> Forall P (filter f l).
Proof. induction 1 as [|x l Hx _ IH]; cbn [filter]; [constructor|]. destruct (f x); [constructor|]; assumption. Qed.

Lemma trait_mock_attrs_cl o subs lit v name tg colon supers fns :
  (negb (unimock_value o) || api_ok (o_mock_api o)) = true ->
  Forall cl (filter is_mock_attr lit) ->
  Forall cl (filter is_mock_attr (t_attrs (gen_trait_def o TTrait MGeneric subs (Some lit) v name tg colon supers fns MRawTrait))).
Proof.
  intros Ha Hl.
  change (t_attrs (gen_trait_def o TTrait MGeneric subs (Some lit) v name tg colon supers fns MRawTrait))
    with ((if unimock_value o && negb (unimock_params_empty TTrait (o_mock_api o))
           then [export_gated o (unimock_params (o_mock_api o) MRawTrait fns)] else []) ++
          [] ++ (if mockall_value o then [export_gated o mockall_params] else []) ++ lit).
  rewrite !filter_app. apply Forall_app. split; [|apply Forall_app; split; [constructor|apply Forall_app; split; [|exact Hl]]].
  - apply Forall_filter. destruct (unimock_value o); [|constructor]. cbn [negb orb andb] in *.
    destruct (negb (unimock_params_empty TTrait (o_mock_api o))); [|constructor].
    constructor; [|constructor]. apply export_gated_cl, unimock_params_cl'; [exact Ha | left; reflexivity].
  - apply Forall_filter. destruct (mockall_value o); [|constructor]. constructor; [|constructor]. apply export_gated_cl. clt.
Qed.

Lemma Forall2_refl {A} (R : A -> A -> Prop) : (forall x, R x x) -> forall l, Forall2 R l l.
Proof. intros H. induction l; constructor; auto. Qed.

Lemma c14_trait_case v attr h t items :
  expand_items v attr (InTrait h t) = Ok items -> c14_side (mkCtx v attr (InTrait h t)) = true ->
  good (view_C14 (mkCtx v attr (InTrait h t)) items).
Proof.
  intros H Hside. destruct (expand_trait_inv _ _ _ _ _ H) as (a0 & fns & deleg & methods & Ha & _ & Hf & Hd & Hm & ->).
  cbv zeta in Hd, Hm.
  unfold c14_side, trait_attr_of in Hside. cbn [x_input x_attr x_variant] in Hside. rewrite Ha in Hside.
  fold (eff_trait_attr v a0) in Hside. set (a := eff_trait_attr v a0) in *.
  match goal with |- context [[ITrait ?tr] ++ deleg ++ [IImpl ?im]] =>
    destruct (parts_trait h t tr deleg im (delegation_trait_defs_shape _ _ _ _ _ _ Hd)) as (ds & Hp & _)
  end.
  unfold view_C14. cbn [x_input]. rewrite Hp.
  unfold dynamic_requested, trait_attr_of. cbn [x_input x_attr x_variant]. rewrite Ha. fold (eff_trait_attr v a0). fold a.
  destruct (contains_async_trait (h_attrs h)); [exact good_na|]. cbn [orb].
  destruct (match ta_delegate a with Some (ByRef _) => true | _ => false end) eqn:Edyn; [exact good_na|].
  assert (Hr : not_by_ref a) by (intros r E; rewrite E in Edyn; discriminate Edyn).
  unfold c14_trait_side in Hside. fold a in Hside.
  apply andb_true_iff in Hside as [Hside S7]. apply andb_true_iff in Hside as [Hside S6].
  apply andb_true_iff in Hside as [Hside S5]. apply andb_true_iff in Hside as [Hside S4].
  apply andb_true_iff in Hside as [Hside S3]. apply andb_true_iff in Hside as [S1 S2].
  apply negb_true_iff, existsb_false_cl in S7.
  pose proof (analyze_trait_items_sigs _ _ Hf) as Hsigs. fold (trait_sigs t) in Hsigs.
  assert (Hts : map tf_sig fns = map snd (trait_sigs t)).
  { rewrite <- Hsigs, map_map. reflexivity. }
  cbn [generated_regions]. apply good_decided_cl.
  apply Forall_app. split; [apply Forall_app; split; [|apply Forall_app; split]|].
  - unfold app_param_toks, first_where_toks. cbn [i_gen i_self g_params g_where p_items p_of_list where_of_list wp_toks mk_pred].
    fold nonlife. rewrite filter_nonlife_trait_impl_params.
    constructor; [apply impl_t_param_cl|]. constructor; [unfold cl; reflexivity|]. constructor; [|constructor].
    apply impl_t_bounds_cl; try assumption. apply forallb_Forall. exact S2.
  - unfold impl_fns. cbn [i_items]. apply (methods_cl a _ fns methods Hr S3 (map_res_ok _ _ _ Hm)).
    rewrite Hts. clear -S5. induction (trait_sigs t) as [|[x s] l IH]; [reflexivity|].
    cbn [forallb map snd] in *. apply andb_true_iff in S5 as [S51 S52]. unfold sig_names_ok. rewrite S51. apply IH. exact S52.
  - apply trait_mock_attrs_cl; assumption.
  - rewrite trait_sigs_outs, Hts. apply rewritten_cl. apply Forall2_refl. reflexivity.
Qed.

(** ** the view *)
Lemma c14_view_partial v attr i items :
  expand_items v attr i = Ok items -> c14_side (mkCtx v attr i) = true -> good (view_C14 (mkCtx v attr i) items).
Proof.
  intros H Hside. destruct i as [h s body|h|h t|h|h tp st body sigs sf|h|h name body sigs sf|h|]; try discriminate H.
  - exact (c14_fn_case _ _ _ _ _ _ H Hside).
  - exact (c14_trait_case _ _ _ _ _ H Hside).
  - exact (c14_impl_case _ _ _ _ _ _ _ _ _ H Hside).
  - exact (c14_mod_case _ _ _ _ _ _ _ _ H Hside).
Qed.

(** ** explicit statements *)
(** the tokens that are the macro's own *)
Lemma c14_own_tokens :
  (forall bv, cl (print_gparam (impl_t_param bv))) /\ cl impl_path_toks /\ cl entrait_for_trait_attr /\
  cl mockall_params /\ cl future_head /\ (forall o, cl (self_ty MGeneric INone o)).
Proof.
  split; [exact impl_t_param_cl|]. repeat split; try (unfold cl; reflexivity). exact self_ty_generic_cl.
Qed.

(** by-reference delegation is where [dyn] comes from *)
Lemma impl_t_bounds_dyn a ca name tg r :
  ta_delegate a = Some (ByRef r) -> mentions NB (impl_t_bounds a ca name tg) = true.
Proof.
  intros E. unfold impl_t_bounds. rewrite E. destruct (ta_impl_trait a), r; reflexivity.
Qed.

(** the unrestricted statement is false: [#[entrait(Foo)] fn foo(deps: &Box<App>) {}] — the scanned
    regions contain the user's own concrete type (also: a function or parameter called [Box]) *)
Definition c14_cex_input : input :=
  InFn (mkHead [] [] false false)
       (mkSig false false false None "foo" no_generics
              (mkP [ArgTyped [] (PIdent false false "deps" [])
                      (TyRef None false (TyPath false false 1 "Box" [TId "Box"; pc "<"; TId "App"; pc ">"]))] false)
              None None)
       [TG Brace []].

Lemma c14_view_refuted :
  exists v attr i items, expand_items v attr i = Ok items /\ ~ good (view_C14 (mkCtx v attr i) items).
Proof.
  exists VEntrait, [TId "Foo"], c14_cex_input.
  destruct (expand_items VEntrait [TId "Foo"] c14_cex_input) as [items| | |] eqn:E; try (vm_compute in E; discriminate E).
  exists items. split; [reflexivity|]. vm_compute in E. injection E as <-.
  intros G. destruct (G eq_refl) as [_ G2]. vm_compute in G2. discriminate G2.
Qed.

(** [#[entrait(Foo)] fn Box(deps: &impl Bar) {}] — the delegating body is [{ Box(self) }] *)
Definition c14_cex_input2 : input :=
  InFn (mkHead [] [] false false)
       (mkSig false false false None "Box" no_generics
              (mkP [ArgTyped [] (PIdent false false "deps" []) (TyRef None false (TyImpl false [[TId "Bar"]]))] false)
              None None)
       [TG Brace []].

Lemma c14_view_refuted2 :
  exists items, expand_items VEntrait [TId "Foo"] c14_cex_input2 = Ok items /\
                ~ good (view_C14 (mkCtx VEntrait [TId "Foo"] c14_cex_input2) items).
Proof.
  destruct (expand_items VEntrait [TId "Foo"] c14_cex_input2) as [items| | |] eqn:E; try (vm_compute in E; discriminate E).
  exists items. split; [reflexivity|]. vm_compute in E. injection E as <-.
  intros G. destruct (G eq_refl) as [_ G2]. vm_compute in G2. discriminate G2.
Qed.

(** the guarded view the checker runs *)
Lemma c14_view v attr i items :
  expand_items v attr i = Ok items -> good (view_C14g (mkCtx v attr i) items).
Proof.
  intros H. unfold view_C14g. destruct (c14_side (mkCtx v attr i)) eqn:E; [exact (c14_view_partial _ _ _ _ H E) | exact good_na].
Qed.
