(** * C04: the impl header of fn / mod expansions with generic dependencies — the declared bounds bubble up exactly *)
From Coq Require Import List String Ascii Bool Arith Lia.
From Entrait Require Import Tok Syn Opts Split FnParams Convert Codegen Expand Proj Proj2 Proj3 ProjSide.
From Entrait.Proofs Require Import Base Shapes PFnParams PC05 PC19 PC10.
Import ListNotations.
Local Open Scope string_scope.
Local Open Scope list_scope.

(** ** the bounds of a generic dependency: [find_deps_generic_bounds] against [declared_bounds] *)

(** what one where predicate contributes to the dependency named [name] *)
Definition contrib (lts : list string) (name : string) (w : wpred) : list toks :=
  if wp_is_type w then
    match wp_bounded w with
    | BPath false false 1 first => if String.eqb first name then pred_bounds lts w else []
    | _ => []
    end
  else [].

(** what one generic parameter contributes *)
Definition pcontrib (lts : list string) (name : string) (p : gparam) : list toks :=
  match gp_kind p with
  | GType => if String.eqb (gp_name p) name then trait_bounds lts (gp_bounds p) else []
  | _ => []
  end.

Lemma declared_bounds_named nd s name b0 :
  deps_kind nd s = DGeneric (Some name) b0 ->
  declared_bounds nd s = flat_map (pcontrib (life_names (s_gen s)) name) (p_items (g_params (s_gen s))) ++ flat_map (contrib (life_names (s_gen s)) name) (where_items (s_gen s)).
Proof. intros E. unfold declared_bounds. rewrite E. reflexivity. Qed.

Lemma deps_where_step_fst lts name b tg w : fst (deps_where_step lts name (b, tg) w) = b ++ contrib lts name w.
Proof.
  unfold deps_where_step, contrib. destruct (wp_is_type w); [|cbn; rewrite app_nil_r; reflexivity].
  destruct (wp_bounded w) as [q l ns f|]; [|cbn; rewrite app_nil_r; reflexivity].
  destruct q; [cbn; rewrite app_nil_r; reflexivity|]. destruct l; [cbn; rewrite app_nil_r; reflexivity|]. cbn [orb].
  destruct ns as [|[|ns]]; cbn [Nat.eqb negb]; try (cbn; rewrite app_nil_r; reflexivity).
  destruct (String.eqb f name); cbn; [reflexivity | rewrite app_nil_r; reflexivity].
Qed.

Lemma fold_where_fst lts name : forall ws b tg,
  fst (fold_left (deps_where_step lts name) ws (b, tg)) = b ++ flat_map (contrib lts name) ws.
Proof.
  induction ws as [|w ws IH]; intros b tg; cbn [fold_left flat_map]; [rewrite app_nil_r; reflexivity|].
  pose proof (deps_where_step_fst lts name b tg w) as H.
  destruct (deps_where_step lts name (b, tg) w) as [b' tg']. cbn [fst] in H. subst b'.
  rewrite IH, <- app_assoc. reflexivity.
Qed.

Lemma pcontrib_absent lts name : forall l,
  ~ In name (map gp_name (filter (fun p => match gp_kind p with GType => true | _ => false end) l)) ->
  flat_map (pcontrib lts name) l = [].
Proof.
  induction l as [|p l IH]; intros H; [reflexivity|]. cbn [flat_map filter] in *. unfold pcontrib at 1.
  destruct (gp_kind p); cbn [map] in H; try (apply IH; exact H).
  destruct (String.eqb (gp_name p) name) eqn:E.
  - exfalso. apply H. left. apply String.eqb_eq. exact E.
  - apply IH. intros Hin. apply H. right. exact Hin.
Qed.

Lemma find_type_param_bounds lts name : forall l idx i p,
  find_type_param name l idx = Some (i, p) ->
  NoDup (map gp_name (filter (fun p => match gp_kind p with GType => true | _ => false end) l)) ->
  flat_map (pcontrib lts name) l = trait_bounds lts (gp_bounds p).
Proof.
  induction l as [|p0 l IH]; intros idx i p H Hn; cbn [find_type_param] in H; [discriminate|].
  cbn [flat_map filter] in *. unfold pcontrib at 1.
  destruct (gp_kind p0); try (eapply IH; eassumption).
  cbn [map] in Hn. inversion Hn as [|? ? Hnotin Hn']; subst.
  destruct (String.eqb (gp_name p0) name) eqn:E.
  - injection H as _ <-. apply String.eqb_eq in E. rewrite E in Hnotin.
    rewrite (pcontrib_absent _ _ _ Hnotin), app_nil_r. reflexivity.
  - eapply IH; eassumption.
Qed.

Lemma find_deps_bounds tg g name d tg' :
  find_deps_generic_bounds tg g name = Some (d, tg') -> nodup_str (tparam_names g) = true ->
  d = DGeneric (Some name) (flat_map (pcontrib (life_names g) name) (p_items (g_params g)) ++ flat_map (contrib (life_names g) name) (where_items g)).
Proof.
  unfold find_deps_generic_bounds. intros H Hn. apply nodup_str_NoDup in Hn.
  destruct (find_type_param name (p_items (g_params g)) 0) as [[idx p]|] eqn:F; [|discriminate].
  pose proof (fold_where_fst (life_names g) name (where_items g) (trait_bounds (life_names g) (gp_bounds p)) (push_others (p_items (g_params g)) 0 idx tg)) as Hf.
  destruct (fold_left _ _ _) as [b t2]. cbn [fst] in Hf. injection H as <- _. subst b.
  rewrite (find_type_param_bounds _ _ _ _ _ _ F Hn). reflexivity.
Qed.

(** ** one analysed function *)
Definition deps_bounds_of (d : fn_deps) : list toks := match d with DGeneric _ b => b | _ => [] end.
Definition self_by_value (s : sig) : bool :=
  match p_items (s_inputs s) with ArgRecv _ None _ _ :: _ => true | _ => false end.

Lemma analyze_deps_c04 tg s o d tg' :
  analyze_fn_deps tg s o = Ok (d, tg') ->
  is_concrete d = is_concrete (deps_kind (no_deps_value o) s) /\
  (nodup_str (tparam_names (s_gen s)) = true -> deps_bounds_of d = declared_bounds (no_deps_value o) s).
Proof.
  intros H. destruct (analyze_deps_kind _ _ _ _ _ H) as [(Hn & -> & Hk)|(Hn & _ & _ & Hag)].
  - unfold declared_bounds. rewrite Hk. split; reflexivity.
  - destruct (deps_kind (no_deps_value o) s) as [[n|] b|t|] eqn:Ek.
    + destruct Hag as (Hf & b' & ->). split; [reflexivity|]. intros Hnd.
      pose proof (find_deps_bounds _ _ _ _ _ Hf Hnd) as E. injection E as ->.
      rewrite (declared_bounds_named _ _ _ _ Ek). reflexivity.
    + destruct Hag as (-> & _). split; [reflexivity|]. intros _. unfold declared_bounds. rewrite Ek. reflexivity.
    + destruct Hag as (-> & _ & _). split; [reflexivity|]. intros _. unfold declared_bounds. rewrite Ek. reflexivity.
    + destruct Hag.
Qed.

(** the generated receiver is by value exactly when the dependency parameter's type is not a reference *)
Lemma analyze_by_value o tg s tf tg' :
  analyze RSelfRef o tg s = Ok (tf, tg') -> self_by_value (tf_sig tf) = deps_by_value (no_deps_value o) s.
Proof.
  intros H. destruct (analyze_inv _ _ _ _ _ _ H) as (deps & s' & Ha & Hc & ->). cbn [tf_sig].
  destruct (convert_sig_inv _ _ _ _ Hc) as (inputs1 & args & Hg & Hf & ->).
  destruct (fix_usable _ _ _ Hf) as (Hshape & _).
  unfold self_by_value, deps_by_value. cbn [s_inputs p_items].
  assert (Hfirst : forall reference rest, p_items inputs1 = self_receiver reference :: rest ->
                   match args with ArgRecv _ None _ _ :: _ => true | _ => false end
                   = match reference with None => true | Some _ => false end).
  { intros reference rest E. rewrite E in Hshape. inversion Hshape as [|? b ? l' Hs _]; subst.
    unfold self_receiver in Hs. destruct b as [x r m c|]; [|destruct Hs]. cbn in Hs. destruct Hs as (_ & <- & _).
    destruct reference; reflexivity. }
  destruct (analyze_fn_deps_cases _ _ _ _ _ Ha) as [[Hn ->]|(Hn & Hd & x & p & ty & rest & Hi & _)]; rewrite Hn.
  - destruct (generate_params_items _ _ _ _ Hg) as [[_ Hp]|[(Hd & _)|(Hd & _)]]; try congruence.
    cbn [gen_prefix app] in Hp. exact (Hfirst _ _ Hp).
  - destruct (generate_params_items _ _ _ _ Hg) as [[Hd' _]|[(_ & He & _)|(_ & x' & p' & ty' & rest' & Hi' & Hp)]]; try congruence.
    + unfold stripped_inputs in He. cbn [p_items] in He. rewrite Hi in He. discriminate.
    + cbn [gen_prefix app] in Hp. rewrite (Hfirst _ _ Hp), Hi.
      unfold stripped_inputs. cbn [p_items]. rewrite Hi. cbn [map strip_arg_attrs first_ref].
      destruct ty; reflexivity.
Qed.

Lemma fn_c04 o s tf :
  fn_ok RSelfRef o s tf ->
  is_concrete (tf_deps tf) = is_concrete (deps_kind (no_deps_value o) s) /\
  (nodup_str (tparam_names (s_gen s)) = true -> deps_bounds_of (tf_deps tf) = declared_bounds (no_deps_value o) s) /\
  self_by_value (tf_sig tf) = deps_by_value (no_deps_value o) s.
Proof.
  intros (tg1 & tg2 & tf0 & Ha & E1 & E2 & _). rewrite E1, E2.
  destruct (analyze_inv _ _ _ _ _ _ Ha) as (deps & s' & Hd & _ & Etf).
  destruct (analyze_deps_c04 _ _ _ _ _ Hd) as [C1 C2].
  pose proof (analyze_by_value _ _ _ _ _ Ha) as C3. subst tf0. cbn [tf_deps] in *. auto.
Qed.

(** ** lists of functions *)
Lemma fns_c04 o : forall sigs fns,
  Forall2 (fn_ok RSelfRef o) sigs fns ->
  existsb (fun tf => is_concrete (tf_deps tf)) fns = existsb (fun s => is_concrete (deps_kind (no_deps_value o) s)) sigs /\
  has_any_self_by_value fns = existsb (deps_by_value (no_deps_value o)) sigs /\
  (forallb (fun s => nodup_str (tparam_names (s_gen s))) sigs = true ->
   deps_bounds fns = flat_map (declared_bounds (no_deps_value o)) sigs).
Proof.
  induction 1 as [|s tf sigs fns Hh _ IH]; [repeat split|].
  destruct IH as (I1 & I2 & I3). destruct (fn_c04 _ _ _ Hh) as (C1 & C2 & C3).
  unfold has_any_self_by_value, deps_bounds in *. cbn [existsb flat_map forallb].
  rewrite C1, I1, I2. fold (self_by_value (tf_sig tf)). rewrite C3. repeat split.
  intros Hn. apply andb_true_iff in Hn as [Hn1 Hn2]. fold (deps_bounds_of (tf_deps tf)). rewrite (C2 Hn1), (I3 Hn2). reflexivity.
Qed.

Lemma first_concrete_none fns : existsb (fun tf => is_concrete (tf_deps tf)) fns = false -> first_concrete fns = None.
Proof.
  induction fns as [|tf fns IH]; intros H; [reflexivity|]. cbn [existsb first_concrete] in *.
  apply orb_false_iff in H as [H1 H2]. destruct (tf_deps tf); try discriminate H1; apply IH; exact H2.
Qed.

Lemma has_bounds_spec fns : has_bounds fns = match deps_bounds fns with [] => false | _ => true end.
Proof.
  unfold has_bounds, deps_bounds. induction fns as [|tf fns IH]; [reflexivity|]. cbn [existsb flat_map].
  destruct (tf_deps tf) as [n [|b bs]|t|]; cbn [app orb]; try exact IH. reflexivity.
Qed.

(** ** where predicates of the trait generics all stem from the source functions *)
Section WhereInv.
  Variable P : wpred -> Prop.
  Definition winv (tg : trait_generics) : Prop := Forall P (p_items (tg_where tg)).

  Lemma winv_push tg w : winv tg -> P w -> winv (tg_push_where tg w).
  Proof. unfold winv, tg_push_where, p_push. cbn [tg_where p_items]. intros H Hw. apply Forall_app. split; [exact H | constructor; [exact Hw | constructor]]. Qed.

  Lemma winv_lift lts tg w : winv tg -> P w -> winv (lift_where lts tg w).
  Proof. intros H Hw. unfold lift_where. destruct (mentions_lifetime lts (wp_toks w)); [exact H | apply winv_push; assumption]. Qed.

  Lemma winv_fold_push lts : forall ws tg, winv tg -> Forall P ws -> winv (fold_left (lift_where lts) ws tg).
  Proof.
    induction ws as [|w ws IH]; intros tg H Hw; cbn [fold_left]; [exact H|].
    inversion Hw; subst. apply IH; [apply winv_lift; assumption | assumption].
  Qed.

  Lemma winv_fold_params : forall ps tg, winv tg ->
    winv (fold_left (fun acc p => if is_life p then acc else tg_push_param acc p) ps tg).
  Proof. induction ps as [|p ps IH]; intros tg H; cbn [fold_left]; [exact H|]. apply IH. destruct (is_life p); exact H. Qed.

  Lemma winv_deps_with_generics tg g : winv tg -> Forall P (where_items g) -> winv (deps_with_generics tg g).
  Proof. intros H Hw. unfold deps_with_generics. apply winv_fold_push; [apply winv_fold_params; exact H | exact Hw]. Qed.

  Lemma winv_push_others : forall l idx skip tg, winv tg -> winv (push_others l idx skip tg).
  Proof.
    induction l as [|p l IH]; intros idx skip tg H; cbn [push_others]; [exact H|]. apply IH.
    destruct (Nat.eqb idx skip || is_life p); exact H.
  Qed.

  Lemma winv_where_step lts name b tg w : winv tg -> P w -> winv (snd (deps_where_step lts name (b, tg) w)).
  Proof.
    intros H Hw. unfold deps_where_step. destruct (wp_is_type w); [|apply winv_lift; assumption].
    destruct (wp_bounded w) as [q l ns f|]; [|apply winv_lift; assumption].
    destruct (q || l); [apply winv_lift; assumption|]. destruct (negb (Nat.eqb ns 1)); [apply winv_lift; assumption|].
    destruct (String.eqb f name); exact H.
  Qed.

  Lemma winv_fold_step lts name : forall ws b tg, winv tg -> Forall P ws -> winv (snd (fold_left (deps_where_step lts name) ws (b, tg))).
  Proof.
    induction ws as [|w ws IH]; intros b tg H Hw; cbn [fold_left]; [exact H|]. inversion Hw; subst.
    pose proof (winv_where_step lts name b tg w H ltac:(assumption)) as Hs.
    destruct (deps_where_step lts name (b, tg) w) as [b' tg']. apply IH; assumption.
  Qed.

  Lemma winv_find tg g name d tg' :
    find_deps_generic_bounds tg g name = Some (d, tg') -> winv tg -> Forall P (where_items g) -> winv tg'.
  Proof.
    unfold find_deps_generic_bounds. intros H Hi Hw.
    destruct (find_type_param name (p_items (g_params g)) 0) as [[idx p]|]; [|discriminate].
    pose proof (winv_fold_step (life_names g) name (where_items g) (trait_bounds (life_names g) (gp_bounds p)) _ (winv_push_others (p_items (g_params g)) 0 idx tg Hi) Hw) as Hs.
    destruct (fold_left _ _ _) as [b t2]. injection H as _ <-. exact Hs.
  Qed.

  Lemma winv_extract tg g : forall ty d tg',
    extract_deps_from_type tg g ty = Ok (d, tg') -> winv tg -> Forall P (where_items g) -> winv tg'.
  Proof.
    induction ty as [l m e IH|e IH|tr bs|q lead n f ts|ts]; intros d tg' H Hi Hw; cbn [extract_deps_from_type] in H.
    - eapply IH; eassumption.
    - eapply IH; eassumption.
    - injection H as _ <-. apply winv_deps_with_generics; assumption.
    - destruct q; [discriminate|]. destruct lead; [discriminate|].
      destruct (negb (Nat.eqb n 1)); [injection H as _ <-; apply winv_deps_with_generics; assumption|].
      destruct (find_deps_generic_bounds tg g f) as [[d0 tg0]|] eqn:E.
      + injection H as _ <-. eapply winv_find; eassumption.
      + injection H as _ <-. apply winv_deps_with_generics; assumption.
    - injection H as _ <-. apply winv_deps_with_generics; assumption.
  Qed.

  Lemma winv_analyze k o tg s tf tg' :
    analyze k o tg s = Ok (tf, tg') -> winv tg -> Forall P (where_items (s_gen s)) -> winv tg'.
  Proof.
    intros H Hi Hw. destruct (analyze_inv _ _ _ _ _ _ H) as (deps & s' & Ha & _ & _).
    unfold analyze_fn_deps in Ha. destruct (no_deps_value o).
    - destruct (p_items (s_inputs s)) as [|[x r m c|x p ty] rest]; try discriminate Ha; injection Ha as _ <-; apply winv_deps_with_generics; assumption.
    - destruct (p_items (s_inputs s)) as [|[x r m c|x p ty] rest]; try discriminate. eapply winv_extract; eassumption.
  Qed.

  Lemma winv_analyze_all k o : forall sigs tg fns tg',
    analyze_all k o tg sigs = Ok (fns, tg') -> winv tg ->
    Forall (fun s => Forall P (where_items (s_gen s))) sigs -> winv tg'.
  Proof.
    induction sigs as [|s sigs IH]; intros tg fns tg' H Hi Hw; cbn [analyze_all] in H.
    - injection H as _ <-. exact Hi.
    - inv_ok H. destruct a as [tf tg1]. inv_ok H0. destruct a as [tfs tg2]. injection H1 as _ <-.
      inversion Hw; subst. eapply IH; [exact E0 | eapply winv_analyze; eassumption | assumption].
  Qed.
End WhereInv.

(** ** the header of the generated impl block *)
Definition self_lhs : toks := [TId "Self"; pc ":"].
Definition not_self_pred (w : wpred) : Prop := is_prefix self_lhs (wp_toks w) = false.

Lemma impl_t_param_expected bv : print_gparam (impl_t_param bv) = expected_impl_t bv.
Proof. destruct bv; reflexivity. Qed.

Lemma c04_header o sigs fns tref tg im subs ib :
  Forall2 (fn_ok RSelfRef o) sigs fns ->
  forallb (fun s => nodup_str (tparam_names (s_gen s))) sigs = true ->
  winv not_self_pred tg ->
  gen_impl_block o tref INone tg im MGeneric subs fns = Ok ib ->
  p_items (g_params (i_gen ib)) = impl_t_param (existsb (deps_by_value (no_deps_value o)) sigs) :: tg_params tg /\
  i_self ib = (if mock_enabled o then impl_path_toks else [TId "EntraitT"]) /\
  match flat_map (declared_bounds (no_deps_value o)) sigs with
  | [] => is_prefix self_lhs (first_where_toks (i_gen ib)) = false
  | bs => first_where_toks (i_gen ib) = self_lhs ++ join [pc "+"] bs
  end.
Proof.
  intros Hok Hnd Hw Hib. destruct (fns_c04 _ _ _ Hok) as (_ & C2 & C3). specialize (C3 Hnd).
  destruct (gen_impl_block_fns _ _ _ _ _ _ _ _ _ Hib) as (argss & _ & _ & _ & _ & Hself & Hgen & _).
  rewrite Hgen, Hself, C2. split; [reflexivity|]. split; [reflexivity|].
  unfold first_where_toks, impl_where. cbn [g_where]. rewrite has_bounds_spec, C3.
  destruct (flat_map (declared_bounds (no_deps_value o)) sigs) as [|b bs].
  - cbn [app]. unfold winv in Hw. destruct (p_items (tg_where tg)) as [|w ws]; [reflexivity|].
    cbn [where_of_list p_of_list p_items]. inversion Hw; subst. assumption.
  - reflexivity.
Qed.

(** ** side condition and view *)
Lemma c04_side_split sigs :
  forallb c04_sig_side sigs = true ->
  forallb (fun s => nodup_str (tparam_names (s_gen s))) sigs = true /\
  Forall (fun s => Forall not_self_pred (where_items (s_gen s))) sigs.
Proof.
  induction sigs as [|s sigs IH]; intros H; [split; [reflexivity | constructor]|].
  cbn [forallb] in *. apply andb_true_iff in H as [H1 H2]. destruct (IH H2) as [I1 I2].
  unfold c04_sig_side in H1. apply andb_true_iff in H1 as [H11 H12]. rewrite H11, I1. split; [reflexivity|].
  constructor; [|exact I2]. apply Forall_forall. intros w Hin. rewrite forallb_forall in H12.
  specialize (H12 w Hin). apply negb_true_iff in H12. exact H12.
Qed.

Lemma c04_decided o sigs ib tg :
  p_items (g_params (i_gen ib)) = impl_t_param (existsb (deps_by_value (no_deps_value o)) sigs) :: tg_params tg ->
  i_self ib = (if mock_enabled o then impl_path_toks else [TId "EntraitT"]) ->
  match flat_map (declared_bounds (no_deps_value o)) sigs with
  | [] => is_prefix self_lhs (first_where_toks (i_gen ib)) = false
  | bs => first_where_toks (i_gen ib) = self_lhs ++ join [pc "+"] bs
  end ->
  toks_eqb (first_param_toks (i_gen ib)) (expected_impl_t (existsb (deps_by_value (no_deps_value o)) sigs)) &&
  toks_eqb (i_self ib) (if mock_enabled o then impl_path_toks else [TId "EntraitT"]) &&
  match flat_map (declared_bounds (no_deps_value o)) sigs with
  | [] => negb (is_prefix [TId "Self"; pc ":"] (first_where_toks (i_gen ib)))
  | _ :: _ => toks_eqb (first_where_toks (i_gen ib))
                ([TId "Self"; pc ":"] ++ join [pc "+"] (flat_map (declared_bounds (no_deps_value o)) sigs))
  end = true.
Proof.
  intros H1 H2 H3. unfold first_param_toks at 1. rewrite H1, impl_t_param_expected, H2, !toks_eqb_refl. cbn [andb].
  destruct (flat_map (declared_bounds (no_deps_value o)) sigs) as [|b bs].
  - fold self_lhs. rewrite H3. reflexivity.
  - rewrite H3. apply toks_eqb_refl.
Qed.

Lemma c04_view_partial v attr i items :
  expand_items v attr i = Ok items -> c04_side (mkCtx v attr i) = true -> good (view_C04 (mkCtx v attr i) items).
Proof.
  intros H Hside. destruct i as [h s body|h|h t|h|h tp st body sigs sf|h|h name body sigs sf|h|]; try discriminate H;
    try (unfold view_C04, good; cbn; discriminate).
  - destruct (expand_fn_inv _ _ _ _ _ _ H) as (a & tf & tg & mode & ib & Ha & Hz & Hm & Hib & ->).
    unfold c04_side in Hside. cbn [x_input source_fns map sig_of] in Hside. fold (merged_sig h s) in Hside.
    destruct (c04_side_split _ Hside) as [Hnd Hwh].
    unfold view_C04, fn_opts. cbn [x_input x_attr x_variant source_fns]. rewrite parts_fn, Ha. cbn [map]. fold (merged_sig h s).
    set (o := apply_variant v (fa_opts a)) in *.
    assert (Hok : Forall2 (fn_ok RSelfRef o) [merged_sig h s] [tf])
      by (constructor; [exact (fn_ok_single _ _ _ _ _ _ Hz) | constructor]).
    destruct (existsb (fun s0 => is_concrete (deps_kind (no_deps_value o) s0)) [merged_sig h s]) eqn:Ec;
      [unfold good; cbn; discriminate|].
    destruct (fns_c04 _ _ _ Hok) as (C1 & _ & _). rewrite Ec in C1.
    unfold detect_trait_dependency_mode in Hm. rewrite (first_concrete_none _ C1) in Hm. injection Hm as <-.
    assert (Hw : winv not_self_pred tg).
    { eapply winv_analyze; [exact Hz | constructor | inversion Hwh; assumption]. }
    destruct (c04_header _ _ _ _ _ _ _ _ Hok Hnd Hw Hib) as (P1 & P2 & P3).
    unfold good. cbn [decided v_app v_det v_holds]. intros _. split; [reflexivity|].
    exact (c04_decided _ _ _ _ P1 P2 P3).
  - destruct (expand_mod_inv _ _ _ _ _ _ _ _ H) as (_ & bitems & fl & a & fns0 & tg & mode & ib & Hs & Ha & Hz & Hm & Hib & ->).
    unfold c04_side in Hside. cbn [x_input source_fns] in Hside. rewrite Hs in Hside.
    destruct (c04_side_split _ Hside) as [Hnd Hwh].
    unfold view_C04, fn_opts. cbn [x_input x_attr x_variant source_fns]. rewrite Hs, parts_mod, Ha.
    set (o := apply_variant v (fa_opts a)) in *.
    replace (map (fun '(_, _, s, _) => s) (body_fns bitems)) with (map sig_of (body_fns bitems))
      by (apply map_ext; intros [[[? ?] ?] ?]; reflexivity).
    pose proof (with_cfg_attrs_fn_ok _ _ _ _ (body_fns bitems) (analyze_all_fn_ok _ _ _ _ _ _ Hz)) as Hok.
    destruct (existsb (fun s0 => is_concrete (deps_kind (no_deps_value o) s0)) (map sig_of (body_fns bitems)));
      [unfold good; cbn; discriminate|].
    rewrite (detect_generic _ _ _ Hm) in Hib by discriminate.
    assert (Hw : winv not_self_pred tg).
    { eapply winv_analyze_all; [exact Hz | constructor | exact Hwh]. }
    destruct (c04_header _ _ _ _ _ _ _ _ Hok Hnd Hw Hib) as (P1 & P2 & P3).
    unfold good. cbn [decided v_app v_det v_holds]. intros _. split; [reflexivity|].
    exact (c04_decided _ _ _ _ P1 P2 P3).
Qed.

(** ** explicit statements *)
Lemma mock_enabled_mockable o : mock_enabled o = mockable o.
Proof. reflexivity. Qed.

(** single fn with a non-concrete dependency: [impl<EntraitT: Sync [+ Send] + 'static, lifted..> Trait<..> for
    Impl<EntraitT> | EntraitT where Self: declared bounds, lifted predicates..] *)
Lemma c04_fn_header v attr h s body items a :
  expand_items v attr (InFn h s body) = Ok items ->
  parse_fn_attr attr = Ok a ->
  let o := apply_variant v (fa_opts a) in
  let nd := no_deps_value o in
  is_concrete (deps_kind nd s) = false ->
  c04_sig_side s = true ->
  exists f tr im rest, items = [f; ITrait tr; IImpl im] /\
    p_items (g_params (i_gen im)) = impl_t_param (deps_by_value nd s) :: rest /\
    i_self im = (if mockable o then impl_path_toks else [TId "EntraitT"]) /\
    match declared_bounds nd s with
    | [] => is_prefix self_lhs (first_where_toks (i_gen im)) = false
    | bs => first_where_toks (i_gen im) = self_lhs ++ join [pc "+"] bs
    end.
Proof.
  intros H Ha o nd Hc Hside.
  destruct (expand_fn_inv _ _ _ _ _ _ H) as (a' & tf & tg & mode & ib & Ha' & Hz & Hm & Hib & ->).
  rewrite Ha in Ha'. injection Ha' as <-. fold o in Hz, Hm, Hib.
  assert (Hside' : forallb c04_sig_side [merged_sig h s] = true) by (cbn [forallb]; rewrite andb_true_r; exact Hside).
  destruct (c04_side_split _ Hside') as [Hnd Hwh].
  assert (Hok : Forall2 (fn_ok RSelfRef o) [merged_sig h s] [tf])
    by (constructor; [exact (fn_ok_single _ _ _ _ _ _ Hz) | constructor]).
  destruct (fns_c04 _ _ _ Hok) as (C1 & _ & _).
  replace (existsb (fun s0 => is_concrete (deps_kind (no_deps_value o) s0)) [merged_sig h s]) with false in C1
    by (cbn [existsb]; rewrite deps_kind_merged; fold nd; rewrite Hc; reflexivity).
  unfold detect_trait_dependency_mode in Hm. rewrite (first_concrete_none _ C1) in Hm. injection Hm as <-.
  assert (Hw : winv not_self_pred tg).
  { eapply winv_analyze; [exact Hz | constructor | inversion Hwh; assumption]. }
  destruct (c04_header _ _ _ _ _ _ _ _ Hok Hnd Hw Hib) as (P1 & P2 & P3).
  cbn [existsb flat_map] in P1, P3. rewrite orb_false_r in P1. rewrite app_nil_r in P3.
  do 4 eexists. split; [reflexivity|]. split; [exact P1|]. split; [exact P2 | exact P3].
Qed.

(** module: the same header, over all its public functions in order *)
Lemma c04_mod_header v attr h name body sigs sf items a bitems fl :
  expand_items v attr (InMod h name body sigs sf) = Ok items ->
  parse_fn_attr attr = Ok a ->
  split_body true sigs body = Ok (bitems, fl) ->
  let o := apply_variant v (fa_opts a) in
  let nd := no_deps_value o in
  let src := map sig_of (body_fns bitems) in
  forallb c04_sig_side src = true ->
  exists attrs vs user tr im uv tree rest,
    items = [IMod attrs vs name (user ++ [ITrait tr; IImpl im]); IUse [] uv tree] /\
    p_items (g_params (i_gen im)) = impl_t_param (existsb (deps_by_value nd) src) :: rest /\
    i_self im = (if mockable o then impl_path_toks else [TId "EntraitT"]) /\
    match flat_map (declared_bounds nd) src with
    | [] => is_prefix self_lhs (first_where_toks (i_gen im)) = false
    | bs => first_where_toks (i_gen im) = self_lhs ++ join [pc "+"] bs
    end.
Proof.
  intros H Ha Hs o nd src Hside.
  destruct (expand_mod_inv _ _ _ _ _ _ _ _ H) as (_ & bitems' & fl' & a' & fns0 & tg & mode & ib & Hs' & Ha' & Hz & Hm & Hib & ->).
  rewrite Ha in Ha'. injection Ha' as <-. rewrite Hs in Hs'. injection Hs' as <- <-. fold o in Hz, Hm, Hib.
  destruct (c04_side_split _ Hside) as [Hnd Hwh].
  pose proof (with_cfg_attrs_fn_ok _ _ _ _ (body_fns bitems) (analyze_all_fn_ok _ _ _ _ _ _ Hz)) as Hok.
  rewrite (detect_generic _ _ _ Hm) in Hib by discriminate.
  assert (Hw : winv not_self_pred tg).
  { eapply winv_analyze_all; [exact Hz | constructor | exact Hwh]. }
  destruct (c04_header _ _ _ _ _ _ _ _ Hok Hnd Hw Hib) as (P1 & P2 & P3).
  do 8 eexists. split; [reflexivity|]. split; [exact P1|]. split; [exact P2 | exact P3].
Qed.

(** refutations of the unrestricted statement.
    1. [#[entrait(Foo)] fn foo<D: A, D: B>(d: &D) {}]: the analysis takes the first parameter called [D], the
       predicate collects the bounds of both *)
Definition tp (name bound : string) : gparam := mkGP GType [] name [pc ":"; TId bound] [[TId bound]].

Definition c04_cex_input : input :=
  InFn (mkHead [] [] false false)
       (mkSig false false false None "foo"
              (mkGen true (mkP [tp "D" "A"; tp "D" "B"] false) None)
              (mkP [ArgTyped [] (PIdent false false "d" []) (TyRef None false (TyPath false false 1 "D" [TId "D"]))] false)
              None None)
       [TG Brace []].

Lemma c04_view_refuted :
  exists v attr i items, expand_items v attr i = Ok items /\ ~ good (view_C04 (mkCtx v attr i) items).
Proof.
  exists VEntrait, [TId "Foo"], c04_cex_input.
  destruct (expand_items VEntrait [TId "Foo"] c04_cex_input) as [items| | |] eqn:E; try (vm_compute in E; discriminate E).
  exists items. split; [reflexivity|]. vm_compute in E. injection E as <-.
  intros G. destruct (G eq_refl) as [_ G2]. vm_compute in G2. discriminate G2.
Qed.

(** 2. [#[entrait(Foo, no_deps)] fn foo() where Self: Sized {}]: a user predicate on [Self] is lifted to the trait
       and re-emitted first in the impl's where clause, where the predicate takes it for the macro's *)
Definition c04_cex_input2 : input :=
  InFn (mkHead [] [] false false)
       (mkSig false false false None "foo"
              (mkGen false pempty (Some (mkP [mkWP true (BPath false false 1 "Self") [[TId "Sized"]] [TId "Self"; pc ":"; TId "Sized"] []] false)))
              pempty None None)
       [TG Brace []].

Lemma c04_view_refuted2 :
  exists items, expand_items VEntrait [TId "Foo"; comma; TId "no_deps"] c04_cex_input2 = Ok items /\
                ~ good (view_C04 (mkCtx VEntrait [TId "Foo"; comma; TId "no_deps"] c04_cex_input2) items).
Proof.
  destruct (expand_items VEntrait [TId "Foo"; comma; TId "no_deps"] c04_cex_input2) as [items| | |] eqn:E;
    try (vm_compute in E; discriminate E).
  exists items. split; [reflexivity|]. vm_compute in E. injection E as <-.
  intros G. destruct (G eq_refl) as [_ G2]. vm_compute in G2. discriminate G2.
Qed.

(** the guarded view the checker runs *)
Lemma c04_view v attr i items :
  expand_items v attr i = Ok items -> good (view_C04g (mkCtx v attr i) items).
Proof.
  intros H. unfold view_C04g. apply good_view_and.
  - destruct (c04_side (mkCtx v attr i)) eqn:E; [exact (c04_view_partial _ _ _ _ H E) | exact good_na].
  - unfold view_C10_fnmod. cbn [x_input]. destruct i; try exact good_na; apply c10_view; exact H.
Qed.
