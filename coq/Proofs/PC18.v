(** * C18: foreign attributes *)
From Coq Require Import List String Ascii Bool Arith Lia.
From Entrait Require Import Tok Syn Opts Split FnParams Convert Codegen Expand Proj Proj2.
From Entrait.Proofs Require Import Base Shapes PFnParams PC16 PC12.
Import ListNotations.
Local Open Scope list_scope.

(** ** parameter attributes are stripped from every emitted signature *)
Lemma same_shape_has_attrs a b : same_shape a b -> arg_has_attrs a = arg_has_attrs b.
Proof.
  destruct a as [x r m c|x p t], b as [x' r' m' c'|x' p' t']; cbn [same_shape]; try contradiction.
  - intros (-> & _). reflexivity.
  - intros (-> & _). reflexivity.
Qed.

Lemma same_shape_existsb : forall l l', Forall2 same_shape l l' -> existsb arg_has_attrs l = existsb arg_has_attrs l'.
Proof.
  induction 1 as [|a b l l' Hab _ IH]; [reflexivity|]. cbn [existsb]. rewrite (same_shape_has_attrs _ _ Hab), IH. reflexivity.
Qed.

Lemma strip_no_attrs a : arg_has_attrs (strip_arg_attrs a) = false.
Proof. destruct a; reflexivity. Qed.

Lemma strip_all_no_attrs : forall l, existsb arg_has_attrs (map strip_arg_attrs l) = false.
Proof. induction l as [|a l IH]; [reflexivity|]. cbn [map existsb]. rewrite strip_no_attrs, IH. reflexivity. Qed.

Lemma gen_prefix_no_attrs k r : existsb arg_has_attrs (gen_prefix k r) = false.
Proof. destruct k; reflexivity. Qed.

(** the signature made for an analysed fn has no parameter attributes, and the trait fn has no attributes of
    its own yet ([cfg]s are added by [with_cfg_attrs] for module / impl-block fns) *)
Lemma analyze_no_param_attrs k o tg s tf tg' :
  analyze k o tg s = Ok (tf, tg') -> sig_no_param_attrs (tf_sig tf) = true /\ tf_attrs tf = [].
Proof.
  intros H. destruct (analyze_inv _ _ _ _ _ _ H) as (deps & s' & Ha & Hc & ->). cbn [tf_sig tf_attrs].
  split; [|reflexivity].
  destruct (convert_sig_inv _ _ _ _ Hc) as (inputs1 & args & Hg & Hf & ->).
  destruct (inputs1_shape _ _ _ _ _ _ _ Ha Hg) as (reference & Hp & _).
  destruct (fix_usable _ _ _ Hf) as (U1 & _).
  unfold sig_no_param_attrs. cbn [s_inputs p_items].
  rewrite <- (same_shape_existsb _ _ U1), Hp, existsb_app, gen_prefix_no_attrs, strip_all_no_attrs. reflexivity.
Qed.

Lemma fn_ok_no_param_attrs k o s tf : fn_ok k o s tf -> sig_no_param_attrs (tf_sig tf) = true.
Proof. intros (tg1 & tg2 & tf0 & Ha & _ & E & _). rewrite E. apply (analyze_no_param_attrs _ _ _ _ _ _ Ha). Qed.

Lemma make_trait_fn_sig_no_param_attrs s subs o :
  sig_no_param_attrs (make_trait_fn_sig s subs o) = sig_no_param_attrs s.
Proof. unfold sig_no_param_attrs. rewrite make_trait_fn_sig_inputs. reflexivity. Qed.

Lemma no_param_attrs_all k o subs : forall sigs fns,
  Forall2 (fn_ok k o) sigs fns ->
  forallb sig_no_param_attrs (map tf_sig fns) = true /\
  forallb sig_no_param_attrs (map (fun tf => make_trait_fn_sig (tf_sig tf) subs o) fns) = true.
Proof.
  induction 1 as [|s tf sigs fns Hh _ [I1 I2]]; [split; reflexivity|]. cbn [map forallb].
  rewrite make_trait_fn_sig_no_param_attrs, (fn_ok_no_param_attrs _ _ _ _ Hh), I1, I2. split; reflexivity.
Qed.

(** ** attributes of the generated trait: macro-owned ones, then the user's [async_trait] / [automock] ones
       (or, for an entraited trait, the trait's own attributes as written) *)
Definition macro_attrs (o : opts) (ti : trait_indirection) (mode : trait_dep_mode) (im : input_mode)
           (fns : list trait_fn) : list attr :=
  (if unimock_value o && negb (unimock_params_empty ti (o_mock_api o))
   then [export_gated o (unimock_params (o_mock_api o) im fns)] else []) ++
  (match mode with MConcrete _ => [entrait_for_trait_attr] | MGeneric => [] end) ++
  (if mockall_value o then [export_gated o mockall_params] else []).

Lemma gen_trait_def_attrs o ti mode subs lit v name tg colon supers fns im :
  t_attrs (gen_trait_def o ti mode subs lit v name tg colon supers fns im)
  = macro_attrs o ti mode im fns ++ match lit with Some l => l | None => filter is_trait_sub subs end.
Proof. unfold gen_trait_def, macro_attrs. cbn [t_attrs]. rewrite !app_assoc. reflexivity. Qed.

Lemma unimock_attr_owned o api im fns : macro_owned (export_gated o (unimock_params api im fns)) = true.
Proof. unfold export_gated. destruct (export_value o); reflexivity. Qed.

Lemma mockall_attr_owned o : macro_owned (export_gated o mockall_params) = true.
Proof. unfold export_gated. destruct (export_value o); reflexivity. Qed.

Lemma entrait_attr_owned : macro_owned entrait_for_trait_attr = true.
Proof. reflexivity. Qed.

Lemma macro_attrs_owned o ti mode im fns : forallb macro_owned (macro_attrs o ti mode im fns) = true.
Proof.
  unfold macro_attrs. rewrite !forallb_app.
  destruct (unimock_value o && negb (unimock_params_empty ti (o_mock_api o))); cbn [forallb]; rewrite ?unimock_attr_owned;
    destruct mode; cbn [forallb]; rewrite ?entrait_attr_owned;
    destruct (mockall_value o); cbn [forallb]; rewrite ?mockall_attr_owned; reflexivity.
Qed.

Lemma trait_attrs_owned_or_sub o ti mode subs v name tg colon supers fns im :
  forallb (fun a => macro_owned a || is_trait_sub a)
          (t_attrs (gen_trait_def o ti mode subs None v name tg colon supers fns im)) = true.
Proof.
  rewrite gen_trait_def_attrs, forallb_app. apply andb_true_iff. split; apply forallb_forall; intros a Ha.
  - pose proof (macro_attrs_owned o ti mode im fns) as Hm. rewrite forallb_forall in Hm. rewrite (Hm a Ha). reflexivity.
  - apply filter_In in Ha as [_ Ha]. rewrite Ha. apply orb_true_r.
Qed.

(** whatever is not macro-owned on the generated trait / impl was written by the user on the source item *)
Lemma foreign_attrs_from_user o ti mode subs v name tg colon supers fns im :
  forallb (fun a => existsb (toks_eqb a) subs)
          (filter (fun a => negb (macro_owned a)) (t_attrs (gen_trait_def o ti mode subs None v name tg colon supers fns im)) ++
           filter is_async_trait subs) = true.
Proof.
  apply forallb_forall. intros a Ha. apply existsb_toks_In. apply in_app_or in Ha as [Ha|Ha].
  - apply filter_In in Ha as [Hin Hno]. rewrite gen_trait_def_attrs in Hin. apply in_app_or in Hin as [Hin|Hin].
    + pose proof (macro_attrs_owned o ti mode im fns) as Hm. rewrite forallb_forall in Hm. rewrite (Hm a Hin) in Hno. discriminate Hno.
    + apply filter_In in Hin. tauto.
  - apply filter_In in Ha. tauto.
Qed.

Lemma forallb_filter_id {A} (f : A -> bool) l : forallb f (filter f l) = true.
Proof. apply forallb_forall. intros a Ha. apply filter_In in Ha. tauto. Qed.

(** ** [cfg] attributes of module / impl-block fns are mirrored on the trait and impl methods *)
Lemma with_cfg_attrs_attrs : forall fns src, List.length fns = List.length src ->
  map tf_attrs (with_cfg_attrs fns src) = map (filter is_cfg_attr) (map (fun '(a, _, _, _) => a) src).
Proof.
  induction fns as [|tf fns IH]; intros [|[[[a v] s] b] src] Hl; simpl in Hl; try discriminate Hl; [reflexivity|].
  cbn [with_cfg_attrs map tf_attrs]. rewrite IH; [reflexivity | lia].
Qed.

Lemma cfgs_mirrored_ok : forall l, cfgs_mirrored l (map (filter is_cfg_attr) l) (map (filter is_cfg_attr) l) = true.
Proof.
  induction l as [|a l IH]; [reflexivity|]. cbn [map cfgs_mirrored]. rewrite IH, andb_true_r.
  change (filter is_cfg a) with (filter is_cfg_attr a). rewrite toks_list_eqb_refl. reflexivity.
Qed.

Lemma impl_fns_attrs ind im fns argss : List.length fns = List.length argss ->
  map (fun '(a, _, _) => a)
      (map (fun '(tf, args) => (tf_attrs tf, tf_sig tf, deleg_body ind im tf args)) (combine fns argss))
  = map tf_attrs fns.
Proof.
  intros Hl. rewrite map_map. rewrite <- (combine_map_fst fns argss Hl) at 2. rewrite map_map.
  apply map_ext. intros [tf args]. reflexivity.
Qed.

Lemma forallb_snd {A B} (P : B -> bool) (l : list (A * B)) : forallb (fun '(_, s) => P s) l = forallb P (map snd l).
Proof. induction l as [|[a b] l IH]; [reflexivity|]. cbn [map forallb snd]. rewrite IH. reflexivity. Qed.

Lemma forallb_sig3 {A B C} (P : B -> bool) (l : list (A * B * C)) :
  forallb (fun '(_, s, _) => P s) l = forallb P (map (fun '(_, s, _) => s) l).
Proof. induction l as [|[[a b] c] l IH]; [reflexivity|]. cbn [map forallb]. rewrite IH. reflexivity. Qed.

Lemma map_attr3 {A B C} (l : list (A * B * C)) :
  map (fun '(a, _, _) => a) l = map fst (map (fun '(x, s, _) => (x, s)) l).
Proof. rewrite map_map. apply map_ext. intros [[x s] b]. reflexivity. Qed.

Lemma attrs_mirrored_refl : forall l, attrs_mirrored l l l = true.
Proof. induction l as [|a l IH]; [reflexivity|]. cbn [attrs_mirrored]. rewrite toks_list_eqb_refl, IH. reflexivity. Qed.

(** the delegation-target trait's methods carry the attributes of the analysed methods *)
Lemma delegation_trait_defs_attrs a v tg fns subs deleg ds :
  delegation_trait_defs a v tg fns subs = Ok deleg -> deleg = map ITrait ds ->
  match ds with d :: _ => map fst (trait_sigs d) = map tf_attrs fns | [] => True end.
Proof.
  unfold delegation_trait_defs. destruct (ta_impl_trait a); [|intros H; injection H as <-; destruct ds; [trivial|discriminate]].
  destruct (ta_delegate a) as [[|r|d]|]; intros H; try discriminate; injection H as <-; intros E;
    (destruct ds as [|d0 ds']; [discriminate|]); cbn [map] in E; injection E as E0 _; subst d0;
    unfold trait_sigs; cbn [t_items]; clear;
    (induction fns as [|tf fns IH]; [reflexivity|]); cbn [map flat_map app fst map_sig tf_attrs]; f_equal; exact IH.
Qed.

(** ** the view the checker evaluates *)
Lemma c18_view v attr i items :
  expand_items v attr i = Ok items -> good (view_C18 (mkCtx v attr i) items).
Proof.
  intros H. destruct i as [h s body|h|h t|h|h tp st body sigs sf|h|h name body sigs sf|h|]; try discriminate H.
  - destruct (expand_fn_inv _ _ _ _ _ _ H) as (a & tf & tg & mode & ib & Ha & Hz & _ & Hib & ->).
    destruct (gen_impl_block_fns _ _ _ _ _ _ _ _ _ Hib) as (argss & Fa & Hfns & _ & Hattrs & _).
    destruct (analyze_no_param_attrs _ _ _ _ _ _ Hz) as [Hnp Hna].
    unfold view_C18, good. cbn [x_input source_fns]. rewrite parts_fn. cbn [decided v_app v_det v_holds].
    intros _. split; [reflexivity|].
    rewrite toks_list_eqb_refl, trait_sigs_gen_trait_def, Hfns, Hattrs.
    inversion Fa as [|? args ? ? Hc Fa']; subst. inversion Fa'; subst. cbn [map combine forallb].
    rewrite Hna, make_trait_fn_sig_no_param_attrs, Hnp, trait_attrs_owned_or_sub, forallb_filter_id, foreign_attrs_from_user.
    reflexivity.
  - destruct (expand_trait_inv _ _ _ _ _ H) as (a0 & fns & deleg & methods & Ha & _ & Hf & Hd & Hm & ->).
    match goal with |- context [[ITrait ?tr] ++ deleg ++ [IImpl ?im]] =>
      destruct (parts_trait h t tr deleg im (delegation_trait_defs_shape _ _ _ _ _ _ Hd)) as (ds & Hp & Hds) end.
    unfold view_C18, good. cbn [x_input source_fns]. rewrite Hp. cbn [decided v_app v_det v_holds].
    intros _. split; [reflexivity|].
    destruct (analyze_trait_items_spec _ _ Hf) as [Hsig _].
    pose proof (delegation_methods_spec _ _ _ _ Hm) as Hms.
    apply andb_true_intro; split.
    + rewrite trait_sigs_gen_trait_def, map_map. cbn [fst]. unfold impl_fns. cbn [i_items].
      rewrite map_attr3, Hms, map_map. cbn [fst]. unfold trait_sigs. rewrite <- Hsig, map_map. cbn [fst].
      apply attrs_mirrored_refl.
    + pose proof (delegation_trait_defs_attrs _ _ _ _ _ _ _ Hd Hds) as Hta.
      unfold target_attrs_mirrored. destruct ds as [|d0 ds']; [reflexivity|].
      rewrite Hta. unfold trait_sigs. rewrite <- Hsig, map_map. cbn [fst].
      apply attrs_mirrored_refl.
  - destruct (expand_impl_inv _ _ _ _ _ _ _ _ _ H) as (_ & bitems & fl & a & fns0 & tg & mode & ib & Hs & Ha & Hz & _ & Hib & ->).
    cbv zeta in Hz, Hib.
    destruct (gen_impl_block_fns _ _ _ _ _ _ _ _ _ Hib) as (argss & Fa & Hfns & _ & Hattrs & _).
    pose proof (with_cfg_attrs_fn_ok _ _ _ _ (body_fns bitems) (analyze_all_fn_ok _ _ _ _ _ _ Hz)) as Hok.
    destruct (no_param_attrs_all _ _ [] _ _ Hok) as [N1 _].
    unfold view_C18, good. cbn [x_input source_fns]. rewrite Hs, parts_impl. cbn [decided v_app v_det v_holds].
    intros _. split; [reflexivity|].
    rewrite forallb_sig3, Hfns, impl_fns_sigs; [|apply (Forall2_length' _ _ _ Fa)|intros tf args; reflexivity].
    rewrite N1, impl_fns_attrs; [|apply (Forall2_length' _ _ _ Fa)].
    assert (Hlen : List.length fns0 = List.length (body_fns bitems))
      by (rewrite (analyze_all_length _ _ _ _ _ _ Hz), map_length; reflexivity).
    rewrite !with_cfg_attrs_attrs by exact Hlen. apply cfgs_mirrored_ok.
  - destruct (expand_mod_inv _ _ _ _ _ _ _ _ H) as (_ & bitems & fl & a & fns0 & tg & mode & ib & Hs & Ha & Hz & _ & Hib & ->).
    destruct (gen_impl_block_fns _ _ _ _ _ _ _ _ _ Hib) as (argss & Fa & Hfns & _ & Hattrs & _).
    pose proof (with_cfg_attrs_fn_ok _ _ _ _ (body_fns bitems) (analyze_all_fn_ok _ _ _ _ _ _ Hz)) as Hok.
    destruct (no_param_attrs_all _ _ (h_attrs h) _ _ Hok) as [N1 N2].
    unfold view_C18, good. cbn [x_input source_fns]. rewrite Hs, parts_mod. cbn [decided v_app v_det v_holds].
    intros _. split; [reflexivity|].
    rewrite trait_attrs_owned_or_sub, Hattrs, forallb_filter_id, forallb_snd, forallb_sig3.
    rewrite trait_sigs_gen_trait_def, Hfns, impl_fns_sigs; [|apply (Forall2_length' _ _ _ Fa)|intros tf args; reflexivity].
    rewrite !map_map. cbn [snd fst]. rewrite N1, N2. cbn [andb].
    rewrite <- (map_map (fun '(tf, args) => (tf_attrs tf, tf_sig tf, deleg_body INone MModule tf args)) (fun '(a, _, _) => a)).
    rewrite impl_fns_attrs; [|apply (Forall2_length' _ _ _ Fa)].
    assert (Hlen : List.length fns0 = List.length (body_fns bitems))
      by (rewrite (analyze_all_length _ _ _ _ _ _ Hz), map_length; reflexivity).
    rewrite !with_cfg_attrs_attrs by exact Hlen. apply cfgs_mirrored_ok.
Qed.

(** ** explicit statements *)
Lemma analyze_attr_facts k o tg s tf tg' subs :
  analyze k o tg s = Ok (tf, tg') ->
  tf_attrs tf = [] /\ sig_no_param_attrs (tf_sig tf) = true /\
  sig_no_param_attrs (make_trait_fn_sig (tf_sig tf) subs o) = true.
Proof.
  intros H. destruct (analyze_no_param_attrs _ _ _ _ _ _ H) as [H1 H2].
  rewrite make_trait_fn_sig_no_param_attrs. auto.
Qed.

(** fn: the function keeps all its attributes; trait = macro-owned attributes ++ the user's
    [async_trait]/[automock] ones; impl = the user's [async_trait] ones; methods carry no attributes *)
Lemma c18_fn_explicit v attr h s body items :
  expand_items v attr (InFn h s body) = Ok items ->
  exists a tr im tf mode,
    parse_fn_attr attr = Ok a /\
    items = [IFn (h_attrs h) (h_vis h) (merged_sig h s) body; ITrait tr; IImpl im] /\
    t_attrs tr = macro_attrs (apply_variant v (fa_opts a)) TPlain mode MSingleFn [tf] ++ filter is_trait_sub (h_attrs h) /\
    i_attrs im = filter is_async_trait (h_attrs h) /\
    trait_sigs tr = [([], make_trait_fn_sig (tf_sig tf) (h_attrs h) (apply_variant v (fa_opts a)))] /\
    map (fun '(x, sg, _) => (x, sg)) (impl_fns im) = [([], tf_sig tf)] /\
    sig_no_param_attrs (tf_sig tf) = true.
Proof.
  intros H. destruct (expand_fn_inv _ _ _ _ _ _ H) as (a & tf & tg & mode & ib & Ha & Hz & _ & Hib & ->).
  destruct (gen_impl_block_fns _ _ _ _ _ _ _ _ _ Hib) as (argss & Fa & Hfns & _ & Hattrs & _).
  destruct (analyze_no_param_attrs _ _ _ _ _ _ Hz) as [Hnp Hna].
  exists a. do 2 eexists. exists tf, mode. split; [exact Ha|]. split; [reflexivity|].
  split; [apply gen_trait_def_attrs|]. split; [exact Hattrs|].
  split; [rewrite trait_sigs_gen_trait_def; cbn [map]; rewrite Hna; reflexivity|].
  split; [|exact Hnp].
  rewrite Hfns. inversion Fa as [|? args ? ? Hc Fa']; subst. inversion Fa'; subst. cbn [map combine]. rewrite Hna. reflexivity.
Qed.

(** module / impl block: each method of the generated trait and impl carries exactly the [cfg] attributes of
    its source fn (nothing else), for any number of fns *)
Lemma c18_methods_cfg o ti mode subs lit v name tg colon supers im fns0 src tref ind tg' mode' subs' ib :
  List.length fns0 = List.length src ->
  gen_impl_block o tref ind tg' im mode' subs' (with_cfg_attrs fns0 src) = Ok ib ->
  map fst (trait_sigs (gen_trait_def o ti mode subs lit v name tg colon supers (with_cfg_attrs fns0 src) im))
    = map (filter is_cfg_attr) (map (fun '(a, _, _, _) => a) src) /\
  map (fun '(a, _, _) => a) (impl_fns ib) = map (filter is_cfg_attr) (map (fun '(a, _, _, _) => a) src).
Proof.
  intros Hl Hib. destruct (gen_impl_block_fns _ _ _ _ _ _ _ _ _ Hib) as (argss & Fa & Hfns & _).
  split.
  - rewrite trait_sigs_gen_trait_def, map_map. cbn [fst]. apply with_cfg_attrs_attrs. exact Hl.
  - rewrite Hfns, impl_fns_attrs; [|apply (Forall2_length' _ _ _ Fa)]. apply with_cfg_attrs_attrs. exact Hl.
Qed.

(** trait: the attributes of every method are mirrored on the re-emitted trait and on the delegating impl *)
Lemma c18_trait_explicit v attr h t items :
  expand_items v attr (InTrait h t) = Ok items ->
  exists tr ds im,
    items = [ITrait tr] ++ map ITrait ds ++ [IImpl im] /\
    map fst (trait_sigs tr) = map fst (trait_sigs t) /\
    map (fun '(a, _, _) => a) (impl_fns im) = map fst (trait_sigs t).
Proof.
  intros H. destruct (c12_trait_explicit _ _ _ _ _ H) as (a0 & tr & ds & im & _ & -> & Ht & Hi & _).
  exists tr, ds, im. split; [reflexivity|]. split.
  - rewrite Ht, map_map. apply map_ext. intros [x s]. reflexivity.
  - rewrite map_attr3, Hi. reflexivity.
Qed.
