(** * Cfg: what the gating attributes mean in a build

    C10 and C18 speak about builds: "non-test builds of the crate contain no mock implementation; exporting
    invocations contain it unconditionally", "cfg-disabled functions do not leave a dangling trait method
    behind".  The theorems of PC10 / PC18 are about tokens ([cfg_attr(test, ..)] wraps the derivation iff ..;
    the [cfg] attributes are mirrored).  Here the two gating forms get their meaning — for every build — and
    the token-level facts are turned into the statements about builds. *)
From Coq Require Import List String Ascii Bool Arith Lia.
From Entrait Require Import Tok Syn Opts Split FnParams Convert Codegen Expand Proj.
From Entrait.Proofs Require Import Base PC10.
Import ListNotations.
Local Open Scope list_scope.

(** ** [cfg_attr(test, X)] *)
Section TestBuild.
  Variable test : bool.            (* is this build compiled with cfg(test)? *)

  (** the attribute in effect: [cfg_attr(test, X)] is [X] in a test build and nothing otherwise; any other
      attribute is itself ([ungate a = (false, a)] by definition) *)
  Definition in_effect (a : attr) : list attr :=
    if fst (ungate a) && negb test then [] else [snd (ungate a)].

  Definition unimock_derivation (x : attr) : bool := is_prefix unimock_path x.
  Definition mockall_derivation (x : attr) : bool := toks_eqb x (abs_path ["mockall"; "automock"]%string).

  Lemma in_effect_unimock a :
    existsb unimock_derivation (in_effect a) = is_unimock_attr a && negb (fst (ungate a) && negb test).
  Proof.
    unfold in_effect, is_unimock_attr, unimock_derivation.
    destruct (fst (ungate a) && negb test); cbn; [rewrite andb_false_r | rewrite orb_false_r, andb_true_r]; reflexivity.
  Qed.

  Lemma in_effect_mockall a :
    existsb mockall_derivation (in_effect a) = is_mockall_attr a && negb (fst (ungate a) && negb test).
  Proof.
    unfold in_effect, is_mockall_attr, mockall_derivation.
    destruct (fst (ungate a) && negb test); cbn; [rewrite andb_false_r | rewrite orb_false_r, andb_true_r]; reflexivity.
  Qed.

  Lemma existsb_flat_map {A B} (f : A -> list B) (p : B -> bool) l :
    existsb p (flat_map f l) = existsb (fun a => existsb p (f a)) l.
  Proof. induction l as [|a l IH]; cbn; [reflexivity|]. rewrite existsb_app, IH. reflexivity. Qed.

  (** if every mock attribute among [added] is gated exactly when [gated], a derivation is in effect iff one was
      attached at all and (it is not gated, or this is a test build) *)
  Lemma derivations_in_effect (isa : attr -> bool) (der : attr -> bool) added gated :
    (forall a, existsb der (in_effect a) = isa a && negb (fst (ungate a) && negb test)) ->
    (forall a, In a added -> isa a = true -> fst (ungate a) = gated) ->
    existsb der (flat_map in_effect added) = existsb isa added && (negb gated || test).
  Proof.
    intros Hd Hg. rewrite existsb_flat_map.
    induction added as [|a l IH]; cbn [existsb]; [reflexivity|].
    rewrite IH by (intros x Hx; apply Hg; right; exact Hx).
    rewrite Hd. destruct (isa a) eqn:Ea; cbn [andb orb].
    - rewrite (Hg a (or_introl eq_refl) Ea). destruct gated, test; cbn; try reflexivity.
      destruct (existsb isa l); reflexivity.
    - reflexivity.
  Qed.

  (** [mock_spec]'s content, read in this build *)
  Theorem mock_spec_in_build o needs_api added :
    mock_spec o needs_api added ->
    existsb unimock_derivation (flat_map in_effect added)
      = (unimock_value o && (negb needs_api || is_some (o_mock_api o))) && (export_value o || test) /\
    existsb mockall_derivation (flat_map in_effect added)
      = mockall_value o && (export_value o || test).
  Proof.
    intros H. apply mock_spec_unfold in H. destruct H as (Hu & Hm & _ & _ & Hg).
    split.
    - rewrite (derivations_in_effect is_unimock_attr unimock_derivation added (negb (export_value o)) in_effect_unimock).
      + rewrite Hu, negb_involutive. reflexivity.
      + intros a Ha E. apply Hg; [exact Ha|]. unfold is_mock_attr. rewrite E. reflexivity.
    - rewrite (derivations_in_effect is_mockall_attr mockall_derivation added (negb (export_value o)) in_effect_mockall).
      + rewrite Hm, negb_involutive. reflexivity.
      + intros a Ha E. apply Hg; [exact Ha|]. unfold is_mock_attr. rewrite E. apply orb_true_r.
  Qed.
End TestBuild.

(** ** [cfg(p)] *)
Section CfgBuild.
  Variable holds : toks -> bool.   (* the truth value of a cfg predicate in the build at hand: any assignment *)

  (** an item is compiled iff every [cfg(p)] attribute on it holds; [tl a] = the parenthesised predicate *)
  Definition enabled (attrs : list attr) : bool :=
    forallb (fun a => if is_cfg_attr a then holds (tl a) else true) attrs.

  Lemma enabled_filter_cfg attrs : enabled (filter is_cfg_attr attrs) = enabled attrs.
  Proof.
    unfold enabled. induction attrs as [|a l IH]; [reflexivity|]. cbn [filter forallb].
    destruct (is_cfg_attr a) eqn:E; cbn [forallb]; rewrite ?E, IH; reflexivity.
  Qed.

  Lemma map_enabled_filter (l : list (list attr)) : map enabled (map (filter is_cfg_attr) l) = map enabled l.
  Proof. rewrite map_map. apply map_ext. intros a. apply enabled_filter_cfg. Qed.
End CfgBuild.
