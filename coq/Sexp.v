(** * Sexp: the exchange format between synx (Rust) and the model *)
From Coq Require Import List String Ascii Bool Arith.
From Entrait Require Import Tok.
Import ListNotations.
Local Open Scope list_scope.

Inductive sexp :=
| SAtom (s : string)          (* bare word *)
| SStr (s : string)           (* quoted string *)
| SList (l : list sexp).

(** ** Reader (used by the extracted driver and by [Example]s inside Coq). *)

Definition is_space (c : ascii) : bool :=
  let n := nat_of_ascii c in (n =? 32) || (n =? 10) || (n =? 9) || (n =? 13).

Definition lparen : ascii := "("%char.
Definition rparen : ascii := ")"%char.
Definition dquote : ascii := """"%char.
Definition bslash : ascii := "\"%char.

Fixpoint rev_string (acc : string) (l : list ascii) : string :=
  match l with
  | [] => acc
  | c :: cs => rev_string (String c acc) cs
  end.

(** Tokeniser state machine over the characters; a stack of partially built lists.
    Structural recursion on the input string. *)
Inductive lexmode := MNone | MAtom (acc : list ascii) | MStr (acc : list ascii) | MEsc (acc : list ascii).

Definition push_item (x : sexp) (stack : list (list sexp)) : list (list sexp) :=
  match stack with
  | [] => [[x]]
  | top :: rest => (x :: top) :: rest
  end.

Definition close_list (stack : list (list sexp)) : option (list (list sexp)) :=
  match stack with
  | top :: next :: rest => Some ((SList (rev top) :: next) :: rest)
  | _ => None
  end.

Fixpoint read_go (s : string) (m : lexmode) (stack : list (list sexp)) : option (list sexp) :=
  match s with
  | EmptyString =>
      match m, stack with
      | MNone, [top] => Some (rev top)
      | MAtom acc, [top] => Some (rev (SAtom (rev_string EmptyString acc) :: top))
      | _, _ => None
      end
  | String c rest =>
      match m with
      | MStr acc =>
          if Ascii.eqb c dquote then read_go rest MNone (push_item (SStr (rev_string EmptyString acc)) stack)
          else if Ascii.eqb c bslash then read_go rest (MEsc acc) stack
          else read_go rest (MStr (c :: acc)) stack
      | MEsc acc =>
          let c' := if Ascii.eqb c "n"%char then ascii_of_nat 10 else c in
          read_go rest (MStr (c' :: acc)) stack
      | MAtom acc =>
          if is_space c then read_go rest MNone (push_item (SAtom (rev_string EmptyString acc)) stack)
          else if Ascii.eqb c rparen then
                 match close_list (push_item (SAtom (rev_string EmptyString acc)) stack) with
                 | Some st => read_go rest MNone st
                 | None => None
                 end
          else if Ascii.eqb c lparen then
                 read_go rest MNone ([] :: push_item (SAtom (rev_string EmptyString acc)) stack)
          else read_go rest (MAtom (c :: acc)) stack
      | MNone =>
          if is_space c then read_go rest MNone stack
          else if Ascii.eqb c lparen then read_go rest MNone ([] :: stack)
          else if Ascii.eqb c rparen then
                 match close_list stack with
                 | Some st => read_go rest MNone st
                 | None => None
                 end
          else if Ascii.eqb c dquote then read_go rest (MStr []) stack
          else read_go rest (MAtom [c]) stack
      end
  end.

Definition read_sexps (s : string) : option (list sexp) := read_go s MNone [[]].

Definition read_sexp (s : string) : option sexp :=
  match read_sexps s with
  | Some [x] => Some x
  | _ => None
  end.

(** ** Decoding combinators *)

Definition dec (A : Type) := sexp -> option A.

Definition bind {A B} (x : option A) (f : A -> option B) : option B :=
  match x with Some a => f a | None => None end.
Notation "'do' x <- e ; k" := (bind e (fun x => k)) (at level 200, x pattern, e at level 100, k at level 200).

Fixpoint map_opt {A B} (f : A -> option B) (l : list A) : option (list B) :=
  match l with
  | [] => Some []
  | x :: xs => do y <- f x; do ys <- map_opt f xs; Some (y :: ys)
  end.

Definition d_bool : dec bool := fun s =>
  match s with
  | SAtom "t" => Some true
  | SAtom "f" => Some false
  | _ => None
  end.

Definition d_str : dec string := fun s =>
  match s with SStr x => Some x | _ => None end.

Definition digit_val (c : ascii) : option nat :=
  let n := nat_of_ascii c in
  if (48 <=? n) && (n <=? 57) then Some (n - 48) else None.

Fixpoint nat_of_digits (acc : nat) (s : string) : option nat :=
  match s with
  | EmptyString => Some acc
  | String c r => do d <- digit_val c; nat_of_digits (acc * 10 + d) r
  end.

Definition d_nat : dec nat := fun s =>
  match s with
  | SAtom EmptyString => None
  | SAtom x => nat_of_digits 0 x
  | _ => None
  end.

Definition d_opt {A} (d : dec A) : dec (option A) := fun s =>
  match s with
  | SAtom "none" => Some None
  | SList [SAtom "some"; x] => do v <- d x; Some (Some v)
  | _ => None
  end.

(** [(tag x1 .. xn)] -> the argument list *)
Definition d_tagged (tag : string) (s : sexp) : option (list sexp) :=
  match s with
  | SList (SAtom t :: args) => if String.eqb t tag then Some args else None
  | _ => None
  end.

Definition d_list {A} (tag : string) (d : dec A) : dec (list A) := fun s =>
  do args <- d_tagged tag s; map_opt d args.

(** ** Tokens *)

Definition d_delim (t : string) : option delim :=
  if String.eqb t "P" then Some Paren
  else if String.eqb t "B" then Some Brace
  else if String.eqb t "K" then Some Bracket
  else if String.eqb t "N" then Some NoDelim
  else None.

Fixpoint d_tok (s : sexp) : option tt :=
  match s with
  | SAtom (String "i" (String ":" name)) => Some (TId name)
  | SAtom (String "p" (String ":" (String c EmptyString))) => Some (TP c)
  | SList [SAtom "l"; SStr text] => Some (TLit text)
  | SList (SAtom t :: rest) =>
      do d <- d_delim t;
      do ts <- (fix go (l : list sexp) : option (list tt) :=
                  match l with
                  | [] => Some []
                  | x :: xs => do y <- d_tok x; do ys <- go xs; Some (y :: ys)
                  end) rest;
      Some (TG d ts)
  | _ => None
  end.

Definition d_toks : dec toks := d_list "T" d_tok.
